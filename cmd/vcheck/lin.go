package main

import (
	"encoding/json"
	"fmt"
	"os"
	"path/filepath"
	"sync"
	"time"

	"github.com/anishathalye/porcupine"
)

// Offline checkers over the histories recorded at the client boundary.

type histLine struct {
	Kind  string    `json:"kind"`
	Idx   int       `json:"idx"`
	Locks int       `json:"locks"`
	Ops   [][]int64 `json:"ops"`
}

// ---- C08: spinlock -------------------------------------------------------
// op = [client, lock, kind, call, return]; kind 0 Acquire, 1 Try->true, 2 Try->false, 3 Release

type lockIn struct{ lock, kind int }

var lockModel = porcupine.Model{
	Partition: func(history []porcupine.Operation) [][]porcupine.Operation {
		m := map[int][]porcupine.Operation{}
		var keys []int
		for _, o := range history {
			k := o.Input.(lockIn).lock
			if _, ok := m[k]; !ok {
				keys = append(keys, k)
			}
			m[k] = append(m[k], o)
		}
		out := make([][]porcupine.Operation, 0, len(keys))
		for _, k := range keys {
			out = append(out, m[k])
		}
		return out
	},
	Init: func() interface{} { return false }, // held?
	Step: func(state, input, output interface{}) (bool, interface{}) {
		held := state.(bool)
		switch input.(lockIn).kind {
		case 0: // Acquire returns only while no one holds the lock
			return !held, true
		case 1: // Try -> true exactly when it took the lock
			return !held, true
		case 2: // Try -> false only when someone holds it; no side effect
			return held, held
		case 3: // Release
			return held, false
		}
		return false, state
	},
	Equal: func(a, b interface{}) bool { return a.(bool) == b.(bool) },
	DescribeOperation: func(input, output interface{}) string {
		in := input.(lockIn)
		return fmt.Sprintf("lock%d.%s", in.lock, []string{"Acquire", "Try->true", "Try->false", "Release"}[in.kind])
	},
}

func postLockHistories(ctx *context, ag *aggregate) {
	checkHistories(ctx, ag, "lock", func(h *histLine) (porcupine.Model, []porcupine.Operation) {
		ops := make([]porcupine.Operation, 0, len(h.Ops))
		for _, o := range h.Ops {
			ops = append(ops, porcupine.Operation{ClientId: int(o[0]), Input: lockIn{int(o[1]), int(o[2])}, Call: o[3], Return: o[4]})
		}
		return lockModel, ops
	})
}

// checkHistories runs porcupine over every recorded history of the given kind
// in parallel. Illegal => violation (history written to the replay directory),
// Unknown (timeout) => inconclusive.
func checkHistories(ctx *context, ag *aggregate, kind string, build func(h *histLine) (porcupine.Model, []porcupine.Operation)) {
	type job struct {
		raw json.RawMessage
	}
	jobs := make(chan json.RawMessage, 64)
	var wg sync.WaitGroup
	var mu sync.Mutex
	okN, illegalN, unknownN, opsN := 0, 0, 0, 0
	for w := 0; w < 16; w++ {
		wg.Add(1)
		go func() {
			defer wg.Done()
			for raw := range jobs {
				var h histLine
				if json.Unmarshal(raw, &h) != nil || h.Kind != kind {
					continue
				}
				model, ops := build(&h)
				res, _ := porcupine.CheckOperationsVerbose(model, ops, 60*time.Second)
				mu.Lock()
				opsN += len(ops)
				switch res {
				case porcupine.Ok:
					okN++
				case porcupine.Illegal:
					illegalN++
					os.MkdirAll(filepath.Join(ctx.verif, "evidence", "replay"), 0755)
					hp := filepath.Join(ctx.verif, "evidence", "replay", fmt.Sprintf("%s-history-%d.json", ctx.p.id, h.Idx))
					os.WriteFile(hp, raw, 0644)
					ag.violations = append(ag.violations, violation{Sig: "not-linearizable:" + kind, Idx: h.Idx, Run: "main",
						Detail: map[string]interface{}{"what": "recorded client-boundary history is not linearizable w.r.t. the sequential model", "history_file": hp, "ops": len(ops)}})
				default:
					unknownN++
					ag.inconclusive++
					if len(ag.inconWhat) < 20 {
						ag.inconWhat = append(ag.inconWhat, fmt.Sprintf("linearizability check of history %d timed out (%d ops)", h.Idx, len(ops)))
					}
				}
				mu.Unlock()
			}
		}()
	}
	for _, raw := range ag.hist {
		jobs <- raw
	}
	close(jobs)
	wg.Wait()
	ag.counters["histories_linearizable"] += int64(okN)
	ag.counters["histories_illegal"] += int64(illegalN)
	ag.counters["histories_checker_timeout"] += int64(unknownN)
	ag.counters["history_ops_checked_offline"] += int64(opsN)
	ag.hist = nil
}

// ---- C09: frame allocator --------------------------------------------------
// op = [client, kind, frame, call, return, out]; kind 0 alloc, 1 free(own), 2 free(unmanaged);
// out 0 ok, 1 OOM, 2 not managed, 3 double free

type frameIn struct {
	frame int64
	alloc bool
}

var frameModel = porcupine.Model{
	Partition: func(history []porcupine.Operation) [][]porcupine.Operation {
		m := map[int64][]porcupine.Operation{}
		var keys []int64
		for _, o := range history {
			k := o.Input.(frameIn).frame
			if _, ok := m[k]; !ok {
				keys = append(keys, k)
			}
			m[k] = append(m[k], o)
		}
		out := make([][]porcupine.Operation, 0, len(keys))
		for _, k := range keys {
			out = append(out, m[k])
		}
		return out
	},
	Init: func() interface{} { return false }, // held?
	Step: func(state, input, output interface{}) (bool, interface{}) {
		held := state.(bool)
		if input.(frameIn).alloc {
			return !held, true // a frame is handed out only while nobody holds it
		}
		return held, false // FreeFrame(f) -> nil only for a held frame
	},
	Equal: func(a, b interface{}) bool { return a.(bool) == b.(bool) },
	DescribeOperation: func(input, output interface{}) string {
		in := input.(frameIn)
		if in.alloc {
			return fmt.Sprintf("Alloc->%#x", in.frame)
		}
		return fmt.Sprintf("Free(%#x)->nil", in.frame)
	},
}

type frameHist struct {
	Kind    string    `json:"kind"`
	Idx     int       `json:"idx"`
	Ops     [][]int64 `json:"ops"`
	Managed []int64   `json:"managed"`
}

func postFrameHistories(ctx *context, ag *aggregate) {
	// OOM rule first (needs the raw lines), then per-frame linearizability.
	oomChecked, oomViol := 0, 0
	for _, raw := range ag.hist {
		var h frameHist
		if json.Unmarshal(raw, &h) != nil || h.Kind != "frames" {
			continue
		}
		// possibly-held intervals per frame: [alloc.call, matching free.return]
		type iv struct{ from, to int64 }
		heldIv := map[int64][]iv{}
		open := map[[2]int64]int64{} // (client, frame) -> alloc.call
		for _, o := range h.Ops {    // ops are grouped per client in program order
			cl, kind, fr, call, ret, out := o[0], o[1], o[2], o[3], o[4], o[5]
			if kind == 0 && out == 0 {
				open[[2]int64{cl, fr}] = call
			} else if kind == 1 {
				if c0, ok := open[[2]int64{cl, fr}]; ok {
					heldIv[fr] = append(heldIv[fr], iv{c0, ret})
					delete(open, [2]int64{cl, fr})
				}
			}
		}
		for k, c0 := range open {
			heldIv[k[1]] = append(heldIv[k[1]], iv{c0, 1 << 62})
		}
		for _, o := range h.Ops {
			if o[1] != 0 || o[5] != 1 {
				continue
			}
			oomChecked++
			call, ret := o[3], o[4]
			for _, f := range h.Managed {
				free := true
				for _, v := range heldIv[f] {
					if v.from <= ret && v.to >= call {
						free = false
						break
					}
				}
				if free {
					oomViol++
					hp := filepath.Join(ctx.verif, "evidence", "replay", fmt.Sprintf("%s-history-%d.json", ctx.p.id, h.Idx))
					os.MkdirAll(filepath.Dir(hp), 0755)
					os.WriteFile(hp, raw, 0644)
					ag.violations = append(ag.violations, violation{Sig: "oom-while-frame-free", Idx: h.Idx, Run: "main",
						Detail: map[string]interface{}{"what": fmt.Sprintf("AllocFrame by caller %d (stamps %d..%d) reported out-of-memory although frame %#x was free for the whole duration of the call (a freed frame was lost)", o[0], call, ret, f), "history_file": hp}})
					break
				}
			}
		}
	}
	ag.counters["oom_replies_checked_against_oom_rule"] += int64(oomChecked)
	ag.counters["oom_rule_violations"] += int64(oomViol)
	checkHistories(ctx, ag, "frames", func(h *histLine) (porcupine.Model, []porcupine.Operation) {
		ops := make([]porcupine.Operation, 0, len(h.Ops))
		for _, o := range h.Ops {
			if (o[1] == 0 || o[1] == 1) && o[5] == 0 {
				ops = append(ops, porcupine.Operation{ClientId: int(o[0]), Input: frameIn{o[2], o[1] == 0}, Call: o[3], Return: o[4]})
			}
		}
		return frameModel, ops
	})
}
