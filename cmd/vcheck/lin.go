package main

import (
	"encoding/json"
	"fmt"
	"os"
	"path/filepath"
	"sync"
	"time"

	"github.com/anishathalye/porcupine"
)

// Offline checkers over the histories recorded at the client boundary.

type histLine struct {
	Kind  string    `json:"kind"`
	Idx   int       `json:"idx"`
	Locks int       `json:"locks"`
	Ops   [][]int64 `json:"ops"`
}

// ---- C08: spinlock -------------------------------------------------------
// op = [client, lock, kind, call, return]; kind 0 Acquire, 1 Try->true, 2 Try->false, 3 Release

type lockIn struct{ lock, kind int }

var lockModel = porcupine.Model{
	Partition: func(history []porcupine.Operation) [][]porcupine.Operation {
		m := map[int][]porcupine.Operation{}
		var keys []int
		for _, o := range history {
			k := o.Input.(lockIn).lock
			if _, ok := m[k]; !ok {
				keys = append(keys, k)
			}
			m[k] = append(m[k], o)
		}
		out := make([][]porcupine.Operation, 0, len(keys))
		for _, k := range keys {
			out = append(out, m[k])
		}
		return out
	},
	Init: func() interface{} { return false }, // held?
	Step: func(state, input, output interface{}) (bool, interface{}) {
		held := state.(bool)
		switch input.(lockIn).kind {
		case 0: // Acquire returns only while no one holds the lock
			return !held, true
		case 1: // Try -> true exactly when it took the lock
			return !held, true
		case 2: // Try -> false only when someone holds it; no side effect
			return held, held
		case 3: // Release
			return held, false
		}
		return false, state
	},
	Equal: func(a, b interface{}) bool { return a.(bool) == b.(bool) },
	DescribeOperation: func(input, output interface{}) string {
		in := input.(lockIn)
		return fmt.Sprintf("lock%d.%s", in.lock, []string{"Acquire", "Try->true", "Try->false", "Release"}[in.kind])
	},
}

func postLockHistories(ctx *context, ag *aggregate) {
	checkHistories(ctx, ag, "lock", func(h *histLine) (porcupine.Model, []porcupine.Operation) {
		ops := make([]porcupine.Operation, 0, len(h.Ops))
		for _, o := range h.Ops {
			ops = append(ops, porcupine.Operation{ClientId: int(o[0]), Input: lockIn{int(o[1]), int(o[2])}, Call: o[3], Return: o[4]})
		}
		return lockModel, ops
	})
}

// checkHistories runs porcupine over every recorded history of the given kind
// in parallel. Illegal => violation (history written to the replay directory),
// Unknown (timeout) => inconclusive.
func checkHistories(ctx *context, ag *aggregate, kind string, build func(h *histLine) (porcupine.Model, []porcupine.Operation)) {
	type job struct {
		raw json.RawMessage
	}
	jobs := make(chan json.RawMessage, 64)
	var wg sync.WaitGroup
	var mu sync.Mutex
	okN, illegalN, unknownN, opsN := 0, 0, 0, 0
	for w := 0; w < 16; w++ {
		wg.Add(1)
		go func() {
			defer wg.Done()
			for raw := range jobs {
				var h histLine
				if json.Unmarshal(raw, &h) != nil || h.Kind != kind {
					continue
				}
				model, ops := build(&h)
				res, _ := porcupine.CheckOperationsVerbose(model, ops, 60*time.Second)
				mu.Lock()
				opsN += len(ops)
				switch res {
				case porcupine.Ok:
					okN++
				case porcupine.Illegal:
					illegalN++
					os.MkdirAll(filepath.Join(ctx.verif, "evidence", "replay"), 0755)
					hp := filepath.Join(ctx.verif, "evidence", "replay", fmt.Sprintf("%s-history-%d.json", ctx.p.id, h.Idx))
					os.WriteFile(hp, raw, 0644)
					ag.violations = append(ag.violations, violation{Sig: "not-linearizable:" + kind, Idx: h.Idx, Run: "main",
						Detail: map[string]interface{}{"what": "recorded client-boundary history is not linearizable w.r.t. the sequential model", "history_file": hp, "ops": len(ops)}})
				default:
					unknownN++
					ag.inconclusive++
					if len(ag.inconWhat) < 20 {
						ag.inconWhat = append(ag.inconWhat, fmt.Sprintf("linearizability check of history %d timed out (%d ops)", h.Idx, len(ops)))
					}
				}
				mu.Unlock()
			}
		}()
	}
	for _, raw := range ag.hist {
		jobs <- raw
	}
	close(jobs)
	wg.Wait()
	ag.counters["histories_linearizable"] += int64(okN)
	ag.counters["histories_illegal"] += int64(illegalN)
	ag.counters["histories_checker_timeout"] += int64(unknownN)
	ag.counters["history_ops_checked_offline"] += int64(opsN)
	ag.hist = nil
}
