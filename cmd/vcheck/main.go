// vcheck is the runner of the /verif runtime-monitoring framework.
//
//	vcheck -p C07 [-tier quick|thorough] [--replay evidence/replay/C07-0.json]
//
// It builds the test binary of the package a property is anchored in from
// /repo's *current working tree* plus the harness files of /verif/harness
// (injected with `go test -overlay`, build tag verif), runs the harness as a
// child process (re-starting it after process-fatal crashes, which are
// attributed to the last case the child flushed), runs the offline checkers
// (porcupine) over recorded histories, matches violations against
// known_findings.json, writes evidence/<id>.json and prints the VIOLATION /
// KNOWN-FINDING lines.
//
// Exit codes: 0 held on everything observed; 1 violation; 2 error / nothing
// conclusive observed (never accompanied by a VIOLATION line).
package main

import (
	"bufio"
	"bytes"
	"encoding/json"
	"flag"
	"fmt"
	"os"
	"os/exec"
	"path/filepath"
	"sort"
	"strconv"
	"strings"
	"sync"
	"time"
)

type runSpec struct {
	name    string
	pkg     string // package dir relative to the module (default: the property's)
	test    string // -test.run regexp
	race    bool
	instr   bool // map the race-annotated spinlock.go into the overlay
	calib   bool // a calibration run: race reports => race facet inconclusive
	tiers   string
	shards  int    // thorough shards (quick: min(shards,4))
	gcflags string // extra argument for `go test -c` (e.g. -gcflags=<pkg>=-d=zerocopy=0)
	env     []string
}

type prop struct {
	id      string
	module  string // "kernel" | "kbuild"
	pkg     string // package dir relative to module
	level   string
	runs    []runSpec
	post    func(ctx *context, ag *aggregate)
	perCase time.Duration // budget for re-running one crashing case alone
}

func (rs runSpec) pkgOr(p *prop) string {
	if rs.pkg != "" {
		return rs.pkg
	}
	return p.pkg
}

var props = map[string]*prop{}

func register(p *prop) { props[p.id] = p }

type context struct {
	p       *prop
	tier    string
	seed    uint64
	repo    string
	verif   string
	work    string
	replay  *replayFile
	started time.Time
}

type replayFile struct {
	Property string      `json:"property"`
	Seed     uint64      `json:"seed"`
	Tier     string      `json:"tier"`
	Run      string      `json:"run"`
	Idx      int         `json:"idx"`
	Sig      string      `json:"sig"`
	Desc     interface{} `json:"desc,omitempty"`
	Detail   interface{} `json:"detail,omitempty"`
	Note     string      `json:"note,omitempty"`
}

type violation struct {
	Sig    string
	Idx    int
	Run    string
	Desc   interface{}
	Detail interface{}
}

type aggregate struct {
	mu           sync.Mutex
	evaluations  int64
	inconclusive int64
	inconWhat    []string
	counters     map[string]int64
	maxes        map[string]int64
	sets         map[string]map[string]struct{}
	fps          map[string]struct{}
	samples      []interface{}
	rule         string
	notes        []string
	assumptions  []string
	violations   []violation
	summaries    int
	hist         []json.RawMessage // ev=hist lines for the offline checkers
	extra        map[string]interface{}
}

func newAggregate() *aggregate {
	return &aggregate{counters: map[string]int64{}, maxes: map[string]int64{}, sets: map[string]map[string]struct{}{},
		fps: map[string]struct{}{}, extra: map[string]interface{}{}}
}

func fatalf(format string, a ...interface{}) {
	fmt.Fprintf(os.Stderr, "ERROR: "+format+"\n", a...)
	os.Exit(2)
}

func goEnv(extra ...string) []string {
	env := os.Environ()
	env = append(env, "GOFLAGS=-mod=mod", "GOPROXY=off", "GOSUMDB=off", "GOTOOLCHAIN=local", "CGO_ENABLED=1")
	return append(env, extra...)
}

// buildOverlay writes the overlay JSON mapping every file below
// /verif/harness/<module>/ into the corresponding place of the repository.
func buildOverlay(ctx *context, instr bool) string {
	root := filepath.Join(ctx.verif, "harness", ctx.p.module)
	replace := map[string]string{}
	filepath.Walk(root, func(path string, info os.FileInfo, err error) error {
		if err != nil || info.IsDir() {
			return nil
		}
		if !strings.HasSuffix(path, ".go") && !strings.HasSuffix(path, ".s") {
			return nil
		}
		if ex := os.Getenv("VERIF_EXCLUDE"); ex != "" && strings.Contains(filepath.Base(path), ex) {
			return nil // development aid: leave another author's unfinished harness file out of the build
		}
		rel, _ := filepath.Rel(root, path)
		replace[filepath.Join(ctx.repo, ctx.p.module, rel)] = path
		return nil
	})
	if ctx.p.module != "kernel" {
		// the helper package has no module-specific imports: map it into the other module as well
		vl := filepath.Join(ctx.verif, "harness", "kernel", "zzverif", "vlib")
		if ents, err := os.ReadDir(vl); err == nil {
			for _, e := range ents {
				if strings.HasSuffix(e.Name(), ".go") {
					replace[filepath.Join(ctx.repo, ctx.p.module, "zzverif", "vlib", e.Name())] = filepath.Join(vl, e.Name())
				}
			}
		}
	}
	name := "overlay.json"
	if instr {
		name = "overlay-instr.json"
		src := filepath.Join(ctx.repo, "kernel", "sync", "spinlock.go")
		dst := filepath.Join(ctx.work, "spinlock_instr.go")
		if err := instrumentSpinlock(src, dst); err != nil {
			return "" // caller treats as inconclusive
		}
		replace[src] = dst
	}
	b, _ := json.MarshalIndent(map[string]interface{}{"Replace": replace}, "", " ")
	p := filepath.Join(ctx.work, name)
	if err := os.WriteFile(p, b, 0644); err != nil {
		fatalf("write overlay: %v", err)
	}
	return p
}

func buildTest(ctx *context, rs runSpec) (bin string, errOut string) {
	ov := buildOverlay(ctx, rs.instr)
	if ov == "" {
		return "", "instrumentation of sync/spinlock.go failed"
	}
	bin = filepath.Join(ctx.work, "t-"+rs.name+".test")
	args := []string{"test", "-c", "-vet=off", "-tags", "verif", "-overlay", ov, "-o", bin}
	if rs.race {
		args = append(args, "-race")
	}
	if rs.gcflags != "" {
		args = append(args, rs.gcflags)
	}
	if os.Getenv("VERIF_COVER") != "" && !rs.race {
		// development aid: statement coverage of the repository's packages under the harness
		lc := exec.Command("go", "list", "./...")
		lc.Dir = filepath.Join(ctx.repo, ctx.p.module)
		lc.Env = goEnv()
		lo, _ := lc.Output()
		args = append(args, "-cover", "-coverpkg="+strings.Join(strings.Fields(string(lo)), ","))
	}
	args = append(args, "./"+rs.pkgOr(ctx.p))
	cmd := exec.Command("go", args...)
	cmd.Dir = filepath.Join(ctx.repo, ctx.p.module)
	cmd.Env = goEnv()
	out, err := cmd.CombinedOutput()
	if err != nil {
		return "", string(out)
	}
	return bin, ""
}

// runChild runs the test binary once over [from,to) for one shard and returns
// whether it finished (summary seen) and the last case index it announced.
func runChild(ctx *context, rs runSpec, bin string, ag *aggregate, from, to, shard, nshards int, budget time.Duration, tag string) (finished bool, lastIdx int, tail string, timedOut bool) {
	out := filepath.Join(ctx.work, fmt.Sprintf("out-%s-%s.jsonl", rs.name, tag))
	os.Remove(out)
	stdout := filepath.Join(ctx.work, fmt.Sprintf("stdout-%s-%s.txt", rs.name, tag))
	env := goEnv(
		"VERIF_OUT="+out, "VERIF_SEED="+strconv.FormatUint(ctx.seed, 10), "VERIF_TIER="+ctx.tier,
		"VERIF_FROM="+strconv.Itoa(from), "VERIF_TO="+strconv.Itoa(to),
		"VERIF_SHARD="+strconv.Itoa(shard), "VERIF_NSHARDS="+strconv.Itoa(nshards),
		"VERIF_REPO="+ctx.repo, "VERIF_WORK="+ctx.work, "VERIF_DIR="+ctx.verif,
	)
	if ctx.replay != nil {
		env = append(env, "VERIF_REPLAY=1")
	}
	if rs.race {
		env = append(env, "GORACE=halt_on_error=0 log_path="+filepath.Join(ctx.work, "race-"+rs.name+"-"+tag))
	}
	env = append(env, rs.env...)
	secs := int(budget.Seconds())
	// timeout -s QUIT gives a goroutine dump on a hang; output goes to a file
	cmd := exec.Command("timeout", "-s", "QUIT", "-k", "10", strconv.Itoa(secs),
		bin, "-test.run", rs.test, "-test.timeout", "0", "-test.v")
	if d := os.Getenv("VERIF_COVER"); d != "" && !rs.race {
		cmd.Args = append(cmd.Args, "-test.coverprofile", filepath.Join(d, fmt.Sprintf("%s-%s-%s.cov", ctx.p.id, rs.name, tag)))
	}
	cmd.Dir = filepath.Join(ctx.repo, ctx.p.module, rs.pkgOr(ctx.p))
	cmd.Env = env
	f, _ := os.Create(stdout)
	cmd.Stdout = f
	cmd.Stderr = f
	err := cmd.Run()
	f.Close()
	if ee, ok := err.(*exec.ExitError); ok && (ee.ExitCode() == 124 || ee.ExitCode() == 137) {
		timedOut = true
	}
	finished, lastIdx = absorb(out, rs, ag)
	if b, e := os.ReadFile(stdout); e == nil {
		if len(b) > 6000 {
			b = append([]byte("...\n"), b[len(b)-6000:]...)
		}
		tail = string(b)
		if strings.Contains(tail, "fatal error: verif watchdog") {
			timedOut = true
		}
	}
	return
}

// absorb merges one child's JSONL output into the aggregate.
func absorb(path string, rs runSpec, ag *aggregate) (finished bool, lastIdx int) {
	lastIdx = -1
	f, err := os.Open(path)
	if err != nil {
		return false, -1
	}
	defer f.Close()
	rd := bufio.NewReaderSize(f, 1<<20)
	ag.mu.Lock()
	defer ag.mu.Unlock()
	for {
		line, err := rd.ReadBytes('\n')
		if len(line) > 1 {
			var m map[string]json.RawMessage
			if json.Unmarshal(line, &m) == nil {
				var ev string
				json.Unmarshal(m["ev"], &ev)
				switch ev {
				case "case":
					json.Unmarshal(m["idx"], &lastIdx)
				case "hist":
					ag.hist = append(ag.hist, append(json.RawMessage(nil), line...))
				case "inconclusive":
					var w string
					json.Unmarshal(m["what"], &w)
					ag.inconclusive++
					if len(ag.inconWhat) < 20 {
						ag.inconWhat = append(ag.inconWhat, rs.name+": "+w)
					}
				case "violation":
					var v violation
					json.Unmarshal(m["sig"], &v.Sig)
					json.Unmarshal(m["idx"], &v.Idx)
					json.Unmarshal(m["desc"], &v.Desc)
					json.Unmarshal(m["detail"], &v.Detail)
					v.Run = rs.name
					ag.violations = append(ag.violations, v)
				case "summary":
					finished = true
					ag.summaries++
					var s struct {
						Evaluations int64               `json:"evaluations"`
						Counters    map[string]int64    `json:"counters"`
						Maxes       map[string]int64    `json:"maxes"`
						Sets        map[string][]string `json:"sets"`
						Fps         []string            `json:"fps"`
						Samples     []interface{}       `json:"samples"`
						Rule        string              `json:"rule"`
						Notes       []string            `json:"notes"`
						Assumptions []string            `json:"assumptions"`
					}
					json.Unmarshal(line, &s)
					if !rs.calib {
						ag.evaluations += s.Evaluations
					}
					for k, v := range s.Counters {
						ag.counters[k] += v
					}
					for k, v := range s.Maxes {
						if v > ag.maxes[k] {
							ag.maxes[k] = v
						}
					}
					for k, l := range s.Sets {
						if ag.sets[k] == nil {
							ag.sets[k] = map[string]struct{}{}
						}
						for _, e := range l {
							ag.sets[k][e] = struct{}{}
						}
					}
					for _, fp := range s.Fps {
						ag.fps[fp] = struct{}{}
					}
					for _, smp := range s.Samples {
						if len(ag.samples) < 6 {
							ag.samples = append(ag.samples, smp)
						}
					}
					if s.Rule != "" {
						ag.rule = s.Rule
					}
					for _, n := range s.Notes {
						if !contains(ag.notes, n) {
							ag.notes = append(ag.notes, n)
						}
					}
					for _, n := range s.Assumptions {
						if !contains(ag.assumptions, n) {
							ag.assumptions = append(ag.assumptions, n)
						}
					}
				}
			}
		}
		if err != nil {
			break
		}
	}
	return
}

func contains(l []string, s string) bool {
	for _, e := range l {
		if e == s {
			return true
		}
	}
	return false
}

// driveShard runs one shard to completion, restarting after fatal crashes.
func driveShard(ctx *context, rs runSpec, bin string, ag *aggregate, shard, nshards int, budget time.Duration) {
	from, to := 0, -1
	if ctx.replay != nil {
		from, to = ctx.replay.Idx, ctx.replay.Idx+1
		shard, nshards = 0, 1
	}
	crashes := 0
	for attempt := 0; ; attempt++ {
		tag := fmt.Sprintf("s%d-a%d", shard, attempt)
		fin, last, tail, timedOut := runChild(ctx, rs, bin, ag, from, to, shard, nshards, budget, tag)
		if fin {
			return
		}
		if last < 0 {
			// died before announcing any case: harness problem, not attributable
			ag.mu.Lock()
			ag.inconclusive++
			ag.inconWhat = append(ag.inconWhat, fmt.Sprintf("%s shard %d: child ended without a case line (timeout=%v): %s", rs.name, shard, timedOut, lastLines(tail, 12)))
			ag.mu.Unlock()
			return
		}
		// confirm by re-running that case alone in a fresh process with a generous budget
		per := ctx.p.perCase
		if per == 0 {
			per = 180 * time.Second
		}
		fin2, _, tail2, to2 := runChild(ctx, rs, bin, ag, last, last+1, 0, 1, per, tag+"-confirm")
		if !fin2 {
			kind := "fatal"
			if to2 {
				kind = "timeout"
			}
			ag.mu.Lock()
			ag.violations = append(ag.violations, violation{Sig: kind + ":" + fatalClass(tail2), Idx: last, Run: rs.name,
				Detail: map[string]interface{}{"kind": kind, "output_tail": lastLines(tail2, 60)}})
			ag.mu.Unlock()
		} else if timedOut {
			ag.mu.Lock()
			ag.inconclusive++
			ag.inconWhat = append(ag.inconWhat, fmt.Sprintf("%s shard %d: watchdog fired at case %d, case alone completes", rs.name, shard, last))
			ag.mu.Unlock()
		} else {
			ag.mu.Lock()
			ag.inconclusive++
			ag.inconWhat = append(ag.inconWhat, fmt.Sprintf("%s shard %d: child died at case %d but the case alone completes: %s", rs.name, shard, last, lastLines(tail, 12)))
			ag.mu.Unlock()
		}
		crashes++
		if timedOut {
			crashes++ // hangs cost a watchdog period each: half as many are followed up
		}
		limit := 4 // quick: a tree that crashes or hangs this often is broken, do not spend the budget on it
		if ctx.tier == "thorough" {
			limit = 40
		}
		if ctx.replay != nil || crashes >= limit {
			if ctx.replay == nil {
				ag.mu.Lock()
				ag.inconWhat = append(ag.inconWhat, fmt.Sprintf("%s shard %d: stopped after %d fatal cases; the remaining cases of this shard were not run", rs.name, shard, crashes))
				ag.inconclusive++
				ag.mu.Unlock()
			}
			return
		}
		from = last + 1
	}
}

func lastLines(s string, n int) string {
	l := strings.Split(strings.TrimRight(s, "\n"), "\n")
	if len(l) > n {
		l = l[len(l)-n:]
	}
	return strings.Join(l, "\n")
}

// fatalClass reduces the output of a dead child to a stable class.
func fatalClass(out string) string {
	for _, l := range strings.Split(out, "\n") {
		for _, k := range []string{"fatal error: ", "panic: ", "runtime: goroutine stack exceeds", "SIGQUIT"} {
			if i := strings.Index(l, k); i >= 0 {
				s := l[i:]
				if len(s) > 80 {
					s = s[:80]
				}
				return stripDigits(s)
			}
		}
	}
	// no runtime message: the code under test ended the process itself (os.Exit after logging);
	// its last own line of output is the best description there is
	lines := strings.Split(strings.TrimRight(out, "\n"), "\n")
	for i := len(lines) - 1; i >= 0; i-- {
		l := strings.TrimSpace(lines[i])
		if strings.Contains(l, "+0x") || strings.Contains(l, ".go:") || strings.HasPrefix(l, "goroutine ") || strings.HasPrefix(l, "created by ") || strings.HasSuffix(l, ")") && strings.Contains(l, "(") && strings.Contains(l, ".") {
			continue // a stack dump is not a message
		}
		if l == "" || strings.HasPrefix(l, "exit status") || strings.HasPrefix(l, "FAIL") || strings.HasPrefix(l, "=== ") || strings.HasPrefix(l, "--- ") || strings.HasPrefix(l, "...") {
			continue
		}
		// keep the plain words only: file names, positions and quoted symbols differ from case to case
		var words []string
		for _, w := range strings.Fields(l) {
			if !strings.ContainsAny(w, "/.:\"'`()[]{}=") {
				words = append(words, w)
			}
		}
		l = strings.Join(words, "-")
		if len(l) > 80 {
			l = l[:80]
		}
		return "exit:" + stripDigits(l)
	}
	return "unknown"
}

func stripDigits(s string) string {
	var b strings.Builder
	for _, ch := range s {
		if ch >= '0' && ch <= '9' {
			continue
		}
		b.WriteRune(ch)
	}
	return b.String()
}

func main() {
	var pid, tier, replay string
	flag.StringVar(&pid, "p", "", "property id")
	flag.StringVar(&tier, "tier", "", "quick|thorough (default: $VERIF_TIER or quick)")
	flag.StringVar(&replay, "replay", "", "replay file written by an earlier run")
	flag.Parse()
	verif := os.Getenv("VERIF_DIR")
	if verif == "" {
		if wd, err := os.Getwd(); err == nil {
			verif = wd
		}
	}
	if tier == "" {
		tier = os.Getenv("VERIF_TIER")
	}
	if tier == "" {
		tier = "quick"
	}
	if tier != "quick" && tier != "thorough" {
		fatalf("bad tier %q", tier)
	}
	var seed uint64 = 1
	if s := os.Getenv("VERIF_SEED"); s != "" {
		if v, err := strconv.ParseUint(s, 10, 64); err == nil {
			seed = v
		}
	}
	repo := os.Getenv("VERIF_REPO")
	if repo == "" {
		repo = "/repo"
	}
	ctx := &context{tier: tier, seed: seed, repo: repo, verif: verif, started: time.Now()}
	if replay != "" {
		b, err := os.ReadFile(replay)
		if err != nil {
			fatalf("replay: %v", err)
		}
		var rf replayFile
		if err := json.Unmarshal(b, &rf); err != nil {
			fatalf("replay: %v", err)
		}
		ctx.replay = &rf
		ctx.seed, ctx.tier = rf.Seed, rf.Tier
		if pid == "" {
			pid = rf.Property
		}
	}
	p := props[pid]
	if p == nil {
		fatalf("unknown property %q", pid)
	}
	ctx.p = p
	ctx.work = filepath.Join(verif, ".work", fmt.Sprintf("%s.%d", pid, os.Getpid()))
	if err := os.MkdirAll(ctx.work, 0755); err != nil {
		fatalf("%v", err)
	}
	code := run(ctx)
	if os.Getenv("VERIF_KEEP") == "" {
		os.RemoveAll(ctx.work)
	}
	os.Exit(code)
}

func run(ctx *context) int {
	p := ctx.p
	ag := newAggregate()
	var buildErr string
	deciding := 0
	for _, rs := range p.runs {
		if rs.tiers != "" && !strings.Contains(rs.tiers, ctx.tier) {
			continue
		}
		if ctx.replay != nil && ctx.replay.Run != "" && ctx.replay.Run != rs.name {
			continue
		}
		bin, berr := buildTest(ctx, rs)
		if bin == "" {
			if rs.race || rs.instr {
				// the instrumented / race build is an additional facet: if it alone does not build, inconclusive
				ag.inconclusive++
				ag.inconWhat = append(ag.inconWhat, "build of run "+rs.name+" failed: "+lastLines(berr, 8))
				continue
			}
			buildErr = berr
			break
		}
		nsh := 1
		if rs.shards > 1 {
			nsh = rs.shards
			if ctx.tier == "quick" && nsh > 4 {
				nsh = 4
			}
		}
		budget := 10 * time.Minute
		if ctx.tier == "thorough" {
			budget = 60 * time.Minute
		}
		var wg sync.WaitGroup
		for s := 0; s < nsh; s++ {
			wg.Add(1)
			go func(s int) {
				defer wg.Done()
				driveShard(ctx, rs, bin, ag, s, nsh, budget)
			}(s)
			if ctx.replay != nil {
				break
			}
		}
		wg.Wait()
		if rs.race {
			n, reports := collectRaceReports(ctx.work, "race-"+rs.name+"-")
			if rs.calib {
				// A report whose racing access sits in a Spinlock method is a data race in the
				// lock implementation itself (e.g. a plain-store Release), not a failure of the
				// annotation: that is a violation of the visibility half of the property.
				for key, text := range reports {
					if strings.Contains(key, "(*Spinlock).") {
						ag.violations = append(ag.violations, violation{Sig: "race-in-lock-implementation:" + key, Idx: -1, Run: rs.name, Detail: text})
						delete(reports, key)
						n--
					}
				}
				if len(reports) == 0 {
					n = 0
				}
				if n > 0 {
					ag.inconclusive++
					ag.inconWhat = append(ag.inconWhat, fmt.Sprintf("race calibration produced %d report(s): the lock annotation is not effective, race facet undecided", n))
					ag.extra["race_calibration"] = "failed"
					// skip the remaining race runs
					break
				}
				ag.extra["race_calibration"] = "ok"
			} else {
				ag.counters["race_reports"] += int64(n)
				ag.counters["race_runs"]++
				for key, text := range reports {
					ag.violations = append(ag.violations, violation{Sig: "race:" + key, Idx: -1, Run: rs.name, Detail: text})
				}
			}
		}
		if !rs.calib {
			deciding++
		}
		os.Remove(bin)
		if ctx.tier == "quick" && len(ag.violations) > 0 {
			// quick tier: a violation is already on the table, the remaining runs (race build, ...)
			// would only add to it; on a tree that hangs they cost minutes each
			break
		}
	}
	if buildErr != "" {
		fmt.Fprintf(os.Stderr, "ERROR: harness for %s does not build against %s:\n%s\n", p.id, ctx.repo, buildErr)
		return 2
	}
	if p.post != nil && ctx.replay == nil {
		p.post(ctx, ag)
	}
	return report(ctx, ag)
}

// ---------------------------------------------------------------------------
// known findings

type knownFinding struct {
	Property string                 `json:"property"`
	ID       string                 `json:"id"`
	Status   string                 `json:"status"` // open | fixed
	Sig      string                 `json:"sig,omitempty"`
	Match    map[string]interface{} `json:"match,omitempty"`
	What     string                 `json:"what"`
	Fixed    string                 `json:"fixed,omitempty"`
}

func loadKnown(verif string) []knownFinding {
	b, err := os.ReadFile(filepath.Join(verif, "known_findings.json"))
	if err != nil {
		return nil
	}
	var f struct {
		Findings []knownFinding `json:"findings"`
	}
	if err := json.Unmarshal(b, &f); err != nil {
		fatalf("known_findings.json: %v", err)
	}
	return f.Findings
}

func report(ctx *context, ag *aggregate) int {
	p := ctx.p
	known := loadKnown(ctx.verif)
	replayDir := filepath.Join(ctx.verif, "evidence", "replay")
	os.MkdirAll(replayDir, 0755)
	if ctx.replay == nil {
		// remove stale replay files of this property
		if l, _ := filepath.Glob(filepath.Join(replayDir, p.id+"-*.json")); l != nil {
			for _, f := range l {
				os.Remove(f)
			}
		}
	}
	// de-duplicate violations by signature (keep the first of each, count the rest)
	bySig := map[string]int{}
	var order []string
	first := map[string]violation{}
	for _, v := range ag.violations {
		if _, ok := first[v.Sig]; !ok {
			first[v.Sig] = v
			order = append(order, v.Sig)
		}
		bySig[v.Sig]++
	}
	nViol := 0
	knownHit := map[string]bool{}
	for _, sig := range order {
		v := first[sig]
		matched := false
		for _, k := range known {
			if k.Property == p.id && k.Status == "open" && k.Sig != "" && k.Sig == sig {
				if !knownHit[k.ID] {
					fmt.Printf("KNOWN-FINDING: property=%s %s: %s\n", p.id, k.ID, k.What)
					knownHit[k.ID] = true
				}
				matched = true
				break
			}
		}
		if matched {
			continue
		}
		rf := replayFile{Property: p.id, Seed: ctx.seed, Tier: ctx.tier, Run: v.Run, Idx: v.Idx, Sig: v.Sig, Desc: v.Desc, Detail: v.Detail,
			Note: fmt.Sprintf("%d occurrence(s) of this signature in the run; re-execute with: bin/vcheck -p %s --replay <this file>", bySig[sig], p.id)}
		name := fmt.Sprintf("%s-%d.json", p.id, nViol)
		if ctx.replay != nil {
			name = fmt.Sprintf("%s-replayed-%d.json", p.id, nViol)
		}
		path := filepath.Join(replayDir, name)
		b, _ := json.MarshalIndent(rf, "", " ")
		os.WriteFile(path, b, 0644)
		fmt.Printf("VIOLATION property=%s replay=%s\n", p.id, path)
		fmt.Printf("  signature: %s (x%d)\n", sig, bySig[sig])
		nViol++
		if nViol >= 25 {
			break
		}
	}
	wall := time.Since(ctx.started).Seconds()
	if ctx.replay != nil {
		if nViol == 0 {
			fmt.Printf("replay of %s case %d: no violation\n", p.id, ctx.replay.Idx)
			return 0
		}
		return 1
	}
	// evidence
	cov := map[string]interface{}{}
	cov["evaluations"] = ag.evaluations
	cov["distinct_nontrivial"] = len(ag.fps)
	cov["rule"] = ag.rule
	samples := ag.samples
	if samples == nil {
		samples = []interface{}{}
	}
	cov["samples"] = samples
	cov["inconclusive"] = ag.inconclusive
	if len(ag.inconWhat) > 0 {
		cov["inconclusive_what"] = ag.inconWhat
	}
	obs := map[string]interface{}{}
	keys := make([]string, 0, len(ag.counters))
	for k := range ag.counters {
		keys = append(keys, k)
	}
	sort.Strings(keys)
	for _, k := range keys {
		obs[k] = ag.counters[k]
	}
	for k, v := range ag.maxes {
		obs["max_"+k] = v
	}
	cov["observed"] = obs
	sets := map[string]interface{}{}
	for k, m := range ag.sets {
		l := make([]string, 0, len(m))
		for e := range m {
			l = append(l, e)
		}
		sort.Strings(l)
		if len(l) > 64 {
			sets[k] = map[string]interface{}{"size": len(l), "first": l[:64]}
		} else {
			sets[k] = map[string]interface{}{"size": len(l), "members": l}
		}
	}
	if len(sets) > 0 {
		cov["observed_sets"] = sets
	}
	if len(ag.notes) > 0 {
		cov["notes"] = ag.notes
	}
	for k, v := range ag.extra {
		cov[k] = v
	}
	kf := []string{}
	for id := range knownHit {
		kf = append(kf, id)
	}
	sort.Strings(kf)
	cov["known_findings_reproduced"] = kf
	ev := map[string]interface{}{
		"property_id": p.id, "tier": ctx.tier, "seed": ctx.seed, "level": p.level,
		"coverage": cov, "assumptions": ag.assumptions, "wall_s": wall, "violations": nViol,
	}
	if ev["assumptions"] == nil {
		ev["assumptions"] = []string{}
	}
	b, _ := json.MarshalIndent(ev, "", " ")
	os.MkdirAll(filepath.Join(ctx.verif, "evidence"), 0755)
	evPath := filepath.Join(ctx.verif, "evidence", p.id+".json")
	if ctx.repo != "/repo" {
		// a run against a scratch copy (mutant / seeded change) must not replace the evidence of /repo
		evPath = filepath.Join(ctx.verif, "evidence", "replay", p.id+"-scratch-evidence.json")
	}
	if err := os.WriteFile(evPath, append(b, '\n'), 0644); err != nil {
		fatalf("write evidence: %v", err)
	}
	fmt.Printf("%s %s seed=%d: evaluations=%d distinct_nontrivial=%d violations=%d known=%d inconclusive=%d wall=%.1fs\n",
		p.id, ctx.tier, ctx.seed, ag.evaluations, len(ag.fps), nViol, len(knownHit), ag.inconclusive, wall)
	for _, w := range ag.inconWhat {
		fmt.Printf("  inconclusive: %s\n", w)
	}
	if nViol > 0 {
		return 1
	}
	if ag.evaluations == 0 || ag.summaries == 0 || len(ag.fps) < 2 {
		fmt.Fprintf(os.Stderr, "ERROR: %s: nothing conclusive was observed (evaluations=%d, summaries=%d, distinct=%d)\n", p.id, ag.evaluations, ag.summaries, len(ag.fps))
		return 2
	}
	return 0
}

// ---------------------------------------------------------------------------
// race reports

func collectRaceReports(dir, prefix string) (int, map[string]string) {
	files, _ := filepath.Glob(filepath.Join(dir, prefix+"*"))
	total := 0
	dedup := map[string]string{}
	for _, f := range files {
		b, err := os.ReadFile(f)
		if err != nil {
			continue
		}
		blocks := bytes.Split(b, []byte("=================="))
		for _, blk := range blocks {
			if !bytes.Contains(blk, []byte("WARNING: DATA RACE")) {
				continue
			}
			total++
			key := raceKey(string(blk))
			if _, ok := dedup[key]; !ok && len(dedup) < 10 {
				t := string(blk)
				if len(t) > 4000 {
					t = t[:4000]
				}
				dedup[key] = t
			}
		}
	}
	return total, dedup
}

// raceKey: the function names of the two access stacks' top frames inside the
// repository, line numbers stripped, sorted.
func raceKey(blk string) string {
	var tops []string
	lines := strings.Split(blk, "\n")
	for i := 0; i < len(lines); i++ {
		l := strings.TrimSpace(lines[i])
		if strings.HasPrefix(l, "Read at") || strings.HasPrefix(l, "Write at") || strings.HasPrefix(l, "Previous read at") || strings.HasPrefix(l, "Previous write at") {
			for j := i + 1; j < len(lines); j++ {
				fn := strings.TrimSpace(lines[j])
				if fn == "" {
					break
				}
				if strings.HasPrefix(fn, "/") || strings.HasPrefix(fn, "runtime.") || strings.HasPrefix(fn, "sync/atomic") {
					continue
				}
				if p := strings.LastIndex(fn, "("); p > 0 {
					fn = fn[:p]
				}
				if p := strings.LastIndex(fn, "/"); p >= 0 {
					fn = fn[p+1:]
				}
				tops = append(tops, fn)
				break
			}
		}
	}
	sort.Strings(tops)
	return strings.Join(tops, "|")
}
