package main

import (
	"bytes"
	"fmt"
	"go/ast"
	"go/format"
	"go/parser"
	"go/token"
	"os"
)

// instrumentSpinlock writes a copy of sync/spinlock.go in which
// (*Spinlock).Acquire starts with `defer verifRaceAcquire(&<recv>.state)`.
// The race detector cannot see the XCHG in the assembly, so without the
// annotation every access protected by a *correct* lock would be reported.
// The annotation only imports the happens-before edge of the last Release on
// that address; two goroutines that both pass a broken lock stay concurrent.
func instrumentSpinlock(src, dst string) error {
	fset := token.NewFileSet()
	f, err := parser.ParseFile(fset, src, nil, parser.ParseComments)
	if err != nil {
		return err
	}
	done := false
	for _, d := range f.Decls {
		fd, ok := d.(*ast.FuncDecl)
		if !ok || fd.Name.Name != "Acquire" || fd.Recv == nil || len(fd.Recv.List) != 1 || fd.Body == nil {
			continue
		}
		star, ok := fd.Recv.List[0].Type.(*ast.StarExpr)
		if !ok {
			continue
		}
		if id, ok := star.X.(*ast.Ident); !ok || id.Name != "Spinlock" {
			continue
		}
		if len(fd.Recv.List[0].Names) != 1 {
			return fmt.Errorf("Acquire has no named receiver")
		}
		recv := fd.Recv.List[0].Names[0].Name
		stmt := &ast.DeferStmt{Call: &ast.CallExpr{
			Fun:  ast.NewIdent("verifRaceAcquire"),
			Args: []ast.Expr{&ast.UnaryExpr{Op: token.AND, X: &ast.SelectorExpr{X: ast.NewIdent(recv), Sel: ast.NewIdent("state")}}},
		}}
		fd.Body.List = append([]ast.Stmt{stmt}, fd.Body.List...)
		done = true
	}
	if !done {
		return fmt.Errorf("(*Spinlock).Acquire not found")
	}
	var buf bytes.Buffer
	if err := format.Node(&buf, fset, f); err != nil {
		return err
	}
	return os.WriteFile(dst, buf.Bytes(), 0644)
}
