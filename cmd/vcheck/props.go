package main

import "time"

func simple(id, module, pkg string, shards int) *prop {
	return &prop{id: id, module: module, pkg: pkg, level: "exploration",
		runs: []runSpec{{name: "main", test: "^TestVerif" + id + "$", shards: shards}}}
}

func init() {
	register(simple("C01", "kernel", "mm/pmm", 8))
	register(simple("C02", "kernel", "mm/pmm", 8))
	register(simple("C03", "kernel", "mm/pmm", 8))
	register(simple("C04", "kernel", "mm/vmm", 16))
	register(simple("C05", "kernel", "mm/vmm", 8))
	register(simple("C06", "kernel", "mm/vmm", 8))
	c07 := simple("C07", "kernel", "mm/vmm", 4)
	// the allocator bootstrap is the in-tree client that maps a reservation page by page itself
	c07.runs = append(c07.runs, runSpec{name: "pmm", pkg: "mm/pmm", test: "^TestVerifC07Pmm$", shards: 4})
	// reservations before and after the kernel builds its own address space
	c07.runs = append(c07.runs, runSpec{name: "init", test: "^TestVerifC07Init$", shards: 2})
	register(c07)
	register(&prop{id: "C08", module: "kernel", pkg: "sync", level: "exploration", perCase: 150 * time.Second, post: postLockHistories,
		runs: []runSpec{
			{name: "main", test: "^TestVerifC08$"},
			{name: "racecalib", test: "^TestVerifC08Calib$", race: true, instr: true, calib: true},
			{name: "race", test: "^TestVerifC08$", race: true, instr: true},
		}})
	register(&prop{id: "C09", module: "kernel", pkg: "mm/pmm", level: "exploration", perCase: 150 * time.Second, post: postFrameHistories,
		runs: []runSpec{
			{name: "main", test: "^TestVerifC09$"},
			{name: "racecalib", pkg: "sync", test: "^TestVerifC08Calib$", race: true, instr: true, calib: true},
			{name: "race", test: "^TestVerifC09$", race: true, instr: true},
		}})
	register(simple("C10", "kernel", "multiboot", 8))
	register(simple("C11", "kernel", "device/acpi/aml", 16))
	register(simple("C12", "kernel", "device/acpi/aml", 16))
	register(simple("C13", "kernel", "device/acpi/aml", 8))
	register(simple("C14", "kernel", "device/acpi", 8))
	c15 := simple("C15", "kernel", "kfmt", 8)
	// go1.22+ turns non-escaping string->[]byte conversions into zero-copy views; the kernel's
	// go1.15-era toolchain allocates there. The second run rebuilds kfmt without that optimisation
	// so that allocation regressions of exactly that kind are visible on the host.
	c15.runs = append(c15.runs, runSpec{name: "nozerocopy", test: "^TestVerifC15$", shards: 8,
		gcflags: "-gcflags=github.com/ProjectSerenity/firefly/kernel/kfmt=-d=zerocopy=0"})
	register(c15)
	c16 := simple("C16", "kernel", "hal", 8)
	c16.runs = append(c16.runs, runSpec{name: "ring", pkg: "kfmt", test: "^TestVerifC16Ring$", shards: 4})
	register(c16)
	register(simple("C17", "kernel", "device/tty", 8))
	register(simple("C18", "kernel", "device/tty", 8))
	register(simple("C19", "kernel", "device/video/console", 16))
	register(simple("C20", "kbuild", ".", 4))
}
