package main

import "time"

func simple(id, module, pkg string, shards int) *prop {
	return &prop{id: id, module: module, pkg: pkg, level: "exploration",
		runs: []runSpec{{name: "main", test: "^TestVerif" + id + "$", shards: shards}}}
}

func init() {
	register(simple("C07", "kernel", "mm/vmm", 1))
	_ = time.Second
}
