import json,sys,glob
for f in sorted(glob.glob('/verif/evidence/replay/C11-*.json')):
    e=json.load(open(f)); d=e['detail']
    print('=====',e['sig'],'idx',e['idx'])
    if isinstance(d,dict):
        print(str(d.get('what'))[:700])
        if d.get('parser_messages'): print('MSG:',d['parser_messages'][:300])
        prog=d.get('program') or []
        if len(prog)<60: print('\n'.join(prog))
        else: print('(program %d lines)'%len(prog))
        if len(sys.argv)>1 and d.get('tree'): print(d['tree'][:6000])
    else: print(str(d)[:500])
