#!/usr/bin/env python3
"""usage: mkmut.py <prop> <name> <repo-relative file> <old> <new>  — writes mutants/<prop>/<name>.diff (old must occur exactly once)"""
import sys, os, difflib
prop, name, rel, old, new = sys.argv[1:6]
src = open(os.path.join(os.environ.get("MUT_REPO", "/repo"), rel)).read()
if src.count(old) != 1:
    sys.exit("old text occurs %d times in %s" % (src.count(old), rel))
dst = src.replace(old, new)
d = difflib.unified_diff(src.splitlines(True), dst.splitlines(True), "a/" + rel, "b/" + rel)
os.makedirs("/verif/mutants/" + prop, exist_ok=True)
open("/verif/mutants/%s/%s.diff" % (prop, name), "w").write("".join(d))
print("wrote", name)
