#!/bin/bash
# usage: tools/seedcheck.sh CNN [extra property ids to run as well]
# Confirms an independently written breaking change (from /tmp/seed-out/CNN and the worktree /tmp/seed-CNN):
#  suite passes with the change, the demonstration fails with it and passes without it,
#  then runs the quick (and if silent the thorough) check against a scratch copy carrying the change.
# Results are stored under /verif/seeded/CNN/.
set -u
export GOFLAGS=-mod=mod GOPROXY=off GOSUMDB=off GOTOOLCHAIN=local
id=$1; shift
out=/tmp/seed-out/$id; wt=/tmp/seed-$id
[ -s $out/patch.diff ] || { echo "no patch for $id"; exit 2; }
s=/tmp/scratch-seed-$id; rm -rf $s; mkdir -p $s && rsync -a --exclude .git /repo/ $s/repo/
dest=/verif/seeded/$id${SEED_SUFFIX:-}; mkdir -p $dest; cp $out/patch.diff $dest/patch.diff
# demo files (relative paths from the worktree)
demos=$(cd $wt && git status --porcelain | awk '{print $2}' | grep seed_demo_ || true)
for d in $demos; do mkdir -p $dest/demo/$(dirname $d); cp $wt/$d $dest/demo/$d; done
democmd=$(python3 -c "import json;print(json.load(open('$out/meta.json')).get('demo_cmd',''))" 2>/dev/null)
run_demo() { # $1 = repo root
  for d in $demos; do mkdir -p $1/$(dirname $d); cp $wt/$d $1/$d; done
  pkgdir=$(dirname $(echo $demos | awk '{print $1}'))
  mod=$(echo $pkgdir | cut -d/ -f1); rel=${pkgdir#$mod/}; [ "$rel" = "$pkgdir" ] && rel=.
  name=$(grep -ho "func Test[A-Za-z0-9_]*" $1/$(echo $demos | awk '{print $1}') | head -1 | sed 's/func //')
  (cd $1/$mod && timeout 600 go test -vet=off -count=1 -run "$name" ./$rel >/tmp/seed-demo-$id.log 2>&1); rc=$?
  for d in $demos; do rm -f $1/$d; done
  return $rc
}
run_demo $s/repo; base_rc=$?
(cd $s/repo && patch -s -p1 < $out/patch.diff) || { echo "PATCH FAILED"; rm -rf $s; exit 3; }
suite=pass
for m in kernel kbuild; do o=$(cd $s/repo/$m && go vet ./... >/dev/null 2>&1; go test -vet=off -count=1 -timeout 600s ./... 2>&1 | grep -v "^ok\|no test files\|goruntime\|^FAIL$\|^link:"); [ -n "$o" ] && { suite=FAIL; echo "$o" | head -5; }; done
run_demo $s/repo; mut_rc=$?
echo "$id: suite_with_change=$suite demo_without_change_rc=$base_rc demo_with_change_rc=$mut_rc"
res=""
for p in $id "$@"; do
  o=$(cd /verif && VERIF_REPO=$s/repo bin/vcheck -p $p -tier quick 2>&1); tier=quick
  if ! echo "$o" | grep -q "^VIOLATION"; then o=$(cd /verif && VERIF_REPO=$s/repo bin/vcheck -p $p -tier thorough 2>&1); tier=thorough; fi
  sigs=$(echo "$o" | grep "signature:" | sed 's/ *signature: //' | head -4 | tr '\n' ';')
  if echo "$o" | grep -q "^VIOLATION"; then res="$res $p:CAUGHT($tier):$sigs"; else res="$res $p:MISSED:$(echo "$o" | tail -1)"; fi
done
echo "$id: check results:$res"
python3 - "$id" "$suite" "$base_rc" "$mut_rc" "$res" "$dest" <<'PY'
import json,sys
id,suite,b,m,res,dest=sys.argv[1:7]
meta=json.load(open('/tmp/seed-out/%s/meta.json'%id))
meta['confirmed']={'suite_passes_with_change':suite=='pass','demo_passes_without_change':b=='0','demo_fails_with_change':m!='0','checks':res.strip()}
json.dump(meta,open(dest+'/meta.json','w'),indent=1)
PY
rm -rf $s
