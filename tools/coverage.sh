#!/bin/bash
# usage: tools/coverage.sh [tier]   (development aid, not a registered check)
# Statement coverage of the repository's own files under the harnesses: copies /repo to a scratch
# directory, places the harness files physically next to the code (the cover tool cannot read
# overlay-only files), runs every check with VERIF_COVER set and prints covered/total per file.
# Race builds (C08/C09 race facets) are not instrumented. Scratch copies are removed at the end.
set -u
export GOFLAGS=-mod=mod GOPROXY=off GOSUMDB=off GOTOOLCHAIN=local
tier=${1:-quick}
s=/tmp/verif-cov-$$; mkdir -p $s/cov && rsync -a --exclude .git /repo/ $s/repo/ && cp -r /verif/harness/* $s/repo/
for i in 01 02 03 04 05 06 07 08 09 10 11 12 13 14 15 16 17 18 19 20; do
  (cd /verif && VERIF_REPO=$s/repo VERIF_COVER=$s/cov bin/vcheck -p C$i -tier $tier 2>&1 | tail -1)
done
python3 - $s/cov <<'PY'
import glob,re,collections,json,sys
cov=collections.defaultdict(int)
for f in glob.glob(sys.argv[1]+'/*.cov'):
    for l in open(f):
        m=re.match(r'(.*):(\d+)\.(\d+),(\d+)\.(\d+) (\d+) (\d+)',l)
        if m: cov[(m.group(1),int(m.group(2)),int(m.group(4)),int(m.group(6)))]+=int(m.group(7))
anch=collections.defaultdict(list)
for l in open('/verif/properties.jsonl'):
    d=json.loads(l)
    for a in d['anchors']['files']: anch[a].append(d['id'])
by=collections.defaultdict(lambda:[0,0,[]])
for (f,a,b,n),c in cov.items():
    rel=f.replace('github.com/ProjectSerenity/firefly/','')
    if 'verif' in rel: continue
    e=by[rel]; e[0]+=n
    if c>0: e[1]+=n
    else: e[2].append("%d-%d"%(a,b))
for rel in sorted(by):
    e=by[rel]
    if rel in anch:
        print("%-50s %4d/%4d %5.1f%%  %s  uncovered: %s"%(rel,e[1],e[0],100.0*e[1]/max(1,e[0]),",".join(anch[rel])," ".join(sorted(e[2],key=lambda x:int(x.split('-')[0]))[:14])))
PY
rm -rf $s
