#!/usr/bin/env python3
"""Development aid: every repaired defect must be re-detected when its repair is taken out again.
Clones /repo to a scratch directory outside /repo and /verif, reverts each `fix:` commit recorded in
known_findings.json (status "fixed") on its own, runs the quick tier of the property it belongs to against
the clone and prints CAUGHT / MISSED / REVERT-CONFLICT. The clone is removed at the end."""
import json, re, subprocess, os, shutil
env = dict(os.environ, GOFLAGS='-mod=mod', GOPROXY='off', GOSUMDB='off', GOTOOLCHAIN='local')
rv = '/tmp/verif-revert-%d' % os.getpid()
subprocess.run(['git', 'clone', '-q', '/repo', rv], check=True)
seen = {}
for f in json.load(open('/verif/known_findings.json'))['findings']:
    if f['status'] != 'fixed':
        continue
    m = re.search(r'property=(C\d+) ([0-9a-f]{7})', f['fixed'])
    if m:
        seen.setdefault(m.group(2), (m.group(1), f['id']))
for h, (prop, fid) in seen.items():
    subprocess.run(['git', '-C', rv, 'reset', '-q', '--hard', 'origin/HEAD'], capture_output=True)
    r = subprocess.run(['git', '-C', rv, 'revert', '-n', h], capture_output=True, text=True)
    if r.returncode != 0:
        subprocess.run(['git', '-C', rv, 'revert', '--abort'], capture_output=True)
        print(prop, h, fid, 'REVERT-CONFLICT')
        continue
    o = subprocess.run(['/verif/bin/vcheck', '-p', prop, '-tier', 'quick'], cwd='/verif', env=dict(env, VERIF_REPO=rv), capture_output=True, text=True).stdout
    sig = re.findall(r'signature: (.*)', o)
    print(prop, h, fid, 'CAUGHT' if 'VIOLATION' in o else 'MISSED', '; '.join(s[:70] for s in sig[:2]))
shutil.rmtree(rv, ignore_errors=True)
