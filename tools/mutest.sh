#!/bin/bash
# usage: tools/mutest.sh <property id> <patch file> [pkg-to-run-repo-tests]
# Applies a one-hunk mutant to a scratch copy of /repo (outside /repo and /verif),
# optionally runs the repository's own tests of one package there (must stay green
# for a realistic mutant), runs the quick check against the copy, removes the copy.
# Exit 0 = the check reported a VIOLATION (mutant caught).
set -u
export GOFLAGS=-mod=mod GOPROXY=off GOSUMDB=off GOTOOLCHAIN=local
id=$1; patch=$(readlink -f "$2"); pkg=${3:-}
s=/tmp/scratch-mut-$$; mkdir -p $s && rsync -a --exclude .git /repo/ $s/repo/
( cd $s/repo && patch -s -p1 < "$patch" ) || { echo "PATCH-FAILED $patch"; rm -rf $s; exit 3; }
if [ -n "$pkg" ]; then
  mod=kernel; case "$pkg" in kbuild*) mod=kbuild; pkg=${pkg#kbuild/};; esac
  ( cd $s/repo/$mod && go test -vet=off -count=1 -timeout 120s ./$pkg >/dev/null 2>&1 ) && echo "repo-tests: pass" || echo "repo-tests: FAIL (mutant would be caught by the existing suite)"
fi
out=$(cd /verif && VERIF_REPO=$s/repo bin/vcheck -p $id -tier ${VERIF_TIER:-quick} 2>&1); rc=$?
rm -rf $s
echo "$out" | grep -E "VIOLATION|signature|ERROR|evaluations=" | head -8
if echo "$out" | grep -q "^VIOLATION"; then echo "CAUGHT $id $(basename $patch)"; exit 0; fi
echo "NOT-CAUGHT $id $(basename $patch) (rc=$rc)"; exit 1
