#!/usr/bin/env python3
"""Systematic one-token mutants of the anchored source files (development aid, not a registered check).

usage: tools/automut.py [-j N] [-o out.jsonl] [--limit K] [--only substr] [--props C11,C12]

For every anchored .go file every occurrence of a relational / boolean / arithmetic operator, of the
literals 0/1 next to an operator, and every plain call / assignment / increment statement is a mutation
site. Each mutant is applied to a per-worker scratch copy of /repo (outside /repo and /verif), must
compile, and is then shown to the quick tier of every check whose property anchors the file. A mutant
no check reports is run against the repository's own tests of the package: if they fail it is not a
"realistic change that passes the tests"; if they pass it is a SURVIVOR and is written to the output
for reading (equivalent mutant, out of the statement's scope, or a gap of the check).
Nothing is written into /repo or into /verif/evidence/<id>.json (vcheck diverts scratch-copy evidence).
"""
import sys, os, re, json, subprocess, shutil, argparse, threading, queue, time

KINDS = {"op", "del"}
ENV = dict(os.environ, GOFLAGS="-mod=mod", GOPROXY="off", GOSUMDB="off", GOTOOLCHAIN="local")
REPO = "/repo"

OPS = [
    (r"<=", ["<"]), (r">=", [">"]), (r"(?<![<>=!\-])<(?![<=\-])", ["<="]), (r"(?<![<>=!\-])>(?![>=])", [">="]),
    (r"==", ["!="]), (r"!=", ["=="]), (r"&&", ["||"]), (r"\|\|", ["&&"]),
    (r"(?<![+\w\)\]] )\+(?![+=])", ["-"]),
    (r" \+ ", [" - "]), (r" - ", [" + "]),
    (r"<<", [">>"]), (r">>", ["<<"]),
    (r" & ", [" | "]), (r" \| ", [" & "]), (r"&\^", ["&"]),
    (r"\+= ", ["-= "]), (r"-= ", ["+= "]), (r"\+\+", ["--"]), (r"--", ["++"]),
    (r"\b1\b", ["0", "2"]), (r"\b0\b", ["1"]),
    (r"\btrue\b", ["false"]), (r"\bfalse\b", ["true"]),
    (r"\bbreak\b", ["continue"]), (r"\bcontinue\b", ["break"]),
]


def strip_code(line):
    """returns the code part of a line with string/char literals blanked (same length), or None in comments"""
    out = []
    i, n = 0, len(line)
    in_s = None
    while i < n:
        c = line[i]
        if in_s:
            if c == "\\" and in_s != "`":
                out.append("  ")
                i += 2
                continue
            if c == in_s:
                in_s = None
            out.append(" ")
            i += 1
            continue
        if c in "\"'`":
            in_s = c
            out.append(" ")
            i += 1
            continue
        if line.startswith("//", i):
            out.append(" " * (n - i))
            break
        out.append(c)
        i += 1
    return "".join(out)[:n]


def sites(path, text):
    lines = text.split("\n")
    res = []
    in_block = False
    depth_func = False
    in_decl = False
    for ln, line in enumerate(lines):
        s = line.strip()
        if in_block:
            if "*/" in line:
                in_block = False
            continue
        if s.startswith("/*"):
            if "*/" not in s:
                in_block = True
            continue
        if s.startswith("//") or not s:
            continue
        if line.startswith("func "):
            depth_func = True
        if line.startswith("}"):
            depth_func = False
        if line.startswith("const (") or line.startswith("var ("):
            in_decl = True
            continue
        if line.startswith(")"):
            in_decl = False
        if (in_decl or line.startswith("const ")) and "lit" in KINDS and not depth_func:
            code = strip_code(line)
            for m in re.finditer(r"(?<![\w.])(0x[0-9a-fA-F]+|[1-9][0-9]*)(?![\w.])", code):
                v = int(m.group(1), 0)
                if v < 2:
                    continue
                fmtv = (lambda x: hex(x)) if m.group(1).startswith("0x") else (lambda x: str(x))
                res.append((ln, m.start(), m.end(), fmtv(v + 1), "lit"))
                res.append((ln, m.start(), m.end(), fmtv(v - 1), "lit"))
            continue
        if not depth_func or line.startswith("func "):
            continue
        code = strip_code(line)
        if "kfmt.Fprintf" in code or "Errorf(" in code or "Fatalf(" in code or "panic(" in code:
            continue  # messages
        for pat, reps in OPS:
            for m in re.finditer(pat, code):
                for rep in reps:
                    res.append((ln, m.start(), m.end(), rep, "op"))
        if "lit" in KINDS:
            # numeric literals other than 0/1: one more and one less (masks, shifts, sizes)
            for m in re.finditer(r"(?<![\w.])(0x[0-9a-fA-F]+|[1-9][0-9]*)(?![\w.])", code):
                v = int(m.group(1), 0)
                if v < 2:
                    continue
                fmtv = (lambda x: hex(x)) if m.group(1).startswith("0x") else (lambda x: str(x))
                res.append((ln, m.start(), m.end(), fmtv(v + 1), "lit"))
                res.append((ln, m.start(), m.end(), fmtv(v - 1), "lit"))
        if "if" in KINDS:
            m = re.match(r"^(\t+(?:\} else )?if )([^;{]+)( \{)$", code.rstrip())
            if m:
                res.append((ln, len(m.group(1)), len(m.group(1)) + len(m.group(2)), "true", "if"))
                res.append((ln, len(m.group(1)), len(m.group(1)) + len(m.group(2)), "false", "if"))
        if "op" not in KINDS:
            res = [x for x in res if x[4] != "op"]
        if "del" not in KINDS:
            continue
        # statement deletion: a line that is a plain call, assignment or ++/-- (no control flow, no declaration keyword)
        if re.match(r"^\t+[\w\.\[\]\*\(\)]+(\(.*\)|\s*(=|\+=|-=|\|=|&=|&\^=|<<=|>>=)\s.*|\+\+|--)$", code.rstrip()) and not re.match(r"^\t+(return|defer|go|if|for|switch|case|var|const|type)\b", code):
            if code.count("(") == code.count(")") and code.count("{") == code.count("}"):
                res.append((ln, 0, len(line), None, "del"))
    return lines, res


def apply(lines, site):
    ln, a, b, rep, kind = site
    new = list(lines)
    if kind == "del":
        ind = re.match(r"^\t*", lines[ln]).group(0)
        new[ln] = ind + "_ = 0 // " + lines[ln].strip()
    else:
        new[ln] = lines[ln][:a] + rep + lines[ln][b:]
    return "\n".join(new)


def run(cmd, cwd, timeout, env=None):
    try:
        p = subprocess.run(cmd, cwd=cwd, env=env or ENV, stdout=subprocess.PIPE, stderr=subprocess.STDOUT, timeout=timeout, text=True)
        return p.returncode, p.stdout
    except subprocess.TimeoutExpired as e:
        return 124, (e.stdout or "") if isinstance(e.stdout, str) else ""


def worker(k, q, out, lock, props_of, args):
    base = "/tmp/automut-%d-%d" % (os.getpid(), k)
    shutil.rmtree(base, ignore_errors=True)
    os.makedirs(base)
    subprocess.run(["rsync", "-a", "--exclude", ".git", REPO + "/", base + "/repo/"], check=True)
    while True:
        try:
            rel, lines, site = q.get_nowait()
        except queue.Empty:
            break
        path = os.path.join(base, "repo", rel)
        orig = "\n".join(lines)
        mutated = apply(lines, site)
        if mutated == orig:
            continue
        open(path, "w").write(mutated)
        mod = rel.split("/")[0]
        pkg = os.path.dirname(rel)[len(mod) + 1:] or "."
        rec = {"file": rel, "line": site[0] + 1, "kind": site[4], "old": lines[site[0]].strip(), "new": mutated.split("\n")[site[0]].strip()}
        try:
            rc, o = run(["go", "build", "./" + pkg], os.path.join(base, "repo", mod), 300)
            if rc != 0:
                rec["verdict"] = "no-compile"
            else:
                caught = None
                for pid in props_of[rel]:
                    rc, o = run(["/verif/bin/vcheck", "-p", pid, "-tier", "quick"], "/verif", 900, dict(ENV, VERIF_REPO=base + "/repo"))
                    if re.search(r"^VIOLATION", o, re.M):
                        m = re.search(r"signature: (.*)", o)
                        caught = pid + ":" + (m.group(1)[:80] if m else "?")
                        break
                    if "does not build" in o:
                        caught = pid + ":harness-does-not-build"
                        break
                if caught:
                    rec["verdict"] = "caught"
                    rec["by"] = caught
                else:
                    rc, o = run(["go", "test", "-vet=off", "-count=1", "-timeout", "120s", "./" + pkg], os.path.join(base, "repo", mod), 200)
                    rec["verdict"] = "survivor" if rc == 0 else "killed-by-suite"
        finally:
            open(path, "w").write(orig)
        with lock:
            out.write(json.dumps(rec) + "\n")
            out.flush()
    shutil.rmtree(base, ignore_errors=True)


def main():
    ap = argparse.ArgumentParser()
    ap.add_argument("-j", type=int, default=4)
    ap.add_argument("-o", default="/tmp/automut.jsonl")
    ap.add_argument("--limit", type=int, default=0)
    ap.add_argument("--only", default="")
    ap.add_argument("--props", default="")
    ap.add_argument("--skip", default="", help="comma separated substrings of files to leave out")
    ap.add_argument("--stride", type=int, default=1, help="take every n-th site")
    ap.add_argument("--kinds", default="op,del", help="op,del,lit,if")
    args = ap.parse_args()
    KINDS.clear()
    KINDS.update(args.kinds.split(","))
    props_of = {}
    for l in open("/verif/properties.jsonl"):
        d = json.loads(l)
        for f in d["anchors"]["files"]:
            if f.endswith(".go"):
                props_of.setdefault(f, []).append(d["id"])
    if args.props:
        want = set(args.props.split(","))
        props_of = {f: [p for p in ps if p in want] for f, ps in props_of.items()}
        props_of = {f: ps for f, ps in props_of.items() if ps}
    q = queue.Queue()
    total = 0
    done = set()
    if os.path.exists(args.o):
        for l in open(args.o):
            try:
                d = json.loads(l)
                done.add((d["file"], d["line"], d["new"]))
            except ValueError:
                pass
    for rel in sorted(props_of):
        if args.only and args.only not in rel:
            continue
        if args.skip and any(x in rel for x in args.skip.split(",")):
            continue
        if not os.path.exists(os.path.join(REPO, rel)):
            continue
        lines, ss = sites(rel, open(os.path.join(REPO, rel)).read())
        ss = ss[:: args.stride]
        if args.limit:
            ss = ss[: args.limit]
        for s in ss:
            if (rel, s[0] + 1, apply(lines, s).split("\n")[s[0]].strip()) in done:
                continue
            q.put((rel, lines, s))
            total += 1
        print("%-55s %4d sites  -> %s" % (rel, len(ss), ",".join(props_of[rel])), flush=True)
    print("total", total, flush=True)
    out = open(args.o, "a")
    lock = threading.Lock()
    ts = [threading.Thread(target=worker, args=(k, q, out, lock, props_of, args)) for k in range(args.j)]
    t0 = time.time()
    for t in ts:
        t.start()
    for t in ts:
        t.join()
    print("done in %.0fs" % (time.time() - t0))


if __name__ == "__main__":
    main()
