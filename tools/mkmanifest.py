#!/usr/bin/env python3
"""Regenerates /verif/MANIFEST.json from tools/checks.json (one entry per claimed property)."""
import json, os, sys
here = os.path.dirname(os.path.abspath(__file__))
root = os.path.dirname(here)
checks = json.load(open(os.path.join(here, "checks.json")))
allp = [json.loads(l)["id"] for l in open(os.path.join(root, "properties.jsonl"))]
out = {
    "version": 1,
    "setup_cmd": "cd /verif && GOFLAGS=-mod=mod GOPROXY=off GOSUMDB=off GOTOOLCHAIN=local go build -o bin/vcheck ./cmd/vcheck",
    "hooks": {
        "guard": "verif",
        "enable": "no source change in /repo: bin/vcheck builds the package's test binary from /repo's working tree with `go test -c -tags verif -overlay <json>`; the overlay adds the in-package harness files, export shims and the helper package kept under /verif/harness (all `//go:build verif`)",
        "baseline_off_cmd": "for m in kbuild kernel; do (cd /repo/$m && GOFLAGS=-mod=mod GOPROXY=off GOSUMDB=off go test -json -vet=off -count=1 -timeout 25m ./...); done",
        "source_commits": [],
        "add_only": True,
    },
    "engines": [
        {"name": "vcheck", "path": "cmd/vcheck", "serves_properties": sorted(checks.keys()),
         "kind_free_text": "runner: overlay build of the real package from /repo's working tree, child-process execution with crash attribution, offline history checkers (porcupine), race-report collection, known-findings matching, evidence writer"},
        {"name": "harness", "path": "harness", "serves_properties": sorted(checks.keys()),
         "kind_free_text": "in-package monitors and workload generators (reference models, software MMU, guard-paged inputs, recorded histories) injected via go build overlay"},
    ],
    "checks": [],
    "notes": "Runtime monitoring: every verdict is 'held on the executions observed'. See DESIGN.md.",
    "not_applicable": [],
}
for pid in allp:
    c = checks.get(pid)
    if not c or c.get("disabled"):
        out["not_applicable"].append({"property_id": pid, "reason": (c or {}).get("disabled", "harness not built yet (work in progress; the design in DESIGN.md section 3 applies)")})
        continue
    out["checks"].append({
        "property_id": pid,
        "quick_cmd": f"bin/vcheck -p {pid} -tier quick",
        "thorough_cmd": f"bin/vcheck -p {pid} -tier thorough",
        "evidence_file": f"/verif/evidence/{pid}.json",
        "replay_cmd_template": f"bin/vcheck -p {pid} --replay {{path}}",
        "engine": "vcheck",
        "level_claimed": {"category": "exploration", "text": c["text"], "design_ref": c.get("design_ref", "DESIGN.md section 3, " + pid)},
        "level_note": c["note"],
        "technique": c["technique"],
    })
json.dump(out, open(os.path.join(root, "MANIFEST.json"), "w"), indent=1)
print("claimed:", [c["property_id"] for c in out["checks"]])
