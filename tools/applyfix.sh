#!/bin/bash
# usage: tools/applyfix.sh <patch> <commit message file>  — applies to /repo, runs the repository's own suite, commits as fix:
set -e
export GOFLAGS=-mod=mod GOPROXY=off GOSUMDB=off GOTOOLCHAIN=local
p=$(readlink -f $1); m=$(readlink -f $2)
cd /repo && git apply --whitespace=nowarn $p
fail=0
for mod in kernel kbuild; do
  out=$(cd /repo/$mod && go test -vet=off -count=1 -timeout 300s ./... 2>&1 | grep -v "^ok\|no test files" | grep -v "goruntime\|^FAIL$\|^link:" || true)
  if [ -n "$out" ]; then echo "$out" | head -20; fail=1; fi
done
if [ $fail = 1 ]; then echo "SUITE FAILED - reverting"; git checkout -- .; exit 1; fi
head -1 $m | grep -q "^fix:" || { echo "message must start with fix:"; git checkout -- .; exit 1; }
git add -A && git commit -q -F $m && git log --oneline | head -1
