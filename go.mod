module verif

go 1.23

require github.com/anishathalye/porcupine v1.3.0
