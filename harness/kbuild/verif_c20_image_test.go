//go:build verif
// +build verif

package main

import (
	"bytes"
	"context"
	"encoding/binary"
	"fmt"
	"io/ioutil"
	"os"
	"os/exec"
	"path/filepath"
	"strings"
	"testing"
	"time"

	"github.com/ProjectSerenity/firefly/kbuild/zzverif/vlib"
)

// Second observation point of C20: "the table written into the image in slice
// order" (Context.CompleteRedirects). The harness synthesises a small ELF64
// image with a .goredirectstbl section, a symbol table holding every source and
// destination symbol of the tree's redirect table (plus look-alike symbols) at
// distinct non-zero addresses, lets the real FindRedirects + CompleteRedirects
// run on it twice from scratch and compares the resulting file byte for byte
// with the expected one: entry i of the section is (address of source i,
// address of destination i), little endian, in the order of ctx.Redirects, and
// no byte outside the 16*N table bytes changes.

type c20Sym struct {
	name string
	addr uint64
}

func c20Pad(r *vlib.Rand, b *bytes.Buffer) {
	for n := r.Intn(40); n > 0; n-- {
		b.WriteByte(0xCC)
	}
	for b.Len()%8 != 0 {
		b.WriteByte(0xCC)
	}
}

// c20BuildELF returns the image and the file offset and size of its .goredirectstbl section.
func c20BuildELF(r *vlib.Rand, syms []c20Sym, tableSize int) (img []byte, tableOff, tableLen int) {
	var b bytes.Buffer
	b.Write(make([]byte, 64)) // ELF header, filled in at the end
	type sec struct {
		name                  string
		typ, link, info       uint32
		flags, off, size, ent uint64
	}
	secs := []sec{{}}
	add := func(name string, typ uint32, data []byte, link, info uint32, ent uint64) int {
		c20Pad(r, &b)
		s := sec{name: name, typ: typ, off: uint64(b.Len()), size: uint64(len(data)), link: link, info: info, ent: ent}
		b.Write(data)
		secs = append(secs, s)
		return len(secs) - 1
	}
	// sections before and after the table are filled with a pattern, the table itself too
	text := r.Bytes(r.Range(1, 200))
	table := bytes.Repeat([]byte{0xA5}, tableSize)
	var strtab bytes.Buffer
	strtab.WriteByte(0)
	symtab := make([]byte, 24) // null symbol
	for _, s := range syms {
		var e [24]byte
		binary.LittleEndian.PutUint32(e[0:], uint32(strtab.Len()))
		strtab.WriteString(s.name)
		strtab.WriteByte(0)
		e[4] = 0x12 // GLOBAL FUNC
		binary.LittleEndian.PutUint16(e[6:], 1)
		binary.LittleEndian.PutUint64(e[8:], s.addr)
		binary.LittleEndian.PutUint64(e[16:], uint64(r.Intn(64)))
		symtab = append(symtab, e[:]...)
	}
	// the table is not always the second section
	order := r.Intn(3)
	ti := 0
	if order == 0 {
		ti = add(".goredirectstbl", 1, table, 0, 0, 0)
	}
	add(".text", 1, text, 0, 0, 0)
	if order == 1 {
		ti = add(".goredirectstbl", 1, table, 0, 0, 0)
	}
	symIdx := add(".symtab", 2, symtab, 0, 1, 24)
	strIdx := add(".strtab", 3, strtab.Bytes(), 0, 0, 0)
	secs[symIdx].link = uint32(strIdx)
	if order == 2 {
		ti = add(".goredirectstbl", 1, table, 0, 0, 0)
	}
	add(".data", 1, r.Bytes(r.Range(1, 64)), 0, 0, 0)
	var shstr bytes.Buffer
	shstr.WriteByte(0)
	nameOff := make([]uint32, len(secs)+1)
	for i := 1; i < len(secs); i++ {
		nameOff[i] = uint32(shstr.Len())
		shstr.WriteString(secs[i].name)
		shstr.WriteByte(0)
	}
	nameOff[len(secs)] = uint32(shstr.Len())
	shstr.WriteString(".shstrtab")
	shstr.WriteByte(0)
	shIdx := add(".shstrtab", 3, shstr.Bytes(), 0, 0, 0)
	c20Pad(r, &b)
	shoff := b.Len()
	for i, s := range secs {
		var h [64]byte
		binary.LittleEndian.PutUint32(h[0:], nameOff[i])
		binary.LittleEndian.PutUint32(h[4:], s.typ)
		binary.LittleEndian.PutUint64(h[8:], s.flags)
		binary.LittleEndian.PutUint64(h[16:], 0xffffffff80000000+s.off*16+0x1000)
		binary.LittleEndian.PutUint64(h[24:], s.off)
		binary.LittleEndian.PutUint64(h[32:], s.size)
		binary.LittleEndian.PutUint32(h[40:], s.link)
		binary.LittleEndian.PutUint32(h[44:], s.info)
		binary.LittleEndian.PutUint64(h[48:], 8)
		binary.LittleEndian.PutUint64(h[56:], s.ent)
		if i == 0 {
			h = [64]byte{}
		}
		b.Write(h[:])
	}
	img = b.Bytes()
	copy(img, []byte{0x7f, 'E', 'L', 'F', 2, 1, 1, 0})
	binary.LittleEndian.PutUint16(img[16:], 2)    // ET_EXEC
	binary.LittleEndian.PutUint16(img[18:], 0x3e) // EM_X86_64
	binary.LittleEndian.PutUint32(img[20:], 1)
	binary.LittleEndian.PutUint64(img[24:], 0x100000)
	binary.LittleEndian.PutUint64(img[40:], uint64(shoff))
	binary.LittleEndian.PutUint16(img[52:], 64)
	binary.LittleEndian.PutUint16(img[58:], 64)
	binary.LittleEndian.PutUint16(img[60:], uint16(len(secs)))
	binary.LittleEndian.PutUint16(img[62:], uint16(shIdx))
	return img, int(secs[ti].off), tableSize
}

// c20ImagePhase runs FindRedirects + CompleteRedirects twice on the tree at root and checks the images.
func c20ImagePhase(c *vlib.Case, run *vlib.Run, root, scratch string, r *vlib.Rand) {
	old, err := os.Getwd()
	if err != nil {
		return
	}
	if err := os.Chdir(root); err != nil {
		return
	}
	defer os.Chdir(old)

	var first []byte
	var img []byte
	var tableOff int
	var syms []c20Sym
	for rep := 0; rep < 2; rep++ {
		ctx := &Context{Architectures: []string{"amd64"}}
		ctx.FindRedirects()
		n := len(ctx.Redirects)
		if rep == 0 {
			// symbols: every source and destination once, at distinct non-zero addresses, plus look-alikes
			addr := map[string]uint64{}
			next := uint64(0xffffffff80100000) + uint64(r.Intn(1<<20))<<4
			put := func(name string) {
				if _, ok := addr[name]; ok || name == "" {
					return
				}
				next += uint64(r.Range(1, 4096)) << 4
				addr[name] = next
				syms = append(syms, c20Sym{name, next})
			}
			for _, rd := range ctx.Redirects {
				if rd == nil {
					c.Violationf("nil-entry", "FindRedirects produced a nil entry")
					return
				}
				put(rd.SrcSymbol)
				put(rd.DstSymbol)
			}
			for _, rd := range ctx.Redirects {
				for _, nm := range []string{rd.SrcSymbol, rd.DstSymbol} {
					if r.Intn(3) == 0 {
						put(nm + "x")
					}
					if r.Intn(3) == 0 && len(nm) > 1 {
						put(nm[:len(nm)-1])
					}
					if r.Intn(4) == 0 {
						put("x" + nm)
					}
				}
			}
			for i := r.Intn(6); i > 0; i-- {
				put(fmt.Sprintf("runtime.decoy%d", i))
			}
			shuffled := make([]c20Sym, len(syms))
			for i, j := range r.Perm(len(syms)) {
				shuffled[i] = syms[j]
			}
			syms = shuffled
			slack := 16 * r.Intn(4)
			img, tableOff, _ = c20BuildELF(r, syms, 16*n+slack)
		}
		want := append([]byte(nil), img...)
		lookup := map[string]uint64{}
		for _, s := range syms {
			lookup[s.name] = s.addr
		}
		for i, rd := range ctx.Redirects {
			binary.LittleEndian.PutUint64(want[tableOff+16*i:], lookup[rd.SrcSymbol])
			binary.LittleEndian.PutUint64(want[tableOff+16*i+8:], lookup[rd.DstSymbol])
		}
		path := filepath.Join(scratch, fmt.Sprintf("kernel-%d.elf", rep))
		if err := ioutil.WriteFile(path, img, 0644); err != nil {
			run.Inconclusive("cannot write the synthetic image: " + err.Error())
			return
		}
		ctx.kernel = path
		ctx.CompleteRedirects()
		got, err := ioutil.ReadFile(path)
		os.Remove(path)
		if err != nil {
			run.Inconclusive("cannot read the image back: " + err.Error())
			return
		}
		run.Count("images_completed", 1)
		run.Count("image_table_entries", int64(n))
		if !bytes.Equal(got, want) {
			what := "image-table-wrong"
			d := -1
			if len(got) != len(want) {
				what = "image-size-changed"
			} else {
				for i := range got {
					if got[i] != want[i] {
						d = i
						break
					}
				}
				if d < tableOff || d >= tableOff+16*n {
					what = "image-changed-outside-table"
				}
			}
			c.Violationf(what, "image of %d bytes, table of %d entries at offset %#x: first differing byte at offset %#x (entry %d, byte %d of it)", len(want), n, tableOff, d, (d-tableOff)/16, (d-tableOff)%16)
			return
		}
		if rep == 0 {
			first = got
		} else if !bytes.Equal(first, got) {
			c.Violationf("image-differs-between-builds", "two builds of the same tree against the same link output gave different images")
			return
		}
	}
	run.Count("image_pairs_compared", 1)

	// A symbol the image does not define. The build must not complete: CompleteRedirects reports the symbol and
	// ends the process, so this runs in a child (the test binary itself, running TestVerifC20Child). One case in
	// five, with a symbol of an entry other than the first one taken out of the symbol table.
	ctx := &Context{Architectures: []string{"amd64"}}
	ctx.FindRedirects()
	n := len(ctx.Redirects)
	if n < 2 || !r.Chance(1, 5) {
		return
	}
	k := r.Range(1, n-1)
	victim := ctx.Redirects[k].SrcSymbol
	if r.Bool() {
		victim = ctx.Redirects[k].DstSymbol
	}
	var fewer []c20Sym
	for _, s := range syms {
		if s.name != victim {
			fewer = append(fewer, s)
		}
	}
	img2, tableOff2, _ := c20BuildELF(r, fewer, 16*n)
	path := filepath.Join(scratch, "kernel-unresolved.elf")
	if err := ioutil.WriteFile(path, img2, 0644); err != nil {
		return
	}
	defer os.Remove(path)
	exe, err := os.Executable()
	if err != nil {
		return
	}
	cctx, cancel := context.WithTimeout(context.Background(), 60*time.Second)
	defer cancel()
	cmd := exec.CommandContext(cctx, exe, "-test.run=^TestVerifC20Child$")
	cmd.Dir = root
	cmd.Env = append(os.Environ(), "VERIF_C20_CHILD_KERNEL="+path)
	out, cerr := cmd.CombinedOutput()
	if !strings.Contains(string(out), "C20CHILD-START") {
		run.Count("unresolved_symbol_children_that_did_not_start", 1)
		return
	}
	run.Count("images_with_an_unresolved_symbol", 1)
	if cerr == nil && strings.Contains(string(out), "C20CHILD-RETURNED") {
		got, _ := ioutil.ReadFile(path)
		entry := "?"
		if len(got) >= tableOff2+16*(k+1) {
			entry = fmt.Sprintf("src %#x dst %#x", binary.LittleEndian.Uint64(got[tableOff2+16*k:]), binary.LittleEndian.Uint64(got[tableOff2+16*k+8:]))
		}
		c.Violationf("image-completed-with-unresolved-symbol", "the image defines no symbol %q (entry %d of %d: %s -> %s), yet CompleteRedirects returned and the build went on; the entry in the image now reads %s", victim, k, n, ctx.Redirects[k].SrcSymbol, ctx.Redirects[k].DstSymbol, entry)
	}
}

// TestVerifC20Child is the child half of the unresolved-symbol case of c20ImagePhase: it does nothing unless the
// parent names an image.
func TestVerifC20Child(t *testing.T) {
	k := os.Getenv("VERIF_C20_CHILD_KERNEL")
	if k == "" {
		return
	}
	fmt.Println("C20CHILD-START")
	ctx := &Context{Architectures: []string{"amd64"}}
	ctx.FindRedirects()
	ctx.kernel = k
	ctx.CompleteRedirects()
	fmt.Println("C20CHILD-RETURNED")
}

// c20AsmPhase: the number of entries the image reserves for the table comes from the assembler flag
// -dNUM_REDIRECTS=<n> that compileRT0 passes for every rt0 assembly file. A stub assembler (a two-line shell
// script) records its arguments; every assembly file must be assembled once, with n = the number of annotations.
func c20AsmPhase(c *vlib.Case, run *vlib.Run, root, scratch string, r *vlib.Rand) {
	old, err := os.Getwd()
	if err != nil {
		return
	}
	if err := os.Chdir(root); err != nil {
		return
	}
	defer os.Chdir(old)
	dir := filepath.Join("arch", "amd64", "rt0")
	if err := os.MkdirAll(filepath.Join(dir, "include.d"), 0755); err != nil {
		run.Inconclusive("cannot create the rt0 directory: " + err.Error())
		return
	}
	defer os.RemoveAll(filepath.Join(root, "arch"))
	var asm []string
	for i, n := 0, r.Range(1, 3); i < n; i++ {
		name := fmt.Sprintf("rt%d_%s.s", i, []string{"entry", "long", "redirects"}[r.Intn(3)])
		asm = append(asm, name)
		ioutil.WriteFile(filepath.Join(dir, name), []byte("; stub\n"), 0644)
	}
	ioutil.WriteFile(filepath.Join(dir, "constants.inc"), []byte("; not assembled\n"), 0644)
	ioutil.WriteFile(filepath.Join(dir, "notes.s.txt"), []byte("not assembled\n"), 0644)

	work := filepath.Join(scratch, "work")
	os.MkdirAll(work, 0755)
	defer os.RemoveAll(work)
	logf := filepath.Join(scratch, "nasm.log")
	os.Remove(logf)
	stub := filepath.Join(scratch, "nasm-stub.sh")
	if err := ioutil.WriteFile(stub, []byte("#!/bin/sh\necho \"$*\" >> '"+logf+"'\n"), 0755); err != nil {
		run.Inconclusive("cannot write the assembler stub: " + err.Error())
		return
	}
	defer os.Remove(stub)
	defer os.Remove(logf)

	ctx := &Context{Architectures: []string{"amd64"}, WorkDir: work, nasm: stub}
	ctx.FindRedirects()
	n := len(ctx.Redirects)
	if err := ctx.compileRT0("amd64"); err != nil {
		run.Inconclusive("compileRT0 with the stub assembler failed: " + err.Error())
		return
	}
	b, _ := ioutil.ReadFile(logf)
	lines := strings.Split(strings.TrimSpace(string(b)), "\n")
	if len(b) == 0 {
		lines = nil
	}
	run.Count("assembler_invocations_checked", int64(len(lines)))
	if len(lines) != len(asm) {
		c.Violationf("asm-invocations", "%d assembly files in arch/amd64/rt0 but the assembler ran %d time(s): %q", len(asm), len(lines), lines)
		return
	}
	want := fmt.Sprintf("-dNUM_REDIRECTS=%d", n)
	for i, l := range lines {
		args := strings.Fields(l)
		found := 0
		for _, a := range args {
			if strings.HasPrefix(a, "-dNUM_REDIRECTS") {
				found++
				if a != want {
					c.Violationf("asm-table-size", "assembler invocation %d reserves the redirect table with %q, the tree has %d annotation(s)", i, a, n)
					return
				}
			}
		}
		if found != 1 {
			c.Violationf("asm-table-size", "assembler invocation %d carries %d NUM_REDIRECTS definitions: %q", i, found, l)
			return
		}
		if !strings.Contains(l, filepath.Join(dir, asm[i])) && !strings.Contains(l, asm[i]) {
			c.Violationf("asm-invocations", "assembler invocation %d (%q) does not name %s", i, l, asm[i])
			return
		}
	}
}
