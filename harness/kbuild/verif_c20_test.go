//go:build verif
// +build verif

package main

import (
	"fmt"
	"go/parser"
	"go/token"
	"io/ioutil"
	"os"
	"path/filepath"
	"sort"
	"strings"
	"testing"
	"unicode"
	"unicode/utf8"

	"github.com/ProjectSerenity/firefly/kbuild/zzverif/vlib"
)

// C20 - the build tool's redirect table contains exactly one entry per
// redirect annotation on a function declaration (source symbol as written,
// destination the function's fully qualified import-path name), nothing else,
// and the same tree yields the same table in the same order.
//
// Observed: ctx.Redirects after (*Context).FindRedirects, c20Reps times per
// tree, in generated source trees (the process chdirs into them, exactly like
// kbuild is started inside the kernel directory) and in $VERIF_REPO/kernel.
//
// Oracle: (a) the generator's own record of the annotations it wrote and
// (b) an independent line-oriented scanner (c20ScanTree) that never uses
// go/parser or go/ast. (a) and (b) must agree on every generated tree (this
// calibrates the scanner, which is the only oracle for the real tree). The
// observed table must equal the expectation as a multiset of (src,dst), and all
// repetitions must be equal as sequences. No particular order is demanded.

const (
	c20Directive = "//go:redirect-from"
	c20Prefix    = "github.com/ProjectSerenity/firefly/kernel"
	c20Reps      = 20
)

type c20Entry struct{ Src, Dst string }

func c20EntryLess(a, b c20Entry) bool {
	if a.Src != b.Src {
		return a.Src < b.Src
	}
	return a.Dst < b.Dst
}

func c20Sorted(in []c20Entry) []c20Entry {
	out := append([]c20Entry(nil), in...)
	sort.Slice(out, func(i, j int) bool { return c20EntryLess(out[i], out[j]) })
	return out
}

func c20Fmt(in []c20Entry, max int) string {
	var b strings.Builder
	for i, e := range in {
		if i == max {
			fmt.Fprintf(&b, " ...(+%d)", len(in)-max)
			break
		}
		if i > 0 {
			b.WriteString(" | ")
		}
		b.WriteString(e.Src + " -> " + e.Dst)
	}
	return b.String()
}

// ---------------------------------------------------------------------------
// Independent scanner: a character-level line classifier (comments, strings,
// raw strings) followed by a line-oriented pass.

const (
	c20StCode = iota
	c20StLineComment
	c20StBlockComment
	c20StString
	c20StRune
	c20StRaw
)

type c20Line struct {
	text       string // without the line terminator
	startState int    // c20StCode, c20StBlockComment or c20StRaw
	hasCode    bool   // something that is neither comment nor white space
	hasComment bool
}

func c20Lex(src string) []c20Line {
	var lines []c20Line
	state := c20StCode
	cur := c20Line{startState: state}
	var text []byte
	flush := func() {
		cur.text = strings.TrimRight(string(text), "\r")
		lines = append(lines, cur)
		text = text[:0]
		if state == c20StLineComment || state == c20StString || state == c20StRune {
			state = c20StCode
		}
		cur = c20Line{startState: state}
		if state == c20StBlockComment {
			cur.hasComment = true
		}
		if state == c20StRaw {
			cur.hasCode = true
		}
	}
	for i := 0; i < len(src); i++ {
		ch := src[i]
		if ch == '\n' {
			flush()
			continue
		}
		text = append(text, ch)
		next := byte(0)
		if i+1 < len(src) {
			next = src[i+1]
		}
		switch state {
		case c20StCode:
			switch {
			case ch == '/' && next == '/':
				state = c20StLineComment
				cur.hasComment = true
			case ch == '/' && next == '*':
				state = c20StBlockComment
				cur.hasComment = true
				text = append(text, next)
				i++
			case ch == '"':
				state = c20StString
				cur.hasCode = true
			case ch == '\'':
				state = c20StRune
				cur.hasCode = true
			case ch == '`':
				state = c20StRaw
				cur.hasCode = true
			case ch == ' ' || ch == '\t' || ch == '\r':
			default:
				cur.hasCode = true
			}
		case c20StLineComment:
		case c20StBlockComment:
			if ch == '*' && next == '/' {
				state = c20StCode
				text = append(text, next)
				i++
			}
		case c20StString, c20StRune:
			end := byte('"')
			if state == c20StRune {
				end = '\''
			}
			if ch == '\\' && next != 0 && next != '\n' {
				text = append(text, next)
				i++
			} else if ch == end {
				state = c20StCode
			}
		case c20StRaw:
			if ch == '`' {
				state = c20StCode
			}
		}
	}
	if len(text) > 0 {
		flush()
	}
	return lines
}

func c20IdentAt(s string) string {
	n := 0
	for n < len(s) {
		r, sz := utf8.DecodeRuneInString(s[n:])
		if r == '_' || unicode.IsLetter(r) || (n > 0 && unicode.IsDigit(r)) {
			n += sz
			continue
		}
		break
	}
	return s[:n]
}

type c20ScanStats struct {
	files, testFiles, otherFiles, dirs int
	funcs, methods, methodDirectives   int
	directiveLines, gluedPrefix        int
}

// c20ScanFile returns (source symbol, function name) for every directive line
// in the comment block immediately above a top-level func declaration.
func c20ScanFile(src string, st *c20ScanStats) [][2]string {
	var out [][2]string
	lines := c20Lex(src)
	for i, l := range lines {
		if l.startState != c20StCode || !strings.HasPrefix(l.text, "func") {
			continue
		}
		rest := l.text[len("func"):]
		if rest == "" || (rest[0] != ' ' && rest[0] != '\t' && rest[0] != '(') {
			continue
		}
		rest = strings.TrimLeft(rest, " \t")
		method := strings.HasPrefix(rest, "(")
		name := c20IdentAt(rest)
		if !method && name == "" {
			continue
		}
		if method {
			st.methods++
		} else {
			st.funcs++
		}
		// the comment block: comment-only lines directly above, no gap.
		first := i
		for first > 0 && lines[first-1].hasComment && !lines[first-1].hasCode {
			first--
		}
		for j := first; j < i; j++ {
			c := lines[j]
			if c.startState != c20StCode {
				continue // inside a block comment
			}
			t := strings.TrimLeft(c.text, " \t")
			if !strings.HasPrefix(t, c20Directive) {
				continue
			}
			arg := t[len(c20Directive):]
			if arg == "" || (arg[0] != ' ' && arg[0] != '\t') {
				st.gluedPrefix++ // "//go:redirect-fromX": a different word, not the directive
				continue
			}
			if method {
				st.methodDirectives++ // outside the statement ("function declaration"); never generated
				continue
			}
			st.directiveLines++
			out = append(out, [2]string{strings.TrimSpace(arg), name})
		}
	}
	return out
}

func c20ScanTree(root string, st *c20ScanStats) ([]c20Entry, error) {
	var out []c20Entry
	var walk func(dir string, comps []string) error
	walk = func(dir string, comps []string) error {
		ents, err := ioutil.ReadDir(dir)
		if err != nil {
			return err
		}
		st.dirs++
		for _, e := range ents {
			p := dir + string(os.PathSeparator) + e.Name()
			if e.IsDir() {
				sub := append(append([]string(nil), comps...), e.Name())
				if err := walk(p, sub); err != nil {
					return err
				}
				continue
			}
			n := e.Name()
			switch {
			case !strings.HasSuffix(n, ".go"):
				st.otherFiles++
				continue
			case strings.HasSuffix(n, "_test.go"):
				st.testFiles++
				continue
			}
			st.files++
			b, err := ioutil.ReadFile(p)
			if err != nil {
				return err
			}
			pkg := c20Prefix
			for _, c := range comps {
				pkg += "/" + c
			}
			for _, sf := range c20ScanFile(string(b), st) {
				out = append(out, c20Entry{Src: sf[0], Dst: pkg + "." + sf[1]})
			}
		}
		return nil
	}
	err := walk(root, nil)
	return out, err
}

// ---------------------------------------------------------------------------
// Generator.

var c20Cats = []string{
	"testfile", "nongo-file", "nonfunc-var", "nonfunc-const", "nonfunc-type", "nonfunc-group",
	"nonfunc-field", "nonfunc-iface-method", "funclit-var", "body", "body-funclit", "body-rawstring",
	"blockcomment-doc", "blockcomment-oneline", "blockcomment-in-doc", "detached", "trailing-prev-line",
	"after-func", "rawstring-toplevel", "ordinary-space", "ordinary-embedded", "ordinary-case",
	"other-directive", "package-doc", "import-doc", "eof-comment",
}

type c20File struct {
	rel   string // slash separated, relative to the tree root
	lines []string
	crlf  bool
	noEOL bool
	goSrc bool // content is Go source that must parse
}

type c20Gen struct {
	r       *vlib.Rand
	seq     int
	expect  []c20Entry
	decoys  map[string]string // decoy source symbol -> category (lookup only)
	catSeen map[string]int
	perFunc []int // directives per annotated function
	perFile []int // annotated functions per scanned file
	dst     string
	skipped bool // current file is not scanned (test file / not .go)
	skipCat string
	annot   int
}

var c20DirNames = []string{"mm", "vmm", "pmm", "hal", "kfmt", "goruntime", "cpu", "gate", "a", "b2", "x_y", "device", "tty", "acpi", "aml", "internal", "v1", "z"}

var c20SrcShapes = []string{"runtime.%s", "runtime.%s", "runtime/internal/atomic.%s", "runtime/internal/sys.%s", "main.%s", "github.com/x/y.%s", "runtime.(*mheap).%s", "type..eq.%s", "sync/atomic.%s", "%s"}

func (g *c20Gen) sym() string {
	g.seq++
	names := []string{"sysAlloc", "sysMap", "nanotime", "throw", "gopanic", "init", "mallocgc", "Load", "f"}
	return fmt.Sprintf(c20SrcShapes[g.r.Intn(len(c20SrcShapes))], fmt.Sprintf("%s%d", names[g.r.Intn(len(names))], g.seq))
}

// decoy returns a fresh source symbol that must NOT appear in the table.
func (g *c20Gen) decoy(cat string) string {
	if g.skipped {
		cat = g.skipCat
	}
	g.seq++
	s := fmt.Sprintf("decoy.%s%d", strings.Replace(cat, "-", "_", -1), g.seq)
	g.decoys[s] = cat
	g.catSeen[cat]++
	return s
}

// directive renders a directive line with varied (legal) white space.
func (g *c20Gen) directive(src string) string {
	sep := []string{" ", " ", " ", "  ", "\t", " \t "}[g.r.Intn(6)]
	tail := []string{"", "", "", " ", "\t", "  "}[g.r.Intn(6)]
	return c20Directive + sep + src + tail
}

func (g *c20Gen) funcName() string {
	g.seq++
	switch g.r.Intn(8) {
	case 0:
		return "init"
	case 1:
		return fmt.Sprintf("lower%d", g.seq)
	case 2:
		return fmt.Sprintf("_f%d", g.seq)
	case 3:
		return fmt.Sprintf("Fn_%d_x", g.seq)
	case 4:
		return fmt.Sprintf("Größe%d", g.seq)
	default:
		return fmt.Sprintf("Func%d", g.seq)
	}
}

// ordinary returns an ordinary comment line that merely mentions the directive.
func (g *c20Gen) ordinary() string {
	switch g.r.Intn(7) {
	case 0:
		return "// go:redirect-from " + g.decoy("ordinary-space")
	case 1:
		return "// see " + c20Directive + " " + g.decoy("ordinary-embedded")
	case 2:
		return "// " + c20Directive + " " + g.decoy("ordinary-embedded")
	case 3:
		return "/" + c20Directive + " " + g.decoy("ordinary-embedded")
	case 4:
		return "//GO:REDIRECT-FROM " + g.decoy("ordinary-case")
	case 5:
		return "//go:Redirect-From " + g.decoy("ordinary-case")
	default:
		return []string{"//go:redirect-to ", "//go:redirect ", "//go:linkname local ", "//go:redirect_from ", "//go:redirectfrom "}[g.r.Intn(5)] + g.decoy("other-directive")
	}
}

func (g *c20Gen) body(indent string) []string {
	var out []string
	n := g.r.Intn(5)
	for i := 0; i < n; i++ {
		switch g.r.Intn(7) {
		case 0:
			out = append(out, indent+g.directive(g.decoy("body")))
			out = append(out, indent+"_ = 0")
		case 1:
			out = append(out, indent+"// about to call")
			out = append(out, indent+g.directive(g.decoy("body-funclit")))
			g.seq++
			out = append(out, indent+fmt.Sprintf("h%d := func() {", g.seq))
			out = append(out, indent+"\t"+g.directive(g.decoy("body")))
			out = append(out, indent+"}")
			out = append(out, indent+fmt.Sprintf("h%d()", g.seq))
		case 2:
			g.seq++
			out = append(out, indent+fmt.Sprintf("s%d := `", g.seq))
			out = append(out, g.directive(g.decoy("body-rawstring")))
			out = append(out, fmt.Sprintf("func Fake%d() {}", g.seq))
			out = append(out, "`")
			out = append(out, indent+fmt.Sprintf("_ = s%d", g.seq))
		case 3:
			out = append(out, indent+"/*")
			out = append(out, g.directive(g.decoy("body")))
			out = append(out, "func Fake() {}")
			out = append(out, indent+"*/")
		case 4:
			out = append(out, indent+"x := \"// not a comment ` \\\" \" + string('`') + string('\"') + string('\\'')")
			out = append(out, indent+"_ = x")
		default:
			out = append(out, indent+"println(\"hi\") // "+c20Directive+" "+g.decoy("body"))
		}
	}
	return out
}

// fn emits a function declaration with the given doc lines.
func (g *c20Gen) fn(doc []string, name string) []string {
	out := append([]string(nil), doc...)
	switch g.r.Intn(8) {
	case 0: // no body (implemented in assembly)
		out = append(out, "func "+name+"(x uintptr) uintptr")
	case 1: // one line
		out = append(out, "func "+name+"() {}")
	case 2: // multi-line signature
		out = append(out, "func "+name+"(", "\ta uintptr,", "\tb, c int,", ") (uintptr, bool) {")
		out = append(out, g.body("\t")...)
		out = append(out, "\treturn 0, false", "}")
	case 3:
		out = append(out, "func  "+name+" (p unsafe.Pointer, n uintptr) {")
		out = append(out, g.body("\t")...)
		out = append(out, "}")
	default:
		out = append(out, "func "+name+"() {")
		out = append(out, g.body("\t")...)
		out = append(out, "}")
	}
	return out
}

var c20Prose = []string{"// %s does what the runtime expects.", "//", "// It must not allocate.", "// TODO(x): revisit.", "//\t- item", "//go:nosplit", "//go:noinline", "//go:nowritebarrierrec", "//go:norace", "//nolint:deadcode", "// +build ignored-here"}

func (g *c20Gen) prose(name string) string {
	p := c20Prose[g.r.Intn(len(c20Prose))]
	if strings.Contains(p, "%s") {
		return fmt.Sprintf(p, name)
	}
	return p
}

// annotated emits a function with 1..3 directives mixed into its doc block.
func (g *c20Gen) annotated() []string {
	name := g.funcName()
	k := 1
	switch g.r.Intn(6) {
	case 0, 1:
		k = 2
	case 2:
		k = 3
	}
	var doc []string
	var srcs []string
	for i := 0; i < k; i++ {
		var s string
		if g.skipped {
			s = g.decoy(g.skipCat)
		} else if i > 0 && g.r.Chance(1, 8) {
			s = srcs[0] // the very same annotation twice: two entries
		} else {
			s = g.sym()
		}
		srcs = append(srcs, s)
		doc = append(doc, g.directive(s))
	}
	extra := g.r.Intn(5)
	for i := 0; i < extra; i++ {
		switch g.r.Intn(6) {
		case 0:
			doc = append(doc, g.ordinary())
		case 1:
			if g.r.Bool() {
				doc = append(doc, "/* "+c20Directive+" "+g.decoy("blockcomment-in-doc")+" */")
			} else {
				// multi-line block comment as one element of the doc group
				doc = append(doc, "/* note\n"+g.directive(g.decoy("blockcomment-in-doc"))+"\n*/")
			}
		default:
			doc = append(doc, g.prose(name))
		}
	}
	// shuffle the doc block (directive order inside the block is free)
	for i := len(doc) - 1; i > 0; i-- {
		j := g.r.Intn(i + 1)
		doc[i], doc[j] = doc[j], doc[i]
	}
	var flat []string
	for _, d := range doc {
		flat = append(flat, strings.Split(d, "\n")...)
	}
	if !g.skipped {
		for _, s := range srcs {
			g.expect = append(g.expect, c20Entry{Src: s, Dst: g.dst + "." + name})
		}
		g.perFunc = append(g.perFunc, k)
		g.annot++
	}
	return g.fn(flat, name)
}

// lookalike emits a top-level construct that carries the directive text but is
// not an annotation on a function declaration.
func (g *c20Gen) lookalike() []string {
	g.seq++
	id := g.seq
	switch g.r.Intn(17) {
	case 0:
		return []string{"// v is a variable.", g.directive(g.decoy("nonfunc-var")), fmt.Sprintf("var v%d = 1", id)}
	case 1:
		return []string{g.directive(g.decoy("nonfunc-const")), fmt.Sprintf("const k%d = 1", id)}
	case 2:
		return []string{g.directive(g.decoy("nonfunc-type")), "//go:notinheap", fmt.Sprintf("type T%d struct {", id),
			"\t" + g.directive(g.decoy("nonfunc-field")), "\tF func()", "}"}
	case 3:
		return []string{fmt.Sprintf("type I%d interface {", id), "\t// M does it.", "\t" + g.directive(g.decoy("nonfunc-iface-method")), "\tM()", "}"}
	case 4:
		return []string{g.directive(g.decoy("nonfunc-group")), "var (", "\t" + g.directive(g.decoy("nonfunc-group")),
			fmt.Sprintf("\tg%d = 1", id), "", "\t" + g.directive(g.decoy("nonfunc-group")), fmt.Sprintf("\th%d func()", id), ")"}
	case 5:
		return []string{g.directive(g.decoy("funclit-var")), fmt.Sprintf("var fv%d = func() {", id), "\t" + g.directive(g.decoy("body")), "}"}
	case 6: // directive in a block comment in doc position
		return g.fn([]string{"/*", g.directive(g.decoy("blockcomment-doc")), "*/"}, g.funcName())
	case 7:
		return g.fn([]string{"/* " + c20Directive + " " + g.decoy("blockcomment-oneline") + " */"}, g.funcName())
	case 8: // separated from the function by a blank line
		blank := ""
		if g.r.Chance(1, 3) {
			blank = " \t"
		}
		return g.fn([]string{g.directive(g.decoy("detached")), blank, "// Doc of the function proper."}, g.funcName())
	case 9:
		return g.fn([]string{g.directive(g.decoy("detached")), ""}, g.funcName())
	case 10: // trailing comment of the previous declaration's last line
		return g.fn([]string{fmt.Sprintf("var t%d = 1 %s", id, g.directive(g.decoy("trailing-prev-line")))}, g.funcName())
	case 11: // comment after a function
		n := g.funcName()
		return []string{"func " + n + "() {} " + g.directive(g.decoy("after-func"))}
	case 12:
		n := g.funcName()
		return []string{"func " + n + "() {", "}", g.directive(g.decoy("after-func")), ""}
	case 13:
		return []string{fmt.Sprintf("var raw%d = `", id), "", g.directive(g.decoy("rawstring-toplevel")), fmt.Sprintf("func FakeTop%d() {}", id), "`"}
	case 14:
		return g.fn([]string{g.ordinary(), g.ordinary()}, g.funcName())
	case 15: // a multi-line block comment whose text contains a whole annotated function
		return []string{"/*", g.directive(g.decoy("blockcomment-doc")), fmt.Sprintf("func Commented%d() {}", id), "*/"}
	default: // plain, unannotated function
		n := g.funcName()
		return g.fn([]string{"// " + n + " is plain.", "//go:nosplit"}, n)
	}
}

// source renders one Go file. dirComps are the directory components relative
// to the tree root; scanned says whether FindRedirects has to read the file.
func (g *c20Gen) source(dirComps []string, scanned bool, skipCat string, maxAnnot int) []string {
	g.skipped, g.skipCat = !scanned, skipCat
	g.dst = c20Prefix
	for _, c := range dirComps {
		g.dst += "/" + c
	}
	g.annot = 0
	var out []string
	if g.r.Chance(1, 3) {
		out = append(out, "// Package doc.", g.directive(g.decoy("package-doc")))
		if g.r.Bool() {
			out = append(out, "")
		}
	}
	// the package name need not be the directory name: the destination is the import path
	pkg := "main"
	if len(dirComps) > 0 && g.r.Chance(3, 4) {
		pkg = dirComps[len(dirComps)-1]
	} else if g.r.Bool() {
		pkg = "other"
	}
	out = append(out, "package "+pkg, "")
	switch g.r.Intn(4) {
	case 0:
		out = append(out, g.directive(g.decoy("import-doc")), "import \"unsafe\"", "")
	case 1:
		out = append(out, "import (", "\t"+g.directive(g.decoy("import-doc")), "\t\"unsafe\"", ")", "")
	}
	if g.r.Chance(1, 24) {
		// generated code: one very long line (a table or a string literal written on a single line, longer
		// than the 64 KiB a default line scanner accepts) in front of whatever the file declares
		n := g.r.PickInt([]int{65536, 65537, 70000})
		g.catSeen["long-line"]++
		switch g.r.Intn(3) {
		case 0:
			out = append(out, "var generatedTable = \""+strings.Repeat("x", n)+"\"", "")
		case 1:
			out = append(out, "// "+strings.Repeat("-", n), "")
		default:
			out = append(out, "var generatedBytes = [...]byte{"+strings.Repeat("0, ", n/3)+"0}", "")
		}
	}
	nAnn := 0
	if maxAnnot > 0 {
		nAnn = g.r.Range(0, maxAnnot)
	}
	nLook := g.r.Intn(5)
	order := make([]bool, 0, nAnn+nLook)
	for i := 0; i < nAnn; i++ {
		order = append(order, true)
	}
	for i := 0; i < nLook; i++ {
		order = append(order, false)
	}
	for i := len(order) - 1; i > 0; i-- {
		j := g.r.Intn(i + 1)
		order[i], order[j] = order[j], order[i]
	}
	for _, ann := range order {
		var item []string
		if ann {
			item = g.annotated()
		} else {
			item = g.lookalike()
		}
		if g.r.Chance(1, 25) {
			// generated code: a line directive that names a file somewhere else (positions reported for what
			// follows change, the package the function belongs to does not)
			out = append(out, []string{"//line ../grammar/expr.y:40", "//line /usr/src/gen/tmpl.go:1", "//line zz/other.go:7:3"}[g.r.Intn(3)], "")
			g.catSeen["line-directive"]++
		}
		out = append(out, item...)
		if g.r.Chance(4, 5) {
			// declarations may follow each other without a blank line; no item ends
			// in a comment-only line, so nothing can leak into the next doc block
			out = append(out, "")
		}
	}
	if g.r.Chance(1, 4) {
		out = append(out, g.directive(g.decoy("eof-comment")))
	}
	if scanned {
		g.perFile = append(g.perFile, g.annot)
	}
	g.skipped = false
	return out
}

type c20Tree struct {
	files  []c20File
	dirs   [][]string
	maxDep int
}

func (g *c20Gen) tree() *c20Tree {
	r := g.r
	t := &c20Tree{}
	t.dirs = append(t.dirs, nil) // the root
	nd := r.Intn(7)
	large := r.Chance(1, 50) // a tree of the size of a real kernel: a hundred and more source files
	if large {
		nd = r.Range(12, 30)
	}
	for i := 0; i < nd; i++ {
		var d []string
		if r.Chance(1, 4) { // a fresh chain of the chosen depth
			dep := r.Range(1, 5)
			for j := 0; j < dep; j++ {
				d = append(d, c20DirNames[r.Intn(len(c20DirNames))])
			}
		} else {
			parent := t.dirs[r.Intn(len(t.dirs))]
			if len(parent) >= 5 {
				parent = parent[:4]
			}
			d = append(append([]string(nil), parent...), c20DirNames[r.Intn(len(c20DirNames))])
		}
		dup := false
		for _, e := range t.dirs {
			if strings.Join(e, "/") == strings.Join(d, "/") {
				dup = true
			}
		}
		if !dup {
			t.dirs = append(t.dirs, d)
		}
	}
	goNames := []string{"a.go", "b.go", "bootstrap.go", "panic.go", "test.go", "contest.go", "x_test_amd64.go", "my_testing.go", "z9.go", "test_.go", "UPPER.go", "Self_Test.go", "x_TEST.go", "k_test.Go.go"}
	testNames := []string{"a_test.go", "bootstrap_test.go", "export_test.go", "x_amd64_test.go"}
	otherNames := []string{"old.go.bak", "gen.go.tmpl", "rt0.s", "notes.txt", "go", "x.goo", "Makefile", "y.GO", "_notes.txt", "testdata", "_", ".hidden", "vendor", "_obj.txt"} // plain files, whatever their names mean to the go tool as directory names
	sparse := r.Chance(1, 6) // trees with very few annotations (including none)
	if large {
		for i := 0; i < 10; i++ {
			goNames = append(goNames, fmt.Sprintf("f%d.go", i), fmt.Sprintf("g%d_amd64.go", i))
		}
		g.catSeen["large-tree"]++
	}
	for _, d := range t.dirs {
		if len(d) > t.maxDep {
			t.maxDep = len(d)
		}
		rel := strings.Join(d, "/")
		if rel != "" {
			rel += "/"
		}
		used := map[string]bool{}
		pick := func(pool []string) string {
			for tries := 0; tries < 8; tries++ {
				n := pool[r.Intn(len(pool))]
				if !used[n] {
					used[n] = true
					return n
				}
			}
			return ""
		}
		nf := r.Intn(4)
		if large {
			nf = r.Range(3, 9)
		}
		for i := 0; i < nf; i++ {
			n := pick(goNames)
			if n == "" {
				continue
			}
			max := 6
			if sparse {
				max = r.Intn(2)
			}
			f := c20File{rel: rel + n, goSrc: true, crlf: r.Chance(1, 8), noEOL: r.Chance(1, 8)}
			f.lines = g.source(d, true, "", max)
			t.files = append(t.files, f)
		}
		if r.Chance(1, 3) {
			if n := pick(testNames); n != "" {
				f := c20File{rel: rel + n, goSrc: true}
				f.lines = g.source(d, false, "testfile", 3)
				t.files = append(t.files, f)
			}
		}
		if r.Chance(1, 3) {
			if n := pick(otherNames); n != "" {
				f := c20File{rel: rel + n, goSrc: true} // valid Go text, wrong extension
				f.lines = g.source(d, false, "nongo-file", 2)
				t.files = append(t.files, f)
			}
		}
	}
	return t
}

func c20Render(f c20File) []byte {
	nl := "\n"
	if f.crlf {
		nl = "\r\n"
	}
	s := strings.Join(f.lines, nl)
	if !f.noEOL {
		s += nl
	}
	return []byte(s)
}

func (t *c20Tree) write(root string) error {
	for _, d := range t.dirs {
		if err := os.MkdirAll(filepath.Join(root, filepath.FromSlash(strings.Join(d, "/"))), 0755); err != nil {
			return err
		}
	}
	for _, f := range t.files {
		if err := ioutil.WriteFile(filepath.Join(root, filepath.FromSlash(f.rel)), c20Render(f), 0644); err != nil {
			return err
		}
	}
	return nil
}

// ---------------------------------------------------------------------------
// Driving the real code.

func c20Observe(dir string) (tables [][]c20Entry, err error) {
	old, err := os.Getwd()
	if err != nil {
		return nil, err
	}
	if err := os.Chdir(dir); err != nil {
		return nil, err
	}
	defer os.Chdir(old)
	for rep := 0; rep < c20Reps; rep++ {
		ctx := &Context{Architectures: []string{"amd64"}}
		ctx.FindRedirects()
		tab := make([]c20Entry, 0, len(ctx.Redirects))
		for _, rd := range ctx.Redirects {
			if rd == nil {
				tab = append(tab, c20Entry{Src: "<nil entry>"})
				continue
			}
			tab = append(tab, c20Entry{Src: rd.SrcSymbol, Dst: rd.DstSymbol})
		}
		tables = append(tables, tab)
	}
	return tables, nil
}

// c20Compare checks one observed table against the expected multiset.
// It returns false after reporting the first disagreement class.
func c20Compare(c *vlib.Case, where string, want, got []c20Entry, decoys map[string]string) bool {
	w, g := c20Sorted(want), c20Sorted(got)
	var missing, extra []c20Entry
	i, j := 0, 0
	for i < len(w) || j < len(g) {
		switch {
		case j >= len(g) || (i < len(w) && c20EntryLess(w[i], g[j])):
			missing = append(missing, w[i])
			i++
		case i >= len(w) || c20EntryLess(g[j], w[i]):
			extra = append(extra, g[j])
			j++
		default:
			i++
			j++
		}
	}
	if len(missing) == 0 && len(extra) == 0 {
		return true
	}
	wantCount := func(e c20Entry) int {
		n := 0
		for _, x := range want {
			if x == e {
				n++
			}
		}
		return n
	}
	for _, e := range extra {
		if cat, ok := decoys[e.Src]; ok {
			c.Violationf("extra-entry:"+cat, "%s: the table contains %q -> %q, which comes from a %s look-alike and is not an annotation on a function declaration", where, e.Src, e.Dst, cat)
			return false
		}
	}
	for _, e := range extra {
		if wantCount(e) > 0 {
			c.Violationf("duplicate-entry", "%s: entry %q -> %q occurs more often (%d annotations in the source) than it is annotated", where, e.Src, e.Dst, wantCount(e))
			return false
		}
	}
	for _, e := range extra {
		for _, m := range missing {
			if m.Src == e.Src && m.Dst != e.Dst {
				c.Violationf("wrong-destination", "%s: annotation %q sits on the function %q but the table says %q", where, e.Src, m.Dst, e.Dst)
				return false
			}
		}
	}
	for _, e := range extra {
		for _, m := range missing {
			if m.Dst == e.Dst && strings.TrimSpace(m.Src) == strings.TrimSpace(e.Src) {
				c.Violationf("source-not-as-written", "%s: annotation on %q names %q but the table says %q", where, m.Dst, m.Src, e.Src)
				return false
			}
		}
	}
	if len(extra) > 0 {
		c.Violationf("extra-entry", "%s: %d unexpected entries, e.g. %s (missing: %s)", where, len(extra), c20Fmt(extra, 3), c20Fmt(missing, 3))
		return false
	}
	c.Violationf("missing-entry", "%s: %d of %d annotated entries are not in the table, e.g. %s", where, len(missing), len(want), c20Fmt(missing, 3))
	return false
}

func c20SameSeq(a, b []c20Entry) bool {
	if len(a) != len(b) {
		return false
	}
	for i := range a {
		if a[i] != b[i] {
			return false
		}
	}
	return true
}

// c20Check runs the content and the reproducibility oracle over the observed
// repetitions; it returns the number of distinct orders seen.
func c20Check(c *vlib.Case, run *vlib.Run, where string, want []c20Entry, tables [][]c20Entry, decoys map[string]string) int {
	contentOK := true
	for rep, tab := range tables {
		run.Count("tables_compared", 1)
		run.Count("entries_compared", int64(len(tab)))
		if contentOK && !c20Compare(c, fmt.Sprintf("%s, repetition %d", where, rep), want, tab, decoys) {
			contentOK = false // one report per tree is enough
		}
	}
	var orders [][]c20Entry
	for _, tab := range tables {
		seen := false
		for _, o := range orders {
			if c20SameSeq(o, tab) {
				seen = true
				break
			}
		}
		if !seen {
			orders = append(orders, tab)
		}
	}
	run.Count("sequence_comparisons", int64(len(tables)-1))
	if len(orders) > 1 {
		run.Count("trees_with_unstable_order", 1)
		c.Violationf("order-differs-between-runs", "%s: %d repetitions of FindRedirects on the same tree gave %d different tables (as sequences); first: [%s] another: [%s]",
			where, len(tables), len(orders), c20Fmt(orders[0], 4), c20Fmt(orders[1], 4))
	}
	return len(orders)
}

func c20Bucket(n int) string {
	switch {
	case n <= 3:
		return fmt.Sprintf("%d", n)
	case n <= 7:
		return "4-7"
	case n <= 15:
		return "8-15"
	case n <= 31:
		return "16-31"
	default:
		return "32+"
	}
}

func TestVerifC20(t *testing.T) {
	run := vlib.Start(t, "C20")
	defer run.Finish()
	run.SetRule("case = generated source tree (1-7 directories of depth 0-5, 0-3 scanned .go files per directory; one tree in 50 has 12-30 directories with 3-9 files each, the size of a real kernel tree; 0-6 annotated functions per file with 1-3 directives each mixed with other directives/prose/block comments, plus look-alikes: annotations in _test.go and non-.go files, on var/const/type/grouped/field/interface-method declarations, on function literals, inside bodies, in block comments, in raw strings, detached by a blank line, trailing the previous line, after a function, ordinary comments mentioning the directive, other go: directives), written to disk; FindRedirects runs 20 times inside it; then FindRedirects + CompleteRedirects run twice from scratch against a synthetic ELF64 image (random section order and padding, .goredirectstbl with 0-3 spare entries, symbol table in random order with every source/destination symbol at a distinct address plus look-alike names) and the file is compared byte for byte with the expected image; non-trivial = expected table has >= 2 entries AND the tree contains >= 1 look-alike AND >= 2 scanned files; distinct = fingerprint of every file path and content")
	run.Assume("the process changes its working directory into the tree, as kbuild is started inside the kernel directory; FindRedirects is driven on a fresh Context per repetition")
	run.Assume("generated files are checked to parse (go/parser, syntax only) before the code under test sees them, because a parse failure makes FindRedirects exit the process; the parser is not used by the oracle")
	run.Assume("expected destination = \"" + c20Prefix + "\" + \"/<dir>\" for every directory component + \".\" + function name, i.e. the import path of the directory, not the package clause")
	run.Note("not generated (statement leaves them open): methods, directives without an argument, words that merely start with the directive (//go:redirect-fromX), vendor/testdata/hidden directories, build-constrained files")

	work := os.Getenv("VERIF_WORK")
	if work != "" {
		if err := os.MkdirAll(work, 0755); err != nil {
			work = ""
		}
	}
	base, err := ioutil.TempDir(work, "c20-trees-")
	if err != nil {
		run.Inconclusive("cannot create a scratch directory: " + err.Error())
		return
	}
	defer os.RemoveAll(base)

	c20Trees, c20Expected, c20Lookalikes, c20MultiDirective := 0, 0, 0, 0
	n := run.N(800, 30000)
	run.Cases(n, func(c *vlib.Case) {
		g := &c20Gen{r: c.R, decoys: map[string]string{}, catSeen: map[string]int{}}
		tree := g.tree()
		root := filepath.Join(base, fmt.Sprintf("t%d", c.Idx), "kernel")
		defer os.RemoveAll(filepath.Dir(root))
		if err := tree.write(root); err != nil {
			run.Inconclusive("cannot write the generated tree: " + err.Error())
			return
		}

		scannedFiles, lookalikes := 0, 0
		fp := vlib.NewFP()
		for _, f := range tree.files {
			fp = fp.Str(f.rel).Bytes(c20Render(f))
		}
		for _, cat := range c20Cats {
			lookalikes += g.catSeen[cat]
		}
		scannedFiles = len(g.perFile)
		run.Max("max_scanned_files_in_one_tree", int64(scannedFiles))
		if scannedFiles > 64 {
			run.Count("trees_with_more_than_64_scanned_files", 1)
		}

		// self-checks of the harness: files parse; generator record == line scanner
		fset := token.NewFileSet()
		for _, f := range tree.files {
			if !f.goSrc {
				continue
			}
			if _, err := parser.ParseFile(fset, f.rel, c20Render(f), parser.ParseComments); err != nil {
				run.Count("selfcheck_unparseable", 1)
				run.Inconclusive(fmt.Sprintf("harness bug: generated file does not parse (case %d): %v", c.Idx, err))
				return
			}
		}
		var st c20ScanStats
		scanned, err := c20ScanTree(root, &st)
		if err != nil {
			run.Inconclusive("scanner could not read the generated tree: " + err.Error())
			return
		}
		a, b := c20Sorted(g.expect), c20Sorted(scanned)
		if !c20SameSeq(a, b) || st.files != scannedFiles {
			run.Count("selfcheck_disagreements", 1)
			run.Inconclusive(fmt.Sprintf("harness bug: generator record and line scanner disagree (case %d): generator [%s] scanner [%s] files %d/%d", c.Idx, c20Fmt(a, 6), c20Fmt(b, 6), scannedFiles, st.files))
			return
		}
		run.Count("selfcheck_agreements", 1)

		c.Begin(map[string]interface{}{"dirs": len(tree.dirs), "max_depth": tree.maxDep, "files": len(tree.files),
			"scanned_files": scannedFiles, "expected_entries": len(g.expect), "lookalikes": lookalikes})

		tables, err := c20Observe(root)
		if err != nil {
			run.Inconclusive("cannot enter the generated tree: " + err.Error())
			return
		}
		orders := c20Check(c, run, "generated tree", g.expect, tables, g.decoys)
		if !c.Failed() {
			// the table as it ends up in the image (skipped when the table itself is already wrong)
			c20ImagePhase(c, run, root, filepath.Dir(root), c.R.Fork(0xE1F))
			if !c.Failed() {
				c20AsmPhase(c, run, root, filepath.Dir(root), c.R.Fork(0xA53))
			}
		}

		// evidence
		run.Count("trees", 1)
		c20Trees++
		c20Expected += len(g.expect)
		c20Lookalikes += lookalikes
		for _, k := range g.perFunc {
			if k > 1 {
				c20MultiDirective++
			}
		}
		run.Count("find_redirects_calls", int64(len(tables)))
		run.Count("files_written", int64(len(tree.files)))
		run.Count("files_scanned", int64(scannedFiles))
		run.Count("files_test_or_nongo", int64(st.testFiles+st.otherFiles))
		run.Count("expected_entries", int64(len(g.expect)))
		run.Count("lookalikes", int64(lookalikes))
		run.Count("functions_seen_by_scanner", int64(st.funcs))
		run.Max("max_expected_entries", int64(len(g.expect)))
		run.Max("max_distinct_orders_per_tree", int64(orders))
		run.SetAdd("depth_buckets", fmt.Sprintf("depth=%d", tree.maxDep))
		run.SetAdd("entries_buckets", "entries="+c20Bucket(len(g.expect)))
		if len(g.expect) == 0 {
			run.Count("trees_with_empty_table", 1)
		}
		for _, k := range g.perFunc {
			run.Count(fmt.Sprintf("functions_with_%d_directives", k), 1)
		}
		for _, k := range g.perFile {
			run.SetAdd("annotated_functions_per_file", fmt.Sprintf("%d", k))
		}
		for _, cat := range c20Cats {
			if g.catSeen[cat] > 0 {
				run.Count("lookalike_"+cat, int64(g.catSeen[cat]))
				run.SetAdd("lookalike_categories", cat)
			}
		}
		for _, e := range g.expect {
			if !strings.Contains(strings.TrimPrefix(e.Dst, c20Prefix), "/") {
				run.Count("entries_in_root_directory", 1)
			}
		}
		if len(g.expect) >= 2 && lookalikes >= 1 && scannedFiles >= 2 {
			run.Nontrivial(fp)
		}
		if run.WantSample() && len(g.expect) >= 2 && len(g.expect) <= 6 {
			var fl []string
			for _, f := range tree.files {
				fl = append(fl, f.rel)
			}
			run.Sample(map[string]interface{}{"case": c.Idx, "files": fl, "expected": c20Fmt(c20Sorted(g.expect), 6),
				"observed_first_run": c20Fmt(tables[0], 6), "lookalikes": lookalikes, "distinct_orders": orders})
		}
	})

	// Fixed case 1: the real kernel tree.
	run.OneCase(vlib.FixedBase+1, func(c *vlib.Case) {
		repo := os.Getenv("VERIF_REPO")
		if repo == "" {
			repo = "/repo"
		}
		kdir := filepath.Join(repo, "kernel")
		var st c20ScanStats
		want, err := c20ScanTree(kdir, &st)
		if err != nil {
			run.Inconclusive("cannot scan " + kdir + ": " + err.Error())
			return
		}
		c.Begin(map[string]interface{}{"tree": kdir, "scanned_files": st.files, "test_files": st.testFiles, "expected_entries": len(want)})
		tables, err := c20Observe(kdir)
		if err != nil {
			run.Inconclusive("cannot enter " + kdir + ": " + err.Error())
			return
		}
		run.Count("real_tree_files_scanned", int64(st.files))
		run.Count("real_tree_test_files_skipped", int64(st.testFiles))
		run.Count("real_tree_functions", int64(st.funcs))
		run.Count("real_tree_methods", int64(st.methods))
		run.Count("real_tree_expected_entries", int64(len(want)))
		run.Count("real_tree_find_redirects_calls", int64(len(tables)))
		if st.methodDirectives > 0 || st.gluedPrefix > 0 {
			run.Inconclusive(fmt.Sprintf("real tree contains %d directives on methods and %d glued directive words: outside what the statement defines", st.methodDirectives, st.gluedPrefix))
		}
		// pinned facts about the real tree: eight annotations, six in goruntime, two in kfmt
		gr, kf := 0, 0
		for _, e := range want {
			switch {
			case strings.HasPrefix(e.Dst, c20Prefix+"/goruntime."):
				gr++
			case strings.HasPrefix(e.Dst, c20Prefix+"/kfmt."):
				kf++
			}
		}
		if len(want) != 8 || gr != 6 || kf != 2 {
			run.Inconclusive(fmt.Sprintf("the real tree no longer has the eight pinned annotations (scanner found %d: %d goruntime, %d kfmt): update the pin", len(want), gr, kf))
		}
		for rep, tab := range tables {
			if len(tab) != 8 {
				c.Violationf("real-tree-count", "%s: repetition %d found %d redirects, the tree has 8 annotations: [%s]", kdir, rep, len(tab), c20Fmt(tab, 10))
				break
			}
		}
		orders := c20Check(c, run, "real kernel tree", want, tables, map[string]string{})
		run.Max("real_tree_distinct_orders", int64(orders))
		run.Sample(map[string]interface{}{"case": "real kernel tree", "expected": c20Fmt(c20Sorted(want), 8), "observed_first_run": c20Fmt(tables[0], 8), "distinct_orders": orders})
	})

	// Fixed case 2: one hand-written tree that shows every clause of the statement at once.
	run.OneCase(vlib.FixedBase+2, func(c *vlib.Case) {
		root := filepath.Join(base, "fixed2", "kernel")
		defer os.RemoveAll(filepath.Dir(root))
		files := map[string]string{
			"main.go":             "package main\n\n//go:redirect-from runtime.rootfn\nfunc Root() {}\n",
			"mm/vmm/map.go":       "package vmm\n\n// A does a.\n//go:nosplit\n//go:redirect-from runtime.a1\n//go:redirect-from runtime.a2\nfunc A() {}\n//go:redirect-from runtime.b\nfunc B() {}\n\n//go:redirect-from decoy.var\nvar V = 1\n\n//go:redirect-from runtime.c\nfunc C() {\n\t//go:redirect-from decoy.body\n}\n",
			"mm/vmm/map_test.go":  "package vmm\n\n//go:redirect-from decoy.test\nfunc T() {}\n",
			"a/b/c/d/e/deep.go":   "package e\n\n//go:redirect-from runtime.deep\nfunc Deep()\n",
			"a/b/c/d/e/notes.txt": "//go:redirect-from decoy.txt\nfunc Txt() {}\n",
			"a/b/plain.go":        "package b\n\n//go:redirect-from decoy.detached\n\nfunc Plain() {}\n",
		}
		names := make([]string, 0, len(files))
		for k := range files {
			names = append(names, k)
		}
		sort.Strings(names)
		for _, k := range names {
			p := filepath.Join(root, filepath.FromSlash(k))
			os.MkdirAll(filepath.Dir(p), 0755)
			if err := ioutil.WriteFile(p, []byte(files[k]), 0644); err != nil {
				run.Inconclusive("cannot write fixed tree: " + err.Error())
				return
			}
		}
		want := []c20Entry{
			{"runtime.rootfn", c20Prefix + ".Root"},
			{"runtime.a1", c20Prefix + "/mm/vmm.A"},
			{"runtime.a2", c20Prefix + "/mm/vmm.A"},
			{"runtime.b", c20Prefix + "/mm/vmm.B"},
			{"runtime.c", c20Prefix + "/mm/vmm.C"},
			{"runtime.deep", c20Prefix + "/a/b/c/d/e.Deep"},
		}
		decoys := map[string]string{"decoy.var": "nonfunc-var", "decoy.body": "body", "decoy.test": "testfile", "decoy.txt": "nongo-file", "decoy.detached": "detached"}
		var st c20ScanStats
		scanned, err := c20ScanTree(root, &st)
		if err != nil || !c20SameSeq(c20Sorted(scanned), c20Sorted(want)) {
			run.Inconclusive(fmt.Sprintf("harness bug: line scanner disagrees with the hand-written expectation: [%s] err=%v", c20Fmt(c20Sorted(scanned), 8), err))
			return
		}
		c.Begin(map[string]interface{}{"tree": "fixed hand-written tree", "expected_entries": len(want)})
		tables, err := c20Observe(root)
		if err != nil {
			run.Inconclusive("cannot enter the fixed tree: " + err.Error())
			return
		}
		c20Check(c, run, "fixed tree", want, tables, decoys)
		run.Count("fixed_tree_find_redirects_calls", int64(len(tables)))
	})

	if !run.Replay && c20Trees > 0 && (c20Expected == 0 || c20Lookalikes == 0 || c20MultiDirective == 0) {
		run.Inconclusive(fmt.Sprintf("workload did not exercise the property: %d trees, %d expected entries, %d look-alikes, %d functions with several directives", c20Trees, c20Expected, c20Lookalikes, c20MultiDirective))
	}
}
