//go:build verif
// +build verif

package multiboot

import (
	"encoding/binary"
	"fmt"
	"os"
	"runtime/debug"
	"sort"
	"strings"
	"sync/atomic"
	"testing"
	"time"

	"github.com/ProjectSerenity/firefly/kernel/zzverif/vlib"
)

// C10 — multiboot information decoded exactly, no read past its end.
//
// The generator produces an abstract description of a well-formed multiboot2
// information block (c10Block), serialises it following the multiboot2
// specification and places the bytes against PROT_NONE guard pages (tail
// placement: last byte of the block is the last byte before the guard page;
// head placement: first byte of the block is the first byte after a guard
// page). The ELF section-name string table lives in its own guard-paged
// arena. The oracle is computed from the description only; nothing is read
// back from the encoded bytes and no constant or helper of the package under
// test is used to compute an expectation.

// Tag type numbers from the multiboot2 specification.
const (
	c10TCmdline = 1
	c10TMmap    = 6
	c10TFB      = 8
	c10TElf     = 9
)

const (
	c10BlockArenaSize = 96 * vlib.PageSize
	c10StrArenaSize   = 32 * vlib.PageSize
	c10Poison         = 0xA5
)

// c10Tally mirrors the counters of this process so that the harness can tell
// at the end whether the facets it exists for were reached.
var c10Tally = map[string]int64{}

func c10Count(run *vlib.Run, name string, d int64) {
	c10Tally[name] += d
	run.Count(name, d)
}

// ---------------------------------------------------------------------------
// Description of a block.

type c10Region struct {
	addr, length uint64
	typ          uint32
	extra        []byte // bytes after the 24 defined ones, up to entry_size ("future fields")
}

type c10Mmap struct {
	entrySize uint32
	regions   []c10Region
	stopAt    int // the early-stop run returns false from the stopAt-th callback (1-based)
}

type c10FB struct {
	addr                 uint64
	pitch, width, height uint32
	bpp, typ             uint8
	rgb                  [6]uint8 // type 1: red pos, red size, green pos, green size, blue pos, blue size
	palette              []byte   // type 0: u16 colour count followed by 3 bytes per colour
}

type c10Section struct {
	name      string // what the name must decode to
	nameOff   int    // offset into the string table; -1 = the final NUL of the table (resolved at finalisation)
	shType    uint32
	flags     uint64
	addr      uint64
	offset    uint64
	size      uint64
	link      uint32
	info      uint32
	addrAlign uint64
	entSize   uint64
	isStrtab  bool
}

type c10Elf struct {
	sections []c10Section
	shndx    uint32
	noStrtab bool // every section is empty; the string-table section's address is inaccessible
}

type c10Cmd struct {
	text   string
	want   map[string][]string // key → acceptable values, in token order
	free   map[string]bool     // keys the oracle says nothing about
	tokens int
	open   int // tokens outside the oracle (>=2 '=' or empty key)
}

type c10Tag struct {
	typ  uint32
	kind string // cmdline | mmap | fb | elf | other
	raw  []byte // payload of an "other" tag
	cmd  *c10Cmd
	mm   *c10Mmap
	fb   *c10FB
	elf  *c10Elf
}

type c10Block struct {
	tags   []c10Tag
	strtab []byte
	padSd  uint64 // seed of the alignment-padding content (arbitrary per the specification)
}

func (b *c10Block) first(kind string) *c10Tag {
	for i := range b.tags {
		if b.tags[i].kind == kind {
			return &b.tags[i]
		}
	}
	return nil
}

func (b *c10Block) count(kind string) int {
	n := 0
	for i := range b.tags {
		if b.tags[i].kind == kind {
			n++
		}
	}
	return n
}

// ---------------------------------------------------------------------------
// Generators.

func c10GenU64(r *vlib.Rand) uint64 {
	switch r.Intn(8) {
	case 0:
		return 0
	case 1:
		return ^uint64(0)
	case 2:
		return uint64(r.Intn(1<<20)) << 12
	case 3:
		return uint64(1) << uint(r.Intn(64))
	case 4:
		return r.U64()
	default:
		return r.U64() >> uint(r.Intn(56))
	}
}

func c10GenRegionType(r *vlib.Rand) uint32 {
	switch r.Intn(12) {
	case 0, 1, 2, 3, 4, 5:
		return uint32(r.Intn(8)) // 0..7
	case 6:
		return 1 << 31
	case 7:
		return ^uint32(0)
	case 8:
		return r.U32()
	case 9:
		return uint32(r.Range(1, 4)) | uint32(r.Range(1, 0xffffff))<<8 // low byte looks like a defined type
	case 10:
		return 1<<31 | uint32(r.Range(0, 5))
	default:
		return uint32(r.Range(1, 4))
	}
}

func c10TypeClass(t uint32) string {
	switch {
	case t == 0:
		return "0"
	case t <= 4:
		return "1..4"
	case t == 5:
		return "5"
	case t <= 7:
		return "6..7"
	case t == 1<<31:
		return "2^31"
	case t == ^uint32(0):
		return "2^32-1"
	default:
		return "other>=8"
	}
}

// c10WantType is the statement's normalisation: the defined set is 1..4,
// everything else is reported as reserved (2).
func c10WantType(raw uint32) uint32 {
	if raw >= 1 && raw <= 4 {
		return raw
	}
	return 2
}

func c10GenMmap(r *vlib.Rand) *c10Mmap {
	m := &c10Mmap{}
	switch r.Intn(10) {
	case 0, 1, 2, 3:
		m.entrySize = 24
	case 4, 5, 6:
		m.entrySize = uint32(24 + 8*r.Intn(6)) // 24,32,..,64
	case 7:
		m.entrySize = 64
	case 8:
		m.entrySize = uint32(24 + 4*r.Intn(11)) // multiples of 4
	default:
		m.entrySize = uint32(r.Range(24, 64))
	}
	var n int
	switch r.Intn(8) {
	case 0:
		n = 0
	case 1:
		n = 1
	case 2:
		n = 40
	case 3:
		n = r.Range(13, 40)
	default:
		n = r.Range(2, 12)
	}
	for i := 0; i < n; i++ {
		m.regions = append(m.regions, c10Region{
			addr: c10GenU64(r), length: c10GenU64(r), typ: c10GenRegionType(r),
			extra: r.Bytes(int(m.entrySize) - 24),
		})
	}
	if n > 0 {
		m.stopAt = r.Range(1, n)
	}
	return m
}

func c10GenFB(r *vlib.Rand) *c10FB {
	f := &c10FB{addr: c10GenU64(r), typ: uint8(r.Intn(3))}
	if r.Chance(1, 6) {
		// a type the format does not define: the tag then carries the common part only, no colour block
		f.typ = uint8(r.PickInt([]int{3, 4, 7, 8, 0x10, 0x7f, 0x80, 0x81, 0xfe, 0xff, r.Range(3, 255)}))
	}
	switch r.Intn(3) {
	case 0:
		f.width, f.height, f.bpp = 1024, 768, 32
		f.pitch = f.width * 4
	case 1:
		f.width, f.height, f.bpp = 80, 25, 16
		f.pitch = 160
	default:
		f.width, f.height, f.pitch, f.bpp = r.U32(), r.U32(), r.U32(), uint8(r.Intn(256))
	}
	switch f.typ {
	case 0:
		n := r.Intn(17)
		f.palette = make([]byte, 2, 2+3*n)
		binary.LittleEndian.PutUint16(f.palette, uint16(n))
		f.palette = append(f.palette, r.Bytes(3*n)...)
	case 1:
		if r.Bool() {
			f.rgb = [6]uint8{16, 8, 8, 8, 0, 8}
		} else {
			for i := range f.rgb {
				f.rgb[i] = uint8(r.Intn(256))
			}
		}
	}
	return f
}

// c10Names builds the section-name string table.
type c10Names struct {
	tab  []byte
	offs []int    // offsets of complete entries
	strs []string // the complete entries
}

func (n *c10Names) add(s string) int {
	off := len(n.tab)
	n.tab = append(n.tab, s...)
	n.tab = append(n.tab, 0)
	n.offs = append(n.offs, off)
	n.strs = append(n.strs, s)
	return off
}

var c10NamePool = []string{".text", ".rodata", ".data", ".bss", ".noptrbss", ".noptrdata", ".rela.text", ".symtab",
	".strtab", ".gopclntab", ".go.buildinfo", ".note.go.buildid", ".typelink", ".itablink", ".debug_info", ".rt0", "x"}

const c10NameAlphabet = "abcdefghijklmnopqrstuvwxyzABCDEFGHIJKLMNOPQRSTUVWXYZ0123456789._-$ \t=\x01\x7f\x80\xff"

func c10GenName(r *vlib.Rand) string {
	if r.Chance(2, 3) {
		return c10NamePool[r.Intn(len(c10NamePool))]
	}
	n := r.Range(1, 24)
	var sb strings.Builder
	for i := 0; i < n; i++ {
		sb.WriteByte(c10NameAlphabet[r.Intn(len(c10NameAlphabet))])
	}
	return sb.String()
}

// pick chooses how a section is named and returns (offset, expected name).
func (n *c10Names) pick(r *vlib.Rand) (int, string) {
	switch k := r.Intn(20); {
	case k == 0:
		return 0, "" // the leading NUL of the table
	case k == 1:
		return -1, "" // the final NUL of the table: the very last byte before the guard page
	case k <= 4 && len(n.strs) > 0: // suffix of an existing entry (linkers merge suffixes)
		i := r.Intn(len(n.strs))
		if len(n.strs[i]) >= 2 {
			cut := r.Range(1, len(n.strs[i])-1)
			return n.offs[i] + cut, n.strs[i][cut:]
		}
		return n.offs[i], n.strs[i]
	case k <= 6 && len(n.strs) > 0: // share an existing entry
		i := r.Intn(len(n.strs))
		return n.offs[i], n.strs[i]
	}
	s := c10GenName(r)
	return n.add(s), s
}

func c10GenElf(r *vlib.Rand, names *c10Names) *c10Elf {
	e := &c10Elf{}
	var n int
	switch r.Intn(12) {
	case 0:
		n = 0
	case 1:
		n = 1
	case 2:
		n = 30
	case 3:
		n = r.Range(9, 30)
	default:
		n = r.Range(2, 8)
	}
	if r.Chance(1, 60) {
		// a section table whose byte offsets do not fit 16 bits (the counts themselves are 16-bit fields of the tag)
		n = r.PickInt([]int{1023, 1024, 1025, r.Range(1026, 1400)})
	}
	if n == 0 {
		return e
	}
	e.shndx = uint32(r.Intn(n))
	if n > 1000 && r.Bool() {
		e.shndx = uint32(r.Range(1000, n-1))
	}
	e.noStrtab = r.Chance(1, 15)
	for i := 0; i < n; i++ {
		var s c10Section
		if i == 0 && n >= 2 && uint32(i) != e.shndx && r.Bool() {
			// the ELF null section: all zero
			e.sections = append(e.sections, s)
			continue
		}
		s.nameOff, s.name = names.pick(r)
		s.shType = uint32(r.Intn(12))
		switch r.Intn(6) {
		case 0:
			s.flags = 0
		case 1:
			s.flags = 2 // A
		case 2:
			s.flags = 3 // WA
		case 3:
			s.flags = 6 // AX
		case 4:
			s.flags = uint64(r.Intn(8))
		default:
			s.flags = uint64(r.U32())
		}
		s.addr = c10GenU64(r)
		s.offset = c10GenU64(r)
		if !r.Chance(1, 4) {
			s.size = c10GenU64(r)
			if s.size == 0 {
				s.size = 1
			}
		}
		s.link, s.info = uint32(r.Intn(n)), uint32(r.Intn(4))
		s.addrAlign = uint64(1) << uint(r.Intn(13))
		s.entSize = uint64(r.Intn(3) * 8)
		if uint32(i) == e.shndx {
			s.isStrtab = true
			s.shType = 3 // SHT_STRTAB
			s.flags = 0
		}
		if e.noStrtab {
			s.size = 0
		}
		e.sections = append(e.sections, s)
	}
	return e
}

const c10CmdAlphabet = "abcdefghijklmnopqrstuvwxyzABCDEFGHIJKLMNOPQRSTUVWXYZ0123456789_-./:,+@%"

var c10CmdWords = []string{"console", "consoleFont", "consoleLogo", "root", "quiet", "debug", "nofoo", "vga", "é", "日本", "ß9"}

func c10GenWord(r *vlib.Rand, allowEmpty bool) string {
	if allowEmpty && r.Chance(1, 8) {
		return ""
	}
	if r.Chance(1, 3) {
		return c10CmdWords[r.Intn(len(c10CmdWords))]
	}
	n := r.Range(1, 10)
	var sb strings.Builder
	for i := 0; i < n; i++ {
		sb.WriteByte(c10CmdAlphabet[r.Intn(len(c10CmdAlphabet))])
	}
	return sb.String()
}

func c10GenSep(r *vlib.Rand) string {
	n := 1
	if r.Chance(1, 3) {
		n = r.Range(2, 5)
	}
	var sb strings.Builder
	for i := 0; i < n; i++ {
		switch r.Intn(8) {
		case 0, 1:
			sb.WriteByte('\t')
		case 2:
			if r.Chance(1, 4) {
				sb.WriteByte('\n')
			} else {
				sb.WriteByte(' ')
			}
		default:
			sb.WriteByte(' ')
		}
	}
	return sb.String()
}

// c10GenCmd generates the command-line text and, from the token list (not from
// the text), the oracle: a token without '=' is a flag k→k, a token with
// exactly one '=' is k→v; tokens with two or more '=' and tokens with an empty
// key are outside the oracle (their key is unconstrained). When a key occurs in
// several in-oracle tokens the statement does not say which wins: any of the
// values is accepted.
func c10GenCmd(r *vlib.Rand) *c10Cmd {
	c := &c10Cmd{want: map[string][]string{}, free: map[string]bool{}}
	var n int
	switch r.Intn(6) {
	case 0:
		n = 0
	case 1:
		n = 1
	default:
		n = r.Range(2, 12)
	}
	var sb strings.Builder
	if r.Chance(1, 4) {
		sb.WriteString(c10GenSep(r))
	}
	var keys []string
	for i := 0; i < n; i++ {
		if i > 0 {
			sb.WriteString(c10GenSep(r))
		}
		key := c10GenWord(r, false)
		if len(keys) > 0 && r.Chance(1, 12) {
			key = keys[r.Intn(len(keys))] // repeated key
		}
		var tok string
		switch k := r.Intn(20); {
		case k < 10:
			v := c10GenWord(r, true)
			tok = key + "=" + v
			c.want[key] = append(c.want[key], v)
		case k < 17:
			tok = key
			c.want[key] = append(c.want[key], key)
		case k < 19:
			tok = key + "=" + c10GenWord(r, true) + "=" + c10GenWord(r, true)
			if r.Chance(1, 4) {
				tok += "="
			}
			c.free[key] = true
			c.open++
		default:
			tok = "=" + c10GenWord(r, true)
			c.free[""] = true
			c.open++
		}
		keys = append(keys, key)
		sb.WriteString(tok)
		c.tokens++
	}
	if r.Chance(1, 4) {
		sb.WriteString(c10GenSep(r))
	}
	c.text = sb.String()
	return c
}

func c10GenOtherType(r *vlib.Rand) uint32 {
	decoded := []uint32{0, 1, 6, 8, 9}
	common := []uint32{2, 3, 4, 5, 7, 10, 11, 12, 13, 14, 15, 16, 17, 18, 19, 20, 21}
	for {
		var t uint32
		switch r.Intn(8) {
		case 0, 1, 2:
			t = common[r.Intn(len(common))]
		case 3:
			t = decoded[r.Intn(len(decoded))] | uint32(r.Range(1, 0xffff))<<16 // low 16 bits look like a decoded type / the end tag
		case 4:
			t = decoded[r.Intn(len(decoded))] | uint32(r.Range(1, 0xff))<<8 // low byte looks like one
		case 5:
			t = 1<<31 | decoded[r.Intn(len(decoded))]
		case 6:
			t = ^uint32(0) - uint32(r.Intn(4))
		default:
			t = r.U32()
		}
		if t != 0 && t != c10TCmdline && t != c10TMmap && t != c10TFB && t != c10TElf {
			return t
		}
	}
}

func c10GenOther(r *vlib.Rand) c10Tag {
	var n int
	switch r.Intn(6) {
	case 0:
		n = 0
	case 1:
		n = 8 * r.Intn(8)
	default:
		n = r.Range(1, 71)
	}
	raw := r.Bytes(n)
	if r.Chance(1, 4) {
		// payload that looks like headers of decoded tags / end tags
		words := []uint32{c10TMmap, 16, c10TCmdline, 12, 0, 8, c10TFB, 32, c10TElf, 20}
		for i := 0; i+4 <= len(raw); i += 4 {
			binary.LittleEndian.PutUint32(raw[i:], words[(i/4)%len(words)])
		}
	}
	return c10Tag{typ: c10GenOtherType(r), kind: "other", raw: raw}
}

func c10GenBlock(r *vlib.Rand) *c10Block {
	b := &c10Block{padSd: r.U64()}
	names := &c10Names{tab: []byte{0}}
	none := r.Chance(1, 16)
	mk := func(kind string) c10Tag {
		switch kind {
		case "cmdline":
			return c10Tag{typ: c10TCmdline, kind: kind, cmd: c10GenCmd(r.Fork(1))}
		case "mmap":
			return c10Tag{typ: c10TMmap, kind: kind, mm: c10GenMmap(r.Fork(2))}
		case "fb":
			return c10Tag{typ: c10TFB, kind: kind, fb: c10GenFB(r.Fork(3))}
		default:
			return c10Tag{typ: c10TElf, kind: kind, elf: c10GenElf(r.Fork(4), names)}
		}
	}
	var tags []c10Tag
	for _, kind := range []string{"cmdline", "mmap", "fb", "elf"} {
		if none || !r.Chance(3, 4) {
			continue
		}
		tags = append(tags, mk(kind))
		if r.Chance(1, 5) {
			tags = append(tags, mk(kind))
			if r.Chance(1, 4) {
				tags = append(tags, mk(kind))
			}
		}
	}
	for i, n := 0, r.Intn(7); i < n; i++ {
		tags = append(tags, c10GenOther(r))
	}
	for _, i := range r.Perm(len(tags)) {
		b.tags = append(b.tags, tags[i])
	}
	// finalise the string table: resolve "final NUL" names and the size of the
	// string-table sections
	b.strtab = names.tab
	for ti := range b.tags {
		e := b.tags[ti].elf
		if e == nil {
			continue
		}
		for si := range e.sections {
			s := &e.sections[si]
			if s.nameOff < 0 {
				s.nameOff = len(b.strtab) - 1
			}
			if s.isStrtab && !e.noStrtab {
				s.size = uint64(len(b.strtab))
			}
		}
	}
	return b
}

// ---------------------------------------------------------------------------
// Encoder (multiboot2 specification, section "Boot information format").

func c10Put32(buf []byte, v uint32) []byte {
	return append(buf, byte(v), byte(v>>8), byte(v>>16), byte(v>>24))
}
func c10Put64(buf []byte, v uint64) []byte {
	return c10Put32(c10Put32(buf, uint32(v)), uint32(v>>32))
}

func (t *c10Tag) payload(strtabAddr, badAddr uint64) []byte {
	var p []byte
	switch t.kind {
	case "other":
		p = append(p, t.raw...)
	case "cmdline":
		p = append(p, t.cmd.text...)
		p = append(p, 0)
	case "mmap":
		p = c10Put32(p, t.mm.entrySize)
		p = c10Put32(p, 0) // entry_version
		for _, rg := range t.mm.regions {
			p = c10Put64(p, rg.addr)
			p = c10Put64(p, rg.length)
			p = c10Put32(p, rg.typ)
			p = c10Put32(p, 0) // reserved
			p = append(p, rg.extra...)
		}
	case "fb":
		f := t.fb
		p = c10Put64(p, f.addr)
		p = c10Put32(p, f.pitch)
		p = c10Put32(p, f.width)
		p = c10Put32(p, f.height)
		p = append(p, f.bpp, f.typ, 0, 0)
		switch f.typ {
		case 0:
			p = append(p, f.palette...)
		case 1:
			p = append(p, f.rgb[:]...)
		}
	case "elf":
		e := t.elf
		p = c10Put32(p, uint32(len(e.sections)))
		p = c10Put32(p, 64) // entsize: Elf64_Shdr
		p = c10Put32(p, e.shndx)
		for _, s := range e.sections {
			addr := s.addr
			if s.isStrtab {
				addr = strtabAddr
				if e.noStrtab {
					addr = badAddr
				}
			}
			p = c10Put32(p, uint32(s.nameOff))
			p = c10Put32(p, s.shType)
			p = c10Put64(p, s.flags)
			p = c10Put64(p, addr)
			p = c10Put64(p, s.offset)
			p = c10Put64(p, s.size)
			p = c10Put32(p, s.link)
			p = c10Put32(p, s.info)
			p = c10Put64(p, s.addrAlign)
			p = c10Put64(p, s.entSize)
		}
	}
	return p
}

// encode serialises the block: total_size, reserved, then every tag at an
// 8-byte aligned offset (size field = header + payload, padding excluded),
// terminated by the end tag (type 0, size 8). total_size covers everything
// including the end tag.
func (b *c10Block) encode(strtabAddr, badAddr uint64) []byte {
	pad := vlib.NewRand(b.padSd)
	buf := make([]byte, 8, 512)
	for i := range b.tags {
		for len(buf)%8 != 0 {
			buf = append(buf, byte(pad.U64())|1) // padding content is arbitrary; non-zero on purpose
		}
		p := b.tags[i].payload(strtabAddr, badAddr)
		buf = c10Put32(buf, b.tags[i].typ)
		buf = c10Put32(buf, uint32(8+len(p)))
		buf = append(buf, p...)
	}
	for len(buf)%8 != 0 {
		buf = append(buf, byte(pad.U64())|1)
	}
	buf = c10Put32(buf, 0)
	buf = c10Put32(buf, 8)
	binary.LittleEndian.PutUint32(buf[0:], uint32(len(buf)))
	binary.LittleEndian.PutUint32(buf[4:], 0)
	return buf
}

// c10Decoys is a run of well-formed tags that is placed directly AFTER the
// block in the head placement (where no guard page follows the block): a scan
// that does not stop at the end tag finds them and reports non-empty results
// where the oracle expects the tag to be absent.
func c10Decoys(strAddr uint64) []byte {
	d := &c10Block{padSd: 1}
	d.tags = []c10Tag{
		{typ: c10TCmdline, kind: "cmdline", cmd: &c10Cmd{text: "verifdecoy=1"}},
		{typ: c10TMmap, kind: "mmap", mm: &c10Mmap{entrySize: 24, regions: []c10Region{{addr: 0xdec0000, length: 0x1000, typ: 1}}}},
		{typ: c10TFB, kind: "fb", fb: &c10FB{addr: 0xdec0000, typ: 2, width: 80, height: 25, pitch: 160, bpp: 16}},
		{typ: c10TElf, kind: "elf", elf: &c10Elf{sections: []c10Section{{size: 1, isStrtab: true}}}},
	}
	return d.encode(strAddr, strAddr)[8:]
}

func (b *c10Block) summary() string {
	var sb strings.Builder
	for i := range b.tags {
		t := &b.tags[i]
		if i > 0 {
			sb.WriteByte(' ')
		}
		switch t.kind {
		case "other":
			fmt.Fprintf(&sb, "other(%#x,size=%d)", t.typ, 8+len(t.raw))
		case "cmdline":
			fmt.Fprintf(&sb, "cmdline(%q)", t.cmd.text)
		case "mmap":
			fmt.Fprintf(&sb, "mmap(entry_size=%d,n=%d,types=", t.mm.entrySize, len(t.mm.regions))
			for j, rg := range t.mm.regions {
				if j == 6 {
					sb.WriteString("..")
					break
				}
				if j > 0 {
					sb.WriteByte(',')
				}
				fmt.Fprintf(&sb, "%#x", rg.typ)
			}
			sb.WriteByte(')')
		case "fb":
			fmt.Fprintf(&sb, "fb(type=%d)", t.fb.typ)
		case "elf":
			ne := 0
			for _, s := range t.elf.sections {
				if s.size != 0 {
					ne++
				}
			}
			fmt.Fprintf(&sb, "elf(n=%d,nonempty=%d,shndx=%d)", len(t.elf.sections), ne, t.elf.shndx)
		}
	}
	sb.WriteString(" end")
	return sb.String()
}

// ---------------------------------------------------------------------------
// Stall watchdog. The decoder's loops advance by sizes read from the block; a
// broken scan can stop advancing and spin for ever, which no panic handler
// sees. The watchdog does not decide anything: when a single call (micro-
// seconds of work) has not returned after c10StallLimit it ends the process
// with a "fatal error:" line. vcheck attributes the death to the case line
// flushed last, re-runs that case alone in a fresh process and reports it only
// if it fails to complete again (a stall that does not repeat is counted as
// inconclusive by vcheck).

const c10StallLimit = 3 * time.Second

var (
	c10CallStart int64        // UnixNano of the start of the call in progress, 0 = none
	c10CallName  atomic.Value // string
)

// Stalls are tallied in vcheck's private work directory (one line each). A
// full run that finds c10MaxStalls of them already recorded by this
// invocation stops generating cases: every one of them is being re-run alone
// by vcheck, which decides; going on would only spend 2x the stall limit per
// further hang. Stopping early is reported as inconclusive for the remainder.
const c10MaxStalls = 4

func c10StallFile() string {
	if d := os.Getenv("VERIF_WORK"); d != "" {
		return d + "/c10-stalls"
	}
	return ""
}

func c10NoteStall() {
	if p := c10StallFile(); p != "" {
		if f, err := os.OpenFile(p, os.O_CREATE|os.O_WRONLY|os.O_APPEND, 0644); err == nil {
			f.WriteString("stall\n")
			f.Close()
		}
	}
}

func c10StallsSoFar() int {
	if p := c10StallFile(); p != "" {
		if b, err := os.ReadFile(p); err == nil {
			return strings.Count(string(b), "\n")
		}
	}
	return 0
}

func c10StartWatchdog(full bool) (stop func()) {
	done := make(chan struct{})
	go func() {
		tick := time.NewTicker(200 * time.Millisecond)
		defer tick.Stop()
		for {
			select {
			case <-done:
				return
			case <-tick.C:
				if st := atomic.LoadInt64(&c10CallStart); st != 0 && time.Since(time.Unix(0, st)) > c10StallLimit {
					name, _ := c10CallName.Load().(string)
					fmt.Printf("fatal error: C10 watchdog: hang in %s\n", name)
					if full {
						c10NoteStall()
					}
					os.Exit(3)
				}
			}
		}
	}()
	return func() { close(done) }
}

// ---------------------------------------------------------------------------
// Placement and monitored calls.

type c10Ctx struct {
	c        *vlib.Case
	run      *vlib.Run
	blk, str *vlib.Arena
	b        *c10Block
	place    string // tail | head
	data     []byte
	blkAddr  uintptr
	strAddr  uintptr
	seen     map[string]bool // signatures already reported for this case
	session  bool            // calls belong to one boot session: no SetInfoPtr / restore / cache reset in between
}

func (x *c10Ctx) viol(sig, format string, a ...interface{}) {
	if x.session {
		sig = "session:" + sig
	}
	if x.seen[sig] {
		return
	}
	x.seen[sig] = true
	d := map[string]interface{}{
		"what":      fmt.Sprintf(format, a...),
		"placement": x.place,
		"block":     fmt.Sprintf("[%#x,+%d)", x.blkAddr, len(x.data)),
		"strtab":    fmt.Sprintf("[%#x,+%d)", x.strAddr, len(x.b.strtab)),
		"tags":      x.b.summary(),
	}
	if len(x.data) <= 768 {
		d["block_hex"] = vlib.Hex(x.data)
		d["strtab_hex"] = vlib.Hex(x.b.strtab)
	}
	x.c.Violation(sig, d)
}

func (x *c10Ctx) setPlacement(place string) {
	x.place = place
	x.str.Fill(c10Poison)
	if place == "tail" {
		x.strAddr = x.str.PlaceTail(x.b.strtab)
	} else {
		x.strAddr = x.str.PlaceHead(x.b.strtab)
	}
	bad := uint64(x.str.End() + 64) // inside the trailing PROT_NONE page of the string arena
	x.data = x.b.encode(uint64(x.strAddr), bad)
	decoys := c10Decoys(uint64(x.strAddr))
	if len(x.data)+len(decoys) > x.blk.Size {
		panic(fmt.Sprintf("c10: generated block of %d bytes does not fit the arena", len(x.data)))
	}
	x.blk.Fill(c10Poison)
	if place == "tail" {
		x.blkAddr = x.blk.PlaceTail(x.data)
	} else {
		x.blkAddr = x.blk.PlaceHead(x.data)
		copy(vlib.BytesAt(x.blkAddr+uintptr(len(x.data)), len(decoys)), decoys)
	}
	if x.blkAddr%8 != 0 {
		panic("c10: block not 8-byte aligned")
	}
}

func (x *c10Ctx) where(addr uintptr) string {
	bEnd := x.blkAddr + uintptr(len(x.data))
	sEnd := x.strAddr + uintptr(len(x.b.strtab))
	switch {
	case addr >= bEnd && addr < bEnd+vlib.PageSize && x.place == "tail":
		return "past-end-of-block"
	case addr < x.blkAddr && addr >= x.blkAddr-vlib.PageSize && x.place == "head":
		return "before-start-of-block"
	case addr >= sEnd && addr < sEnd+vlib.PageSize && x.place == "tail":
		return "past-end-of-string-table"
	case addr < x.strAddr && addr >= x.strAddr-vlib.PageSize && x.place == "head":
		return "before-start-of-string-table"
	case addr >= x.blk.Base-vlib.PageSize && addr < x.blk.End()+vlib.PageSize:
		return "block-arena-guard"
	case addr >= x.str.Base-vlib.PageSize && addr < x.str.End()+vlib.PageSize:
		return "string-arena-guard"
	}
	return "elsewhere"
}

// call restores the pristine block bytes (VisitMemRegions normalises types in
// place), resets the package state and runs f with faults turned into panics.
func (x *c10Ctx) call(fn string, f func()) bool {
	if !x.session {
		copy(vlib.BytesAt(x.blkAddr, len(x.data)), x.data)
		cmdLineKV = nil
		SetInfoPtr(x.blkAddr)
	} else {
		c10Count(x.run, "session_calls", 1)
	}
	c10Count(x.run, "calls_"+fn, 1)
	c10CallName.Store(fn)
	atomic.StoreInt64(&c10CallStart, time.Now().UnixNano())
	pv, st := vlib.Protect(f)
	atomic.StoreInt64(&c10CallStart, 0)
	if !x.session {
		cmdLineKV = nil
	}
	if pv == nil {
		return true
	}
	if fa, ok := pv.(interface{ Addr() uintptr }); ok {
		a := fa.Addr()
		c10Count(x.run, "faults", 1)
		x.viol("fault:"+fn+":"+x.where(a),
			"%s touched inaccessible memory at %#x = block start %+d (block length %d) = string table start %+d (table length %d): %v\n%s",
			fn, a, int64(a)-int64(x.blkAddr), len(x.data), int64(a)-int64(x.strAddr), len(x.b.strtab), pv, st)
		return false
	}
	x.viol("panic:"+fn+":"+vlib.PanicClass(pv), "%s panicked: %v\n%s", fn, pv, st)
	return false
}

func c10SortedKeys(m map[string][]string) []string {
	l := make([]string, 0, len(m))
	for k := range m {
		l = append(l, k)
	}
	sort.Strings(l)
	return l
}

type c10GotRegion struct {
	addr, length uint64
	typ          uint32
}

func (x *c10Ctx) checkRegions(fn string, got []c10GotRegion, want []c10Region, wantN int) {
	if len(got) != wantN {
		x.viol("region-count:"+fn, "%s: %d callbacks, the block encodes %d region(s) and the visitor stops after %d", fn, len(got), len(want), wantN)
	}
	for i := 0; i < len(got) && i < wantN; i++ {
		w := want[i]
		if got[i].addr != w.addr || got[i].length != w.length {
			x.viol("region-extent", "%s: region %d reported as (addr %#x, len %#x), encoded (addr %#x, len %#x)", fn, i, got[i].addr, got[i].length, w.addr, w.length)
			return
		}
		if wt := c10WantType(w.typ); got[i].typ != wt {
			x.viol("region-type:raw="+c10TypeClass(w.typ), "%s: region %d has encoded type %#x and was reported with type %d, want %d (only 1..4 are defined, everything else is reserved=2)", fn, i, w.typ, got[i].typ, wt)
		}
		c10Count(x.run, "regions_compared", 1)
		if w.typ < 1 || w.typ > 4 {
			c10Count(x.run, "regions_expected_normalised_to_reserved", 1)
		}
	}
}

func (x *c10Ctx) checkAll() {
	b, run := x.b, x.run

	// --- memory map, full visit
	var wantRegions []c10Region
	stopAt := 0
	if t := b.first("mmap"); t != nil {
		wantRegions = t.mm.regions
		stopAt = t.mm.stopAt
	}
	var secs []func()
	secs = append(secs, func() {
		var got []c10GotRegion
		if x.call("VisitMemRegions", func() {
			VisitMemRegions(func(e *MemoryMapEntry) bool {
				got = append(got, c10GotRegion{e.PhysAddress, e.Length, uint32(e.Type)})
				return len(got) < 4096
			})
		}) {
			x.checkRegions("VisitMemRegions", got, wantRegions, len(wantRegions))
		}
	})
	// --- memory map, a visitor that keeps what it is handed: the entries are read again after the scan (a caller
	// that remembers the largest region) and, for one of them, after a second scan started from inside the
	// callback (a caller that checks a region against all others)
	secs = append(secs, func() {
		var kept []*MemoryMapEntry
		var got, afterNested []c10GotRegion
		nestAt := len(wantRegions) / 2
		if x.call("VisitMemRegions(keep)", func() {
			VisitMemRegions(func(e *MemoryMapEntry) bool {
				kept = append(kept, e)
				if len(kept)-1 == nestAt {
					n := 0
					VisitMemRegions(func(*MemoryMapEntry) bool { n++; return n < 4096 })
					afterNested = append(afterNested, c10GotRegion{e.PhysAddress, e.Length, uint32(e.Type)})
				}
				return len(kept) < 4096
			})
			for _, e := range kept {
				got = append(got, c10GotRegion{e.PhysAddress, e.Length, uint32(e.Type)})
			}
		}) {
			x.checkRegions("VisitMemRegions(keep)", got, wantRegions, len(wantRegions))
			if len(afterNested) == 1 && nestAt < len(wantRegions) {
				x.checkRegions("VisitMemRegions(nested)", afterNested, wantRegions[nestAt:nestAt+1], 1)
			}
			c10Count(run, "regions_read_again_after_the_scan", int64(len(got)))
		}
	})
	// --- memory map, visitor stops at the stopAt-th region
	secs = append(secs, func() {
		if stopAt <= 0 {
			return
		}
		var got []c10GotRegion
		if x.call("VisitMemRegions(stop)", func() {
			VisitMemRegions(func(e *MemoryMapEntry) bool {
				got = append(got, c10GotRegion{e.PhysAddress, e.Length, uint32(e.Type)})
				return len(got) != stopAt && len(got) < 4096
			})
		}) {
			x.checkRegions("VisitMemRegions(stop)", got, wantRegions, stopAt)
			c10Count(run, "early_stops", 1)
			if stopAt < len(wantRegions) {
				c10Count(run, "early_stops_before_last_region", 1)
			}
		}
	})

	// --- ELF sections
	type gotSec struct {
		name  string
		flags uint32
		addr  uint64
		size  uint64
	}
	var wantSecs []gotSec
	if t := b.first("elf"); t != nil {
		for _, s := range t.elf.sections {
			if s.size == 0 {
				c10Count(run, "empty_sections_expected_skipped", 1)
				continue
			}
			addr := s.addr
			if s.isStrtab {
				addr = uint64(x.strAddr)
			}
			wantSecs = append(wantSecs, gotSec{s.name, uint32(s.flags), addr, s.size})
		}
	}
	secs = append(secs, func() {
		var gotSecs []gotSec
		if x.call("VisitElfSections", func() {
			VisitElfSections(func(name string, flags ElfSectionFlag, address uintptr, size uint64) {
				if len(gotSecs) < 4096 {
					gotSecs = append(gotSecs, gotSec{string(append([]byte(nil), name...)), uint32(flags), uint64(address), size})
				}
			})
		}) {
			if len(gotSecs) != len(wantSecs) {
				x.viol("section-count", "VisitElfSections: %d callbacks, the block encodes %d non-empty section(s)", len(gotSecs), len(wantSecs))
			}
			for i := 0; i < len(gotSecs) && i < len(wantSecs); i++ {
				g, w := gotSecs[i], wantSecs[i]
				if g.name != w.name {
					x.viol("section-name", "VisitElfSections: non-empty section %d reported with name %q, encoded %q", i, g.name, w.name)
					break
				}
				if g.flags != w.flags {
					x.viol("section-flags", "VisitElfSections: section %d (%q) flags %#x, encoded %#x", i, w.name, g.flags, w.flags)
					break
				}
				if g.addr != w.addr || g.size != w.size {
					x.viol("section-extent", "VisitElfSections: section %d (%q) reported (addr %#x, size %#x), encoded (addr %#x, size %#x)", i, w.name, g.addr, g.size, w.addr, w.size)
					break
				}
				c10Count(run, "sections_compared", 1)
				c10Count(run, "section_name_bytes_compared", int64(len(w.name)))
			}
		}
	})

	// --- framebuffer
	var wantFB *c10FB
	if t := b.first("fb"); t != nil {
		wantFB = t.fb
	}
	secs = append(secs, func() {
		x.call("GetFramebufferInfo", func() {
			fi := GetFramebufferInfo()
			if wantFB == nil {
				if fi != nil {
					x.viol("fb-not-absent", "GetFramebufferInfo returned a description although the block has no framebuffer tag")
				}
				return
			}
			if fi == nil {
				x.viol("fb-missing", "GetFramebufferInfo returned nil, the block has a framebuffer tag")
				return
			}
			// field-by-field: the Go struct is larger than the common part of the tag
			if fi.PhysAddr != wantFB.addr || fi.Pitch != wantFB.pitch || fi.Width != wantFB.width || fi.Height != wantFB.height ||
				fi.Bpp != wantFB.bpp || uint8(fi.Type) != wantFB.typ {
				x.viol("fb-fields", "framebuffer reported (addr %#x pitch %d %dx%d bpp %d type %d), encoded (addr %#x pitch %d %dx%d bpp %d type %d)",
					fi.PhysAddr, fi.Pitch, fi.Width, fi.Height, fi.Bpp, fi.Type, wantFB.addr, wantFB.pitch, wantFB.width, wantFB.height, wantFB.bpp, wantFB.typ)
				return
			}
			ci := fi.RGBColorInfo()
			if wantFB.typ != 1 {
				if ci != nil {
					x.viol("fb-rgb-for-non-rgb", "RGBColorInfo is non-nil for framebuffer type %d", wantFB.typ)
				}
			} else if ci == nil {
				x.viol("fb-rgb-missing", "RGBColorInfo is nil for an RGB framebuffer")
			} else if g := [6]uint8{ci.RedPosition, ci.RedMaskSize, ci.GreenPosition, ci.GreenMaskSize, ci.BluePosition, ci.BlueMaskSize}; g != wantFB.rgb {
				x.viol("fb-rgb-layout", "RGB layout reported %v, encoded %v (red pos,size, green pos,size, blue pos,size)", g, wantFB.rgb)
			}
			c10Count(run, "framebuffers_compared", 1)
		})
	})

	// --- command line
	var wantCmd *c10Cmd
	if t := b.first("cmdline"); t != nil {
		wantCmd = t.cmd
	}
	secs = append(secs, func() {
		var kv map[string]string
		if x.call("GetBootCmdLine", func() {
			m := GetBootCmdLine()
			kv = make(map[string]string, len(m))
			for k, v := range m {
				kv[k] = v
			}
		}) {
			if wantCmd == nil {
				if len(kv) != 0 {
					x.viol("cmdline-not-absent", "GetBootCmdLine returned %d entries although the block has no command-line tag: %q", len(kv), kv)
				}
			} else {
				for _, k := range c10SortedKeys(wantCmd.want) {
					vals := wantCmd.want[k]
					if wantCmd.free[k] {
						continue
					}
					g, ok := kv[k]
					if !ok {
						x.viol("cmdline-missing-key", "command line %q: key %q missing from %q", wantCmd.text, k, kv)
						break
					}
					pos := -1
					for i, v := range vals {
						if v == g {
							pos = i
						}
					}
					if pos < 0 {
						x.viol("cmdline-value", "command line %q: key %q has value %q, acceptable %q", wantCmd.text, k, g, vals)
						break
					}
					if len(vals) > 1 && vals[0] != vals[len(vals)-1] {
						switch pos {
						case len(vals) - 1:
							c10Count(run, "cmdline_repeated_key_last_wins", 1)
						case 0:
							c10Count(run, "cmdline_repeated_key_first_wins", 1)
						default:
							c10Count(run, "cmdline_repeated_key_middle_wins", 1)
						}
					}
					c10Count(run, "cmdline_entries_compared", 1)
				}
				gotKeys := make([]string, 0, len(kv))
				for k := range kv {
					gotKeys = append(gotKeys, k)
				}
				sort.Strings(gotKeys)
				for _, k := range gotKeys {
					if _, ok := wantCmd.want[k]; !ok && !wantCmd.free[k] {
						x.viol("cmdline-extra-key", "command line %q: unexpected key %q (value %q)", wantCmd.text, k, kv[k])
						break
					}
				}
				c10Count(run, "cmdlines_compared", 1)
			}
		}
	})

	// every accessor from a fresh SetInfoPtr ...
	for _, f := range secs {
		f()
	}
	// ... and as the kernel uses them: one SetInfoPtr, then the accessors in any order and more than once,
	// each answer still being what the block encodes (package-level state such as caches must not leak
	// from one lookup into the next)
	copy(vlib.BytesAt(x.blkAddr, len(x.data)), x.data)
	cmdLineKV = nil
	SetInfoPtr(x.blkAddr)
	x.session = true
	r := x.c.R.Fork(0x5e55)
	for round := 0; round < 2; round++ {
		for _, i := range r.Perm(len(secs)) {
			secs[i]()
		}
	}
	x.session = false
	cmdLineKV = nil
	c10Count(run, "boot_sessions", 1)
}

// c10RunBlock checks one block in both placements and records the evidence.
func c10RunBlock(c *vlib.Case, run *vlib.Run, blk, str *vlib.Arena, b *c10Block) {
	ref := b.encode(0, 0) // address-independent form: description and fingerprint
	desc := map[string]interface{}{"tags": b.summary(), "block_bytes": len(ref), "strtab_bytes": len(b.strtab)}
	if len(ref) <= 256 {
		desc["block_hex_with_strtab_address_0"] = vlib.Hex(ref)
		desc["strtab_hex"] = vlib.Hex(b.strtab)
	}
	c.Begin(desc)

	x := &c10Ctx{c: c, run: run, blk: blk, str: str, b: b, seen: map[string]bool{}}
	if len(ref)+4096 > blk.Size || len(b.strtab)+64 > str.Size {
		// a limit of the harness's own memory, not of the code under test: such a block is left out and counted
		c10Count(run, "blocks_larger_than_the_harness_arena_skipped", 1)
		return
	}
	order := []string{"tail", "head"}
	if c.R.Chance(1, 4) {
		// a predecessor: another block is decoded first at the very address the head placement uses (the start of
		// the arena), then b replaces it in place and SetInfoPtr is called again with the same address - a block
		// rewritten where it lies. Everything reported from then on must be what b encodes.
		p := c10GenBlock(c.R.Fork(0x9ced))
		if len(p.encode(0, 0))+4096 <= blk.Size && len(p.strtab)+64 <= str.Size {
			px := &c10Ctx{c: c, run: run, blk: blk, str: str, b: p, seen: x.seen}
			px.setPlacement("head")
			px.checkAll()
			SetInfoPtr(px.blkAddr)
			order = []string{"head", "tail"}
			c10Count(run, "blocks_replacing_another_in_place", 1)
		}
	}
	for _, place := range order {
		x.setPlacement(place)
		x.checkAll()
		c10Count(run, "placements_"+place, 1)
	}

	// evidence
	c10Count(run, "blocks", 1)
	run.Max("block_bytes", int64(len(ref)))
	kinds := []string{"mmap", "elf", "fb", "cmdline"}
	present := 0
	lastDecoded := -1
	for i := range b.tags {
		if b.tags[i].kind != "other" {
			lastDecoded = i
		}
	}
	for _, k := range kinds {
		switch n := b.count(k); {
		case n == 0:
			c10Count(run, "absent_"+k, 1)
		case n > 1:
			c10Count(run, "duplicate_first_wins_"+k, 1)
			present++
		default:
			present++
		}
	}
	padded := false
	for i := range b.tags {
		size := 8 + len(b.tags[i].payload(0, 0))
		if i < lastDecoded && size%8 != 0 {
			padded = true
		}
		run.SetAdd("tag_size_mod_8", fmt.Sprint(size%8))
	}
	if padded {
		c10Count(run, "blocks_with_padding_before_a_decoded_tag", 1)
	}
	rich := false
	if t := b.first("mmap"); t != nil {
		run.SetAdd("entry_sizes", fmt.Sprint(t.mm.entrySize))
		run.Max("entries", int64(len(t.mm.regions)))
		if t.mm.entrySize%8 != 0 {
			c10Count(run, "mmaps_with_entry_size_not_multiple_of_8", 1)
		}
		if len(t.mm.regions) == 0 {
			c10Count(run, "mmaps_with_zero_entries", 1)
		}
		for _, rg := range t.mm.regions {
			run.SetAdd("region_type_classes", c10TypeClass(rg.typ))
			if rg.typ <= 7 {
				run.SetAdd("region_types_0_to_7", fmt.Sprint(rg.typ))
			}
		}
		rich = rich || len(t.mm.regions) >= 2
	}
	if t := b.first("elf"); t != nil {
		run.Max("sections", int64(len(t.elf.sections)))
		ne := 0
		for _, s := range t.elf.sections {
			if s.size != 0 {
				ne++
				if s.nameOff == len(b.strtab)-1 {
					c10Count(run, "names_at_last_byte_of_string_table", 1)
				}
			}
		}
		if len(t.elf.sections) == 0 {
			c10Count(run, "elf_tags_with_zero_sections", 1)
		}
		if t.elf.noStrtab {
			c10Count(run, "elf_tags_all_empty_with_inaccessible_strtab", 1)
		}
		run.SetAdd("strtab_position", func() string {
			switch {
			case len(t.elf.sections) == 0:
				return "none"
			case t.elf.shndx == 0:
				return "first"
			case int(t.elf.shndx) == len(t.elf.sections)-1:
				return "last"
			}
			return "middle"
		}())
		rich = rich || ne >= 2
	}
	if t := b.first("fb"); t != nil {
		if t.fb.typ <= 2 {
			c10Count(run, fmt.Sprintf("framebuffer_type_%d", t.fb.typ), 1)
		} else {
			c10Count(run, "framebuffer_type_undefined_3_to_255", 1)
		}
	}
	if t := b.first("cmdline"); t != nil {
		c10Count(run, "cmdline_tokens", int64(t.cmd.tokens))
		c10Count(run, "cmdline_tokens_outside_oracle", int64(t.cmd.open))
		if strings.Contains(t.cmd.text, "  ") || strings.Contains(t.cmd.text, "\t") {
			c10Count(run, "cmdlines_with_whitespace_runs_or_tabs", 1)
		}
	}
	if padded && rich && present >= 2 {
		run.Nontrivial(vlib.NewFP().Bytes(ref).Bytes(b.strtab))
	}
	if run.WantSample() && padded && rich && present >= 3 && len(ref) <= 700 {
		run.Sample(map[string]interface{}{"tags": b.summary(), "block_bytes": len(ref), "block_hex_with_strtab_address_0": vlib.Hex(ref), "strtab": fmt.Sprintf("%q", b.strtab)})
	}
}

func TestVerifC10(t *testing.T) {
	run := vlib.Start(t, "C10")
	defer run.Finish()
	run.SetRule("case = one generated well-formed multiboot2 information block: 0-3 tags of each decoded kind (command line, memory map, framebuffer, ELF sections; each kind present with p=3/4, duplicated with p=1/5) plus 0-6 tags of other types (tag types whose low byte / low 16 bits equal a decoded type or 0, 2^31|t, 2^32-1.., random) with payloads of 0-71 bytes, in random order; memory map entry_size 24..64 (multiples of 8 mostly, some multiples of 4 and odd), 0-40 entries, types {0..7, 2^31, 2^32-1, low-byte-defined, random}; framebuffer types 0/1/2; command lines of 0-12 tokens separated by runs of space/tab/newline; 0-30 ELF sections (empty ones, null section, suffix-shared names, names at the first and last byte of the string table, string-table section anywhere). Every block is decoded in two placements (block and string table ending at a PROT_NONE page; starting right after one, followed by decoy tags). non-trivial = at least one tag whose size is not a multiple of 8 precedes a decoded tag AND >=2 decoded kinds present AND (memory map with >=2 entries OR >=2 non-empty sections); distinct = fingerprint of the encoded block (string-table address 0) and the string table")
	run.Assume("ELF-sections tag laid out as GRUB and the specification's multiboot2.h emit it (u32 num, u32 entsize=64, u32 shndx, Elf64_Shdr entries); sh_flags above bit 31 are zero (the visitor's flag type is 32 bits wide)")
	run.Assume("command-line oracle: token without '=' ⇒ k→k, exactly one '=' ⇒ k→v (v may be empty); tokens with >=2 '=' or an empty key leave their key unconstrained; a key repeated in several tokens may carry any of its values; separators are space, tab, newline only; text is valid UTF-8 without Unicode space characters")
	run.Assume("cmdLineKV (process-wide cache) is reset before every call; the block bytes are restored before every call because VisitMemRegions normalises types in place")
	run.Assume("a call that has not returned after 3 s ends the child process; vcheck re-runs that case alone and reports a hang only if it fails to complete again (a stall that does not repeat is inconclusive); no other use of the clock")
	run.Assume("reads outside the block that stay inside the same accessible page (before the block in the tail placement) are seen only through wrong results, not through a fault")

	blk := vlib.MustArena(0, c10BlockArenaSize, false)
	defer blk.Free()
	str := vlib.MustArena(0, c10StrArenaSize, false)
	defer str.Free()
	defer debug.SetPanicOnFault(debug.SetPanicOnFault(true))
	defer c10StartWatchdog(run.To < 0)()
	defer func(p uintptr) { infoData = p; cmdLineKV = nil }(infoData)

	if run.To < 0 && c10StallsSoFar() >= c10MaxStalls {
		run.Inconclusive(fmt.Sprintf("C10: %d calls of this invocation did not return within %v (each is re-run alone by vcheck, which reports it if it repeats); the remaining cases from index %d on were not run", c10StallsSoFar(), c10StallLimit, run.From))
		return
	}
	run.Cases(run.N(40000, 1000000), func(c *vlib.Case) {
		c10RunBlock(c, run, blk, str, c10GenBlock(c.R))
	})

	// Fixed regression inputs.
	// 1: every boundary region type, entry_size 24, memory map directly before the end tag.
	run.OneCase(vlib.FixedBase+1, func(c *vlib.Case) {
		m := &c10Mmap{entrySize: 24, stopAt: 6}
		for i, ty := range []uint32{1, 2, 3, 4, 5, 6, 7, 0, 1 << 31, ^uint32(0), 0x101, 1} {
			m.regions = append(m.regions, c10Region{addr: uint64(i) << 20, length: 1 << 20, typ: ty})
		}
		c10RunBlock(c, run, blk, str, &c10Block{strtab: []byte{0}, tags: []c10Tag{{typ: c10TMmap, kind: "mmap", mm: m}}})
	})
	// 2: the DESIGN.md section 5 row 3 reproducer: a single region of type 5.
	run.OneCase(vlib.FixedBase+2, func(c *vlib.Case) {
		m := &c10Mmap{entrySize: 24, stopAt: 1, regions: []c10Region{{addr: 0x100000, length: 0x7ee0000, typ: 5}}}
		c10RunBlock(c, run, blk, str, &c10Block{strtab: []byte{0}, tags: []c10Tag{{typ: c10TMmap, kind: "mmap", mm: m}}})
	})
	// 3: the empty block (header and end tag only): every result is empty.
	run.OneCase(vlib.FixedBase+3, func(c *vlib.Case) {
		c10RunBlock(c, run, blk, str, &c10Block{strtab: []byte{0}})
	})
	// 4: odd-sized unknown tag, then each decoded tag twice (first wins).
	run.OneCase(vlib.FixedBase+4, func(c *vlib.Case) {
		tab := []byte("\x00.text\x00.shstrtab\x00")
		elf1 := &c10Elf{shndx: 2, sections: []c10Section{{}, {name: ".text", nameOff: 1, flags: 6, addr: 0x100000, size: 0x1234},
			{name: ".shstrtab", nameOff: 7, isStrtab: true, shType: 3, size: uint64(len(tab))}, {name: "text", nameOff: 2, size: 0}}}
		elf2 := &c10Elf{shndx: 0, sections: []c10Section{{name: "", nameOff: len(tab) - 1, isStrtab: true, size: uint64(len(tab))}}}
		c10RunBlock(c, run, blk, str, &c10Block{strtab: tab, tags: []c10Tag{
			{typ: 0x10006, kind: "other", raw: []byte{1, 2, 3}},
			{typ: c10TCmdline, kind: "cmdline", cmd: &c10Cmd{text: " a=1 \t b  c= ", tokens: 3, want: map[string][]string{"a": {"1"}, "b": {"b"}, "c": {""}}, free: map[string]bool{}}},
			{typ: c10TCmdline, kind: "cmdline", cmd: &c10Cmd{text: "z=9", want: map[string][]string{"z": {"9"}}, free: map[string]bool{}}},
			{typ: c10TFB, kind: "fb", fb: &c10FB{addr: 0xfd000000, pitch: 4096, width: 1024, height: 768, bpp: 32, typ: 1, rgb: [6]uint8{16, 8, 8, 8, 0, 8}}},
			{typ: c10TFB, kind: "fb", fb: &c10FB{addr: 0xb8000, pitch: 160, width: 80, height: 25, bpp: 16, typ: 2}},
			{typ: c10TElf, kind: "elf", elf: elf1},
			{typ: c10TElf, kind: "elf", elf: elf2},
			{typ: c10TMmap, kind: "mmap", mm: &c10Mmap{entrySize: 40, stopAt: 1, regions: []c10Region{{addr: 0, length: 0x9fc00, typ: 1, extra: make([]byte, 16)}, {addr: 0x9fc00, length: 0x400, typ: 2, extra: make([]byte, 16)}}}},
			{typ: c10TMmap, kind: "mmap", mm: &c10Mmap{entrySize: 24, regions: []c10Region{{addr: 1 << 32, length: 1 << 30, typ: 3}}}},
		}})
	})

	if !run.Replay && run.From == 0 && run.To < 0 {
		// the points of the harness must have been reached in this process
		// (vcheck sums the counters of all shards; each shard checks its own)
		for _, k := range []string{"blocks_with_padding_before_a_decoded_tag", "early_stops_before_last_region",
			"absent_mmap", "absent_elf", "absent_fb", "absent_cmdline",
			"duplicate_first_wins_mmap", "duplicate_first_wins_elf", "duplicate_first_wins_fb", "duplicate_first_wins_cmdline",
			"framebuffer_type_0", "framebuffer_type_1", "framebuffer_type_2",
			"regions_expected_normalised_to_reserved", "empty_sections_expected_skipped", "names_at_last_byte_of_string_table",
			"cmdlines_with_whitespace_runs_or_tabs", "mmaps_with_zero_entries", "elf_tags_with_zero_sections",
			"regions_compared", "sections_compared", "framebuffers_compared", "cmdline_entries_compared"} {
			if c10Tally[k] == 0 {
				run.Inconclusive("C10: counter " + k + " is zero: that facet was not exercised")
			}
		}
	}
}
