//go:build verif
// +build verif

package multiboot

// Export shim for the C16 harness (package hal): the parsed boot command line
// is cached in a package-private map, so a harness that boots many times in
// one process has to drop the cache between boots.

// VerifResetCmdLine forgets the cached command line.
func VerifResetCmdLine() { cmdLineKV = nil }
