//go:build verif
// +build verif

package console

// Export shim for the C18 harness (package tty): lets a cross-package harness
// run the real DriverInit of the shipped consoles with the framebuffer mapped
// onto host memory. Exists only in the go-build overlay of /verif.

import (
	"github.com/ProjectSerenity/firefly/kernel"
	"github.com/ProjectSerenity/firefly/kernel/mm"
	"github.com/ProjectSerenity/firefly/kernel/mm/vmm"
)

// VerifC18SetSeams replaces the two hardware seams of this package (the
// framebuffer mapping and the VGA DAC port writes) and returns a function that
// puts the previous values back.
func VerifC18SetSeams(
	mapRegion func(mm.Frame, uintptr, vmm.PageTableEntryFlag) (mm.Page, *kernel.Error),
	portWriteByte func(uint16, uint8),
) (restore func()) {
	oldMap, oldPort := mapRegionFn, portWriteByteFn
	mapRegionFn, portWriteByteFn = mapRegion, portWriteByte
	return func() { mapRegionFn, portWriteByteFn = oldMap, oldPort }
}
