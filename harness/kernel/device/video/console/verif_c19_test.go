//go:build verif
// +build verif

package console

// C19 — console drivers paint exactly the addressed cells, never outside the
// framebuffer.
//
// Monitor: the real VgaTextConsole / VesaFbConsole draw into a window of a
// larger host buffer (pattern-filled guard regions in front and behind, or the
// window abutting a PROT_NONE page of an mmap arena). Before every single
// Write / Fill / Scroll the window is scrambled and snapshotted; afterwards
// every byte of the window is compared with the set of values the reference
// model (verif_c19_model_test.go) allows, the guards with their pattern, and a
// panic (slice index out of range = attempted access outside the framebuffer,
// or a guard-page fault) is a violation.

import (
	"fmt"
	"image/color"
	"io/ioutil"
	"runtime/debug"
	"strings"
	"testing"
	"unsafe"

	"github.com/ProjectSerenity/firefly/kernel"
	"github.com/ProjectSerenity/firefly/kernel/cpu"
	"github.com/ProjectSerenity/firefly/kernel/device/video/console/font"
	"github.com/ProjectSerenity/firefly/kernel/device/video/console/logo"
	"github.com/ProjectSerenity/firefly/kernel/mm"
	"github.com/ProjectSerenity/firefly/kernel/mm/vmm"
	"github.com/ProjectSerenity/firefly/kernel/multiboot"
	"github.com/ProjectSerenity/firefly/kernel/zzverif/vlib"
)

// c19EmptyGrids adds consoles whose grid has no cell at all (narrower than a
// glyph / lower than logo + one glyph row). The statement's clamping has no
// target there; the only reading is "no cell exists, so nothing may change and
// nothing outside the framebuffer may be touched". Signatures of this facet
// carry the prefix "emptygrid-".
const c19EmptyGrids = true

const (
	c19ArenaSize = 8 << 20
	c19ArenaPad  = 256 // pattern guard kept inside the arena on the side that does not abut the PROT_NONE page
)

var c19Arena *vlib.Arena

// c19Spec is everything that defines a console under test apart from the
// random bytes (font bitmap, palette, logo pixels) drawn from the case PRNG.
type c19Spec struct {
	text       bool
	cols, rows int // grid (text mode: the console size)

	bpp        int
	fontName   string // shipped font, or "" for a synthetic gw x gh font
	gw, gh     int
	remX, remY int // pixels right of / below the grid
	pad        int // pitch - row bytes
	logoH      int // 0 = no logo
	logoW      int
	logoAlign  logo.Alignment
	typicalRGB bool // conventional mask layout instead of a random one
	placement  int  // 0 heap+pattern guards, 1 window ends at a PROT_NONE page, 2 window starts after a PROT_NONE page
}

type c19Mach struct {
	spec       c19Spec
	g          c19Geom
	mdl        *c19Model
	dev        Device
	drv        string // vga, fb8, fb16, fb24: the driver code path
	host       []byte // leading guard + window + trailing guard
	lead       int
	fb         []byte // the window = the console's whole framebuffer
	guardRef   []byte
	before     []byte
	placement  string
	relaid     bool // the console had an earlier layout (another font) before the final one
	prepainted bool // the earlier layout was painted on with colour indices 240-255 before the logo arrived
	nilLogo    bool // SetLogo(nil) was called after the layout was complete
	viaInit    bool // brought up through the real DriverInit (map seam) instead of assigning the framebuffer
	mapSizes   []uint64
	fbLen      int    // length of the framebuffer slice DriverInit built
	scr        uint64 // scramble state

	logoChecked bool
	logoMM      c19Mismatch
}

func c19GuardByte(i int) byte { return byte(i*31+7) ^ byte(i>>8) ^ 0x5a }

// c19Place allocates the host buffer for a window of size bytes.
func c19Place(r *vlib.Rand, size int, mode int, align2 bool) (host []byte, lead int, placement string) {
	if mode != 0 && (c19Arena == nil || size+c19ArenaPad > c19Arena.Size) {
		mode = 0
	}
	switch mode {
	case 1:
		lead = c19ArenaPad
		host = vlib.BytesAt(c19Arena.End()-uintptr(size+lead), size+lead)
		placement = "arena-tail(PROT_NONE behind)"
	case 2:
		host = vlib.BytesAt(c19Arena.Base, size+c19ArenaPad)
		placement = "arena-head(PROT_NONE in front)"
	default:
		lead = 2 * r.Range(8, 128)
		trail := r.Range(16, 256)
		raw := make([]byte, lead+size+trail+8)
		if align2 && uintptr(unsafe.Pointer(&raw[0]))&1 != 0 {
			raw = raw[1:]
		}
		host = raw[:lead+size+trail]
		placement = "heap(pattern guards)"
	}
	for i := range host {
		host[i] = c19GuardByte(i)
	}
	return host, lead, placement
}

func (m *c19Mach) scramble(seed uint64) {
	s := seed | 1
	b := m.fb
	i := 0
	for ; i+8 <= len(b); i += 8 {
		s ^= s << 13
		s ^= s >> 7
		s ^= s << 17
		b[i], b[i+1], b[i+2], b[i+3] = byte(s), byte(s>>8), byte(s>>16), byte(s>>24)
		b[i+4], b[i+5], b[i+6], b[i+7] = byte(s>>32), byte(s>>40), byte(s>>48), byte(s>>56)
	}
	for ; i < len(b); i++ {
		s ^= s << 13
		s ^= s >> 7
		s ^= s << 17
		b[i] = byte(s >> 11)
	}
}

func c19U16(b []byte) []uint16 {
	if len(b) == 0 {
		return nil
	}
	p := unsafe.Pointer(&b[0])
	if uintptr(p)&1 != 0 {
		panic("c19: unaligned text framebuffer")
	}
	n := len(b) / 2
	return (*[1 << 28]uint16)(p)[:n:n]
}

// c19Layout draws a colour-mask layout inside the low `bits` bits of a pixel.
func c19Layout(r *vlib.Rand, bpp int, typical bool) (pos, msz [3]int64) {
	bits := 24
	if bpp <= 16 {
		bits = bpp
	}
	if typical {
		switch bpp {
		case 15:
			return [3]int64{10, 5, 0}, [3]int64{5, 5, 5}
		case 16:
			return [3]int64{11, 5, 0}, [3]int64{5, 6, 5}
		default:
			if r.Bool() {
				return [3]int64{16, 8, 0}, [3]int64{8, 8, 8}
			}
			return [3]int64{0, 8, 16}, [3]int64{8, 8, 8}
		}
	}
	for {
		msz = [3]int64{int64(r.Range(1, 8)), int64(r.Range(1, 8)), int64(r.Range(1, 8))}
		if int(msz[0]+msz[1]+msz[2]) <= bits {
			break
		}
	}
	free := bits - int(msz[0]+msz[1]+msz[2])
	order := r.Perm(3)
	at := 0
	for _, k := range order {
		gap := r.Intn(free + 1)
		if r.Chance(1, 2) {
			gap = 0
		}
		free -= gap
		at += gap
		pos[k] = int64(at)
		at += int(msz[k])
	}
	return pos, msz
}

// c19Build constructs the real console over a guarded window. It calls real
// code (SetLogo, SetFont): call c.Begin first.
func c19Build(spec c19Spec, r *vlib.Rand) (m *c19Mach, setupPanic interface{}, stack string) {
	m = &c19Mach{spec: spec}
	if spec.text {
		g := c19Geom{text: true, cols: int64(spec.cols), rows: int64(spec.rows), width: int64(spec.cols),
			height: int64(spec.rows), pitch: 2 * int64(spec.cols), bpp: 16, bytesPP: 2, gw: 1, gh: 1}
		g.size = g.height * g.pitch
		m.g = g
		m.host, m.lead, m.placement = c19Place(r, int(g.size), spec.placement, true)
		m.fb = m.host[m.lead : m.lead+int(g.size)]
		cons := NewVgaTextConsole(uint32(spec.cols), uint32(spec.rows), 0)
		cons.fb = c19U16(m.fb)
		m.dev, m.drv = cons, "vga"
		m.mdl = c19NewModel(g, cons.Palette())
	} else {
		var f *font.Font
		if spec.fontName != "" {
			f = font.FindByName(spec.fontName)
		}
		if f == nil {
			bpr := (spec.gw + 7) / 8
			f = &font.Font{Name: "c19synthetic", GlyphWidth: uint32(spec.gw), GlyphHeight: uint32(spec.gh),
				BytesPerRow: uint32(bpr), Data: r.Bytes(256 * spec.gh * bpr)}
		}
		g := c19Geom{fnt: f, gw: int64(f.GlyphWidth), gh: int64(f.GlyphHeight), bpp: int64(spec.bpp),
			logoH: int64(spec.logoH), cols: int64(spec.cols), rows: int64(spec.rows)}
		g.bytesPP = (g.bpp + 7) / 8
		g.width = g.cols*g.gw + int64(spec.remX)
		g.height = g.logoH + g.rows*g.gh + int64(spec.remY)
		g.pitch = g.width*g.bytesPP + int64(spec.pad)
		g.size = g.height * g.pitch
		var ci *multiboot.FramebufferRGBColorInfo
		if spec.bpp > 8 {
			g.pos, g.msz = c19Layout(r, spec.bpp, spec.typicalRGB)
			ci = &multiboot.FramebufferRGBColorInfo{
				RedPosition: uint8(g.pos[0]), RedMaskSize: uint8(g.msz[0]),
				GreenPosition: uint8(g.pos[1]), GreenMaskSize: uint8(g.msz[1]),
				BluePosition: uint8(g.pos[2]), BlueMaskSize: uint8(g.msz[2]),
			}
		}
		m.g = g
		m.host, m.lead, m.placement = c19Place(r, int(g.size), spec.placement, false)
		m.fb = m.host[m.lead : m.lead+int(g.size)]
		m.scramble(r.U64())

		cons := NewVesaFbConsole(uint32(g.width), uint32(g.height), uint8(spec.bpp), uint32(g.pitch), ci, 0)
		if strings.HasPrefix(m.placement, "arena-head") && len(m.fb) > 0 {
			// the window starts on a page boundary: bring the console up the way the kernel does, through the
			// real DriverInit with the region-mapping seam answering with the window's address
			saved := mapRegionFn
			mapRegionFn = func(_ mm.Frame, size uintptr, _ vmm.PageTableEntryFlag) (mm.Page, *kernel.Error) {
				m.mapSizes = append(m.mapSizes, uint64(size))
				return mm.PageFromAddress(uintptr(unsafe.Pointer(&m.fb[0]))), nil
			}
			var ierr *kernel.Error
			setupPanic, stack = vlib.Protect(func() { ierr = cons.DriverInit(ioutil.Discard) })
			mapRegionFn = saved
			m.viaInit = true
			if setupPanic != nil || ierr != nil {
				if setupPanic == nil {
					setupPanic = "DriverInit returned " + ierr.Message
				}
				m.dev, m.drv = cons, "fb"
				return m, setupPanic, stack
			}
			if len(cons.fb) > 0 && &cons.fb[0] != &m.fb[0] {
				cons.fb = m.fb
			}
			m.fbLen = len(cons.fb)
		} else {
			cons.loadDefaultPalette() // fb still nil: nothing to recolour
		}
		for i := 16; i < 256; i++ {
			if r.Chance(3, 4) {
				cons.palette[i] = color.RGBA{R: uint8(r.U64()), G: uint8(r.U64()), B: uint8(r.U64()), A: 0xff}
			}
		}
		if !m.viaInit {
			cons.fb = m.fb
		}
		var lgUsed *logo.Image
		var logoBefore []byte
		setupPanic, stack = vlib.Protect(func() {
			if r.Chance(1, 5) && g.height > 0 {
				// an earlier layout: the console was first given another font (lower glyphs, so that it had
				// rows of text even where the final layout has none) before the logo and the final font arrive
				gh0 := r.Range(1, int(pmin64(g.height, 16)))
				cons.SetFont(&font.Font{Name: "c19earlier", GlyphWidth: 8, GlyphHeight: uint32(gh0), BytesPerRow: 1, Data: r.Bytes(256 * gh0)})
				m.relaid = true
				if g.width >= 8 {
					// ... and was painted on in that layout with the sixteen highest colour indices - the ones a
					// logo palette is installed at later (whatever was derived from a palette entry then must not
					// outlive the entry)
					for idx := 240; idx < 256; idx++ {
						cons.Fill(1, 1, 1, 1, uint8(idx), uint8(idx))
						cons.Write(byte(idx), uint8(idx), uint8(255-idx+240), 1, 1)
					}
					m.prepainted = true
				}
			}
			if spec.logoH > 0 {
				np := r.Range(1, 16)
				lg := &logo.Image{Width: uint32(spec.logoW), Height: uint32(spec.logoH), Align: spec.logoAlign,
					TransparentIndex: uint8(r.Intn(np)), Palette: make([]color.RGBA, np),
					Data: make([]uint8, spec.logoW*spec.logoH)}
				for i := range lg.Palette {
					lg.Palette[i] = color.RGBA{R: uint8(r.U64()), G: uint8(r.U64()), B: uint8(r.U64()), A: 0xff}
				}
				for i := range lg.Data {
					lg.Data[i] = uint8(r.Intn(np))
				}
				logoBefore = append([]byte(nil), m.fb...)
				lgUsed = lg
				cons.SetLogo(lg)
			}
			cons.SetFont(f)
			if r.Chance(1, 6) {
				// "no logo available" (what hal passes on when no logo fits) after the layout is complete: nothing
				// may change, in particular the logo that is already there keeps its rows
				cons.SetLogo(nil)
				m.nilLogo = true
			}
		})
		m.dev = cons
		switch spec.bpp {
		case 8:
			m.drv = "fb8"
		case 15, 16:
			m.drv = "fb16"
		default:
			m.drv = "fb24"
		}
		m.mdl = c19NewModel(g, cons.Palette())
		if lgUsed != nil && setupPanic == nil {
			// the logo is drawn once, by SetLogo: its rectangle, its colours, and nothing else
			m.mdl.expectLogo(lgUsed.Data, int64(lgUsed.Width), int64(lgUsed.Height), int(lgUsed.Align), len(lgUsed.Palette))
			m.logoMM, _ = m.mdl.check(logoBefore, m.fb)
			m.logoChecked = true
			m.mdl.reset()
		}
	}
	m.guardRef = make([]byte, len(m.host))
	for i := range m.guardRef {
		m.guardRef[i] = c19GuardByte(i)
	}
	m.before = make([]byte, len(m.fb))
	return m, setupPanic, stack
}

func pmin64(a, b int64) int64 {
	if a < b {
		return a
	}
	return b
}

// guardsFresh is guardsIntact before guardRef exists (right after construction).
func (m *c19Mach) guardsFresh() (bool, int) {
	for i := 0; i < m.lead; i++ {
		if m.host[i] != c19GuardByte(i) {
			return false, i - m.lead
		}
	}
	for i := m.lead + len(m.fb); i < len(m.host); i++ {
		if m.host[i] != c19GuardByte(i) {
			return false, i - m.lead
		}
	}
	return true, 0
}

// guardsIntact compares the guard regions with their pattern.
func (m *c19Mach) guardsIntact() (bool, int) {
	for i := 0; i < m.lead; i++ {
		if m.host[i] != m.guardRef[i] {
			return false, i - m.lead
		}
	}
	for i := m.lead + len(m.fb); i < len(m.host); i++ {
		if m.host[i] != m.guardRef[i] {
			return false, i - m.lead
		}
	}
	return true, 0
}

// c19Arg draws a 32-bit coordinate from the boundary classes of the design.
func c19Arg(r *vlib.Rand, last int64) (uint32, string) {
	switch r.Intn(14) {
	case 0:
		return 0, "0"
	case 1:
		return 1, "1"
	case 2:
		return uint32((last + 1) / 2), "mid"
	case 3:
		return uint32(last), "last"
	case 4:
		return uint32(last + 1), "last+1"
	case 5:
		return 1 << 31, "2^31"
	case 6:
		return 0xffffffff, "2^32-1"
	case 7:
		return r.U32(), "random32"
	case 8:
		return uint32(-last), "2^32-last"
	case 9:
		return uint32(last + 2 + int64(r.Intn(100))), "beyond"
	default:
		return uint32(1 + r.Intn(int(last))), "inside"
	}
}

// c19Extent draws a width/height given the clamped origin o (1..last).
func c19Extent(r *vlib.Rand, o, last int64) (uint32, string) {
	rem := last - o + 1
	switch r.Intn(16) {
	case 0:
		return 0, "0"
	case 1:
		return 1, "1"
	case 2:
		return uint32(rem), "remaining"
	case 3:
		return uint32(rem + 1), "remaining+1"
	case 4:
		if rem > 1 {
			return uint32(rem - 1), "remaining-1"
		}
		return 1, "1"
	case 5:
		return uint32(last), "last"
	case 6:
		return uint32(last + 1), "last+1"
	case 7:
		return 1 << 31, "2^31"
	case 8:
		return 0xffffffff, "2^32-1"
	case 9:
		return uint32(-o), "2^32-origin(sum=2^32-1)"
	case 10:
		return uint32(1 - o), "2^32-origin+1(sum=2^32)"
	case 11:
		return uint32(2 - o + int64(r.Intn(3))), "2^32-origin+2..4"
	case 12:
		return r.U32(), "random32"
	default:
		return uint32(1 + r.Intn(int(rem))), "inside"
	}
}

type c19Ctx struct {
	run   *vlib.Run
	c     *vlib.Case
	count func(name string, d int64) // run.Count plus a process-local tally
	// the unchanged tree's Fill never returns in reasonable time for some
	// doubly wrapping extents (2^32 loop iterations); see c19ProbeFillWrap.
	fillWrapDefect map[string]bool
	// per case
	sawWrite, sawClip, sawScroll bool
	opLog                        []string
}

func (m *c19Mach) describe(op string) string {
	return fmt.Sprintf("%s; %s; %s", m.g.String(), m.placement, op)
}

// exec runs one operation of the real driver against the expectation that is
// already in m.mdl and reports every disagreement.
func (m *c19Mach) exec(x *c19Ctx, opClass, opDesc string, f func()) (clean bool) {
	run, c := x.run, x.c
	if m.g.cols == 0 || m.g.rows == 0 {
		// a console too small for a single cell: every operation must leave
		// the buffer alone
		switch {
		case strings.HasPrefix(opClass, "fill"):
			opClass = "emptygrid-fill"
		case strings.HasPrefix(opClass, "write"):
			opClass = "emptygrid-write"
		default:
			opClass = "emptygrid-scroll"
		}
		x.count(m.drv+"_ops_on_empty_grid", 1)
	}
	pv, stack := vlib.Protect(f)
	clean = true
	if pv != nil {
		clean = false
		x.count("panics", 1)
		c.Violation(m.drv+":"+opClass+":panic", map[string]interface{}{
			"what":  "the driver panicked (access outside the framebuffer slice or guard-page fault)",
			"input": m.describe(opDesc), "panic": fmt.Sprint(pv), "site": vlib.PanicSite(stack)})
	}
	if ok, rel := m.guardsIntact(); !ok {
		clean = false
		c.Violation(m.drv+":"+opClass+":guard-changed", map[string]interface{}{
			"what": fmt.Sprintf("byte at offset %d relative to the framebuffer start changed (framebuffer is %d bytes)", rel, len(m.fb)), "input": m.describe(opDesc)})
		for i := range m.host { // repair so that later operations are judged on their own
			if i < m.lead || i >= m.lead+len(m.fb) {
				m.host[i] = m.guardRef[i]
			}
		}
	}
	mm, specified := m.mdl.check(m.before, m.fb)
	run.Count("bytes_compared", specified+int64(len(m.host)-len(m.fb)))
	if mm.count > 0 {
		clean = false
		var kind string
		switch {
		case mm.kind == c19Exact:
			kind = "addressed-cell-wrong"
		case mm.region == c19RegCell:
			kind = "other-cell-changed"
		default:
			kind = c19RegName[mm.region] + "-changed"
		}
		c.Violation(m.drv+":"+opClass+":"+kind, map[string]interface{}{
			"input":                     m.describe(opDesc),
			"first":                     fmt.Sprintf("%s holds %#02x, allowed: %s", m.mdl.where(mm.first), mm.got, mm.want),
			"bytes_outside_allowed_set": mm.count,
			"by_region":                 fmt.Sprintf("cell=%d logo=%d remainder=%d padding=%d", mm.perClass[0], mm.perClass[1], mm.perClass[2], mm.perClass[3])})
	}
	return clean
}

func (m *c19Mach) prep(seed uint64) {
	m.scramble(seed)
	copy(m.before, m.fb)
}

func (m *c19Mach) doWrite(x *c19Ctx, seed uint64, ch byte, fg, bg uint8, px, py uint32) {
	m.prep(seed)
	inGrid, palOK := m.mdl.expectWrite(ch, fg, bg, px, py)
	op, cls := fmt.Sprintf("Write(ch=%#02x,fg=%d,bg=%d,x=%d,y=%d)", ch, fg, bg, px, py), "write"
	switch {
	case !inGrid:
		cls = "write-offgrid"
		x.count(m.drv+"_write_offgrid", 1)
	case !palOK:
		cls = "write-colour-outside-palette"
		x.count(m.drv+"_write_colour_outside_palette", 1)
	default:
		if int(bg) == len(m.mdl.palette)-1 {
			cls = "write-bg-last"
		}
		x.count(m.drv+"_write_ingrid", 1)
		x.sawWrite = true
	}
	m.exec(x, cls, op, func() { m.dev.Write(ch, fg, bg, px, py) })
}

func (m *c19Mach) doFill(x *c19Ctx, seed uint64, fx, fy, fw, fh uint32, fg, bg uint8) {
	m.prep(seed)
	fi := m.mdl.expectFill(fx, fy, fw, fh, fg, bg)
	op, cls := fmt.Sprintf("Fill(x=%d,y=%d,w=%d,h=%d,fg=%d,bg=%d)", fx, fy, fw, fh, fg, bg), "fill"
	if !fi.paletteOK {
		cls = "fill-colour-outside-palette"
	}
	if fi.wrapW || fi.wrapH {
		cls = "fill-wrap32"
		x.count(m.drv+"_fill_extent_beyond_32bit", 1)
	}
	if x.fillWrapDefect[m.drv] && fi.wrapH && (fi.wrapW || fw == 0 || m.g.cols == 0) {
		// On a tree with the 32-bit clipping defect this call spins through
		// ~2^32 empty iterations; the defect itself is reported by the singly
		// wrapping calls. Nothing is skipped on a repaired tree.
		x.count("fill_skipped_2^32_iterations_on_defective_tree", 1)
		return
	}
	x.count(m.drv+"_fill", 1)
	x.count("cells_filled", fi.cells)
	if fi.clipped && !fi.empty {
		x.count(m.drv+"_fill_clipped", 1)
		x.sawClip = true
	}
	if fi.originClamped {
		x.count(m.drv+"_fill_origin_clamped", 1)
	}
	if fi.empty {
		x.count(m.drv+"_fill_empty", 1)
	}
	m.exec(x, cls, op, func() { m.dev.Fill(fx, fy, fw, fh, fg, bg) })
}

func (m *c19Mach) doScroll(x *c19Ctx, seed uint64, up bool, n uint32) {
	m.prep(seed)
	valid, moved := m.mdl.expectScroll(up, n)
	dir, dn := ScrollDirDown, "down"
	if up {
		dir, dn = ScrollDirUp, "up"
	}
	op, cls := fmt.Sprintf("Scroll(%s,%d)", dn, n), "scroll-"+dn
	if !valid {
		cls = "scroll-ignored-count"
		x.count(m.drv+"_scroll_count_to_ignore", 1)
	} else {
		m.mdl.bindScrollSource(m.before)
		x.count(m.drv+"_scroll_"+dn, 1)
		x.count("lines_moved", moved)
		if moved > 0 {
			x.sawScroll = true
		}
		if int64(n) == m.g.rows {
			x.count(m.drv+"_scroll_by_grid_height", 1)
		}
	}
	m.exec(x, cls, op, func() { m.dev.Scroll(dir, n) })
}

// c19ProbeFillWrap reports, per driver path, whether Fill(2,1,2^32-1,1) on a
// small console fails to fill (the 32-bit clipping defect of DESIGN.md 5 #6).
// The answer is used only to keep calls that would spin for 2^32 iterations
// out of the run; it is never a verdict.
func c19ProbeFillWrap() map[string]bool {
	res := map[string]bool{}
	r := vlib.NewRand(19)
	for _, spec := range []c19Spec{
		{text: true, cols: 4, rows: 4},
		{bpp: 8, gw: 8, gh: 2, cols: 4, rows: 4},
		{bpp: 16, gw: 8, gh: 2, cols: 4, rows: 4, typicalRGB: true},
		{bpp: 24, gw: 8, gh: 2, cols: 4, rows: 4, typicalRGB: true},
	} {
		m, _, _ := c19Build(spec, r)
		m.prep(1)
		m.mdl.expectFill(2, 1, 0xffffffff, 1, 7, 1)
		pv, _ := vlib.Protect(func() { m.dev.Fill(2, 1, 0xffffffff, 1, 7, 1) })
		mm, _ := m.mdl.check(m.before, m.fb)
		res[m.drv] = pv != nil || mm.count > 0
	}
	return res
}

func c19RandomSpec(r *vlib.Rand, idx int, thorough bool) c19Spec {
	var s c19Spec
	s.placement = r.Intn(3)
	if r.Intn(4) == 0 {
		s.text = true
		s.cols = r.PickInt([]int{1, 2, 3, 40, 80, 132, r.Range(1, 132), r.Range(1, 20)})
		s.rows = r.PickInt([]int{1, 2, 25, 50, 60, r.Range(1, 60), r.Range(1, 12)})
		if c19EmptyGrids && r.Chance(1, 16) {
			if r.Bool() {
				s.cols = 0
			} else {
				s.rows = 0
			}
		}
		return s
	}
	s.bpp = r.PickInt([]int{8, 15, 16, 24, 32})
	s.typicalRGB = r.Chance(1, 3)
	maxC, maxR := 12, 8
	if thorough && r.Chance(1, 8) {
		maxC, maxR = 40, 25
	}
	switch r.Intn(6) {
	case 0:
		s.fontName = "terminus8x16"
		s.gw, s.gh = 8, 16
	case 1:
		s.fontName = "terminus10x18"
		s.gw, s.gh = 10, 18
	case 2:
		s.fontName = "terminus14x28"
		s.gw, s.gh = 14, 28
	default:
		s.gw = r.Range(8, 16)
		s.gh = r.PickInt([]int{1, 2, 7, 8, 16, r.Range(1, 20)})
	}
	s.cols = r.PickInt([]int{1, 2, r.Range(1, maxC), r.Range(1, maxC)})
	s.rows = r.PickInt([]int{1, 2, r.Range(1, maxR), r.Range(1, maxR)})
	if r.Bool() {
		s.remX = r.Intn(s.gw) // < one glyph, so the grid really is width/gw
	}
	if r.Bool() {
		s.remY = r.Intn(s.gh)
	}
	if c19EmptyGrids && r.Chance(1, 16) {
		// a framebuffer narrower than one glyph, or with less than one glyph
		// row below the logo
		if r.Bool() {
			s.cols, s.remX = 0, r.Range(1, s.gw-1)
		} else {
			s.rows, s.remY = 0, r.Range(1, s.gh)-1
		}
	}
	s.pad = r.PickInt([]int{0, 0, 1, 3, 64, r.Intn(33)})
	if r.Chance(3, 5) {
		s.logoH = r.PickInt([]int{1, 2, s.gh, s.gh + 1, r.Range(1, 40), r.Range(1, 40)})
		w := s.cols*s.gw + s.remX
		s.logoW = r.Range(1, w)
		s.logoAlign = logo.Alignment(r.Intn(3))
	}
	if s.rows == 0 && s.remY == 0 && s.logoH == 0 { // keep at least one pixel row
		s.logoH, s.logoW = r.Range(1, 8), 1
	}
	return s
}

func c19SpecDesc(s c19Spec) map[string]interface{} {
	if s.text {
		return map[string]interface{}{"driver": "VgaTextConsole", "cols": s.cols, "rows": s.rows, "placement": s.placement}
	}
	fn := s.fontName
	if fn == "" {
		fn = fmt.Sprintf("synthetic %dx%d", s.gw, s.gh)
	}
	return map[string]interface{}{"driver": "VesaFbConsole", "bpp": s.bpp, "font": fn, "cols": s.cols, "rows": s.rows,
		"rem_x": s.remX, "rem_y": s.remY, "pitch_pad": s.pad, "logo_h": s.logoH, "logo_w": s.logoW, "logo_align": int(s.logoAlign),
		"typical_rgb": s.typicalRGB, "placement": s.placement}
}

func TestVerifC19(t *testing.T) {
	run := vlib.Start(t, "C19")
	defer run.Finish()
	run.SetRule("case = one console (3 of 4: VesaFbConsole with depth in {8,15,16,24,32}, shipped or synthetic 8-16 px font, grid 1..12 x 1..8 cells plus optional right/bottom remainder, pitch padding in {0,1,3,64,random}, synthetic logo of random height/width/alignment, random colour-mask layout and palette; 1 of 4: VgaTextConsole 1x1..132x60; 1 console in 16 has a grid without any cell: narrower than a glyph, lower than logo + one glyph row, 0 columns or 0 rows in text mode; thorough: 1 framebuffer in 8 up to 40x25 cells) placed as a window between pattern guards or against a PROT_NONE page, followed by 24-64 single Write/Fill/Scroll calls whose x,y,w,h,lines come from the classes {0,1,mid,last,last+1,2^31,2^32-1,2^32-last,remaining,remaining+-1,sum=2^32-1,sum=2^32,random}; the window is re-scrambled before every call and every byte is compared with the allowed-value set afterwards. non-trivial = case with at least one in-grid Write, one Fill whose extent was clipped at an edge and one Scroll that moved at least one line; distinct = fingerprint of the console spec and the argument list")
	run.Assume("port I/O (portWriteByteFn) is stubbed; the console is constructed in-package (fb slice set directly, loadDefaultPalette, SetLogo, SetFont); where the window starts on a page boundary (placement arena-head) it is brought up through the real DriverInit with mapRegionFn answering with the window's address; one framebuffer console in five is first given another font with lower glyphs (an earlier layout) before the logo and the final font; an 8-bit colour component is reduced to a mask of n bits by keeping its n most significant bits; glyph bitmaps are MSB-first")
	run.Assume("colour masks lie in the low 24 bits of 24/32-bpp pixels and in the low bpp bits of 15/16-bpp pixels; bits of a pixel outside every colour mask are don't-care inside an addressed cell")

	defer func() { portWriteByteFn = cpu.PortWriteByte }()
	portWriteByteFn = func(uint16, uint8) {}
	defer debug.SetPanicOnFault(debug.SetPanicOnFault(true))

	if a, err := vlib.NewArena(0, c19ArenaSize, false); err == nil {
		c19Arena = a
		defer func() { c19Arena.Free(); c19Arena = nil }()
	} else {
		run.Note("mmap arena unavailable (" + err.Error() + "): all consoles placed on the heap between pattern guards")
	}

	defect := c19ProbeFillWrap()
	for _, d := range []string{"vga", "fb8", "fb16", "fb24"} {
		if defect[d] {
			run.Note("Fill 32-bit clipping defect present in " + d + ": fills whose height wraps while the width wraps, is 0 or the grid has no column are not executed (2^32 loop iterations)")
		}
	}

	tally := map[string]int64{}
	count := func(name string, d int64) {
		run.Count(name, d)
		tally[name] += d
	}

	runCase := func(c *vlib.Case, spec c19Spec, ops func(x *c19Ctx, m *c19Mach, r *vlib.Rand)) {
		r := c.R
		c.Begin(c19SpecDesc(spec))
		m, sp, st := c19Build(spec, r)
		x := &c19Ctx{run: run, c: c, count: count, fillWrapDefect: defect}
		if sp != nil {
			c.Violation(m.drv+":setup:panic", map[string]interface{}{"what": "SetLogo/SetFont panicked", "input": m.g.String(), "panic": fmt.Sprint(sp), "site": vlib.PanicSite(st)})
			return
		}
		if m.relaid {
			count("consoles_laid_out_twice", 1)
		}
		if m.nilLogo {
			count("consoles_given_a_nil_logo_after_layout", 1)
		}
		if m.prepainted {
			count("consoles_painted_with_colours_240_255_before_the_logo", 1)
		}
		if m.viaInit {
			count("consoles_brought_up_through_driverinit", 1)
			if m.fbLen != len(m.fb) {
				c.Violationf(m.drv+":init:framebuffer-length", "%s: DriverInit built a framebuffer slice of %d bytes, height*pitch is %d (mapping requests: %v)", m.g.String(), m.fbLen, len(m.fb), m.mapSizes)
				return
			}
			if ok, off := m.guardsFresh(); !ok {
				c.Violationf(m.drv+":init:guard-touched", "%s: DriverInit changed memory outside the framebuffer at offset %d", m.g.String(), off)
				return
			}
		}
		if m.logoChecked {
			count("logos_compared", 1)
			if ok, off := m.guardsFresh(); !ok {
				c.Violationf(m.drv+":logo:guard-touched", "%s: SetLogo changed memory outside the framebuffer at offset %d", m.g.String(), off)
				return
			}
			if m.logoMM.count > 0 {
				c.Violation(m.drv+":logo:"+c19RegName[m.logoMM.region]+"-wrong", map[string]interface{}{"what": "framebuffer after SetLogo differs from the logo drawn in its rectangle and nothing else",
					"input": m.g.String(), "logo": fmt.Sprintf("%dx%d align %d", m.spec.logoW, m.spec.logoH, int(m.spec.logoAlign)),
					"first": m.mdl.where(m.logoMM.first), "got": fmt.Sprintf("%#02x", m.logoMM.got), "want": m.logoMM.want, "bytes_wrong": m.logoMM.count})
				return
			}
		}
		// the grid the driver reports must be the grid of the statement
		if cw, ch := m.dev.Dimensions(Characters); int64(cw) != m.g.cols || int64(ch) != m.g.rows {
			c.Violationf(m.drv+":setup:grid", "%s: driver reports a grid of %dx%d cells", m.g.String(), cw, ch)
			return
		}
		ops(x, m, r)
	}

	n := run.N(10000, 160000)
	run.Cases(n, func(c *vlib.Case) {
		spec := c19RandomSpec(c.R, c.Idx, run.Thorough())
		runCase(c, spec, func(x *c19Ctx, m *c19Mach, r *vlib.Rand) {
			g := &m.g
			fp := vlib.NewFP().Str(fmt.Sprint(spec))
			run.Count("consoles_"+m.drv, 1)
			run.SetAdd("placements", m.placement)
			if !g.text {
				run.SetAdd("depths", fmt.Sprint(g.bpp))
				run.SetAdd("pitch_padding", fmt.Sprint(spec.pad))
				run.SetAdd("glyph_widths", fmt.Sprint(g.gw))
				if spec.logoH > 0 {
					run.Count("consoles_with_logo", 1)
				}
				if spec.remX > 0 || spec.remY > 0 {
					run.Count("consoles_with_remainder", 1)
				}
				run.Max("largest_framebuffer_bytes", g.size)
			}
			nops := r.Range(24, 64)
			var sample []string
			var lastFg, lastBg uint8
			haveCol := false
			for i := 0; i < nops; i++ {
				seed := r.U64()
				k := r.Intn(20)
				switch {
				case k < 8: // Write
					var px, py uint32
					var cx, cy string
					if r.Chance(1, 2) {
						px, cx = uint32(1+r.Intn(int(g.cols))), "inside"
						py, cy = uint32(1+r.Intn(int(g.rows))), "inside"
					} else {
						px, cx = c19Arg(r, g.cols)
						py, cy = c19Arg(r, g.rows)
					}
					ch, fg, bg := byte(r.U64()), uint8(r.U64()), uint8(r.U64())
					if g.text && r.Chance(3, 4) {
						fg, bg = fg&15, bg&15
					}
					if haveCol && r.Chance(1, 4) {
						// a colour pair related to the previous one (what a console that remembers packed colours,
						// attribute bytes or palette look-ups from call to call would confuse): swapped, same low
						// nibbles, one index moved by 16 with the other moved by 1, one of the two unchanged
						switch r.Intn(5) {
						case 0:
							fg, bg = lastBg, lastFg
						case 1:
							fg, bg = lastFg^uint8(r.Intn(16)<<4), lastBg^uint8(r.Intn(16)<<4)
						case 2:
							fg, bg = lastFg+16, lastBg-1
						case 3:
							fg, bg = lastFg-16, lastBg+1
						default:
							fg = lastFg
						}
						run.Count("writes_with_a_colour_pair_related_to_the_previous_one", 1)
					}
					lastFg, lastBg, haveCol = fg, bg, true
					run.SetAdd("boundary_buckets", "write.x="+cx)
					run.SetAdd("boundary_buckets", "write.y="+cy)
					fp = fp.Int(1).U64(uint64(px)).U64(uint64(py)).Int(int(ch)).Int(int(fg)).Int(int(bg))
					if len(sample) < 6 {
						sample = append(sample, fmt.Sprintf("Write(%#02x,%d,%d,%d,%d)", ch, fg, bg, px, py))
					}
					m.doWrite(x, seed, ch, fg, bg, px, py)
				case k < 15: // Fill
					fx, cx := c19Arg(r, g.cols)
					fy, cy := c19Arg(r, g.rows)
					ox, oy := int64(fx), int64(fy)
					if ox < 1 {
						ox = 1
					} else if ox > g.cols {
						ox = g.cols
					}
					if oy < 1 {
						oy = 1
					} else if oy > g.rows {
						oy = g.rows
					}
					fw, cw := c19Extent(r, ox, g.cols)
					fh, chh := c19Extent(r, oy, g.rows)
					fg, bg := uint8(r.U64()), uint8(r.U64())
					if g.text && r.Chance(3, 4) {
						fg, bg = fg&15, bg&15
					}
					run.SetAdd("boundary_buckets", "fill.x="+cx)
					run.SetAdd("boundary_buckets", "fill.y="+cy)
					run.SetAdd("boundary_buckets", "fill.w="+cw)
					run.SetAdd("boundary_buckets", "fill.h="+chh)
					fp = fp.Int(2).U64(uint64(fx)).U64(uint64(fy)).U64(uint64(fw)).U64(uint64(fh)).Int(int(fg)).Int(int(bg))
					if len(sample) < 6 {
						sample = append(sample, fmt.Sprintf("Fill(%d,%d,%d,%d,%d,%d)", fx, fy, fw, fh, fg, bg))
					}
					m.doFill(x, seed, fx, fy, fw, fh, fg, bg)
				default: // Scroll
					var ln uint32
					var cl string
					if r.Chance(1, 2) {
						ln, cl = uint32(1+r.Intn(int(g.rows))), "inside"
					} else {
						ln, cl = c19Arg(r, g.rows)
					}
					up := r.Bool()
					run.SetAdd("boundary_buckets", "scroll.lines="+cl)
					fp = fp.Int(3).U64(uint64(ln))
					if up {
						fp = fp.Int(1)
					}
					if len(sample) < 6 {
						sample = append(sample, fmt.Sprintf("Scroll(up=%v,%d)", up, ln))
					}
					m.doScroll(x, seed, up, ln)
				}
			}
			if x.sawWrite && x.sawClip && x.sawScroll {
				run.Nontrivial(fp)
			}
			if run.WantSample() && x.sawWrite && x.sawClip && x.sawScroll && c.Idx%5 == 0 {
				run.Sample(map[string]interface{}{"console": g.String(), "placement": m.placement, "first_ops": sample})
			}
		})
	})

	// Fixed regression inputs: the probed reproducers of DESIGN.md 5 #6 in every
	// driver path, and the last palette entry as a text-mode background.
	fixed := []c19Spec{
		{text: true, cols: 80, rows: 25},
		{bpp: 8, fontName: "terminus8x16", gw: 8, gh: 16, cols: 10, rows: 4, pad: 3, remX: 3, remY: 5, logoH: 7, logoW: 20, placement: 1},
		{bpp: 16, fontName: "terminus10x18", gw: 10, gh: 18, cols: 6, rows: 3, pad: 1, typicalRGB: true, placement: 1},
		{bpp: 32, fontName: "terminus14x28", gw: 14, gh: 28, cols: 5, rows: 3, pad: 64, remY: 9, logoH: 11, logoW: 70, logoAlign: logo.AlignRight, typicalRGB: true, placement: 2},
		{bpp: 24, gw: 16, gh: 8, cols: 4, rows: 5, pad: 0, remX: 7, placement: 1},
		{bpp: 15, gw: 9, gh: 3, cols: 7, rows: 6, pad: 3, logoH: 2, logoW: 5, logoAlign: logo.AlignCenter, placement: 0},
	}
	for i, spec := range fixed {
		spec := spec
		run.OneCase(vlib.FixedBase+1+i, func(c *vlib.Case) {
			runCase(c, spec, func(x *c19Ctx, m *c19Mach, r *vlib.Rand) {
				g := &m.g
				m.doFill(x, 11, 1, 2, 1, 0xffffffff, 7, 1)
				m.doFill(x, 12, 2, 1, 0xffffffff, 1, 7, 1)
				m.doFill(x, 13, uint32(g.cols), uint32(g.rows), uint32(1-g.cols), uint32(1-g.rows), 7, 2) // both sums = 2^32
				m.doFill(x, 14, 1, uint32(g.rows), 0, 0xffffffff, 7, 2)                                   // empty width, wrapping height
				m.doFill(x, 15, 0, 0, 0xffffffff, 0xffffffff, 7, 3)                                       // whole grid, no wrap (origin 1)
				m.doFill(x, 16, 0xffffffff, 0xffffffff, 0xffffffff, 0xffffffff, 7, 3)                     // last cell
				m.doWrite(x, 17, 'A', 7, uint8(len(m.mdl.palette)-1), 1, 1)
				m.doWrite(x, 18, 'A', uint8(len(m.mdl.palette)-1), 0, uint32(g.cols), uint32(g.rows))
				m.doWrite(x, 19, 0xff, 1, 2, uint32(g.cols)+1, 1)
				m.doWrite(x, 20, 0xff, 1, 2, 1, uint32(g.rows)+1)
				m.doWrite(x, 21, 0xff, 1, 2, 0, 0)
				m.doScroll(x, 22, true, uint32(g.rows))
				m.doScroll(x, 23, false, uint32(g.rows))
				m.doScroll(x, 24, true, uint32(g.rows)+1)
				m.doScroll(x, 25, false, 0)
				m.doScroll(x, 26, true, 1)
				m.doScroll(x, 27, false, 1)
			})
		})
	}

	// facets that are the point of the harness
	if run.From == 0 && run.To < 0 && !run.Replay {
		for _, d := range []string{"vga", "fb8", "fb16", "fb24"} {
			for _, k := range []string{"_write_ingrid", "_fill_clipped", "_fill_extent_beyond_32bit", "_scroll_up", "_scroll_down"} {
				if tally[d+k] == 0 {
					run.Inconclusive("no " + d + k + " operation was observed")
				}
			}
		}
	}
}
