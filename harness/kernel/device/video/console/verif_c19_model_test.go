//go:build verif
// +build verif

package console

// C19 reference model. Everything in this file is written from the property
// statement and DESIGN.md (section 3, C19), not from the drivers:
//
//   * a console is a byte buffer of `height` pixel rows of `pitch` bytes; a
//     pixel is `bytesPP` bytes, little-endian; the first `logoH` pixel rows are
//     the logo area; below it lies a grid of cols x rows cells of gw x gh
//     pixels; what is left over on the right (pixels), at the bottom (pixel
//     rows) and between the end of a pixel row and the pitch (padding) belongs
//     to nobody. The text-mode console is the same thing with a 1x1 "glyph",
//     2 bytes per cell (character, attribute), no logo and no padding;
//   * for every operation the model produces, for every byte of the buffer, the
//     SET of values the byte may hold afterwards (see the kinds below).
//
// All arithmetic is done in int64 so that no 32-bit argument can wrap here.

import (
	"fmt"
	"image/color"

	"github.com/ProjectSerenity/firefly/kernel/device/video/console/font"
)

// Per-byte expectation kinds.
const (
	c19Same      = iota // must equal the value before the operation
	c19Exact            // (after ^ val) & mask == 0
	c19Any              // unspecified by the statement
	c19SameOrSrc        // equals the value before, or the old value of byte src (same column, source row of a scroll)
)

// Static classification of a byte (for reports and for the scroll rule).
const (
	c19RegCell      = iota // pixel (or text cell) inside the grid
	c19RegLogo             // pixel row above the text area
	c19RegRemainder        // pixel right of / below the grid
	c19RegPadding          // byte between the end of a pixel row and the pitch
)

var c19RegName = [...]string{"cell", "logo", "remainder", "padding"}

type c19Geom struct {
	text                 bool
	cols, rows           int64 // grid in cells
	width, height, pitch int64 // pixels, pixels, bytes
	bpp, bytesPP         int64
	gw, gh               int64 // cell size in pixels
	logoH                int64
	size                 int64 // height*pitch

	fnt *font.Font
	// colour layout (position, size) for red, green, blue; bpp > 8 only
	pos, msz [3]int64
}

func (g *c19Geom) String() string {
	if g.text {
		return fmt.Sprintf("text %dx%d", g.cols, g.rows)
	}
	return fmt.Sprintf("fb %dx%dx%d pitch=%d font=%dx%d logo=%d grid=%dx%d layout=R%d@%d,G%d@%d,B%d@%d",
		g.width, g.height, g.bpp, g.pitch, g.gw, g.gh, g.logoH, g.cols, g.rows,
		g.msz[0], g.pos[0], g.msz[1], g.pos[1], g.msz[2], g.pos[2])
}

// c19Model holds the expectation for one operation on one console.
type c19Model struct {
	g      c19Geom
	region []uint8
	kind   []uint8
	val    []byte
	mask   []byte
	src    []int32

	// pixMask[k] = the bits of byte k of a pixel that carry colour
	// information (bits outside every colour mask are don't-care inside
	// an addressed cell; for 32 bpp this is the unused byte).
	pixMask [4]byte
	palette color.Palette // the console's active palette (read, never written)
}

func c19NewModel(g c19Geom, pal color.Palette) *c19Model {
	m := &c19Model{g: g, palette: pal}
	n := int(g.size)
	m.region = make([]uint8, n)
	m.kind = make([]uint8, n)
	m.val = make([]byte, n)
	m.mask = make([]byte, n)
	m.src = make([]int32, n)

	switch {
	case g.text:
		m.pixMask = [4]byte{0xff, 0xff, 0, 0}
	case g.bpp == 8:
		m.pixMask = [4]byte{0xff, 0, 0, 0}
	default:
		var bits uint64
		for k := 0; k < 3; k++ {
			bits |= ((uint64(1) << uint(g.msz[k])) - 1) << uint(g.pos[k])
		}
		for k := int64(0); k < g.bytesPP; k++ {
			m.pixMask[k] = byte(bits >> uint(8*k))
		}
	}

	gridW := g.cols * g.gw * g.bytesPP // bytes of a pixel row that belong to cells
	rowW := g.width * g.bytesPP        // bytes of a pixel row that are pixels
	for py := int64(0); py < g.height; py++ {
		for b := int64(0); b < g.pitch; b++ {
			var reg uint8
			switch {
			case b >= rowW:
				reg = c19RegPadding
			case py < g.logoH:
				reg = c19RegLogo
			case py >= g.logoH+g.rows*g.gh || b >= gridW:
				reg = c19RegRemainder
			default:
				reg = c19RegCell
			}
			m.region[py*g.pitch+b] = reg
		}
	}
	return m
}

func (m *c19Model) reset() {
	for i := range m.kind {
		m.kind[i] = c19Same
	}
}

// pack returns the bytes of a pixel of palette colour idx and the per-byte
// masks of the bits that are specified.
func (m *c19Model) pack(idx uint8) (v [4]byte, mk [4]byte) {
	g := &m.g
	if g.bpp == 8 {
		// indexed mode: the pixel is the palette index
		return [4]byte{idx}, m.pixMask
	}
	c := m.palette[idx].(color.RGBA)
	comp := [3]uint64{uint64(c.R), uint64(c.G), uint64(c.B)}
	var pix uint64
	for k := 0; k < 3; k++ {
		// an 8-bit component is reduced to its msz most significant bits
		pix |= (comp[k] >> uint(8-g.msz[k])) << uint(g.pos[k])
	}
	for k := int64(0); k < g.bytesPP; k++ {
		v[k] = byte(pix >> uint(8*k))
	}
	return v, m.pixMask
}

// glyphBit reports whether pixel (col,row) of glyph ch is a foreground pixel:
// a glyph is gh rows of BytesPerRow bytes, leftmost pixel in the most
// significant bit of the first byte.
func (m *c19Model) glyphBit(ch byte, col, row int64) bool {
	f := m.g.fnt
	bpr := int64(f.BytesPerRow)
	o := (int64(ch)*m.g.gh+row)*bpr + col/8
	return f.Data[o]&(0x80>>uint(col%8)) != 0
}

func (m *c19Model) setPixel(px, py int64, v, mk [4]byte) {
	o := py*m.g.pitch + px*m.g.bytesPP
	for k := int64(0); k < m.g.bytesPP; k++ {
		m.kind[o+k] = c19Exact
		m.val[o+k] = v[k]
		m.mask[o+k] = mk[k]
	}
}

// cellAny marks every byte of cell (cx,cy) (1-based) as unspecified.
func (m *c19Model) cellAny(cx, cy int64) {
	g := &m.g
	for r := int64(0); r < g.gh; r++ {
		o := (g.logoH+(cy-1)*g.gh+r)*g.pitch + (cx-1)*g.gw*g.bytesPP
		for k := int64(0); k < g.gw*g.bytesPP; k++ {
			m.kind[o+k] = c19Any
		}
	}
}

func (m *c19Model) inGrid(x, y int64) bool {
	return x >= 1 && x <= m.g.cols && y >= 1 && y <= m.g.rows
}

// expectWrite: in-grid => that cell only; out-of-grid => nothing.
// paletteOK reports whether both colours are inside the palette (otherwise the
// cell content is not checked, only that nothing else changes).
func (m *c19Model) expectWrite(ch byte, fg, bg uint8, x, y uint32) (inGrid, paletteOK bool) {
	m.reset()
	g := &m.g
	cx, cy := int64(x), int64(y)
	if !m.inGrid(cx, cy) {
		return false, true
	}
	if int(fg) >= len(m.palette) || int(bg) >= len(m.palette) {
		m.cellAny(cx, cy)
		return true, false
	}
	if g.text {
		o := (cy-1)*g.pitch + (cx-1)*2
		m.kind[o], m.val[o], m.mask[o] = c19Exact, ch, 0xff
		m.kind[o+1], m.val[o+1], m.mask[o+1] = c19Exact, bg<<4|fg, 0xff
		return true, true
	}
	fv, fm := m.pack(fg)
	bv, bm := m.pack(bg)
	for r := int64(0); r < g.gh; r++ {
		for c := int64(0); c < g.gw; c++ {
			px, py := (cx-1)*g.gw+c, g.logoH+(cy-1)*g.gh+r
			if m.glyphBit(ch, c, r) {
				m.setPixel(px, py, fv, fm)
			} else {
				m.setPixel(px, py, bv, bm)
			}
		}
	}
	return true, true
}

type c19FillInfo struct {
	x0, y0, x1, y1   int64 // filled cells, inclusive (x1<x0 or y1<y0: empty)
	clipped          bool  // the extent reached past the right or bottom edge
	wrapW, wrapH     bool  // origin+extent-1 does not fit in 32 bits
	cells            int64
	originClamped    bool
	paletteOK, empty bool
}

// expectFill: origin clamped into the grid, extent clipped at the right and
// bottom edges (wide arithmetic), exactly those cells become background.
func (m *c19Model) expectFill(x, y, w, h uint32, fg, bg uint8) c19FillInfo {
	m.reset()
	g := &m.g
	var fi c19FillInfo
	clamp := func(v, hi int64) int64 {
		if v < 1 {
			return 1
		}
		if v > hi {
			return hi
		}
		return v
	}
	fi.x0, fi.y0 = clamp(int64(x), g.cols), clamp(int64(y), g.rows)
	fi.originClamped = fi.x0 != int64(x) || fi.y0 != int64(y)
	fi.x1 = fi.x0 + int64(w) - 1
	fi.y1 = fi.y0 + int64(h) - 1
	fi.wrapW = fi.x1 > 0xffffffff
	fi.wrapH = fi.y1 > 0xffffffff
	if fi.x1 > g.cols {
		fi.x1, fi.clipped = g.cols, true
	}
	if fi.y1 > g.rows {
		fi.y1, fi.clipped = g.rows, true
	}
	fi.paletteOK = int(bg) < len(m.palette) && (!g.text || int(fg) < len(m.palette))
	if g.cols == 0 || g.rows == 0 {
		// a grid without cells: there is no cell that could change
		fi.empty, fi.clipped = true, false
		return fi
	}
	if fi.x1 < fi.x0 || fi.y1 < fi.y0 {
		fi.empty = true
		return fi
	}
	fi.cells = (fi.x1 - fi.x0 + 1) * (fi.y1 - fi.y0 + 1)
	var bv, bm [4]byte
	if !g.text && fi.paletteOK {
		bv, bm = m.pack(bg)
	}
	for cy := fi.y0; cy <= fi.y1; cy++ {
		for cx := fi.x0; cx <= fi.x1; cx++ {
			switch {
			case !fi.paletteOK:
				m.cellAny(cx, cy)
			case g.text:
				// a background cell: the blank character on the requested
				// background; the foreground nibble of a blank is not
				// demanded by the statement.
				o := (cy-1)*g.pitch + (cx-1)*2
				m.kind[o], m.val[o], m.mask[o] = c19Exact, ' ', 0xff
				m.kind[o+1], m.val[o+1], m.mask[o+1] = c19Exact, bg<<4, 0xf0
			default:
				for r := int64(0); r < g.gh; r++ {
					for c := int64(0); c < g.gw; c++ {
						m.setPixel((cx-1)*g.gw+c, g.logoH+(cy-1)*g.gh+r, bv, bm)
					}
				}
			}
		}
	}
	return fi
}

// expectScroll: 1 <= n <= rows: line L shows what line L+n (up) / L-n (down)
// showed; vacated lines unspecified; logo untouched; a remainder/padding byte
// keeps its value or takes the value of the same column in its source row;
// any other n: nothing changes.
func (m *c19Model) expectScroll(up bool, n uint32) (valid bool, movedLines int64) {
	m.reset()
	g := &m.g
	nn := int64(n)
	if nn < 1 || nn > g.rows {
		return false, 0
	}
	shift := nn * g.gh
	gridW := g.cols * g.gw * g.bytesPP
	textEnd := g.logoH + g.rows*g.gh
	for py := g.logoH; py < g.height; py++ {
		sr := py - shift
		if up {
			sr = py + shift
		}
		srOK := sr >= g.logoH && sr < g.height
		inText := py < textEnd
		moved := false
		if inText {
			line := (py - g.logoH) / g.gh
			if up {
				moved = line+nn < g.rows
			} else {
				moved = line-nn >= 0
			}
			if moved && (py-g.logoH)%g.gh == 0 {
				movedLines++
			}
		}
		ro, so := py*g.pitch, sr*g.pitch
		for b := int64(0); b < g.pitch; b++ {
			i := ro + b
			switch {
			case inText && b < gridW && moved:
				m.kind[i] = c19Exact
				m.src[i] = int32(so + b)
				m.mask[i] = m.pixMask[b%g.bytesPP]
				// val is filled by the caller from the before-image (bindScrollSource)
			case inText && b < gridW:
				m.kind[i] = c19Any
			case srOK:
				m.kind[i] = c19SameOrSrc
				m.src[i] = int32(so + b)
			}
		}
	}
	return true, movedLines
}

// bindScrollSource resolves the Exact bytes of a scroll expectation against
// the before-image (val = old value of the source byte).
func (m *c19Model) bindScrollSource(before []byte) {
	for i, k := range m.kind {
		if k == c19Exact {
			m.val[i] = before[m.src[i]]
		}
	}
}

// expectLogo: drawing a logo of lw x lh pixels changes exactly the pixels of its rectangle at the top of the
// framebuffer (left aligned, centred with the odd pixel on the right, or right aligned), each to the colour of
// its palette entry, which the console maps to the last len(logo palette) entries of its own palette.
func (m *c19Model) expectLogo(data []uint8, lw, lh int64, align int, palLen int) {
	m.reset()
	g := &m.g
	var x0 int64
	switch align {
	case 1: // centre
		x0 = (g.width - lw) >> 1
	case 2: // right
		x0 = g.width - lw
	}
	off := uint8(256 - palLen)
	for ly := int64(0); ly < lh; ly++ {
		for lx := int64(0); lx < lw; lx++ {
			v, mk := m.pack(data[ly*lw+lx] + off)
			m.setPixel(x0+lx, ly, v, mk)
		}
	}
}

type c19Mismatch struct {
	count    int
	first    int
	kind     uint8
	region   uint8
	got      byte
	want     string
	perClass [4]int // mismatches by region
}

// check compares the after-image with the expectation.
func (m *c19Model) check(before, after []byte) (mm c19Mismatch, specified int64) {
	mm.first = -1
	for i := range after {
		ok := true
		a := after[i]
		switch m.kind[i] {
		case c19Same:
			ok = a == before[i]
			specified++
		case c19Exact:
			ok = (a^m.val[i])&m.mask[i] == 0
			specified++
		case c19SameOrSrc:
			ok = a == before[i] || a == before[m.src[i]]
			specified++
		}
		if ok {
			continue
		}
		mm.count++
		mm.perClass[m.region[i]]++
		if mm.first < 0 {
			mm.first, mm.kind, mm.region, mm.got = i, m.kind[i], m.region[i], a
			switch m.kind[i] {
			case c19Same:
				mm.want = fmt.Sprintf("unchanged %#02x", before[i])
			case c19Exact:
				mm.want = fmt.Sprintf("%#02x under mask %#02x (was %#02x)", m.val[i], m.mask[i], before[i])
			case c19SameOrSrc:
				mm.want = fmt.Sprintf("unchanged %#02x or source-row value %#02x", before[i], before[m.src[i]])
			}
		}
	}
	return mm, specified
}

// where renders a byte offset as pixel row / byte column / cell.
func (m *c19Model) where(i int) string {
	g := &m.g
	py, b := int64(i)/g.pitch, int64(i)%g.pitch
	s := fmt.Sprintf("offset %d (pixel row %d, byte %d of the row, %s", i, py, b, c19RegName[m.region[i]])
	if m.region[i] == c19RegCell {
		s += fmt.Sprintf(", cell x=%d y=%d", b/(g.gw*g.bytesPP)+1, (py-g.logoH)/g.gh+1)
	}
	return s + ")"
}
