//go:build verif
// +build verif

package tty

// Shared by the C17 and C18 harnesses:
//
//   * c17Ref  - the reference terminal, written from the words of the C17
//               statement (not from vt.go): a list of lines, a viewport origin
//               and a 1-based cursor.  Scrolling re-links line slices; nothing
//               in it computes a byte offset.
//   * c17Op / c17GenOps - the generated histories (writes in random chunks,
//               single-byte writes, cursor moves, state changes) biased to the
//               boundaries named by the statement.

import (
	"fmt"
	"io"

	"github.com/ProjectSerenity/firefly/kernel/zzverif/vlib"
)

type c17Cell struct{ ch, fg, bg byte }

type c17Ref struct {
	w, h, sb int // viewport columns, viewport lines, scrollback lines
	tab      int
	dfg, dbg byte
	lines    [][]c17Cell // h+sb lines, lines[vy:vy+h] is the viewport
	vy       int
	cx, cy   int // 1-based, relative to the viewport
	active   bool

	// what happened (monitor counters, cumulative for the case)
	stores, wraps, viewAdvance, bufScroll int64
	bsCol1, bsOther, tabs, crs, lfs       int64
	lastLineFeeds                         int64 // line feeds taken on the last viewport line
	activeLastLineFeeds                   int64 // ... while the terminal was active
	cursorClips                           int64
}

func c17NewRef(w, h, sb, tab int, dfg, dbg byte) *c17Ref {
	t := &c17Ref{w: w, h: h, sb: sb, tab: tab, dfg: dfg, dbg: dbg, cx: 1, cy: 1}
	t.lines = make([][]c17Cell, h+sb)
	for i := range t.lines {
		t.lines[i] = t.blankLine()
	}
	return t
}

func (t *c17Ref) blankLine() []c17Cell {
	l := make([]c17Cell, t.w)
	for i := range l {
		l[i] = c17Cell{' ', t.dfg, t.dbg}
	}
	return l
}

// cursorLine is the buffer line the cursor is on.
func (t *c17Ref) cursorLine() []c17Cell { return t.lines[t.vy+t.cy-1] }

// nextLine: "to the start of the next line"; on the last viewport line first
// move the viewport down through the scrollback, once that is used up scroll
// the viewport's lines up by one and blank the last line.
func (t *c17Ref) nextLine() {
	t.cx = 1
	if t.cy < t.h {
		t.cy++
		return
	}
	t.lastLineFeeds++
	if t.active {
		t.activeLastLineFeeds++
	}
	if t.vy < t.sb {
		t.vy++
		t.viewAdvance++
		return
	}
	t.bufScroll++
	top := t.vy
	for i := top; i < top+t.h-1; i++ {
		t.lines[i] = t.lines[i+1]
	}
	t.lines[top+t.h-1] = t.blankLine()
}

func (t *c17Ref) store(ch byte) {
	t.stores++
	t.cursorLine()[t.cx-1] = c17Cell{ch, t.dfg, t.dbg}
	if t.cx == t.w {
		t.wraps++
		t.nextLine()
	} else {
		t.cx++
	}
}

func (t *c17Ref) put(b byte) {
	switch b {
	case '\r':
		t.crs++
		t.cx = 1
	case '\n':
		t.lfs++
		t.nextLine()
	case '\b':
		if t.cx == 1 {
			t.bsCol1++
			return
		}
		t.bsOther++
		t.cx--
		t.cursorLine()[t.cx-1] = c17Cell{' ', t.dfg, t.dbg}
	case '\t':
		t.tabs++
		for i := 0; i < t.tab; i++ {
			t.store(' ')
		}
	default:
		t.store(b)
	}
}

// setCursor clips the requested position into the viewport.
func (t *c17Ref) setCursor(x, y uint32) {
	cx, cy := int64(x), int64(y)
	clipped := false
	if cx < 1 {
		cx, clipped = 1, true
	}
	if cx > int64(t.w) {
		cx, clipped = int64(t.w), true
	}
	if cy < 1 {
		cy, clipped = 1, true
	}
	if cy > int64(t.h) {
		cy, clipped = int64(t.h), true
	}
	if clipped {
		t.cursorClips++
	}
	t.cx, t.cy = int(cx), int(cy)
}

// viewCell returns the cell shown at viewport column col, line row (0-based).
func (t *c17Ref) viewCell(col, row int) c17Cell { return t.lines[t.vy+row][col] }

// ---------------------------------------------------------------------------
// histories

const (
	c17OpWrite = iota
	c17OpWriteByte
	c17OpCursor
	c17OpState
)

type c17Op struct {
	kind  int
	data  []byte
	x, y  uint32
	state State
	// copied: the bytes of a Write operation reach the terminal through io.Copy from a reader that hands them out in
	// short reads (a line or a packet at a time, as io.Reader permits; the early boot log is drained into the
	// terminal that way)
	copied bool
}

// c17ShortReader returns its data in reads of 1..7 bytes whatever the size of the buffer it is given.
type c17ShortReader struct {
	data []byte
	k    int
}

func (r *c17ShortReader) Read(p []byte) (int, error) {
	if len(r.data) == 0 {
		return 0, io.EOF
	}
	r.k++
	n := 1 + (r.k*5+len(r.data))%7
	if n > len(r.data) {
		n = len(r.data)
	}
	if n > len(p) {
		n = len(p)
	}
	copy(p, r.data[:n])
	r.data = r.data[n:]
	return n, nil
}

func (o c17Op) String() string {
	switch o.kind {
	case c17OpWrite:
		if len(o.data) > 48 {
			return fmt.Sprintf("Write(%d bytes: %q...)", len(o.data), o.data[:48])
		}
		return fmt.Sprintf("Write(%q)", o.data)
	case c17OpWriteByte:
		return fmt.Sprintf("WriteByte(%q)", o.data[0])
	case c17OpCursor:
		return fmt.Sprintf("SetCursorPosition(%d,%d)", o.x, o.y)
	default:
		return fmt.Sprintf("SetState(%d)", o.state)
	}
}

func (o c17Op) fp(f vlib.FP) vlib.FP {
	f = f.Int(o.kind)
	switch o.kind {
	case c17OpWrite, c17OpWriteByte:
		f = f.Bytes(o.data)
	case c17OpCursor:
		f = f.U64(uint64(o.x)).U64(uint64(o.y))
	default:
		f = f.Int(int(o.state))
	}
	return f
}

// applyRef applies an operation to the reference terminal.
func (o c17Op) applyRef(t *c17Ref) {
	switch o.kind {
	case c17OpWrite, c17OpWriteByte:
		for _, b := range o.data {
			t.put(b)
		}
	case c17OpCursor:
		t.setCursor(o.x, o.y)
	case c17OpState:
		t.active = o.state == StateActive
	}
}

type c17GenCfg struct {
	w, h, sb, tab int
	maxOps        int  // upper bound on the number of operations
	maxBytes      int  // upper bound on the total number of stream bytes
	maxRun        int  // upper bound on one generated segment
	states        bool // interleave SetState operations
	stateBias     int  // 1 in stateBias segments is followed by a state change
	startActive   int  // 0: random, 1: first op activates (as hal does)
}

func c17Coord(r *vlib.Rand, lim int) uint32 {
	switch r.Intn(12) {
	case 0:
		return 0
	case 1:
		return 1
	case 2:
		return 2
	case 3:
		return uint32(lim)
	case 4:
		return uint32(lim) + 1
	case 5:
		if lim > 1 {
			return uint32(lim) - 1
		}
		return 1
	case 6:
		return 1 << 31
	case 7:
		return ^uint32(0)
	case 8:
		return r.U32()
	default:
		return uint32(r.Range(1, lim))
	}
}

func c17Printable(r *vlib.Rand) byte { return byte(r.Range(0x21, 0x7e)) }

// c17Segment produces one stretch of the byte stream.
func c17Segment(r *vlib.Rand, g *c17GenCfg, room int) []byte {
	w, h, sb := g.w, g.h, g.sb
	capN := func(n int) int {
		if n > room {
			n = room
		}
		if n > g.maxRun {
			n = g.maxRun
		}
		if n < 0 {
			n = 0
		}
		return n
	}
	var out []byte
	switch r.Intn(15) {
	case 14: // cells that hold "nothing-like" bytes (NUL, 0xff, blank, DEL) and are then blanked or overwritten in place
		n := capN(r.Range(1, 6))
		odd := []byte{0x00, 0xff, ' ', 0x7f, 0x00, 0xff}
		for i := 0; i < n; i++ {
			switch r.Intn(4) {
			case 0:
				out = append(out, odd[r.Intn(len(odd))], '\b')
			case 1:
				out = append(out, c17Printable(r), odd[r.Intn(len(odd))], c17Printable(r), '\r', '\t')
			case 2:
				out = append(out, odd[r.Intn(len(odd))], odd[r.Intn(len(odd))], '\r', ' ', ' ')
			default:
				out = append(out, odd[r.Intn(len(odd))], '\b', odd[r.Intn(len(odd))])
			}
		}
		out = out[:capN(len(out))]
	case 0: // short printable text
		n := capN(r.Range(1, 3*w+2))
		for i := 0; i < n; i++ {
			out = append(out, c17Printable(r))
		}
	case 1: // one character repeated across line / screen / buffer boundaries
		lens := []int{w - 1, w, w + 1, 2 * w, w*h - 1, w * h, w*h + 1, w * (h + sb), w*(h+sb) + 1, w*(h+sb) + w + 1, r.Range(1, 4*w*(h+sb)+4)}
		n := capN(r.PickInt(lens))
		ch := c17Printable(r)
		for i := 0; i < n; i++ {
			out = append(out, ch)
		}
	case 2: // line-feed burst
		cnts := []int{1, 2, h - 1, h, h + 1, h + sb - 1, h + sb, h + sb + 1, h + sb + 3, r.Range(1, 3*(h+sb)+3)}
		n := capN(r.PickInt(cnts))
		for i := 0; i < n; i++ {
			out = append(out, '\n')
			if r.Chance(1, 3) {
				out = append(out, c17Printable(r))
			}
		}
	case 3, 4: // control-character mix
		n := capN(r.Range(1, 120))
		for i := 0; i < n; i++ {
			switch r.Intn(9) {
			case 0:
				out = append(out, '\n')
			case 1:
				out = append(out, '\r')
			case 2, 3:
				out = append(out, '\b')
			case 4:
				out = append(out, '\t')
			default:
				out = append(out, c17Printable(r))
			}
		}
	case 5: // tab at / near the right edge
		k := capN(r.PickInt([]int{w - 2, w - 1, w, w - g.tab, w - g.tab - 1, w - g.tab + 1}))
		out = append(out, '\r')
		for i := 0; i < k; i++ {
			out = append(out, c17Printable(r))
		}
		out = append(out, '\t')
		if r.Bool() {
			out = append(out, c17Printable(r))
		}
	case 6: // backspaces at the left edge and after filling to the right edge
		switch r.Intn(3) {
		case 0:
			out = append(out, '\r', '\b', '\b', c17Printable(r), '\b')
		case 1:
			out = append(out, '\r')
			for i := 0; i < capN(w-1); i++ {
				out = append(out, c17Printable(r))
			}
			out = append(out, '\b', '\b', c17Printable(r))
		default:
			out = append(out, '\r')
			for i := 0; i < capN(w); i++ { // wraps: cursor at column one of the next line
				out = append(out, c17Printable(r))
			}
			out = append(out, '\b', c17Printable(r), '\b', '\b')
		}
	case 7: // arbitrary bytes, all 256 values
		n := capN(r.Range(1, 2*w+8))
		out = append(out, r.Bytes(n)...)
	case 8: // log-like lines
		n := r.Range(1, 6)
		for i := 0; i < n && len(out) < capN(1<<30); i++ {
			l := r.Range(0, w+w/2)
			for j := 0; j < l; j++ {
				out = append(out, c17Printable(r))
			}
			if r.Chance(1, 4) {
				out = append(out, '\r', '\n')
			} else {
				out = append(out, '\n')
			}
		}
		out = out[:capN(len(out))]
	case 9: // hundreds of scrolls: many line feeds, or a run many lines long
		n := capN(r.Range(100, 400))
		if r.Bool() {
			for i := 0; i < n; i++ {
				out = append(out, '\n')
			}
		} else {
			n = capN(n * w)
			ch := c17Printable(r)
			for i := 0; i < n; i++ {
				out = append(out, ch)
			}
		}
	case 10: // tabs only
		n := capN(r.Range(1, 6))
		for i := 0; i < n; i++ {
			out = append(out, '\t')
		}
	case 11: // fill exactly to the end of the viewport's last line, then one more
		out = append(out, '\r')
		n := capN(w * h)
		ch := c17Printable(r)
		for i := 0; i < n; i++ {
			out = append(out, ch)
		}
		out = append(out, c17Printable(r))
	case 12: // carriage returns overwriting
		n := capN(r.Range(1, 5))
		for i := 0; i < n; i++ {
			for j := r.Range(0, w); j > 0; j-- {
				out = append(out, c17Printable(r))
			}
			out = append(out, '\r')
		}
		out = out[:capN(len(out))]
	default: // distinct character per cell so that a shifted line is visible
		n := capN(r.Range(w, w*h+w))
		s := r.Intn(94)
		for i := 0; i < n; i++ {
			out = append(out, byte(0x21+(s+i)%94))
		}
	}
	return out
}

// c17GenOps produces a history.
func c17GenOps(r *vlib.Rand, g *c17GenCfg) []c17Op {
	var ops []c17Op
	total := 0
	active := false
	if g.states && (g.startActive == 1 || r.Chance(1, 2)) {
		ops = append(ops, c17Op{kind: c17OpState, state: StateActive})
		active = true
	}
	for len(ops) < g.maxOps && total < g.maxBytes {
		switch {
		case r.Chance(1, 6):
			var x, y uint32
			if r.Chance(1, 5) { // the corners
				corners := [][2]uint32{{0, 0}, {1, 1}, {uint32(g.w), uint32(g.h)}, {uint32(g.w), 1}, {1, uint32(g.h)}, {^uint32(0), ^uint32(0)}, {uint32(g.w) + 1, uint32(g.h) + 1}}
				p := corners[r.Intn(len(corners))]
				x, y = p[0], p[1]
			} else {
				x, y = c17Coord(r, g.w), c17Coord(r, g.h)
			}
			ops = append(ops, c17Op{kind: c17OpCursor, x: x, y: y})
		case g.states && active && r.Chance(1, 14):
			// an inactive period during which nothing but line feeds (and bytes that store no
			// cell) arrives: the viewport moves although no character is written
			if r.Bool() {
				ops = append(ops, c17Op{kind: c17OpCursor, x: c17Coord(r, g.w), y: uint32(g.h)})
			}
			ops = append(ops, c17Op{kind: c17OpState, state: StateInactive})
			var burst []byte
			for k := r.Range(1, g.h+3); k > 0; k-- {
				burst = append(burst, '\n')
				if r.Chance(1, 4) {
					burst = append(burst, '\r')
				}
				if r.Chance(1, 6) {
					burst = append(burst, '\r', '\b')
				}
			}
			if len(burst) > g.maxBytes-total {
				burst = burst[:g.maxBytes-total]
			}
			total += len(burst)
			if len(burst) > 0 {
				ops = append(ops, c17Op{kind: c17OpWrite, data: burst})
			}
			ops = append(ops, c17Op{kind: c17OpState, state: StateActive})
		case g.states && r.Chance(1, g.stateBias):
			st := StateActive
			if active && r.Chance(3, 4) || !active && r.Chance(1, 6) {
				st = StateInactive
			}
			active = st == StateActive
			ops = append(ops, c17Op{kind: c17OpState, state: st})
		default:
			seg := c17Segment(r, g, g.maxBytes-total)
			total += len(seg)
			// chunking
			for len(seg) > 0 && len(ops) < g.maxOps {
				var n int
				switch r.Intn(6) {
				case 0:
					n = 1
				case 1:
					n = r.Range(1, 4)
				case 2, 3:
					n = len(seg)
				default:
					n = r.Range(1, len(seg))
				}
				if n > len(seg) {
					n = len(seg)
				}
				if len(ops) == g.maxOps-1 {
					n = len(seg)
				}
				if n == 1 && r.Bool() {
					ops = append(ops, c17Op{kind: c17OpWriteByte, data: seg[:1]})
				} else {
					ops = append(ops, c17Op{kind: c17OpWrite, data: seg[:n], copied: n <= 4096 && r.Chance(1, 10)})
				}
				seg = seg[n:]
			}
			if r.Chance(1, 40) {
				ops = append(ops, c17Op{kind: c17OpWrite, data: []byte{}})
			}
		}
	}
	return ops
}

// c17Apply calls the real terminal. Returns a description of a wrong return
// value ("" if fine).
func (o c17Op) applyVT(t *VT) string {
	switch o.kind {
	case c17OpWrite:
		if o.copied {
			n, err := io.Copy(t, &c17ShortReader{data: o.data})
			if err != nil || n != int64(len(o.data)) {
				return fmt.Sprintf("io.Copy of %d bytes into the terminal returned (%d, %v)", len(o.data), n, err)
			}
			break
		}
		n, err := t.Write(o.data)
		if err != nil || n != len(o.data) {
			return fmt.Sprintf("Write of %d bytes returned (%d, %v)", len(o.data), n, err)
		}
	case c17OpWriteByte:
		if err := t.WriteByte(o.data[0]); err != nil {
			return fmt.Sprintf("WriteByte returned %v", err)
		}
	case c17OpCursor:
		t.SetCursorPosition(o.x, o.y)
	case c17OpState:
		t.SetState(o.state)
		if t.State() != o.state {
			return fmt.Sprintf("State() = %d after SetState(%d)", t.State(), o.state)
		}
	}
	return ""
}

// c17Geometry picks console dimensions with the degenerate ones over-represented.
func c17Geometry(r *vlib.Rand, maxW, maxH int) (int, int) {
	pick := func(max int, named []int) int {
		var v int
		switch r.Intn(8) {
		case 0:
			v = 1
		case 1:
			v = 2
		case 2:
			v = r.PickInt(named)
		case 3:
			v = r.Range(1, max)
		case 4:
			v = max
		default:
			v = r.Range(1, 12)
		}
		if v > max {
			v = max
		}
		return v
	}
	return pick(maxW, []int{3, 40, 80, 100, 132}), pick(maxH, []int{3, 24, 25, 30, 50, 60})
}

func c17GeomBucket(w, h int) string {
	b := func(v, max int) string {
		switch {
		case v == 1:
			return "1"
		case v == 2:
			return "2"
		case v == max:
			return "max"
		case v <= 12:
			return "small"
		default:
			return "large"
		}
	}
	return "cols=" + b(w, 132) + ",rows=" + b(h, 60)
}
