//go:build verif
// +build verif

package tty

// C18 - an active terminal and its console always show the same thing.
//
// The real VgaTextConsole / VesaFbConsole (package console) are initialised
// through their own DriverInit with the map seam resolving to an mmap'ed host
// arena (shim console.VerifC18SetSeams), given the shipped logo and font the way
// hal.onConsoleInit does, and attached to the real VT. After every terminal
// operation the complete console memory is inspected:
//
//   active   - every cell of the grid must show the reference terminal's
//              viewport cell: text mode (bg<<4|fg)<<8|char; framebuffer: each
//              pixel of the cell's block is decoded against the shipped font's
//              bitmap (bit (ch,px,py) looked up directly in font.Data) and the
//              colour packed for the depth by c18Pack, which is written from
//              the statement, not taken from the driver.
//              Bytes outside the grid (logo rows, right/bottom remainder, row
//              padding, the slack behind the buffer) must be unchanged; a
//              remainder/padding byte below the logo may instead hold the value
//              the same column had one text line (.. k lines, k = line feeds
//              taken on the last line during the operation) further down
//              before the operation: a whole-row copy is a legitimate scroll.
//   inactive - the console memory is byte-identical to what it was before
//              the operation.
//   activate - as active.
//   deactivate - nothing outside the grid changes (the grid is only counted).
//
// Both shipped consoles report the default colours 7 on 0 and the terminal has
// no other colours, so with the bare drivers every pixel byte of a cell is
// 0x00 or 0x80: byte-order and byte-index mistakes in the colour paths would be
// invisible. In half of the cases the console is therefore handed to the
// terminal through c18Recolour, which forwards everything to the real driver
// but reports generated default colours (EGA 0..15).

import (
	"fmt"
	"image/color"
	"io/ioutil"
	"testing"

	"github.com/ProjectSerenity/firefly/kernel"
	"github.com/ProjectSerenity/firefly/kernel/device/video/console"
	"github.com/ProjectSerenity/firefly/kernel/device/video/console/font"
	"github.com/ProjectSerenity/firefly/kernel/device/video/console/logo"
	"github.com/ProjectSerenity/firefly/kernel/mm"
	"github.com/ProjectSerenity/firefly/kernel/mm/vmm"
	"github.com/ProjectSerenity/firefly/kernel/multiboot"
	"github.com/ProjectSerenity/firefly/kernel/zzverif/vlib"
)

var c18FontNames = []string{"terminus8x16", "terminus10x18", "terminus14x28"}

// c18Cfg is a generated console.
type c18Cfg struct {
	kind       string // "vga" or "fb"
	cols, rows int
	// framebuffer only
	fontName      string
	gw, gh, bpr   int
	width, height int // pixels
	bpp, bytesPP  int
	pitch, pad    int
	logoH, logoW  int
	remW, remH    int
	layout        string
	ci            *multiboot.FramebufferRGBColorInfo
	// recolour: the console is handed to the terminal through c18Recolour, which
	// reports other default colours than the driver's 7/0 and forwards every
	// other call unchanged, so that the colour paths of the drivers are seen
	// with colours whose packed bytes differ from each other
	recolour bool
	fg, bg   uint8
	hiColour bool // one of fg/bg is an index from the end of the palette (logo colours)
}

// c18Recolour is a console whose DefaultColors are generated; everything else
// is the real driver.
type c18Recolour struct {
	console.Device
	fg, bg uint8
}

func (c *c18Recolour) DefaultColors() (uint8, uint8) { return c.fg, c.bg }

func (g *c18Cfg) colours() string {
	if g.recolour {
		return fmt.Sprintf("fg %d bg %d (default colours overridden)", g.fg, g.bg)
	}
	return "console defaults"
}

// c18PickColours: EGA colours; text mode takes 4 bits each. Background 15 is
// left out: VgaTextConsole.Write replaces it by the default background, a
// driver matter that belongs to C19 (colour arguments), see the report.
func c18PickColours(r *vlib.Rand, g *c18Cfg) {
	if !r.Chance(1, 2) {
		return
	}
	g.recolour = true
	g.fg = uint8(r.Intn(16))
	g.bg = uint8(r.Intn(15))
	if g.bg == g.fg {
		g.bg = (g.bg + 1) % 15
	}
	if g.kind == "fb" && g.logoH > 0 && r.Chance(1, 3) {
		// one of the two colours from the palette entries the logo claims for itself (the last ones)
		if r.Bool() {
			g.fg = uint8(256 - 1 - r.Intn(12))
		} else {
			g.bg = uint8(256 - 1 - r.Intn(12))
		}
		g.hiColour = true
	}
}

func (g *c18Cfg) memSize() int {
	if g.kind == "vga" {
		return g.cols * g.rows * 2
	}
	return g.height * g.pitch
}

func (g *c18Cfg) desc() map[string]interface{} {
	if g.kind == "vga" {
		return map[string]interface{}{"console": "vga_text", "cols": g.cols, "rows": g.rows, "terminal_colours": g.colours()}
	}
	return map[string]interface{}{"console": "vesa_fb", "terminal_colours": g.colours(), "cols": g.cols, "rows": g.rows, "font": g.fontName, "width": g.width, "height": g.height,
		"bpp": g.bpp, "pitch": g.pitch, "pitch_padding": g.pad, "logo_rows": g.logoH, "right_remainder_px": g.remW, "bottom_remainder_rows": g.remH, "layout": g.layout}
}

func (g *c18Cfg) fp() vlib.FP {
	return vlib.NewFP().Str(g.kind).Int(g.cols).Int(g.rows).Str(g.fontName).Int(g.width).Int(g.height).Int(g.bpp).Int(g.pitch).Int(g.logoH).Str(g.layout).Str(g.colours())
}

// c18Logo returns the shipped logo of the given height through the package's
// public selector (threshold = consoleHeight/10).
func c18Logo(h int) *logo.Image {
	l := logo.BestFit(4096, uint32(h*10))
	if l == nil || int(l.Height) != h {
		return nil
	}
	return l
}

func c18GenCfg(r *vlib.Rand, thorough bool, maxMem int) *c18Cfg {
	g := &c18Cfg{}
	if r.Chance(2, 7) {
		g.kind = "vga"
		g.cols, g.rows = c17Geometry(r, 132, 60)
		c18PickColours(r, g)
		return g
	}
	g.kind = "fb"
	defer c18PickColours(r, g)
	g.fontName = c18FontNames[r.Intn(3)]
	f := font.FindByName(g.fontName)
	g.gw, g.gh, g.bpr = int(f.GlyphWidth), int(f.GlyphHeight), int(f.BytesPerRow)
	g.bpp = r.PickInt([]int{8, 15, 16, 24, 32})
	g.bytesPP = (g.bpp + 7) / 8
	switch g.bpp {
	case 8:
		g.layout = "indexed"
	case 15:
		g.layout, g.ci = "r10:5,g5:5,b0:5", &multiboot.FramebufferRGBColorInfo{RedPosition: 10, RedMaskSize: 5, GreenPosition: 5, GreenMaskSize: 5, BluePosition: 0, BlueMaskSize: 5}
	case 16:
		g.layout, g.ci = "r11:5,g5:6,b0:5", &multiboot.FramebufferRGBColorInfo{RedPosition: 11, RedMaskSize: 5, GreenPosition: 5, GreenMaskSize: 6, BluePosition: 0, BlueMaskSize: 5}
	default:
		if r.Bool() {
			g.layout, g.ci = "r16:8,g8:8,b0:8", &multiboot.FramebufferRGBColorInfo{RedPosition: 16, RedMaskSize: 8, GreenPosition: 8, GreenMaskSize: 8, BluePosition: 0, BlueMaskSize: 8}
		} else {
			g.layout, g.ci = "r0:8,g8:8,b16:8", &multiboot.FramebufferRGBColorInfo{RedPosition: 0, RedMaskSize: 8, GreenPosition: 8, GreenMaskSize: 8, BluePosition: 16, BlueMaskSize: 8}
		}
	}
	maxC, maxR := 24, 10
	if r.Chance(1, 10) {
		maxC, maxR = 80, 30
	}
	g.cols, g.rows = c17Geometry(r, maxC, maxR)
	g.remW = r.PickInt([]int{0, 0, 1, g.gw - 1, r.Range(1, g.gw-1)})
	g.remH = r.PickInt([]int{0, 0, 1, g.gh - 1, r.Range(1, g.gh-1)})
	if r.Chance(1, 2) {
		g.logoH = r.PickInt([]int{64, 96, 128})
		g.logoW = int(c18Logo(g.logoH).Width)
	}
	g.pad = r.PickInt([]int{0, 0, 1, 3, 64})
	if (thorough && r.Chance(1, 60)) || (!thorough && r.Chance(1, 150)) {
		// a real video mode, font and logo chosen as hal would
		modes := [][2]int{{640, 480}, {800, 600}, {1024, 768}}
		m := modes[r.Intn(len(modes))]
		if !thorough {
			m = modes[0]
		}
		g.remW, g.remH, g.pad = m[0]%g.gw, 0, 0
		g.cols = m[0] / g.gw
		g.rows = (m[1] - g.logoH) / g.gh
		g.remH = (m[1] - g.logoH) % g.gh
	}
	for {
		g.width = g.cols*g.gw + g.remW
		for g.width < g.logoW { // the logo must fit: widen by whole columns
			g.cols++
			g.width += g.gw
		}
		g.height = g.logoH + g.rows*g.gh + g.remH
		g.pitch = g.width*g.bytesPP + g.pad
		if g.memSize() <= maxMem {
			break
		}
		// shrink
		if g.rows > 1 {
			g.rows = (g.rows + 1) / 2
		} else if g.cols > 1 {
			g.cols = (g.cols + 1) / 2
		} else if g.logoH > 0 {
			g.logoH, g.logoW = 0, 0
		} else {
			g.pad = 0
		}
	}
	return g
}

func c18Pattern(i int) byte {
	x := uint32(i)*2654435761 + 0x9e3779b9
	x ^= x >> 15
	x *= 0x85ebca6b
	return byte(x >> 24)
}

// c18Pack: palette index -> pixel bytes for the depth (little endian), from the
// statement: 8 bpp holds the index; deeper formats hold each 8-bit component
// reduced to its mask size at its bit position.
func c18Pack(g *c18Cfg, pal color.Palette, idx byte) ([3]byte, bool) {
	var out [3]byte
	if g.bpp == 8 {
		out[0] = idx
		return out, true
	}
	if int(idx) >= len(pal) || pal[idx] == nil {
		return out, false
	}
	rgba, ok := pal[idx].(color.RGBA)
	if !ok {
		return out, false
	}
	comp := func(v uint8, size, pos uint8) uint64 {
		return (uint64(v) >> (8 - uint(size))) << uint(pos)
	}
	v := comp(rgba.R, g.ci.RedMaskSize, g.ci.RedPosition) | comp(rgba.G, g.ci.GreenMaskSize, g.ci.GreenPosition) | comp(rgba.B, g.ci.BlueMaskSize, g.ci.BluePosition)
	out[0], out[1], out[2] = byte(v), byte(v>>8), byte(v>>16)
	if g.bpp <= 16 {
		out[2] = 0
	}
	return out, true
}

type c18Screen struct {
	g    *c18Cfg
	dev  console.Device
	mem  []byte // console memory followed by slack (host arena)
	size int    // bytes of console memory proper
	font *font.Font
	pal  color.Palette
	dfg  uint8 // the terminal's colours (diagnostics)
	dbg  uint8
}

type c18Stats struct {
	cells, pixels, outside, srcRowValues int64
}

const (
	c18ModeInactive = iota
	c18ModeActive
	c18ModeDeactivate
)

// check inspects the whole console memory after an operation. pre is the
// memory before the operation, k the number of console scrolls the reference
// says the operation made.
func (s *c18Screen) check(pre []byte, ref *c17Ref, mode int, k int, st *c18Stats) (string, string) {
	mem, g := s.mem, s.g
	// slack behind the console memory
	for i := s.size; i < len(mem); i++ {
		if mem[i] != pre[i] {
			return "write-past-console-memory", fmt.Sprintf("byte %d behind the %d-byte console memory changed from %#02x to %#02x", i-s.size, s.size, pre[i], mem[i])
		}
	}
	st.outside += int64(len(mem) - s.size)
	if mode == c18ModeInactive {
		for i := 0; i < s.size; i++ {
			if mem[i] != pre[i] {
				return "console-touched-while-inactive", fmt.Sprintf("console memory byte %d (%s) changed from %#02x to %#02x while the terminal is inactive", i, s.where(i), pre[i], mem[i])
			}
		}
		st.outside += int64(s.size)
		return "", ""
	}
	if g.kind == "vga" {
		if mode == c18ModeDeactivate {
			return "", ""
		}
		for row := 0; row < g.rows; row++ {
			for col := 0; col < g.cols; col++ {
				c := ref.viewCell(col, row)
				i := (row*g.cols + col) * 2
				got := uint16(mem[i]) | uint16(mem[i+1])<<8
				want := (uint16(c.bg)<<4|uint16(c.fg))<<8 | uint16(c.ch)
				if got != want {
					return "text-cell-differs-from-viewport", fmt.Sprintf("cell (%d,%d) holds %#04x (char %q attr %#02x), viewport cell is char %q fg %d bg %d = %#04x; before the operation the cell held %#04x",
						col+1, row+1, got, byte(got), byte(got>>8), c.ch, c.fg, c.bg, want, uint16(pre[i])|uint16(pre[i+1])<<8)
				}
			}
		}
		st.cells += int64(g.rows * g.cols)
		return "", ""
	}

	// framebuffer: outside the grid first
	gridBytes := g.cols * g.gw * g.bytesPP
	textEnd := g.logoH + g.rows*g.gh
	for y := 0; y < g.height; y++ {
		from := 0
		area := "logo"
		switch {
		case y < g.logoH:
		case y < textEnd:
			from, area = gridBytes, "right-of-grid"
		default:
			area = "below-grid"
		}
		base := y * g.pitch
		for b := from; b < g.pitch; b++ {
			v := mem[base+b]
			if v == pre[base+b] {
				continue
			}
			ok := false
			if y >= g.logoH {
				for j := 1; j <= k; j++ {
					sy := y + j*g.gh
					if sy >= g.height {
						break
					}
					if pre[sy*g.pitch+b] == v {
						ok = true
						st.srcRowValues++
						break
					}
				}
			}
			if !ok {
				if area == "right-of-grid" && b >= g.width*g.bytesPP {
					area = "row-padding"
				}
				return "fb-changed-outside-grid-" + area, fmt.Sprintf("pixel row %d byte %d (%s; logo rows %d, grid %dx%d cells of %dx%d px, pitch %d) changed from %#02x to %#02x (console scrolls during the operation: %d)",
					y, b, area, g.logoH, g.cols, g.rows, g.gw, g.gh, g.pitch, pre[base+b], v, k)
			}
		}
		st.outside += int64(g.pitch - from)
	}
	if mode == c18ModeDeactivate {
		return "", ""
	}
	// the grid: decode every cell
	var packed [256][3]byte
	var havePacked [256]bool
	n := g.bytesPP
	if n > 3 {
		n = 3 // the 4th byte of a 32-bpp pixel carries no colour
	}
	for row := 0; row < g.rows; row++ {
		for col := 0; col < g.cols; col++ {
			c := ref.viewCell(col, row)
			for _, idx := range [2]byte{c.fg, c.bg} {
				if !havePacked[idx] {
					p, ok := c18Pack(g, s.pal, idx)
					if !ok {
						return "palette-entry-missing", fmt.Sprintf("the console palette has no RGBA entry for colour %d", idx)
					}
					packed[idx], havePacked[idx] = p, true
				}
			}
			fgp, bgp := packed[c.fg], packed[c.bg]
			if c.fg != c.bg && fgp == bgp {
				return "colours-indistinguishable", fmt.Sprintf("colours %d and %d pack to the same pixel value % x: the glyph cannot be shown", c.fg, c.bg, fgp[:n])
			}
			glyph := s.font.Data[int(c.ch)*g.gh*g.bpr : (int(c.ch)+1)*g.gh*g.bpr]
			for py := 0; py < g.gh; py++ {
				off := (g.logoH+row*g.gh+py)*g.pitch + col*g.gw*g.bytesPP
				for px := 0; px < g.gw; px++ {
					want := &bgp
					if glyph[py*g.bpr+px>>3]>>(7-uint(px&7))&1 == 1 {
						want = &fgp
					}
					p := mem[off : off+n]
					bad := p[0] != want[0]
					if !bad && n > 1 {
						bad = p[1] != want[1] || (n > 2 && p[2] != want[2])
					}
					if bad {
						return "fb-cell-differs-from-viewport", fmt.Sprintf("cell (%d,%d) pixel (%d,%d): bytes % x, want % x (char %q fg %d bg %d, font %s, glyph bit %v); the cell %s",
							col+1, row+1, px, py, p, want[:n], c.ch, c.fg, c.bg, g.fontName, want == &fgp, s.describeCell(col, row))
					}
					off += g.bytesPP
				}
			}
		}
	}
	st.cells += int64(g.rows * g.cols)
	st.pixels += int64(g.rows * g.cols * g.gw * g.gh)
	return "", ""
}

func (s *c18Screen) where(i int) string {
	g := s.g
	if g.kind == "vga" {
		return fmt.Sprintf("cell (%d,%d)", (i/2)%g.cols+1, (i/2)/g.cols+1)
	}
	return fmt.Sprintf("pixel row %d byte %d", i/g.pitch, i%g.pitch)
}

// describeCell tries to name what a framebuffer cell shows (diagnostics only).
func (s *c18Screen) describeCell(col, row int) string {
	g := s.g
	fgp, ok1 := c18Pack(g, s.pal, s.dfg)
	bgp, ok2 := c18Pack(g, s.pal, s.dbg)
	if !ok1 || !ok2 {
		return "could not be decoded"
	}
	n := g.bytesPP
	if n > 3 {
		n = 3
	}
	bits := make([]byte, g.gh*g.bpr)
	for py := 0; py < g.gh; py++ {
		off := (g.logoH+row*g.gh+py)*g.pitch + col*g.gw*g.bytesPP
		for px := 0; px < g.gw; px++ {
			p := s.mem[off : off+n]
			isFg, isBg := true, true
			for i := 0; i < n; i++ {
				isFg = isFg && p[i] == fgp[i]
				isBg = isBg && p[i] == bgp[i]
			}
			if !isFg && !isBg {
				return "holds pixels that are neither of the terminal's two colours"
			}
			if isFg {
				bits[py*g.bpr+px>>3] |= 1 << (7 - uint(px&7))
			}
			off += g.bytesPP
		}
	}
	for ch := 0; ch < 256; ch++ {
		if string(s.font.Data[ch*len(bits):(ch+1)*len(bits)]) == string(bits) {
			return fmt.Sprintf("shows the glyph of %q in the terminal's colours", byte(ch))
		}
	}
	return "shows no glyph of the font"
}

// c18Setup builds and initialises a console over the arena exactly the way the
// kernel does: DriverInit (real, map seam -> host memory), SetLogo, SetFont.
func c18Setup(g *c18Cfg, arena *vlib.Arena) (*c18Screen, string) {
	size := g.memSize()
	slack := arena.Size - size
	if slack > 4096 {
		slack = 4096
	}
	s := &c18Screen{g: g, size: size, mem: arena.Bytes()[:size+slack]}
	for i := range s.mem {
		s.mem[i] = c18Pattern(i)
	}
	var askedSize uintptr
	var askedFrame mm.Frame
	mapCalls := 0
	restore := console.VerifC18SetSeams(
		func(f mm.Frame, sz uintptr, _ vmm.PageTableEntryFlag) (mm.Page, *kernel.Error) {
			mapCalls++
			askedSize, askedFrame = sz, f
			if sz > uintptr(arena.Size) {
				return 0, &kernel.Error{Module: "verif", Message: "framebuffer larger than the host arena"}
			}
			return mm.PageFromAddress(arena.Base), nil
		},
		func(uint16, uint8) {},
	)
	_ = restore // the port seam must stay replaced while the console lives; the caller restores at the end of the run
	phys := arena.Base
	var drvInit func() *kernel.Error
	if g.kind == "vga" {
		cons := console.NewVgaTextConsole(uint32(g.cols), uint32(g.rows), phys)
		s.dev = cons
		drvInit = func() *kernel.Error { return cons.DriverInit(ioutil.Discard) }
	} else {
		cons := console.NewVesaFbConsole(uint32(g.width), uint32(g.height), uint8(g.bpp), uint32(g.pitch), g.ci, phys)
		s.dev = cons
		drvInit = func() *kernel.Error { return cons.DriverInit(ioutil.Discard) }
	}
	if err := drvInit(); err != nil {
		return nil, "DriverInit failed: " + err.Message
	}
	if mapCalls != 1 || askedSize != uintptr(size) || askedFrame != mm.FrameFromAddress(phys) {
		return nil, fmt.Sprintf("DriverInit mapped %d bytes at frame %#x in %d calls; the console memory is %d bytes at frame %#x", askedSize, uintptr(askedFrame), mapCalls, size, uintptr(mm.FrameFromAddress(phys)))
	}
	if g.kind == "fb" {
		if g.logoH > 0 {
			s.dev.(console.LogoSetter).SetLogo(c18Logo(g.logoH))
		}
		s.font = font.FindByName(g.fontName)
		s.dev.(console.FontSetter).SetFont(s.font)
		s.pal = s.dev.Palette()
	}
	if c, r := s.dev.Dimensions(console.Characters); int(c) != g.cols || int(r) != g.rows {
		return nil, fmt.Sprintf("console reports a %dx%d grid, the geometry gives %dx%d", c, r, g.cols, g.rows)
	}
	return s, ""
}

type c18Totals struct {
	cases, fbScrolls, vgaScrolls, redraws int64
	bpp                                   map[int]int
}

func c18RunCase(c *vlib.Case, run *vlib.Run, tot *c18Totals, arena *vlib.Arena, g *c18Cfg, tab, sb int, ops []c17Op, fp vlib.FP) {
	var scr *c18Screen
	var setupErr string
	if pv, st := vlib.Protect(func() { scr, setupErr = c18Setup(g, arena) }); pv != nil {
		c.Violation("panic:console-setup:"+vlib.PanicSite(st)+":"+vlib.PanicClass(pv), map[string]interface{}{"panic": fmt.Sprint(pv), "stack": st})
		return
	}
	if setupErr != "" {
		c.Violationf("console-setup", "%s", setupErr)
		return
	}
	dev := scr.dev
	if g.recolour && g.hiColour && g.bpp != 8 {
		// the glyphs can only be decoded if the two colours differ on screen: move the EGA one if they do not
		for k := 0; k < 15; k++ {
			a, ok1 := c18Pack(g, scr.pal, g.fg)
			b, ok2 := c18Pack(g, scr.pal, g.bg)
			if ok1 && ok2 && a != b {
				break
			}
			if g.fg < 16 {
				g.fg = (g.fg + 1) % 15
			} else {
				g.bg = (g.bg + 1) % 15
			}
		}
		run.Count("framebuffer_consoles_with_a_logo_and_a_terminal_colour_from_the_logo_palette_range", 1)
	}
	if g.recolour {
		dev = &c18Recolour{Device: scr.dev, fg: g.fg, bg: g.bg}
		run.Count("consoles_with_overridden_default_colours", 1)
	}
	dfg, dbg := dev.DefaultColors()
	scr.dfg, scr.dbg = dfg, dbg
	ref := c17NewRef(g.cols, g.rows, sb, tab, dfg, dbg)
	vt := NewVT(uint8(tab), uint32(sb))
	pre := make([]byte, len(scr.mem))
	copy(pre, scr.mem)
	if pv, st := vlib.Protect(func() { vt.AttachTo(dev) }); pv != nil {
		c.Violation("panic:AttachTo:"+vlib.PanicClass(pv), map[string]interface{}{"panic": fmt.Sprint(pv), "stack": st})
		return
	}
	var stats c18Stats
	if sig, what := scr.check(pre, ref, c18ModeInactive, 0, &stats); sig != "" {
		c.Violationf("attach:"+sig, "%s", what)
		return
	}

	pendingInactiveStores := int64(0) // stores made while inactive since the last activation
	var redrawsWithPending, opsActive, opsInactive int64
	for i, op := range ops {
		copy(pre, scr.mem)
		wasActive := ref.active
		storesBefore, lfBefore := ref.stores, ref.activeLastLineFeeds
		op.applyRef(ref)
		k := int(ref.activeLastLineFeeds - lfBefore)
		var bad string
		pv, st := vlib.Protect(func() { bad = op.applyVT(vt) })
		if pv != nil {
			c.Violation("panic:"+vlib.PanicSite(st)+":"+vlib.PanicClass(pv), map[string]interface{}{
				"op_index": i, "op": op.String(), "console": g.desc(), "panic": fmt.Sprint(pv), "stack": st})
			return
		}
		if bad != "" {
			c.Violationf("return-value", "op %d %s: %s", i, op.String(), bad)
			return
		}
		mode := c18ModeInactive
		switch {
		case ref.active:
			mode = c18ModeActive
			opsActive++
			if !wasActive {
				run.Count("activations", 1)
				if pendingInactiveStores > 0 {
					redrawsWithPending++
				}
				pendingInactiveStores = 0
			}
		case wasActive:
			mode = c18ModeDeactivate
			run.Count("deactivations", 1)
			for j := 0; j < scr.size; j++ {
				if scr.mem[j] != pre[j] {
					run.Count("deactivation_changed_console_memory", 1)
					break
				}
			}
		default:
			opsInactive++
			pendingInactiveStores += ref.stores - storesBefore
		}
		if sig, what := scr.check(pre, ref, mode, k, &stats); sig != "" {
			c.Violation(sig, map[string]interface{}{"console": g.desc(), "scrollback": sb, "tab": tab, "op_index": i, "op": op.String(),
				"terminal_active": ref.active, "reference_cursor": []int{ref.cx, ref.cy}, "reference_viewport_origin": ref.vy, "what": what})
			return
		}
		// the terminal itself must still agree with the reference (C17's oracle)
		if sig, what, _ := c17Compare(vt, ref); sig != "" {
			c.Violationf("terminal:"+sig, "after op %d %s: %s", i, op.String(), what)
			return
		}
	}

	run.Count("ops_while_active", opsActive)
	run.Count("ops_while_inactive", opsInactive)
	run.Count("cells_compared", stats.cells)
	run.Count("pixels_decoded", stats.pixels)
	run.Count("bytes_outside_grid_compared", stats.outside)
	run.Count("outside_grid_bytes_holding_the_scroll_source_row_value", stats.srcRowValues)
	run.Count("activations_redrawing_after_inactive_writes", redrawsWithPending)
	run.Count("line_feeds_on_last_line_while_active", ref.activeLastLineFeeds)
	run.Count("line_feeds_on_last_line_total", ref.lastLineFeeds)
	run.Count("wraps", ref.wraps)
	run.Count("stores", ref.stores)
	run.Count("consoles_"+g.kind, 1)
	tot.cases++
	tot.redraws += redrawsWithPending
	if g.kind == "fb" {
		tot.fbScrolls += ref.activeLastLineFeeds
		tot.bpp[g.bpp]++
		run.SetAdd("fb_depths", fmt.Sprint(g.bpp))
		run.SetAdd("fb_fonts", g.fontName)
		run.SetAdd("fb_logo_rows", fmt.Sprint(g.logoH))
		run.SetAdd("fb_pitch_padding", fmt.Sprint(g.pad))
		rem := func(v, m int) string {
			switch {
			case v == 0:
				return "0"
			case v == 1:
				return "1"
			case v == m-1:
				return "glyph-1"
			}
			return "mid"
		}
		run.SetAdd("fb_remainders", "right="+rem(g.remW, g.gw)+",bottom="+rem(g.remH, g.gh))
		run.SetAdd("fb_layouts", g.layout)
		run.SetAdd("fb_geometry_buckets", c17GeomBucket(g.cols, g.rows))
		run.Max("max_fb_bytes", int64(g.memSize()))
	} else {
		tot.vgaScrolls += ref.activeLastLineFeeds
		run.SetAdd("vga_geometry_buckets", c17GeomBucket(g.cols, g.rows))
	}
	if ref.activeLastLineFeeds > 0 && redrawsWithPending > 0 {
		run.Nontrivial(fp)
	}
	if run.WantSample() && ref.activeLastLineFeeds > 0 && redrawsWithPending > 0 && len(ops) <= 40 {
		var first []string
		for i := 0; i < len(ops) && i < 10; i++ {
			first = append(first, ops[i].String())
		}
		run.Sample(map[string]interface{}{"console": g.desc(), "scrollback": sb, "tab": tab, "ops": len(ops), "first_ops": first,
			"console_scrolls": ref.activeLastLineFeeds, "redraws_after_inactive_writes": redrawsWithPending})
	}
}

func TestVerifC18(t *testing.T) {
	run := vlib.Start(t, "C18")
	defer run.Finish()
	run.SetRule("case = a shipped console (text mode 1x1..132x60; framebuffer 8/15/16/24/32 bpp, one of the three shipped fonts, shipped logo of 64/96/128 rows or none, width/height with and without a partial glyph remainder, pitch = row bytes + {0,1,3,64}) initialised through its real DriverInit over host memory, the real VT (scrollback {0,1,2,80,..}, tab {0,1,4,8,255,..}) attached, and a history of writes / cursor moves / SetState(active|inactive) from the C17 generator; after every operation the whole console memory is decoded back into cells and compared with the reference viewport (active) or with its previous content (inactive); non-trivial = history in which the active terminal took at least one line feed on the last line (console scroll + clear) and at least one activation had to redraw writes made while inactive; distinct = fingerprint of (console configuration, scrollback, tab, operation list)")
	run.Assume("framebuffer memory is an mmap'ed host arena handed out by the map seam; VGA DAC port writes are discarded; colour-mask layouts are the usual 5-5-5 / 5-6-5 / 8-8-8 RGB and BGR ones (arbitrary layouts and synthetic fonts belong to C19); the terminal only ever uses the console's default colours, which are 7 on 0 for both shipped consoles: in half of the cases the console is handed to the terminal through a pass-through wrapper that reports other default colours (EGA 0-15, background 15 excluded), so that cells are also drawn in colours whose packed bytes differ")

	maxMem := 700 << 10
	if run.Thorough() {
		maxMem = 3300 << 10
	}
	arena := vlib.MustArena(0, maxMem+8192, false)
	defer arena.Free()
	defer console.VerifC18SetSeams(nil, nil)() // remember the real seams now, put them back at the end
	tot := &c18Totals{bpp: map[int]int{}}

	n := run.N(900, 60000)
	run.Cases(n, func(c *vlib.Case) {
		r := c.R
		g := c18GenCfg(r.Fork(2), run.Thorough(), maxMem)
		sb := r.PickInt([]int{0, 0, 1, 2, 80, r.Range(3, 12)})
		tab := r.PickInt([]int{0, 1, 4, 4, 8, 255, g.cols - 1, g.cols, g.cols + 1})
		if tab < 0 {
			tab = 0
		}
		if tab > 255 {
			tab = 255
		}
		gen := &c17GenCfg{w: g.cols, h: g.rows, sb: sb, tab: tab, maxOps: r.Range(6, 110), maxBytes: 30000, maxRun: 12000, states: true, stateBias: 5}
		if r.Chance(1, 2) {
			gen.startActive = 1 // hal attaches and activates at once
		}
		// bound the inspection cost: bytes of console memory * operations
		cost := g.memSize()
		if g.kind == "vga" {
			cost *= 4
		}
		if lim := (24 << 20) / (cost + 1); gen.maxOps > lim {
			gen.maxOps = lim
			if gen.maxOps < 5 {
				gen.maxOps = 5
			}
		}
		// a scroll of a big framebuffer copies all of it: bound the stream too
		if lim := (600 << 20) / (g.memSize() + 1); gen.maxBytes > lim*g.cols {
			gen.maxBytes = lim * g.cols
			gen.maxRun = gen.maxBytes
		}
		ops := c17GenOps(r.Fork(1), gen)
		fp := g.fp().Int(sb).Int(tab)
		nbytes := 0
		for _, op := range ops {
			fp = op.fp(fp)
			nbytes += len(op.data)
		}
		d := g.desc()
		d["scrollback"], d["tab"], d["ops"], d["stream_bytes"], d["history_fp"] = sb, tab, len(ops), nbytes, fmt.Sprintf("%016x", uint64(fp))
		c.Begin(d)
		c18RunCase(c, run, tot, arena, g, tab, sb, ops, fp)
	})

	// fixed: the configurations hal produces for the common video modes, a full
	// screen of distinct characters, a scroll, a detour through inactivity
	fixed := []*c18Cfg{
		{kind: "vga", cols: 80, rows: 25},
		{kind: "fb", cols: 40, rows: 10, fontName: "terminus8x16", bpp: 8, logoH: 64, remW: 3, remH: 5, pad: 3},
		{kind: "fb", cols: 12, rows: 3, fontName: "terminus10x18", bpp: 16, logoH: 96, remW: 9, remH: 17, pad: 64},
		{kind: "fb", cols: 8, rows: 2, fontName: "terminus14x28", bpp: 32, logoH: 128, remW: 13, remH: 1, pad: 1},
		{kind: "fb", cols: 1, rows: 1, fontName: "terminus14x28", bpp: 24, remW: 0, remH: 27, pad: 0},
	}
	for i, g := range fixed {
		i, g := i, g
		run.OneCase(vlib.FixedBase+i, func(c *vlib.Case) {
			if g.kind == "fb" {
				f := font.FindByName(g.fontName)
				g.gw, g.gh, g.bpr = int(f.GlyphWidth), int(f.GlyphHeight), int(f.BytesPerRow)
				g.bytesPP = (g.bpp + 7) / 8
				switch g.bpp {
				case 8:
					g.layout = "indexed"
				case 16:
					g.layout, g.ci = "r11:5,g5:6,b0:5", &multiboot.FramebufferRGBColorInfo{RedPosition: 11, RedMaskSize: 5, GreenPosition: 5, GreenMaskSize: 6, BluePosition: 0, BlueMaskSize: 5}
				default:
					g.layout, g.ci = "r16:8,g8:8,b0:8", &multiboot.FramebufferRGBColorInfo{RedPosition: 16, RedMaskSize: 8, GreenPosition: 8, GreenMaskSize: 8, BluePosition: 0, BlueMaskSize: 8}
				}
				if g.logoH > 0 {
					g.logoW = int(c18Logo(g.logoH).Width)
				}
				g.width = g.cols*g.gw + g.remW
				g.height = g.logoH + g.rows*g.gh + g.remH
				g.pitch = g.width*g.bytesPP + g.pad
			}
			var stream []byte
			for k := 0; k < g.cols*(g.rows+2)+3; k++ {
				stream = append(stream, byte(0x21+k%94))
			}
			ops := []c17Op{
				{kind: c17OpState, state: StateActive},
				{kind: c17OpWrite, data: stream},
				{kind: c17OpWrite, data: []byte("\n\tx\b\by\r\n")},
				{kind: c17OpState, state: StateInactive},
				{kind: c17OpWrite, data: stream[:len(stream)/2]},
				{kind: c17OpWrite, data: []byte("\n\n\n")},
				{kind: c17OpState, state: StateActive},
				{kind: c17OpCursor, x: ^uint32(0), y: ^uint32(0)},
				{kind: c17OpWrite, data: []byte("ab")},
			}
			d := g.desc()
			d["fixed"] = i
			c.Begin(d)
			c18RunCase(c, run, tot, arena, g, 4, 2, ops, g.fp().Int(i))
		})
	}

	if !run.Replay && tot.cases >= 40 {
		if tot.fbScrolls == 0 {
			run.Inconclusive("no framebuffer console was scrolled by an active terminal")
		}
		if tot.vgaScrolls == 0 {
			run.Inconclusive("no text-mode console was scrolled by an active terminal")
		}
		if tot.redraws == 0 {
			run.Inconclusive("no activation had to redraw writes made while inactive")
		}
		for _, b := range []int{8, 15, 16, 24, 32} {
			if tot.cases >= 200 && tot.bpp[b] == 0 {
				run.Inconclusive(fmt.Sprintf("no %d bpp framebuffer in this process's share of the cases", b))
			}
		}
	}
}
