//go:build verif
// +build verif

package tty

// C17 - terminal state equals the reference terminal.
//
// The real VT is attached to a mock console of generated geometry and default
// colours.  After every Write / WriteByte / SetCursorPosition / SetState the
// whole in-package state (cell buffer including scrollback, viewport origin,
// cursor) is compared with the reference terminal of verif_tty_common_test.go.
// The VT's data buffer is re-homed (same field, same length) into the middle
// of a pattern-filled backing array so that a store past either end of the
// buffer is seen as a changed guard byte even if a slice were re-sliced; plain
// out-of-range indexing is a Go panic and is reported as a violation.

import (
	"fmt"
	"image/color"
	"testing"

	"github.com/ProjectSerenity/firefly/kernel/device/video/console"
	"github.com/ProjectSerenity/firefly/kernel/zzverif/vlib"
)

type c17MockCons struct {
	w, h                   uint32
	fg, bg                 uint8
	writes, fills, scrolls int64
}

func (m *c17MockCons) Dimensions(d console.Dimension) (uint32, uint32) {
	if d == console.Characters {
		return m.w, m.h
	}
	return m.w * 8, m.h * 16
}
func (m *c17MockCons) DefaultColors() (uint8, uint8)                { return m.fg, m.bg }
func (m *c17MockCons) Fill(x, y, w, h uint32, fg, bg uint8)         { m.fills++ }
func (m *c17MockCons) Scroll(dir console.ScrollDir, lines uint32)   { m.scrolls++ }
func (m *c17MockCons) Write(ch byte, fg, bg uint8, x, y uint32)     { m.writes++ }
func (m *c17MockCons) Palette() color.Palette                       { return nil }
func (m *c17MockCons) SetPaletteColor(index uint8, rgba color.RGBA) {}

const c17Guard = 96

func c17GuardByte(i int) byte { return byte(0xC3 ^ (i * 37)) }

// c17Rehome moves the terminal's buffer into the middle of a guarded array.
func c17Rehome(t *VT) []byte {
	n := len(t.data)
	back := make([]byte, n+2*c17Guard)
	for i := 0; i < c17Guard; i++ {
		back[i] = c17GuardByte(i)
		back[c17Guard+n+i] = c17GuardByte(c17Guard + i)
	}
	copy(back[c17Guard:], t.data)
	t.data = back[c17Guard : c17Guard+n]
	return back
}

func c17GuardsIntact(back []byte) int {
	n := len(back) - 2*c17Guard
	for i := 0; i < c17Guard; i++ {
		if back[i] != c17GuardByte(i) {
			return i - c17Guard
		}
		if back[c17Guard+n+i] != c17GuardByte(c17Guard+i) {
			return n + i
		}
	}
	return 1 << 40
}

// c17Compare compares the real terminal with the reference. It returns a
// signature and a description of the first difference ("" if equal) and the
// number of cells compared.
func c17Compare(t *VT, ref *c17Ref) (string, string, int64) {
	x, y := t.CursorPosition()
	if x < 1 || x > uint32(ref.w) || y < 1 || y > uint32(ref.h) {
		return "cursor-outside-viewport", fmt.Sprintf("cursor (%d,%d) is outside the %dx%d viewport (reference cursor (%d,%d))", x, y, ref.w, ref.h, ref.cx, ref.cy), 0
	}
	if int(x) != ref.cx || int(y) != ref.cy {
		return "cursor-mismatch", fmt.Sprintf("cursor (%d,%d), reference (%d,%d)", x, y, ref.cx, ref.cy), 0
	}
	if t.viewportY+t.viewportHeight > t.termHeight || int(t.viewportY) != ref.vy {
		return "viewport-origin-mismatch", fmt.Sprintf("viewport origin line %d, reference %d (scrollback %d)", t.viewportY, ref.vy, ref.sb), 0
	}
	want := (ref.h + ref.sb) * ref.w * 3
	if len(t.data) != want {
		return "buffer-size", fmt.Sprintf("buffer holds %d bytes, want %d", len(t.data), want), 0
	}
	d := t.data
	i := 0
	for ln, line := range ref.lines {
		for col, c := range line {
			if d[i] != c.ch || d[i+1] != c.fg || d[i+2] != c.bg {
				where := "scrollback"
				if ln >= ref.vy && ln < ref.vy+ref.h {
					where = "viewport"
				} else if ln > ref.vy {
					where = "below-viewport"
				}
				return "cell-mismatch-" + where, fmt.Sprintf("buffer line %d (viewport origin %d) column %d: (char %q fg %d bg %d), reference (char %q fg %d bg %d)", ln, ref.vy, col+1, d[i], d[i+1], d[i+2], c.ch, c.fg, c.bg), int64(i / 3)
			}
			i += 3
		}
	}
	return "", "", int64(i / 3)
}

type c17Totals struct{ cases, scrolls, advances, wraps int64 }

// c17Other is a second terminal that is alive during the case: attached to its
// own console after the subject, written to between the subject's operations
// and compared with its own reference.
type c17Other struct {
	w, h, sb, tab int
	fg, bg        byte
	ops           []c17Op
	r             *vlib.Rand
}

func c17RunCase(c *vlib.Case, run *vlib.Run, tot *c17Totals, w, h, sb, tab int, dfg, dbg byte, ops []c17Op, fp vlib.FP, other *c17Other) {
	cons := &c17MockCons{w: uint32(w), h: uint32(h), fg: dfg, bg: dbg}
	ref := c17NewRef(w, h, sb, tab, dfg, dbg)
	vt := NewVT(uint8(tab), uint32(sb))

	var back []byte
	if pv, st := vlib.Protect(func() { vt.AttachTo(cons); back = c17Rehome(vt) }); pv != nil {
		c.Violation("panic:AttachTo:"+vlib.PanicClass(pv), map[string]interface{}{"panic": fmt.Sprint(pv), "stack": st})
		return
	}
	if sig, what, _ := c17Compare(vt, ref); sig != "" {
		c.Violationf("after-attach:"+sig, "%s", what)
		return
	}

	// end every history with one visible character: a write offset that went
	// out of step with the cursor shows up as a misplaced cell
	ops = append(ops, c17Op{kind: c17OpWriteByte, data: []byte{'#'}})

	var ovt *VT
	var oref *c17Ref
	var oback []byte
	onext := 0
	if other != nil {
		ocons := &c17MockCons{w: uint32(other.w), h: uint32(other.h), fg: other.fg, bg: other.bg}
		oref = c17NewRef(other.w, other.h, other.sb, other.tab, other.fg, other.bg)
		ovt = NewVT(uint8(other.tab), uint32(other.sb))
		if pv, st := vlib.Protect(func() { ovt.AttachTo(ocons); oback = c17Rehome(ovt) }); pv != nil {
			c.Violation("panic:AttachTo:"+vlib.PanicClass(pv), map[string]interface{}{"panic": fmt.Sprint(pv), "stack": st, "terminal": "second"})
			return
		}
		run.Count("cases_with_a_second_terminal_alive", 1)
		if sig, what, _ := c17Compare(vt, ref); sig != "" {
			c.Violationf("after-second-terminal-attached:"+sig, "first terminal %dx%d after a second terminal was attached to a %dx%d console: %s", w, h, other.w, other.h, what)
			return
		}
	}
	stepOther := func() bool {
		for other != nil && onext < len(other.ops) && other.r.Chance(1, 3) {
			op := other.ops[onext]
			onext++
			op.applyRef(oref)
			pv, st := vlib.Protect(func() { op.applyVT(ovt) })
			if pv != nil {
				c.Violation("panic:"+vlib.PanicSite(st)+":"+vlib.PanicClass(pv), map[string]interface{}{"terminal": "second", "op": op.String(), "panic": fmt.Sprint(pv), "stack": st})
				return false
			}
			run.Count("ops_on_second_terminal", 1)
			if g := c17GuardsIntact(oback); g != 1<<40 {
				c.Violationf("store-outside-buffer", "second terminal, %s: byte at offset %d relative to its buffer (length %d) was overwritten", op.String(), g, len(ovt.data))
				return false
			}
			if sig, what, _ := c17Compare(ovt, oref); sig != "" {
				c.Violationf("second-terminal:"+sig, "second terminal %dx%d scrollback %d tab %d (first terminal %dx%d) after %s: %s", other.w, other.h, other.sb, other.tab, w, h, op.String(), what)
				return false
			}
			if sig, what, _ := c17Compare(vt, ref); sig != "" {
				c.Violationf("changed-by-other-terminal:"+sig, "first terminal %dx%d changed when the second terminal (%dx%d) did %s: %s", w, h, other.w, other.h, op.String(), what)
				return false
			}
		}
		return true
	}

	for i, op := range ops {
		if !stepOther() {
			return
		}
		op.applyRef(ref)
		var bad string
		pv, st := vlib.Protect(func() { bad = op.applyVT(vt) })
		switch op.kind {
		case c17OpWrite:
			run.Count("ops_write", 1)
			run.Count("bytes_written", int64(len(op.data)))
		case c17OpWriteByte:
			run.Count("ops_writebyte", 1)
			run.Count("bytes_written", 1)
		case c17OpCursor:
			run.Count("ops_setcursor", 1)
		case c17OpState:
			run.Count("ops_setstate", 1)
		}
		if pv != nil {
			c.Violation("panic:"+vlib.PanicSite(st)+":"+vlib.PanicClass(pv), map[string]interface{}{
				"op_index": i, "op": op.String(), "panic": fmt.Sprint(pv), "stack": st,
				"reference_cursor": []int{ref.cx, ref.cy}, "reference_viewport_origin": ref.vy})
			return
		}
		if bad != "" {
			c.Violationf("return-value", "op %d %s: %s", i, op.String(), bad)
			return
		}
		if g := c17GuardsIntact(back); g != 1<<40 {
			c.Violationf("store-outside-buffer", "op %d %s: byte at offset %d relative to the terminal buffer (length %d) was overwritten", i, op.String(), g, len(vt.data))
			return
		}
		sig, what, cells := c17Compare(vt, ref)
		run.Count("cells_compared", cells)
		if sig != "" {
			c.Violationf(sig, "geometry %dx%d scrollback %d tab %d; after op %d %s: %s", w, h, sb, tab, i, op.String(), what)
			return
		}
		wantOff := uint((ref.vy+ref.cy-1)*ref.w*3 + (ref.cx-1)*3)
		if vt.dataOffset != wantOff {
			// not demanded by the statement on its own: the next store shows it
			run.Count("write_offset_out_of_step_with_cursor", 1)
		}
	}

	run.Count("stores", ref.stores)
	run.Count("wraps", ref.wraps)
	run.Count("viewport_advances_through_scrollback", ref.viewAdvance)
	run.Count("viewport_scrolls_after_scrollback_used_up", ref.bufScroll)
	run.Count("backspace_in_column_one", ref.bsCol1)
	run.Count("backspace_elsewhere", ref.bsOther)
	run.Count("tabs", ref.tabs)
	run.Count("carriage_returns", ref.crs)
	run.Count("line_feeds", ref.lfs)
	run.Count("cursor_requests_clipped", ref.cursorClips)
	run.Count("console_calls_seen_by_mock", cons.writes+cons.fills+cons.scrolls)
	run.Max("max_viewport_scrolls_in_one_case", ref.bufScroll)
	run.SetAdd("geometry_buckets", c17GeomBucket(w, h))
	run.SetAdd("scrollback_values", fmt.Sprint(sb))
	run.SetAdd("tab_widths", fmt.Sprint(tab))
	tot.cases++
	tot.scrolls += ref.bufScroll
	tot.advances += ref.viewAdvance
	tot.wraps += ref.wraps
	if ref.wraps > 0 && ref.lastLineFeeds > 0 {
		run.Nontrivial(fp)
	}
	if run.WantSample() && ref.wraps > 0 && ref.bufScroll > 0 && len(ops) <= 40 {
		var first []string
		for i := 0; i < len(ops) && i < 10; i++ {
			first = append(first, ops[i].String())
		}
		run.Sample(map[string]interface{}{"cols": w, "rows": h, "scrollback": sb, "tab": tab, "ops": len(ops), "first_ops": first,
			"final_cursor": []int{ref.cx, ref.cy}, "final_viewport_origin": ref.vy, "wraps": ref.wraps, "viewport_scrolls": ref.bufScroll})
	}
}

func TestVerifC17(t *testing.T) {
	run := vlib.Start(t, "C17")
	defer run.Finish()
	run.SetRule("case = console geometry (1x1..132x60, 1-column and 1-row over-represented), scrollback from {0,1,2,80,random}, tab width from {0,1,4,8,255,around the line width}, console default colours random, and a history of up to 160 operations (Write in random chunks, WriteByte, SetCursorPosition incl. 0 / beyond the viewport / 2^32-1, SetState) over a stream built from segments biased to \\n \\r \\b \\t, runs crossing line/viewport/buffer ends, hundreds of line feeds, all 256 byte values; after every operation cursor, viewport origin and every cell of the buffer are compared with the reference terminal; non-trivial = history with at least one wrap after the last column and at least one line feed taken on the last viewport line; distinct = fingerprint of (geometry, scrollback, tab width, colours, operation list)")
	run.Assume("the console is a mock that only reports its geometry and default colours (the consoles are the subject of C18/C19); a terminal is attached once; in a quarter of the cases a second terminal on a console of other width and colours is alive at the same time, written to between the first one's operations and compared with its own reference")

	var tot c17Totals
	n := run.N(3000, 300000)
	run.Cases(n, func(c *vlib.Case) {
		r := c.R
		w, h := c17Geometry(r, 132, 60)
		sb := r.PickInt([]int{0, 0, 1, 2, 80, 80, r.Range(3, 30)})
		tab := r.PickInt([]int{0, 1, 4, 4, 8, 255, w - 1, w, w + 1, r.Range(2, 20)})
		if tab < 0 {
			tab = 0
		}
		if tab > 255 {
			tab = 255
		}
		dfg := byte(r.Intn(256))
		dbg := byte(r.Intn(256))
		if dbg == dfg {
			dbg++
		}
		g := &c17GenCfg{w: w, h: h, sb: sb, tab: tab, maxOps: r.Range(5, 160), maxBytes: 60000, maxRun: 45000, states: true, stateBias: 12}
		// keep the compare cost of big buffers bounded: cells * ops <= ~1.5M
		if lim := 1500000 / ((h + sb) * w); g.maxOps > lim {
			g.maxOps = lim
			if g.maxOps < 8 {
				g.maxOps = 8
			}
		}
		ops := c17GenOps(r.Fork(1), g)
		fp := vlib.NewFP().Int(w).Int(h).Int(sb).Int(tab).Int(int(dfg)).Int(int(dbg))
		nbytes := 0
		for _, op := range ops {
			fp = op.fp(fp)
			nbytes += len(op.data)
		}
		c.Begin(map[string]interface{}{"cols": w, "rows": h, "scrollback": sb, "tab": tab, "default_fg": dfg, "default_bg": dbg, "ops": len(ops), "stream_bytes": nbytes, "history_fp": fmt.Sprintf("%016x", uint64(fp))})
		var other *c17Other
		if r.Chance(1, 4) {
			// a second terminal on a console of its own: narrower, wider or the same width, other default colours
			or := r.Fork(2)
			ow, oh := c17Geometry(or, 132, 30)
			switch or.Intn(4) {
			case 0:
				ow = w
			case 1:
				if w > 1 {
					ow = or.Range(1, w-1)
				}
			}
			other = &c17Other{w: ow, h: oh, sb: or.PickInt([]int{0, 0, 1, 5}), tab: or.PickInt([]int{0, 4, 8}), fg: byte(or.Intn(256)), bg: byte(or.Intn(256)), r: or}
			if or.Chance(1, 3) {
				other.fg, other.bg = dfg, dbg
			}
			og := &c17GenCfg{w: ow, h: oh, sb: other.sb, tab: other.tab, maxOps: or.Range(1, 30), maxBytes: 8000, maxRun: 6000, states: true, stateBias: 12}
			if lim := 300000 / ((oh + other.sb) * ow); og.maxOps > lim {
				og.maxOps = lim
				if og.maxOps < 2 {
					og.maxOps = 2
				}
			}
			other.ops = c17GenOps(or.Fork(3), og)
			fp = fp.Int(ow).Int(oh).Int(len(other.ops))
		}
		c17RunCase(c, run, &tot, w, h, sb, tab, dfg, dbg, ops, fp, other)
	})

	// fixed histories: the degenerate corners the statement names
	type fixed struct {
		w, h, sb, tab int
		stream        string
	}
	fixedCases := []fixed{
		{1, 1, 0, 0, "a\tb\b\r\nc"},
		{1, 1, 0, 255, "\t\t"},
		{1, 1, 2, 4, "ab\ncd\n\n\tef"},
		{1, 7, 1, 8, "abcdefghijklmnop\b\b\t"},
		{9, 1, 0, 4, "0123456789\b\b\t\n\nxy\rz"},
		{9, 1, 80, 9, "\t\t\t\t\t\t\t\t\t\t\t\t"},
		{132, 60, 80, 8, ""},
		{80, 25, 0, 4, "\b123\b4\t5\n67\r68"},
	}
	for i, f := range fixedCases {
		f := f
		run.OneCase(vlib.FixedBase+i, func(c *vlib.Case) {
			var ops []c17Op
			stream := []byte(f.stream)
			if f.stream == "" { // fill the whole buffer and 3 lines more with a distinct character per cell, in 1000-byte writes
				for k := 0; k < f.w*(f.h+f.sb+3)+5; k++ {
					stream = append(stream, byte(0x21+k%94))
				}
			}
			ops = append(ops, c17Op{kind: c17OpState, state: StateActive})
			for len(stream) > 0 {
				n := 1000
				if n > len(stream) {
					n = len(stream)
				}
				ops = append(ops, c17Op{kind: c17OpWrite, data: stream[:n]})
				stream = stream[n:]
			}
			ops = append(ops, c17Op{kind: c17OpCursor, x: 0, y: 0}, c17Op{kind: c17OpWriteByte, data: []byte{'\b'}},
				c17Op{kind: c17OpCursor, x: ^uint32(0), y: ^uint32(0)}, c17Op{kind: c17OpWriteByte, data: []byte{'\t'}})
			fp := vlib.NewFP().Int(f.w).Int(f.h).Int(f.sb).Int(f.tab).Str(f.stream)
			c.Begin(map[string]interface{}{"fixed": i, "cols": f.w, "rows": f.h, "scrollback": f.sb, "tab": f.tab, "stream": f.stream})
			c17RunCase(c, run, &tot, f.w, f.h, f.sb, f.tab, 7, 0, ops, fp, nil)
		})
	}

	// a process that ran a meaningful share of the case list must have seen the
	// events the property is about
	if !run.Replay && tot.cases >= 20 {
		if tot.scrolls == 0 {
			run.Inconclusive("no history scrolled the viewport after the scrollback was used up")
		}
		if tot.advances == 0 {
			run.Inconclusive("no history moved the viewport through the scrollback")
		}
		if tot.wraps == 0 {
			run.Inconclusive("no history wrapped after the last column")
		}
	}
}
