//go:build verif
// +build verif

package acpi

import (
	"bytes"
	"encoding/binary"
	"fmt"
	"runtime/debug"
	"strings"
	"syscall"
	"testing"
	"unsafe"

	"github.com/ProjectSerenity/firefly/kernel"
	"github.com/ProjectSerenity/firefly/kernel/mm"
	"github.com/ProjectSerenity/firefly/kernel/mm/vmm"
	"github.com/ProjectSerenity/firefly/kernel/zzverif/vlib"
)

// C14 — ACPI root pointer and table registration.
//
// The harness builds complete firmware memory images (BIOS search area with
// root pointer, decoys and look-alikes; root tables; tables; FADT + DSDT) in
// guard-paged mmap'd memory below 4 GiB, so that every 32-bit pointer of the
// image is a real address. The package's three mapping seams drive a tiny
// simulated MMU: a page of the image is readable (PROT_READ) only between the
// driver mapping it and the driver unmapping it, and PROT_NONE otherwise.
// With debug.SetPanicOnFault a touch of a page that the driver did not map
// first (or of a guard page) is a recoverable panic that carries the address.
//
// The oracle is the generator's own description of the image: where the valid
// root pointer is, which revision it has, which tables the root table lists,
// which of them were corrupted. It never re-reads the image the way the driver
// does.

const (
	c14Page        = uintptr(4096)
	c14SearchBytes = 32 * 4096 // the real window: 0xe0000-0xfffff
	c14TablePages  = 192
	c14HdrLen      = 36
	c14FadtDsdt    = 40  // ACPI: FADT.DSDT, 4 bytes
	c14FadtXDsdt   = 140 // ACPI: FADT.X_DSDT, 8 bytes
	c14FadtOff152  = 152 // ACPI: address part of FADT.X_PM1a_EVT_BLK; see sigOff152
)

// placement kinds of a table in the table arena
const (
	c14PlRandom = iota // fresh page group, random byte offset in its first page
	c14PlPageStart
	c14PlPageEnd      // last byte is the last byte of a page (or one byte either side of that), next page is a hole
	c14PlHdrStraddle  // the 36-byte header crosses a page boundary
	c14PlBodyStraddle // header in one page, the body crosses into the next
	c14PlPacked       // directly behind the previous object (0-17 bytes gap)
	c14PlInPage       // fresh page group, wholly inside pages [first, first+ceil(len/4096))
)

var c14PlNames = []string{"random", "page-start", "page-end", "hdr-straddle", "body-straddle", "packed", "in-page"}

// root pointer look-alike kinds
const (
	c14DkRev0Bad     = iota // revision 0, first 20 bytes do not sum to 0
	c14DkExtBothBad         // revision >= 1, neither 20 nor 36 bytes sum to 0
	c14DkExtOnlyBad         // revision >= 1, first 20 bytes sum to 0, the 36 do not
	c14DkNearMissSig        // checksum-valid, one signature byte differs
	c14DkMisaligned         // checksum-valid, not on a 16-byte boundary
)

var c14DkNames = []string{"rev0-bad-sum", "ext-both-bad", "ext-only-ext-bad", "near-miss-signature", "misaligned-valid"}

const (
	c14FadtNone = iota
	c14Fadt32
	c14Fadt64
	c14FadtBoth
)

var c14FadtNames = []string{"none", "dsdt32", "xdsdt64", "both-equal"}

type c14TSpec struct {
	Sig   string
	Len   int
	Kind  int
	Arg   uint64
	Bad   bool
	Flip  int // offset of the corrupted byte
	Delta byte
}

type c14DSpec struct {
	Slot  int
	Kind  int
	Rev   uint8
	Shift int // c14DkMisaligned: bytes off the boundary; c14DkNearMissSig: signature byte index
	Pad36 bool
	Adjacent bool // sits one or two 16-byte blocks in front of the genuine root pointer, which overwrites its tail
}

type c14Spec struct {
	Rev         uint8
	SearchPages int
	LowShift    int // search area starts LowShift*16 bytes into its first page
	HasRSDP     bool
	Slot        int
	Decoys      []c14DSpec
	LaterSlot   int // a second valid root pointer at a higher address (-1: none)
	Rev0Tail    bool
	Tables      []c14TSpec // listed by the root table, in this order
	FadtIdx     int        // index in Tables, -1 none
	FadtMode    int
	Dsdt        *c14TSpec
	DsdtListAt  int // position in the root table where the DSDT is listed as well (-1: not listed)
	Orphan      *c14TSpec
	Root        c14TSpec
	JunkSeed    uint64
}

type c14Obj struct {
	Sig  string
	Len  int
	Addr uintptr
	Kind int
	Bad  bool
	Role string
}

type c14Image struct {
	spec      *c14Spec
	low, hi   uintptr
	rsdpAddr  uintptr
	rootAddr  uintptr
	useX      bool
	labels    map[uintptr]string // root table address -> who points there
	listed    []*c14Obj
	fadt      *c14Obj
	dsdt      *c14Obj
	trap      *c14Obj
	all       []*c14Obj
	expMap    map[string]uintptr
	expSkip   []string
	sumBytes  int64
	straddles int
}

// ---------------------------------------------------------------------------
// simulated MMU over the arenas

type c14MMU struct {
	arenas      []*vlib.Arena
	present     map[uintptr]bool
	foreign     int64
	mapCalls    int64
	unmapCalls  int64
	idCalls     int64
	pagesMapped int64
	nonIdentity int64
	noPresent   int64
}

func c14Mprotect(addr, n uintptr, prot int) {
	if n == 0 {
		return
	}
	if _, _, e := syscall.Syscall(syscall.SYS_MPROTECT, addr, n, uintptr(prot)); e != 0 {
		panic(fmt.Sprintf("c14: mprotect(%#x,%d,%d): %v", addr, n, prot, e))
	}
}

func (m *c14MMU) set(first, n uintptr, on bool) {
	var inside uintptr
	last := first + n
	if last < first {
		last = ^uintptr(0) >> 12
	}
	for _, a := range m.arenas {
		lo, hi := a.Base>>12, a.End()>>12
		s, e := first, last
		if s < lo {
			s = lo
		}
		if e > hi {
			e = hi
		}
		if s >= e {
			continue
		}
		prot := syscall.PROT_NONE
		if on {
			prot = syscall.PROT_READ
		}
		c14Mprotect(s<<12, (e-s)<<12, prot)
		for p := s; p < e; p++ {
			if on {
				m.present[p] = true
			} else {
				delete(m.present, p)
			}
		}
		inside += e - s
	}
	if on {
		m.pagesMapped += int64(inside)
		m.foreign += int64(n - inside)
	}
}

// all switches both arenas as a whole (generator access / everything unmapped).
func (m *c14MMU) all(prot int) {
	for _, a := range m.arenas {
		c14Mprotect(a.Base, uintptr(a.Size), prot)
	}
	m.present = map[uintptr]bool{}
}

func (m *c14MMU) presentIn(a *vlib.Arena) []uintptr {
	var out []uintptr
	for p := a.Base >> 12; p < a.End()>>12; p++ {
		if m.present[p] {
			out = append(out, p)
		}
	}
	return out
}

// ---------------------------------------------------------------------------
// byte-level builders (written from the ACPI structure layouts)

func c14Sum(b []byte) byte {
	var s byte
	for _, x := range b {
		s += x
	}
	return s
}

var c14Sig8 = []byte("RSD PTR ")

func c14Lower(seed uint64, n int) []byte {
	out := make([]byte, n)
	for i := range out {
		seed = seed*6364136223846793005 + 1442695040888963407
		out[i] = 'a' + byte((seed>>33)%26)
	}
	return out
}

// c14RSDP returns the root pointer structure: 20 bytes for revision 0,
// 36 bytes otherwise, with every checksum that applies valid.
func c14RSDP(rev uint8, rsdt uint32, xsdt uint64, seed uint64) []byte {
	n := 20
	if rev != 0 {
		n = 36
	}
	b := make([]byte, n)
	copy(b, c14Sig8)
	copy(b[9:15], c14Lower(seed, 6))
	b[15] = rev
	binary.LittleEndian.PutUint32(b[16:], rsdt)
	b[8] = -c14Sum(b[:20])
	if rev != 0 {
		binary.LittleEndian.PutUint32(b[20:], 36)
		binary.LittleEndian.PutUint64(b[24:], xsdt)
		b[33], b[34], b[35] = byte(seed>>8), byte(seed>>16), byte(seed>>24)
		b[32] = -c14Sum(b)
	}
	return b
}

func c14Table(sig string, n int, rev uint8, seed uint64) []byte {
	b := make([]byte, n)
	x := seed | 1
	for i := c14HdrLen; i < n; i++ {
		x ^= x << 13
		x ^= x >> 7
		x ^= x << 17
		b[i] = byte(x >> 24)
	}
	copy(b, sig)
	binary.LittleEndian.PutUint32(b[4:], uint32(n))
	b[8] = rev
	copy(b[10:16], c14Lower(seed, 6))
	copy(b[16:24], c14Lower(seed+1, 8))
	binary.LittleEndian.PutUint32(b[24:], uint32(seed>>7))
	copy(b[28:32], c14Lower(seed+2, 4))
	binary.LittleEndian.PutUint32(b[32:], uint32(seed>>13))
	return b
}

func c14Seal(b []byte) { b[9] = 0; b[9] = -c14Sum(b) }

// ---------------------------------------------------------------------------
// table arena allocator

type c14Alloc struct {
	a   *vlib.Arena
	cur uintptr
}

func c14Up(v uintptr) uintptr { return (v + c14Page - 1) &^ (c14Page - 1) }

func (al *c14Alloc) place(n int, kind int, arg uint64) uintptr {
	var start uintptr
	un := uintptr(n)
	if kind == c14PlPacked && al.cur > al.a.Base {
		start = al.cur + uintptr(arg%18)
	} else {
		page := c14Up(al.cur) + c14Page // always one untouched page in front
		switch kind {
		case c14PlPageStart:
			start = page
		case c14PlPageEnd:
			start = page + c14Up(un) - un
			switch arg % 4 {
			case 2:
				start++ // exactly one byte in the following page
			case 3:
				start-- // one byte short of the page end
			}
		case c14PlHdrStraddle:
			start = page + c14Page - uintptr(1+arg%35)
		case c14PlBodyStraddle:
			if n > c14HdrLen {
				max := uint64(n - c14HdrLen)
				if max > 4095-c14HdrLen {
					max = 4095 - c14HdrLen
				}
				start = page + c14Page - uintptr(c14HdrLen+arg%max)
			} else {
				start = page + c14Page - uintptr(1+arg%35)
			}
		case c14PlInPage:
			slack := c14Up(un) - un
			start = page + uintptr(arg%uint64(slack+1))
		default:
			start = page + uintptr(arg%4096)
		}
	}
	al.cur = start + un
	if al.cur+2*c14Page > al.a.End() {
		panic("c14: table arena exhausted (generator bug)")
	}
	return start
}

// ---------------------------------------------------------------------------
// environment

type c14Env struct {
	search *vlib.Arena
	tables *vlib.Arena
	mmu    *c14MMU
	seen   map[string]int64
	run    *vlib.Run
	hard   bool
}

// viol reports a violation; everything except the one known cause that the
// harness isolates under its own signature makes the case "hard failed".
func (e *c14Env) viol(c *vlib.Case, sig string, detail interface{}) {
	if !strings.HasPrefix(sig, "fadt:dsdt-pointer-taken-from-offset-152") {
		e.hard = true
	}
	c.Violation(sig, detail)
}

func (e *c14Env) violf(c *vlib.Case, sig string, format string, a ...interface{}) {
	e.viol(c, sig, fmt.Sprintf(format, a...))
}

func (e *c14Env) count(name string, d int64) {
	e.seen[name] += d
	e.run.Count(name, d)
}

func c14NewEnv() *c14Env {
	e := &c14Env{seen: map[string]int64{}}
	var err error
	// Prefer the real place of the BIOS window; anywhere below 4 GiB will do.
	if e.search, err = vlib.NewArena(0xe0000, c14SearchBytes, false); err != nil {
		e.search = vlib.MustArena(0, c14SearchBytes, true)
	}
	if e.tables, err = vlib.NewArena(0x30000000, c14TablePages*4096, false); err != nil {
		e.tables = vlib.MustArena(0, c14TablePages*4096, true)
	}
	if e.search.End() > 1<<32 || e.tables.End() > 1<<32 {
		panic("c14: arenas not below 4 GiB")
	}
	e.mmu = &c14MMU{arenas: []*vlib.Arena{e.search, e.tables}, present: map[uintptr]bool{}}
	return e
}

func (e *c14Env) free() { e.search.Free(); e.tables.Free() }

// ---------------------------------------------------------------------------
// image construction

func c14Put(addr uintptr, b []byte) { copy(vlib.BytesAt(addr, len(b)), b) }

func c14Junk(addr uintptr, n int, seed uint64) {
	b := vlib.BytesAt(addr, n)
	x := seed | 1
	i := 0
	for ; i+8 <= n; i += 8 {
		x ^= x << 13
		x ^= x >> 7
		x ^= x << 17
		binary.LittleEndian.PutUint64(b[i:], x|0x0101010101010101) // no zero bytes
	}
	for ; i < n; i++ {
		b[i] = 0x5a
	}
}

func (e *c14Env) build(sp *c14Spec) *c14Image {
	img := &c14Image{spec: sp, labels: map[uintptr]string{}, expMap: map[string]uintptr{}}
	e.mmu.all(syscall.PROT_READ | syscall.PROT_WRITE)
	useX := sp.Rev != 0
	img.useX = useX

	// ---- layout of the table arena
	al := &c14Alloc{a: e.tables, cur: e.tables.Base}
	newObj := func(t *c14TSpec, role string) *c14Obj {
		o := &c14Obj{Sig: t.Sig, Len: t.Len, Kind: t.Kind, Bad: t.Bad, Role: role}
		o.Addr = al.place(t.Len, t.Kind, t.Arg)
		img.all = append(img.all, o)
		return o
	}
	// auxiliary objects nobody valid points to: what a decoy / the unused root
	// pointer field leads to
	alt0 := newObj(&c14TSpec{Sig: "ALT0", Len: 40, Kind: c14PlInPage, Arg: sp.JunkSeed}, "aux")
	dcoy := newObj(&c14TSpec{Sig: "DCOY", Len: 44, Kind: c14PlPacked, Arg: 4}, "aux")
	altSig := "RSDT"
	altEntry := 4
	if !useX {
		altSig, altEntry = "XSDT", 8
	}
	altRoot := newObj(&c14TSpec{Sig: altSig, Len: c14HdrLen + altEntry, Kind: c14PlPacked, Arg: 8}, "alt-root")
	dcoyR := newObj(&c14TSpec{Sig: "RSDT", Len: c14HdrLen + 4, Kind: c14PlPacked, Arg: 0}, "decoy-root")
	dcoyX := newObj(&c14TSpec{Sig: "XSDT", Len: c14HdrLen + 8, Kind: c14PlPacked, Arg: 12}, "decoy-root")
	// what the 8 bytes at offset 152 of the FADT (in a real FADT: the address
	// part of X_PM1a_EVT_BLK) lead to if they are taken for a table pointer
	trap := newObj(&c14TSpec{Sig: "TRAP", Len: 48, Kind: c14PlInPage, Arg: sp.JunkSeed >> 8}, "trap")
	img.trap = trap

	var tobjs []*c14Obj
	for i := range sp.Tables {
		role := "table"
		if i == sp.FadtIdx {
			role = "fadt"
		}
		o := newObj(&sp.Tables[i], role)
		tobjs = append(tobjs, o)
		img.listed = append(img.listed, o)
		if i == sp.FadtIdx {
			img.fadt = o
			if o.Len < c14FadtOff152+8 {
				// keep the bytes up to offset 160 clear of other objects
				al.cur = o.Addr + c14FadtOff152 + 8
			}
		}
	}
	if sp.Dsdt != nil {
		img.dsdt = newObj(sp.Dsdt, "dsdt")
		if sp.DsdtListAt >= 0 {
			at := sp.DsdtListAt
			if at > len(img.listed) {
				at = len(img.listed)
			}
			l := append([]*c14Obj{}, img.listed[:at]...)
			l = append(l, img.dsdt)
			img.listed = append(l, img.listed[at:]...)
		}
	}
	var orphan *c14Obj
	if sp.Orphan != nil {
		orphan = newObj(sp.Orphan, "orphan")
	}
	entry := 4
	rootSig := "RSDT"
	if useX {
		entry, rootSig = 8, "XSDT"
	}
	rootSpec := sp.Root
	rootSpec.Sig = rootSig
	rootSpec.Len = c14HdrLen + entry*len(img.listed)
	root := newObj(&rootSpec, "root")
	img.rootAddr = root.Addr

	// ---- bytes
	c14Junk(e.tables.Base, int(al.cur+c14Page-e.tables.Base), sp.JunkSeed)
	seed := sp.JunkSeed
	nextSeed := func() uint64 { seed = vlib.Mix(seed, 0xc14); return seed }

	write := func(o *c14Obj, b []byte, t *c14TSpec) {
		c14Seal(b)
		if t != nil && t.Bad {
			b[t.Flip] += t.Delta
		}
		if (c14Sum(b) == 0) == o.Bad {
			panic("c14: generator produced a table whose checksum state is not the described one")
		}
		c14Put(o.Addr, b)
	}
	entries := func(width int, objs []*c14Obj) []byte {
		out := make([]byte, width*len(objs))
		for i, o := range objs {
			if width == 4 {
				binary.LittleEndian.PutUint32(out[4*i:], uint32(o.Addr))
			} else {
				binary.LittleEndian.PutUint64(out[8*i:], uint64(o.Addr))
			}
		}
		return out
	}
	mkRoot := func(o *c14Obj, width int, objs []*c14Obj) {
		b := c14Table(o.Sig, o.Len, sp.Rev, nextSeed())
		copy(b[c14HdrLen:], entries(width, objs))
		write(o, b, nil)
	}
	write(alt0, c14Table("ALT0", alt0.Len, 1, nextSeed()), nil)
	write(trap, c14Table("TRAP", trap.Len, 1, nextSeed()), nil)
	write(dcoy, c14Table("DCOY", dcoy.Len, 1, nextSeed()), nil)
	mkRoot(altRoot, altEntry, []*c14Obj{alt0})
	mkRoot(dcoyR, 4, []*c14Obj{dcoy})
	mkRoot(dcoyX, 8, []*c14Obj{dcoy})
	mkRoot(root, entry, img.listed)

	for i := range sp.Tables {
		t := &sp.Tables[i]
		o := tobjs[i]
		b := c14Table(t.Sig, t.Len, uint8(nextSeed()), nextSeed())
		if i == sp.FadtIdx {
			// everything after the header is firmware data; only the two
			// pointers matter here
			if sp.FadtMode == c14Fadt32 || sp.FadtMode == c14FadtBoth {
				binary.LittleEndian.PutUint32(b[c14FadtDsdt:], uint32(img.dsdt.Addr))
			} else {
				binary.LittleEndian.PutUint32(b[c14FadtDsdt:], 0)
			}
			if t.Len >= c14FadtXDsdt+8 {
				if sp.FadtMode == c14Fadt64 || sp.FadtMode == c14FadtBoth {
					binary.LittleEndian.PutUint64(b[c14FadtXDsdt:], uint64(img.dsdt.Addr))
				} else {
					binary.LittleEndian.PutUint64(b[c14FadtXDsdt:], 0)
				}
			}
			var tp [8]byte
			binary.LittleEndian.PutUint64(tp[:], uint64(trap.Addr))
			if t.Len >= c14FadtOff152+8 {
				copy(b[c14FadtOff152:], tp[:])
			} else {
				c14Put(o.Addr+c14FadtOff152, tp[:]) // memory behind the table
			}
		}
		write(o, b, t)
	}
	if img.dsdt != nil {
		write(img.dsdt, c14Table(sp.Dsdt.Sig, sp.Dsdt.Len, uint8(nextSeed()), nextSeed()), sp.Dsdt)
	}
	if orphan != nil {
		write(orphan, c14Table(sp.Orphan.Sig, sp.Orphan.Len, 1, nextSeed()), sp.Orphan)
	}

	// ---- search area
	areaLen := sp.SearchPages*4096 - sp.LowShift*16
	img.low = e.search.End() - uintptr(areaLen)
	img.hi = e.search.End() - 1
	c14Junk(e.search.Base, e.search.Size, nextSeed())
	slotAddr := func(s int) uintptr { return img.low + uintptr(s)*16 }
	img.labels[root.Addr] = "root"
	img.labels[altRoot.Addr] = "unused-width-root-pointer"
	img.labels[dcoyR.Addr] = "decoy"
	img.labels[dcoyX.Addr] = "decoy"

	for _, d := range sp.Decoys {
		b := c14RSDP(d.Rev, uint32(dcoyR.Addr), uint64(dcoyX.Addr), nextSeed())
		at := slotAddr(d.Slot)
		switch d.Kind {
		case c14DkRev0Bad:
			b[8] += 1 + byte(nextSeed()%255)
			if d.Pad36 {
				// the 16 bytes behind a 20-byte structure are not part of it
				full := make([]byte, 36)
				copy(full, b)
				copy(full[20:], vlib.BytesAt(at+20, 16))
				full[35] -= c14Sum(full)
				b = full
			}
		case c14DkExtBothBad:
			b[16+int(nextSeed()%4)] += 1 + byte(nextSeed()%255)
		case c14DkExtOnlyBad:
			b[20+int(nextSeed()%16)] += 1 + byte(nextSeed()%255)
		case c14DkNearMissSig:
			old := b[d.Shift]
			b[d.Shift] ^= 0x20
			b[8] -= b[d.Shift] - old
			if len(b) > 20 {
				b[32] = 0
				b[32] = -c14Sum(b)
			}
		case c14DkMisaligned:
			at += uintptr(d.Shift)
		}
		c14Put(at, b)
		// generator self-check: none of these may be a candidate for the oracle
		if d.Kind <= c14DkExtOnlyBad && !d.Adjacent {
			n := 20
			if d.Rev != 0 {
				n = 36
			}
			if c14Sum(vlib.BytesAt(at, n)) == 0 {
				panic("c14: generator produced a decoy with a valid checksum")
			}
		}
	}
	if sp.HasRSDP {
		var r32 uint32
		var r64 uint64
		if useX {
			r32, r64 = uint32(altRoot.Addr), uint64(root.Addr)
		} else {
			r32, r64 = uint32(root.Addr), uint64(altRoot.Addr)
		}
		img.rsdpAddr = slotAddr(sp.Slot)
		b := c14RSDP(sp.Rev, r32, r64, nextSeed())
		c14Put(img.rsdpAddr, b)
		if sp.Rev == 0 && sp.Rev0Tail && img.rsdpAddr+36 <= e.search.End() {
			// something that looks like the ACPI 2 extension behind a
			// revision-0 structure; not part of it
			t := make([]byte, 16)
			binary.LittleEndian.PutUint32(t, 36)
			binary.LittleEndian.PutUint64(t[4:], r64)
			c14Put(img.rsdpAddr+20, t)
		}
		for _, d := range sp.Decoys {
			if !d.Adjacent {
				continue
			}
			// its tail is now the head of the genuine structure: keep it a rejected candidate
			at := slotAddr(d.Slot)
			for c14Sum(vlib.BytesAt(at, 20)) == 0 || c14Sum(vlib.BytesAt(at, 36)) == 0 {
				vlib.BytesAt(at+9, 1)[0]++
			}
		}
		if sp.LaterSlot >= 0 {
			c14Put(slotAddr(sp.LaterSlot), c14RSDP(sp.Rev, uint32(dcoyR.Addr), uint64(dcoyX.Addr), nextSeed()))
			img.labels[dcoyR.Addr] = "decoy-or-later-candidate"
			img.labels[dcoyX.Addr] = "decoy-or-later-candidate"
		}
	}

	// ---- oracle, from the description only
	for _, o := range img.listed {
		if o.Bad {
			img.expSkip = append(img.expSkip, o.Sig)
		} else {
			img.expMap[o.Sig] = o.Addr
		}
		img.sumBytes += int64(o.Len)
	}
	if img.fadt != nil && !img.fadt.Bad {
		img.sumBytes += int64(img.dsdt.Len)
		if img.dsdt.Bad {
			if sp.DsdtListAt < 0 {
				img.expSkip = append(img.expSkip, img.dsdt.Sig)
			}
		} else {
			img.expMap[img.dsdt.Sig] = img.dsdt.Addr
		}
	}
	for _, o := range img.all {
		if c14Unreferenced(o.Role) {
			continue
		}
		if (o.Addr&(c14Page-1))+uintptr(o.Len) > c14Up(uintptr(o.Len)) || (o.Addr&(c14Page-1))+c14HdrLen > c14Page {
			img.straddles++
		}
	}
	e.mmu.all(syscall.PROT_NONE)
	return img
}

// ---------------------------------------------------------------------------
// case generation

var c14SigPool = []string{"APIC", "HPET", "MCFG", "SSDT", "BGRT", "SRAT", "SLIT", "WAET", "TPM2", "ECDT",
	"DMAR", "BERT", "CPEP", "FPDT", "MSCT", "SBST", "EINJ", "ERST", "HEST", "UEFI", "PSDT", "BOOT", "DBGP", "WDAT"}

func c14Len(r *vlib.Rand, min int) int {
	var n int
	switch v := r.Intn(100); {
	case v < 12:
		n = c14HdrLen
	case v < 27:
		n = r.Range(37, 64)
	case v < 62:
		n = r.Range(65, 600)
	case v < 74:
		n = r.Range(4096-40, 4096+40)
	case v < 79:
		n = 4096
	case v < 84:
		n = 8192
	case v < 90:
		n = r.Range(8192-8, 8192+8)
	default:
		n = r.Range(4097, 9000)
	}
	if n < min {
		n = min
	}
	return n
}

func c14Kind(r *vlib.Rand) int {
	switch v := r.Intn(100); {
	case v < 18:
		return c14PlRandom
	case v < 30:
		return c14PlPageStart
	case v < 46:
		return c14PlPageEnd
	case v < 56:
		return c14PlHdrStraddle
	case v < 68:
		return c14PlBodyStraddle
	case v < 84:
		return c14PlPacked
	default:
		return c14PlInPage
	}
}

func c14Corrupt(r *vlib.Rand, t *c14TSpec, fadt bool) {
	t.Bad = true
	t.Delta = byte(r.Range(1, 255))
	switch v := r.Intn(10); {
	case v < 2:
		t.Flip = 9 // the checksum byte itself
	case v < 3:
		t.Flip = 8
	case v < 5:
		t.Flip = t.Len - 1 // the very last byte of the table
	case v < 6:
		t.Flip = r.Range(10, c14HdrLen-1)
	default:
		t.Flip = r.Range(8, t.Len-1)
	}
	if fadt && r.Chance(1, 2) {
		// the flipped byte is in a DSDT pointer: following it is following garbage
		if t.Len >= c14FadtXDsdt+8 && r.Bool() {
			t.Flip = c14FadtXDsdt + r.Intn(4)
		} else {
			t.Flip = c14FadtDsdt + r.Intn(4)
		}
	}
}

func c14Gen(r *vlib.Rand, idx int) *c14Spec {
	sp := &c14Spec{LaterSlot: -1, FadtIdx: -1, DsdtListAt: -1, JunkSeed: r.U64()}
	switch v := r.Intn(100); {
	case v < 35:
		sp.Rev = 0
	case v < 50:
		sp.Rev = 1
	case v < 85:
		sp.Rev = 2
	default:
		sp.Rev = 3
	}
	sp.SearchPages = r.PickInt([]int{1, 1, 2, 4, 32, 32})
	if sp.SearchPages > 1 && r.Chance(1, 10) {
		sp.LowShift = r.Range(1, 255)
	}
	nslots := (sp.SearchPages*4096 - sp.LowShift*16) / 16
	sp.HasRSDP = !r.Chance(2, 25)
	lastFit := nslots - 3
	if sp.Rev == 0 {
		lastFit = nslots - 2
	}
	units := (nslots - 4) / 4
	if sp.HasRSDP {
		switch v := r.Intn(10); {
		case v < 2:
			sp.Slot = 0
		case v < 4:
			sp.Slot = lastFit
		case v < 5:
			sp.Slot = lastFit - r.Intn(3)
		default:
			sp.Slot = r.Intn(lastFit + 1)
		}
		units = sp.Slot / 4
	}
	nd := r.Intn(4)
	if nd > units {
		nd = units
	}
	used := map[int]bool{}
	for len(sp.Decoys) < nd {
		u := r.Intn(units)
		if used[u] {
			continue
		}
		used[u] = true
		d := c14DSpec{Slot: u * 4, Kind: r.Intn(5), Rev: uint8(r.Range(1, 3))}
		switch d.Kind {
		case c14DkRev0Bad:
			d.Rev = 0
			d.Pad36 = r.Bool()
		case c14DkNearMissSig:
			d.Shift = r.Intn(8)
			d.Rev = uint8(r.PickInt([]int{0, 2}))
		case c14DkMisaligned:
			d.Shift = r.PickInt([]int{1, 4, 8, 8, 12, 15})
			d.Rev = uint8(r.PickInt([]int{0, 2}))
		default:
			d.Slot += r.Intn(2)
		}
		sp.Decoys = append(sp.Decoys, d)
	}
	if sp.HasRSDP && sp.Slot >= 2 && r.Chance(1, 3) {
		// a rejected candidate directly in front of the genuine one: only its signature and the bytes up to the
		// next 16-byte boundary are its own, the genuine structure begins inside what would be its body
		free := true
		for _, d := range sp.Decoys {
			if d.Slot >= sp.Slot-6 {
				free = false
			}
		}
		if free {
			d := c14DSpec{Slot: sp.Slot - r.Range(1, 2), Kind: c14DkRev0Bad, Rev: 0, Adjacent: true}
			if r.Bool() {
				d.Kind, d.Rev = r.PickInt([]int{c14DkExtBothBad, c14DkExtOnlyBad}), uint8(r.Range(1, 3))
			}
			sp.Decoys = append(sp.Decoys, d)
		}
	}
	if sp.HasRSDP && sp.Slot+4 <= nslots-3 && r.Chance(3, 20) {
		sp.LaterSlot = r.Range(sp.Slot+4, nslots-3)
	}
	sp.Rev0Tail = r.Bool()

	// tables
	n := r.Intn(13)
	if r.Chance(1, 12) {
		n = 12
	}
	perm := r.Perm(len(c14SigPool))
	for i := 0; i < n; i++ {
		sig := c14SigPool[perm[i]]
		if r.Chance(1, 6) {
			// an unknown 4-character signature, distinct by construction
			sig = fmt.Sprintf("%c%c%02d", 'A'+rune(r.Intn(26)), 'A'+rune(r.Intn(26)), i)
		} else if r.Chance(1, 8) {
			// a signature whose last byte is fill (blank or NUL, as OEM tables have it) or an unusual character:
			// still four bytes, still distinct (the table's position is part of it), and the key it is registered under
			sig = string([]byte{byte('A' + r.Intn(26)), byte('0' + i/10), byte('0' + i%10), []byte{' ', 0, ' ', 0, '_', '$', '~', 'a'}[r.Intn(8)]})
		}
		sp.Tables = append(sp.Tables, c14TSpec{Sig: sig, Len: c14Len(r, c14HdrLen), Kind: c14Kind(r), Arg: r.U64()})
	}
	if n > 0 && r.Chance(7, 10) {
		sp.FadtIdx = r.Intn(n)
		t := &sp.Tables[sp.FadtIdx]
		t.Sig = "FACP"
		// which DSDT pointer(s) the table carries; the one that does not
		// apply to the revision being absent is outside the statement
		switch {
		case sp.Rev == 0:
			sp.FadtMode = r.PickInt([]int{c14Fadt32, c14FadtBoth})
		case sp.Rev == 1:
			sp.FadtMode = c14FadtBoth
		default:
			sp.FadtMode = r.PickInt([]int{c14Fadt64, c14FadtBoth})
		}
		if sp.FadtMode == c14Fadt32 {
			t.Len = r.PickInt([]int{116, 116, 129, 132, 244})
		} else {
			t.Len = r.PickInt([]int{148, 244, 244, 268, 276})
		}
		sp.Dsdt = &c14TSpec{Sig: "DSDT", Len: c14Len(r, c14HdrLen), Kind: c14Kind(r), Arg: r.U64()}
		if r.Chance(1, 10) {
			sp.DsdtListAt = r.Intn(n + 1)
		}
	} else if r.Chance(1, 3) {
		sp.Orphan = &c14TSpec{Sig: "DSDT", Len: c14Len(r, c14HdrLen), Kind: c14Kind(r), Arg: r.U64()}
	}
	// corruption: none / exactly one at position idx mod n / independent
	switch mode := r.Intn(10); {
	case n == 0 || mode < 2:
	case mode < 6:
		i := idx % n
		c14Corrupt(r, &sp.Tables[i], i == sp.FadtIdx)
	default:
		for i := range sp.Tables {
			if r.Chance(1, 4) {
				c14Corrupt(r, &sp.Tables[i], i == sp.FadtIdx)
			}
		}
	}
	if sp.Dsdt != nil && r.Chance(1, 4) {
		c14Corrupt(r, sp.Dsdt, false)
	}
	if sp.Orphan != nil && r.Chance(1, 4) {
		c14Corrupt(r, sp.Orphan, false)
	}
	sp.Root = c14TSpec{Kind: c14Kind(r), Arg: r.U64()}
	return sp
}

func c14Unreferenced(role string) bool {
	return role == "aux" || role == "alt-root" || role == "decoy-root" || role == "orphan" || role == "trap"
}

// c14SigOff152 is reported when the driver takes the 8 bytes at offset 152 of
// a FADT for the DSDT pointer. X_DSDT is at offset 140 (ACPI 6.2 table 5-33);
// 152 is where Go's alignment rules put table.FADT.Ext.Dsdt. The generator
// stores the address of a checksum-valid table "TRAP" at offset 152 so that
// this one cause always shows up under this one signature.
func c14SigOff152(rev uint8) string {
	switch {
	case rev >= 2:
		return "fadt:dsdt-pointer-taken-from-offset-152-not-x_dsdt-at-140:revision2plus"
	case rev == 1:
		return "fadt:dsdt-pointer-taken-from-offset-152-not-x_dsdt-at-140:revision1"
	}
	return "fadt:dsdt-pointer-taken-from-offset-152-not-x_dsdt-at-140:revision0"
}

// ---------------------------------------------------------------------------
// running one image

type c14Faulter interface{ Addr() uintptr }

// classify turns a recovered panic into a stable signature + detail.
func (e *c14Env) classify(img *c14Image, phase string, pv interface{}, stack string) (string, map[string]interface{}) {
	det := map[string]interface{}{"phase": phase, "panic": fmt.Sprint(pv), "stack": stack}
	f, ok := pv.(c14Faulter)
	if !ok {
		return "panic:" + phase + ":" + vlib.PanicSite(stack) + ":" + vlib.PanicClass(pv), det
	}
	a := f.Addr()
	det["fault_addr"] = fmt.Sprintf("%#x", a)
	site := vlib.PanicSite(stack)
	det["site"] = site
	switch {
	case a >= e.search.End() && a < e.search.End()+c14Page:
		det["bytes_past_search_area"] = a - e.search.End()
		return "fault:" + phase + ":read-past-end-of-search-area", det
	case e.search.Contains(a, 1):
		if a < img.low&^(c14Page-1) {
			return "fault:" + phase + ":read-below-search-area", det
		}
		if e.mmu.present[a>>12] {
			return "fault:" + phase + ":write-to-read-only-page", det
		}
		return "fault:" + phase + ":search-area-touched-while-unmapped", det
	case e.tables.Contains(a, 1):
		if e.mmu.present[a>>12] {
			return "fault:" + phase + ":write-to-read-only-page", det
		}
		for _, o := range img.all {
			if a >= o.Addr && a < o.Addr+uintptr(o.Len) {
				det["table"] = o.Sig
				det["table_role"] = o.Role
				det["table_addr"] = fmt.Sprintf("%#x", o.Addr)
				det["table_len"] = o.Len
				det["offset_in_table"] = a - o.Addr
				det["placement"] = c14PlNames[o.Kind]
				if c14Unreferenced(o.Role) {
					return "fault:" + phase + ":touched-table-nothing-valid-points-to", det
				}
				return "fault:" + phase + ":table-byte-touched-before-its-page-was-mapped", det
			}
		}
		return "fault:" + phase + ":read-outside-every-table", det
	}
	return "fault:" + phase + ":wild-address", det
}

func (e *c14Env) runImage(c *vlib.Case, run *vlib.Run, sp *c14Spec) {
	img := e.build(sp)
	e.hard = false
	m := e.mmu
	*m = c14MMU{arenas: m.arenas, present: map[uintptr]bool{}}
	rsdpLocationLow, rsdpLocationHi = img.low, img.hi

	c.Begin(map[string]interface{}{
		"spec": sp, "search_low": fmt.Sprintf("%#x", img.low), "search_hi": fmt.Sprintf("%#x", img.hi),
		"table_arena": fmt.Sprintf("%#x", e.tables.Base), "root": fmt.Sprintf("%#x", img.rootAddr),
	})

	e.count("cases_rev"+fmt.Sprint(sp.Rev), 1)
	run.SetAdd("search_pages", fmt.Sprint(sp.SearchPages))
	for _, d := range sp.Decoys {
		e.count("lookalike_"+c14DkNames[d.Kind], 1)
	}
	run.SetAdd("decoys_before_rsdp", fmt.Sprint(len(sp.Decoys)))

	// ---- phase 1: the probe
	var got *acpiDriver
	var isNil bool
	pv, st := vlib.Protect(func() {
		d := probeForACPI()
		if d == nil {
			isNil = true
			return
		}
		got, _ = d.(*acpiDriver)
	})
	e.count("probe_calls", 1)
	e.count("probe_map_calls", m.mapCalls)
	e.count("probe_unmap_calls", m.unmapCalls)
	probeOK := true
	if pv != nil {
		sig, det := e.classify(img, "probe", pv, st)
		e.viol(c, sig, det)
		probeOK = false
	} else {
		switch {
		case !sp.HasRSDP && !isNil:
			probeOK = false
			who := ""
			if got != nil {
				who = img.labels[got.rsdtAddr]
			}
			e.violf(c, "probe:driver-returned-without-a-valid-root-pointer", "no checksum-valid root pointer on a 16-byte boundary in the image, but the probe returned %+v (points to: %s)", got, who)
		case !sp.HasRSDP:
			e.count("probe_none_expected_none_found", 1)
		case isNil:
			probeOK = false
			sig := "probe:valid-root-pointer-not-found:revision0"
			if sp.Rev != 0 {
				sig = "probe:valid-root-pointer-not-found:revision1plus"
			}
			e.violf(c, sig, "checksum-valid revision-%d root pointer at %#x (slot %d of the search area %#x-%#x, %d bytes before its end) was not found",
				sp.Rev, img.rsdpAddr, sp.Slot, img.low, img.hi, img.hi+1-img.rsdpAddr)
		case got == nil:
			probeOK = false
			e.violf(c, "probe:unexpected-driver-type", "probe returned something that is not *acpiDriver")
		default:
			if got.rsdtAddr != img.rootAddr {
				probeOK = false
				who := img.labels[got.rsdtAddr]
				if who == "" {
					who = "nothing-known"
				}
				e.violf(c, "probe:wrong-root-table:"+who, "revision %d root pointer at %#x: expected root table %#x, driver has %#x (%s)", sp.Rev, img.rsdpAddr, img.rootAddr, got.rsdtAddr, who)
			}
			if got.useXSDT != img.useX {
				probeOK = false
				e.violf(c, "probe:wrong-entry-width", "revision %d: expected 64-bit root table = %v, driver has %v", sp.Rev, img.useX, got.useXSDT)
			}
			if probeOK {
				e.count("probe_found_ok", 1)
				if sp.Slot == 0 {
					run.SetAdd("rsdp_slot_bucket", "first")
				} else if img.rsdpAddr+48 >= img.hi+1 {
					run.SetAdd("rsdp_slot_bucket", fmt.Sprintf("last-fit(%d bytes to end)", img.hi+1-img.rsdpAddr))
				} else {
					run.SetAdd("rsdp_slot_bucket", "middle")
				}
			}
		}
	}
	if m.nonIdentity > 0 {
		e.violf(c, "probe:search-area-mapping-not-identity", "%d mapFn calls with page != frame", m.nonIdentity)
	}
	if left := m.presentIn(e.search); len(left) > 0 {
		e.violf(c, "probe:search-area-left-mapped", "%d pages of the search area are still mapped after the probe returned (first: page %#x)", len(left), left[0])
	} else {
		e.count("search_area_unmapped_again", 1)
	}
	if pv == nil && m.mapCalls == 0 {
		e.violf(c, "probe:nothing-mapped", "probe made no mapFn call")
	}

	// ---- phase 2: enumeration. If the probe went wrong it was reported
	// above; enumeration is then checked with a driver holding the oracle's
	// answer so that the second half of the statement is still observed.
	m.all(syscall.PROT_NONE)
	drv := got
	if !probeOK || drv == nil {
		drv = &acpiDriver{rsdtAddr: img.rootAddr, useXSDT: img.useX}
		e.count("enumerations_with_substituted_driver", 1)
	}
	var log bytes.Buffer
	var ierr *kernel.Error
	pv, st = vlib.Protect(func() { ierr = drv.DriverInit(&log) })
	e.count("driverinit_calls", 1)
	e.count("identity_map_calls", m.idCalls)
	e.count("pages_mapped", m.pagesMapped)
	e.count("pages_mapped_outside_image", m.foreign)
	if pv != nil {
		sig, det := e.classify(img, "init", pv, st)
		det["log_so_far"] = log.String()
		if f, ok := pv.(c14Faulter); ok && img.fadt != nil && !img.fadt.Bad && img.fadt.Len < c14FadtOff152+8 &&
			f.Addr() >= img.fadt.Addr+c14FadtOff152 && f.Addr() < img.fadt.Addr+c14FadtOff152+8 {
			det["fadt_addr"] = fmt.Sprintf("%#x", img.fadt.Addr)
			det["fadt_len"] = img.fadt.Len
			sig = c14SigOff152(sp.Rev)
			e.count("off152_read_faulted_behind_short_fadt", 1)
		}
		e.viol(c, sig, det)
		e.count("init_faults", 1)
		return
	}
	if ierr != nil {
		e.violf(c, "init:error-returned", "DriverInit returned %q for an image with a valid root table", ierr.Message)
		return
	}
	off152 := false
	gotMap := map[string]uintptr{}
	for k, h := range drv.tableMap {
		gotMap[k] = uintptr(unsafe.Pointer(h))
	}
	if g, ok := gotMap["TRAP"]; ok && g == img.trap.Addr && img.fadt != nil {
		// one cause, one signature; the rest of the image is still compared
		off152 = true
		e.count("off152_followed_to_trap_table", 1)
		e.violf(c, c14SigOff152(sp.Rev), "revision %d, checksum-valid FADT at %#x (%d bytes, %s; X_DSDT at offset 140 = %#x): the driver registered the table that the 8 bytes at offset 152 point to (%#x) and not the DSDT at %#x",
			sp.Rev, img.fadt.Addr, img.fadt.Len, c14FadtNames[sp.FadtMode], c14U64At(img.fadt, c14FadtXDsdt), g, img.dsdt.Addr)
		delete(gotMap, "TRAP")
		if sp.DsdtListAt < 0 {
			delete(img.expMap, img.dsdt.Sig)
			for i, s := range img.expSkip {
				if s == img.dsdt.Sig {
					img.expSkip = append(img.expSkip[:i:i], img.expSkip[i+1:]...)
					break
				}
			}
		}
	}
	for sig, addr := range img.expMap {
		g, ok := gotMap[sig]
		switch {
		case !ok && sig == "DSDT":
			e.violf(c, "tablemap:missing-dsdt-of-valid-fadt", "DSDT at %#x (checksum ok) referenced by checksum-valid FADT (%s, revision %d) is not registered; registered: %v", addr, c14FadtNames[sp.FadtMode], sp.Rev, c14Keys(gotMap))
		case !ok:
			e.violf(c, "tablemap:missing-valid-table", "%s at %#x (bytes sum to 0, listed at position %d of %d) is not registered; registered: %v", sig, addr, img.pos(sig), len(img.listed), c14Keys(gotMap))
		case g != addr:
			e.violf(c, "tablemap:wrong-address", "%s registered at %#x, the image has it at %#x", sig, g, addr)
		}
	}
	for sig, g := range gotMap {
		if _, ok := img.expMap[sig]; ok {
			continue
		}
		o := img.find(sig)
		switch {
		case o == nil:
			e.violf(c, "tablemap:registered-unknown-signature", "%q registered at %#x; the image has no such table", sig, g)
		case o.Bad && (o.Role == "table" || o.Role == "fadt" || o.Role == "dsdt" && (sp.DsdtListAt >= 0 || (img.fadt != nil && !img.fadt.Bad))):
			e.violf(c, "tablemap:registered-table-with-bad-checksum", "%s at %#x is registered although its bytes do not sum to 0 (byte %d of %d changed)", sig, o.Addr, img.flipOf(sig), o.Len)
		case o.Role == "dsdt":
			e.violf(c, "tablemap:registered-dsdt-of-invalid-fadt", "DSDT at %#x is registered although the FADT pointing to it has a bad checksum", o.Addr)
		default:
			e.violf(c, "tablemap:registered-unlisted-table", "%s (%s) at %#x is registered but neither listed by the root table nor the DSDT of a valid FADT", sig, o.Role, o.Addr)
		}
	}
	lines := strings.Split(log.String(), "\n")
	for _, sig := range img.expSkip {
		found := false
		for _, l := range lines {
			if strings.Contains(l, sig) {
				found = true
			}
		}
		if !found {
			e.violf(c, "log:skipped-table-not-reported", "%s has a bad checksum and was skipped, but no line of the init log mentions it; log:\n%s", sig, log.String())
		} else {
			e.count("skip_reports_seen", 1)
		}
	}

	// ---- evidence
	e.count("tables_listed", int64(len(img.listed)))
	e.count("tables_registered_checked", int64(len(img.expMap)))
	e.count("tables_skipped_checked", int64(len(img.expSkip)))
	e.count("table_bytes_under_checksum", img.sumBytes)
	e.count("log_lines", int64(len(lines)))
	run.Max("max_tables_listed", int64(len(img.listed)))
	run.SetAdd("entry_width", fmt.Sprint(map[bool]int{false: 4, true: 8}[img.useX]))
	run.SetAdd("fadt_mode", c14FadtNames[sp.FadtMode])
	for i, o := range img.listed {
		run.SetAdd("placement_kinds", c14PlNames[o.Kind])
		if o.Bad {
			switch {
			case len(img.listed) == 1:
				run.SetAdd("corrupt_position", "only")
			case i == 0:
				run.SetAdd("corrupt_position", "first")
			case i == len(img.listed)-1:
				run.SetAdd("corrupt_position", "last")
			default:
				run.SetAdd("corrupt_position", "middle")
			}
			if i < len(img.listed)-1 && !img.listed[i+1].Bad {
				e.count("valid_table_registered_after_a_bad_one", 1)
			}
		}
	}
	e.count("tables_spanning_one_page_more_than_ceil_len", int64(img.straddles))
	if img.fadt != nil {
		switch {
		case off152:
			e.count("dsdt_not_reached_because_of_offset_152", 1)
		case img.fadt.Bad:
			e.count("fadt_bad_dsdt_not_followed", 1)
		case img.dsdt.Bad:
			e.count("dsdt_bad_skipped", 1)
		default:
			e.count("dsdt_registered_via_fadt", 1)
		}
	}
	if !e.hard && len(img.listed) >= 1 && (len(sp.Decoys) > 0 || len(img.expSkip) > 0 || img.fadt != nil) {
		fp := vlib.NewFP().Int(int(sp.Rev)).Int(sp.Slot).Int(sp.SearchPages).Int(sp.LowShift).Int(sp.FadtMode).Int(sp.DsdtListAt)
		for _, d := range sp.Decoys {
			fp = fp.Int(d.Slot).Int(d.Kind).Int(int(d.Rev))
		}
		for _, o := range img.listed {
			fp = fp.Str(o.Sig).Int(o.Len).Int(o.Kind)
			if o.Bad {
				fp = fp.Int(1)
			}
		}
		run.Nontrivial(fp)
	}
	if run.WantSample() && len(img.listed) >= 2 && len(img.listed) <= 5 && len(img.expSkip) > 0 {
		run.Sample(map[string]interface{}{"idx": c.Idx, "spec": sp, "expected_table_map": c14Hex(img.expMap), "observed_table_map": c14Hex(gotMap), "init_log": log.String()})
	}

	// ---- phase 3 (one case in four): the same driver enumerates a second time after one table that was
	// valid has gone bad. "Registered if and only if the bytes sum to zero" holds for what the second
	// enumeration leaves behind as it does for the first.
	if e.hard || off152 || c.Idx%4 != 0 {
		return
	}
	var victim *c14Obj
	for _, o := range img.listed {
		if o.Role == "table" && !o.Bad && img.expMap[o.Sig] == o.Addr {
			victim = o
		}
	}
	if victim == nil {
		return
	}
	m.all(syscall.PROT_READ | syscall.PROT_WRITE)
	vlib.BytesAt(victim.Addr, victim.Len)[victim.Len-1] ^= 0x10
	m.all(syscall.PROT_NONE)
	var log2 bytes.Buffer
	pv, st = vlib.Protect(func() { ierr = drv.DriverInit(&log2) })
	e.count("second_enumerations_on_the_same_driver", 1)
	if pv != nil {
		sig, det := e.classify(img, "reinit", pv, st)
		e.viol(c, sig, det)
		return
	}
	if ierr != nil {
		e.violf(c, "reinit:error-returned", "second DriverInit returned %q", ierr.Message)
		return
	}
	if h, ok := drv.tableMap[victim.Sig]; ok {
		e.violf(c, "reinit:registered-table-with-bad-checksum", "%s at %#x was valid during the first enumeration, then its last byte was changed; after the second enumeration on the same driver it is still registered (at %#x); log of the second enumeration:\n%s", victim.Sig, victim.Addr, uintptr(unsafe.Pointer(h)), log2.String())
	}
	for sig, addr := range img.expMap {
		if sig == victim.Sig {
			continue
		}
		if h, ok := drv.tableMap[sig]; !ok || uintptr(unsafe.Pointer(h)) != addr {
			e.violf(c, "reinit:missing-valid-table", "%s at %#x is valid but not registered (or at another address) after the second enumeration; registered: %d tables", sig, addr, len(drv.tableMap))
		}
	}
}

func (img *c14Image) pos(sig string) int {
	for i, o := range img.listed {
		if o.Sig == sig {
			return i
		}
	}
	return -1
}

func (img *c14Image) find(sig string) *c14Obj {
	for _, o := range img.all {
		if o.Sig == sig && o.Role != "root" && o.Role != "alt-root" && o.Role != "decoy-root" {
			return o
		}
	}
	return nil
}

func (img *c14Image) flipOf(sig string) int {
	for _, t := range img.spec.Tables {
		if t.Sig == sig {
			return t.Flip
		}
	}
	if img.spec.Dsdt != nil && sig == img.spec.Dsdt.Sig {
		return img.spec.Dsdt.Flip
	}
	return -1
}

func c14U64At(o *c14Obj, off int) uint64 {
	if o.Len < off+8 {
		return 0
	}
	return binary.LittleEndian.Uint64(vlib.BytesAt(o.Addr+uintptr(off), 8))
}

func c14Keys(m map[string]uintptr) string {
	var s []string
	for k := range m {
		s = append(s, k)
	}
	// order does not matter for a verdict, but keep reports reproducible
	for i := range s {
		for j := i + 1; j < len(s); j++ {
			if s[j] < s[i] {
				s[i], s[j] = s[j], s[i]
			}
		}
	}
	return strings.Join(s, ",")
}

func c14Hex(m map[string]uintptr) map[string]string {
	o := map[string]string{}
	for k, v := range m {
		o[k] = fmt.Sprintf("%#x", v)
	}
	return o
}

// ---------------------------------------------------------------------------

func TestVerifC14(t *testing.T) {
	run := vlib.Start(t, "C14")
	defer run.Finish()
	run.SetRule("case = one firmware memory image generated from (seed, index): search area of 1/2/4/32 pages ending at a guard page (sometimes starting mid-page), root pointer of revision 0/1/2/3 at the first / last-fitting / a random 16-byte slot (or absent), 0-3 look-alikes at lower addresses (bad 20-byte sum, bad 36-byte sum, only extended sum bad, near-miss signature, valid but misaligned), sometimes a second valid root pointer at a higher address; root table (RSDT 4-byte entries for revision 0, XSDT 8-byte otherwise) listing 0-12 tables with distinct signatures, each placed page-start / page-end / header- or body-straddling a page boundary / packed / random, each possibly with one changed byte (checksum byte, last byte, header, body, FADT DSDT pointer); FADT with 32-bit, 64-bit or both DSDT pointers; DSDT sometimes also listed, sometimes present but unreferenced; one case in four then changes the last byte of a registered table and enumerates again on the same driver. non-trivial = no violation, >=1 listed table and at least one of {look-alike below the root pointer, corrupted table, FADT}; distinct = fingerprint of (revision, slot, area size, look-alikes, FADT mode, ordered list of (signature, length, placement, corrupted))")
	run.Assume("mapFn/unmapFn/identityMapFn are replaced by a simulated MMU (mprotect on the image pages): identityMapFn(frame, size) maps ceil(size/4096) pages starting at frame, as documented for vmm.IdentityMapRegion; pages outside the image are only counted")
	run.Assume("a root pointer of revision >= 1 is valid when its 36 bytes sum to 0 (DESIGN C14); generated ones also have a valid 20-byte sum; look-alikes whose validity depends on which of the two sums is used are not generated")
	run.Assume("not generated (outside the statement): corrupt root table, FADT whose DSDT pointer for the revision in use is zero (revision 0: 32-bit field, revision >= 2: 64-bit field, revision 1: both fields equal), corrupted length field, duplicate signatures")
	run.Assume("the init log is searched for the signature of each skipped table; OEM strings of generated tables are lower-case so that a signature can only appear in a line about that table")

	defer func(lo, hi, al uintptr) {
		rsdpLocationLow, rsdpLocationHi, rsdpAlignment = lo, hi, al
		mapFn, unmapFn, identityMapFn = vmm.Map, vmm.Unmap, vmm.IdentityMapRegion
	}(rsdpLocationLow, rsdpLocationHi, rsdpAlignment)
	if rsdpAlignment != 16 {
		run.Violation("config:alignment-not-16", -1, fmt.Sprintf("rsdpAlignment is %d", rsdpAlignment))
	}
	if rsdpLocationLow != 0xe0000 || rsdpLocationHi != 0xfffff {
		run.Violation("config:search-window-not-e0000-fffff", -1, fmt.Sprintf("%#x-%#x", rsdpLocationLow, rsdpLocationHi))
	}

	env := c14NewEnv()
	env.run = run
	defer env.free()
	run.Note(fmt.Sprintf("search arena %#x-%#x, table arena %#x-%#x", env.search.Base, env.search.End(), env.tables.Base, env.tables.End()))
	m := env.mmu
	mapFn = func(p mm.Page, f mm.Frame, fl vmm.PageTableEntryFlag) *kernel.Error {
		m.mapCalls++
		if uintptr(p) != uintptr(f) {
			m.nonIdentity++
			return nil
		}
		if fl&vmm.FlagPresent == 0 {
			m.noPresent++
			return nil
		}
		m.set(uintptr(p), 1, true)
		return nil
	}
	unmapFn = func(p mm.Page) *kernel.Error {
		m.unmapCalls++
		m.set(uintptr(p), 1, false)
		return nil
	}
	identityMapFn = func(f mm.Frame, size uintptr, fl vmm.PageTableEntryFlag) (mm.Page, *kernel.Error) {
		m.idCalls++
		n := size >> 12
		if size&(c14Page-1) != 0 {
			n++
		}
		if fl&vmm.FlagPresent != 0 {
			m.set(uintptr(f), n, true)
		} else {
			m.noPresent++
		}
		return mm.Page(f), nil
	}
	old := debug.SetPanicOnFault(true)
	defer debug.SetPanicOnFault(old)

	run.Cases(run.N(10000, 640000), func(c *vlib.Case) {
		env.runImage(c, run, c14Gen(c.R, c.Idx))
	})

	// ---- fixed images
	plain := func(rev uint8) *c14Spec {
		return &c14Spec{Rev: rev, SearchPages: 1, HasRSDP: true, LaterSlot: -1, FadtIdx: -1, DsdtListAt: -1, JunkSeed: 0xc14,
			Root: c14TSpec{Kind: c14PlPageStart}}
	}
	// 1: ACPI 2 root pointer in the first slot, FADT with only the 64-bit pointer, everything page-aligned
	run.OneCase(vlib.FixedBase+1, func(c *vlib.Case) {
		sp := plain(2)
		sp.Tables = []c14TSpec{{Sig: "APIC", Len: 84, Kind: c14PlPageStart}, {Sig: "FACP", Len: 244, Kind: c14PlPageStart}}
		sp.FadtIdx, sp.FadtMode = 1, c14Fadt64
		sp.Dsdt = &c14TSpec{Sig: "DSDT", Len: 8648, Kind: c14PlPageStart}
		env.runImage(c, run, sp)
	})
	// 2: ACPI 1 root pointer in the last slot that holds its 20 bytes, real-size window, middle table corrupted
	run.OneCase(vlib.FixedBase+2, func(c *vlib.Case) {
		sp := plain(0)
		sp.SearchPages = 32
		sp.Slot = 32*256 - 2
		sp.Tables = []c14TSpec{{Sig: "APIC", Len: 84, Kind: c14PlPageStart}, {Sig: "SSDT", Len: 460, Kind: c14PlPageStart, Bad: true, Flip: 459, Delta: 1}, {Sig: "HPET", Len: 56, Kind: c14PlPageStart}}
		env.runImage(c, run, sp)
	})
	// 3: ACPI 2 root pointer in the last slot that holds its 36 bytes (12 bytes of other data follow it)
	run.OneCase(vlib.FixedBase+3, func(c *vlib.Case) {
		sp := plain(2)
		sp.Slot = 256 - 3
		sp.Tables = []c14TSpec{{Sig: "APIC", Len: 84, Kind: c14PlPageStart}}
		env.runImage(c, run, sp)
	})
	// 4: one 200-byte table starting 96 bytes before a page boundary
	run.OneCase(vlib.FixedBase+4, func(c *vlib.Case) {
		sp := plain(0)
		sp.Tables = []c14TSpec{{Sig: "HPET", Len: 200, Kind: c14PlBodyStraddle, Arg: 96 - c14HdrLen}}
		env.runImage(c, run, sp)
	})
	// 5: one table whose header starts 6 bytes before a page boundary
	run.OneCase(vlib.FixedBase+5, func(c *vlib.Case) {
		sp := plain(0)
		sp.Tables = []c14TSpec{{Sig: "HPET", Len: 56, Kind: c14PlHdrStraddle, Arg: 5}}
		env.runImage(c, run, sp)
	})
	// 6: corrupted FADT whose DSDT pointer is the corrupted byte; ACPI 1, short (116-byte) FADT ending at a page end
	run.OneCase(vlib.FixedBase+6, func(c *vlib.Case) {
		sp := plain(0)
		sp.Tables = []c14TSpec{{Sig: "FACP", Len: 116, Kind: c14PlPageEnd, Bad: true, Flip: c14FadtDsdt + 2, Delta: 0x40}, {Sig: "APIC", Len: 84, Kind: c14PlPageStart}}
		sp.FadtIdx, sp.FadtMode = 0, c14Fadt32
		sp.Dsdt = &c14TSpec{Sig: "DSDT", Len: 300, Kind: c14PlPageStart}
		env.runImage(c, run, sp)
	})
	// 7: valid short ACPI 1 FADT ending at a page end (its 64-bit fields do not exist), bad DSDT, table after it
	run.OneCase(vlib.FixedBase+7, func(c *vlib.Case) {
		sp := plain(0)
		sp.Tables = []c14TSpec{{Sig: "FACP", Len: 116, Kind: c14PlPageEnd}, {Sig: "APIC", Len: 84, Kind: c14PlPageStart}}
		sp.FadtIdx, sp.FadtMode = 0, c14Fadt32
		sp.Dsdt = &c14TSpec{Sig: "DSDT", Len: 300, Kind: c14PlPageStart, Bad: true, Flip: 9, Delta: 1}
		env.runImage(c, run, sp)
	})

	if !run.Replay && run.From == 0 && run.To < 0 {
		// facets that are the point of the harness must have been seen
		for _, k := range []string{"probe_found_ok", "probe_none_expected_none_found", "skip_reports_seen", "valid_table_registered_after_a_bad_one", "dsdt_registered_via_fadt", "fadt_bad_dsdt_not_followed", "dsdt_bad_skipped"} {
			if env.seen[k] == 0 {
				run.Inconclusive("facet never observed: " + k)
			}
		}
	}
}
