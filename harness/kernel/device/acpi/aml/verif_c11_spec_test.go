//go:build verif
// +build verif

package aml

import "fmt"

// The generator writes AML with the package's own opcode constants, so a constant that drifts away from the
// specification would move the generator and the parser together and no generated program would notice. This
// table is the specification's encoding of every opcode the generator can emit (ACPI 6.x, section 20.3 "AML
// byte stream byte values"), typed in as numbers; c11SpecCheck compares what the encoder produces for each
// constant with it. An extended opcode is the prefix 0x5b followed by the listed byte.

type c11SpecOp struct {
	name string
	op   uint16
	ext  bool
	b    byte
}

func c11SpecTable() []c11SpecOp {
	return []c11SpecOp{
		{"Zero", pOpZero, false, 0x00}, {"One", pOpOne, false, 0x01}, {"Alias", pOpAlias, false, 0x06}, {"Name", pOpName, false, 0x08},
		{"BytePrefix", pOpBytePrefix, false, 0x0a}, {"WordPrefix", pOpWordPrefix, false, 0x0b}, {"DWordPrefix", pOpDwordPrefix, false, 0x0c},
		{"StringPrefix", pOpStringPrefix, false, 0x0d}, {"QWordPrefix", pOpQwordPrefix, false, 0x0e}, {"Scope", pOpScope, false, 0x10},
		{"Buffer", pOpBuffer, false, 0x11}, {"Package", pOpPackage, false, 0x12}, {"VarPackage", pOpVarPackage, false, 0x13},
		{"Method", pOpMethod, false, 0x14}, {"External", pOpExternal, false, 0x15},
		{"Local0", pOpLocal0, false, 0x60}, {"Local1", pOpLocal1, false, 0x61}, {"Local2", pOpLocal2, false, 0x62}, {"Local3", pOpLocal3, false, 0x63},
		{"Local4", pOpLocal4, false, 0x64}, {"Local5", pOpLocal5, false, 0x65}, {"Local6", pOpLocal6, false, 0x66}, {"Local7", pOpLocal7, false, 0x67},
		{"Arg0", pOpArg0, false, 0x68}, {"Arg1", pOpArg1, false, 0x69}, {"Arg2", pOpArg2, false, 0x6a}, {"Arg3", pOpArg3, false, 0x6b},
		{"Arg4", pOpArg4, false, 0x6c}, {"Arg5", pOpArg5, false, 0x6d}, {"Arg6", pOpArg6, false, 0x6e},
		{"Store", pOpStore, false, 0x70}, {"RefOf", pOpRefOf, false, 0x71}, {"Add", pOpAdd, false, 0x72}, {"Concat", pOpConcat, false, 0x73},
		{"Subtract", pOpSubtract, false, 0x74}, {"Increment", pOpIncrement, false, 0x75}, {"Decrement", pOpDecrement, false, 0x76},
		{"Multiply", pOpMultiply, false, 0x77}, {"Divide", pOpDivide, false, 0x78}, {"ShiftLeft", pOpShiftLeft, false, 0x79},
		{"ShiftRight", pOpShiftRight, false, 0x7a}, {"And", pOpAnd, false, 0x7b}, {"Nand", pOpNand, false, 0x7c}, {"Or", pOpOr, false, 0x7d},
		{"Nor", pOpNor, false, 0x7e}, {"Xor", pOpXor, false, 0x7f}, {"Not", pOpNot, false, 0x80}, {"FindSetLeftBit", pOpFindSetLeftBit, false, 0x81},
		{"FindSetRightBit", pOpFindSetRightBit, false, 0x82}, {"DerefOf", pOpDerefOf, false, 0x83}, {"ConcatRes", pOpConcatRes, false, 0x84},
		{"Mod", pOpMod, false, 0x85}, {"Notify", pOpNotify, false, 0x86}, {"SizeOf", pOpSizeOf, false, 0x87}, {"Index", pOpIndex, false, 0x88},
		{"Match", pOpMatch, false, 0x89}, {"CreateDWordField", pOpCreateDWordField, false, 0x8a}, {"CreateWordField", pOpCreateWordField, false, 0x8b},
		{"CreateByteField", pOpCreateByteField, false, 0x8c}, {"CreateBitField", pOpCreateBitField, false, 0x8d}, {"ObjectType", pOpObjectType, false, 0x8e},
		{"CreateQWordField", pOpCreateQWordField, false, 0x8f}, {"LAnd", pOpLand, false, 0x90}, {"LOr", pOpLor, false, 0x91}, {"LNot", pOpLnot, false, 0x92},
		{"LEqual", pOpLEqual, false, 0x93}, {"LGreater", pOpLGreater, false, 0x94}, {"LLess", pOpLLess, false, 0x95}, {"ToBuffer", pOpToBuffer, false, 0x96},
		{"ToDecimalString", pOpToDecimalString, false, 0x97}, {"ToHexString", pOpToHexString, false, 0x98}, {"ToInteger", pOpToInteger, false, 0x99},
		{"ToString", pOpToString, false, 0x9c}, {"CopyObject", pOpCopyObject, false, 0x9d}, {"Mid", pOpMid, false, 0x9e}, {"Continue", pOpContinue, false, 0x9f},
		{"If", pOpIf, false, 0xa0}, {"Else", pOpElse, false, 0xa1}, {"While", pOpWhile, false, 0xa2}, {"Noop", pOpNoop, false, 0xa3},
		{"Return", pOpReturn, false, 0xa4}, {"Break", pOpBreak, false, 0xa5}, {"BreakPoint", pOpBreakPoint, false, 0xcc}, {"Ones", pOpOnes, false, 0xff},
		{"Mutex", pOpMutex, true, 0x01}, {"Event", pOpEvent, true, 0x02}, {"CondRefOf", pOpCondRefOf, true, 0x12}, {"CreateField", pOpCreateField, true, 0x13},
		{"LoadTable", pOpLoadTable, true, 0x1f}, {"Load", pOpLoad, true, 0x20}, {"Stall", pOpStall, true, 0x21}, {"Sleep", pOpSleep, true, 0x22},
		{"Acquire", pOpAcquire, true, 0x23}, {"Signal", pOpSignal, true, 0x24}, {"Wait", pOpWait, true, 0x25}, {"Reset", pOpReset, true, 0x26},
		{"Release", pOpRelease, true, 0x27}, {"FromBCD", pOpFromBCD, true, 0x28}, {"ToBCD", pOpToBCD, true, 0x29}, {"Unload", pOpUnload, true, 0x2a},
		{"Revision", pOpRevision, true, 0x30}, {"Debug", pOpDebug, true, 0x31}, {"Fatal", pOpFatal, true, 0x32}, {"Timer", pOpTimer, true, 0x33},
		{"OpRegion", pOpOpRegion, true, 0x80}, {"Field", pOpField, true, 0x81}, {"Device", pOpDevice, true, 0x82}, {"Processor", pOpProcessor, true, 0x83},
		{"PowerRes", pOpPowerRes, true, 0x84}, {"ThermalZone", pOpThermalZone, true, 0x85}, {"IndexField", pOpIndexField, true, 0x86},
		{"BankField", pOpBankField, true, 0x87}, {"DataRegion", pOpDataRegion, true, 0x88},
	}
}

// c11SpecCheck returns "" or the first opcode whose encoding differs from the specification.
func c11SpecCheck() string {
	for _, s := range c11SpecTable() {
		want := []byte{s.b}
		if s.ext {
			want = []byte{0x5b, s.b}
		}
		got := c11OpBytes(s.op)
		if len(got) != len(want) || got[0] != want[0] || got[len(got)-1] != want[len(want)-1] {
			return fmt.Sprintf("%s-encodes-as-%x-want-%x", s.name, got, want)
		}
	}
	return ""
}
