//go:build verif
// +build verif

package aml

import (
	"bytes"
	"fmt"
	"io/ioutil"
	"os"
	"runtime/debug"
	"sort"
	"strings"
	"testing"
	"time"
	"unsafe"

	"github.com/ProjectSerenity/firefly/kernel/device/acpi/table"
	"github.com/ProjectSerenity/firefly/kernel/zzverif/vlib"
)

// C11 — well-formed AML is parsed into a namespace that mirrors the program.

// ---------------------------------------------------------------------------
// running the real parser on generated tables

type c11ErrWriter struct{ buf bytes.Buffer }

func (w *c11ErrWriter) Write(p []byte) (int, error) {
	if w.buf.Len() < 4096 {
		w.buf.Write(p)
	}
	return len(p), nil
}

var c11Arenas []*vlib.Arena
var c11Run *vlib.Run // set by the harness that is running (watchdog reporting)

// c11Place copies header+payload into guard-paged memory (the table ends at the guard page).
func c11Place(slot int, payload []byte) *table.SDTHeader {
	for len(c11Arenas) <= slot {
		c11Arenas = append(c11Arenas, vlib.MustArena(0, 1<<21, false))
	}
	hl := int(unsafe.Sizeof(table.SDTHeader{}))
	b := make([]byte, hl+len(payload))
	copy(b[0:4], "DSDT")
	b[4], b[5], b[6], b[7] = byte(len(b)), byte(len(b)>>8), byte(len(b)>>16), byte(len(b)>>24)
	// nothing in the header but Length concerns the parser: the revision (which tells an interpreter how wide its
	// integers are, not the parser how to read a constant), the checksum and the OEM fields vary with the payload
	b[8] = []byte{2, 1, 0, 3, 2, 255}[len(payload)%6]
	for i := 9; i < hl; i++ {
		b[i] = byte(len(payload)*31 + i*7)
	}
	if len(payload)%5 == 0 {
		copy(b[0:4], "SSDT")
	}
	copy(b[hl:], payload)
	// the header must be 4-byte aligned: pad the tail placement down to a multiple of 4 by prepending
	pad := (4 - len(b)%4) % 4
	a := c11Arenas[slot]
	p := a.End() - uintptr(len(b))
	_ = pad
	if p%4 != 0 {
		// keep the table's last byte at the guard page; an unaligned header start is fine for
		// the parser (it only reads Length) on amd64
	}
	copy(vlib.BytesAt(p, len(b)), b)
	return (*table.SDTHeader)(unsafe.Pointer(p))
}

type c11Result struct {
	tree     *ObjectTree
	errText  string
	failedAt int // table index whose ParseAML returned an error (-1 = all ok)
	panicV   interface{}
	stack    string
}

func c11Parse(tables [][]byte) *c11Result {
	res := &c11Result{failedAt: -1}
	tree := NewObjectTree()
	tree.CreateDefaultScopes(42)
	res.tree = tree
	w := &c11ErrWriter{}
	p := NewParser(w, tree)
	old := debug.SetPanicOnFault(true)
	defer debug.SetPanicOnFault(old)
	for i, tb := range tables {
		hdr := c11Place(i, tb)
		var err interface{}
		var pv interface{}
		var st string
		done := make(chan struct{})
		go func() {
			defer close(done)
			old := debug.SetPanicOnFault(true)
			defer debug.SetPanicOnFault(old)
			pv, st = vlib.Protect(func() {
				if e := p.ParseAML(uint8(i), fmt.Sprintf("TBL%d", i), hdr); e != nil {
					err = e
				}
			})
		}()
		budget := 15 * time.Second
		if c11Run != nil && c11Run.Single() {
			budget = 120 * time.Second
		}
		select {
		case <-done:
		case <-time.After(budget):
			// a watchdog is not a verdict: vcheck re-runs the announced case alone with a larger
			// budget and reports a timeout only if it repeats
			if c11Run != nil {
				c11Run.Watchdog("ParseAML did not return on a generated well-formed table")
			}
			panic("ParseAML did not return")
		}
		if pv != nil {
			res.panicV, res.stack, res.failedAt = pv, st, i
			break
		}
		if err != nil {
			res.failedAt = i
			break
		}
	}
	res.errText = w.buf.String()
	return res
}

// ---------------------------------------------------------------------------
// reading the tree

// scopeKids returns the children that form the scope of obj: the children of
// its scope block for Device/Method/..., its own children for scope blocks.
func c11ScopeKids(tree *ObjectTree, obj *Object) []*Object {
	if obj.opcode != pOpIntScopeBlock {
		var blk *Object
		for i := obj.firstArgIndex; i != InvalidIndex; i = tree.ObjectAt(i).nextSiblingIndex {
			if k := tree.ObjectAt(i); k.opcode == pOpIntScopeBlock {
				blk = k
			}
		}
		if blk == nil {
			return nil
		}
		obj = blk
	}
	var l []*Object
	n := 0
	for i := obj.firstArgIndex; i != InvalidIndex; i = tree.ObjectAt(i).nextSiblingIndex {
		l = append(l, tree.ObjectAt(i))
		if n++; n > 1<<20 {
			break
		}
	}
	return l
}

func c11Kids(tree *ObjectTree, obj *Object) []*Object {
	var l []*Object
	n := 0
	for i := obj.firstArgIndex; i != InvalidIndex; i = tree.ObjectAt(i).nextSiblingIndex {
		l = append(l, tree.ObjectAt(i))
		if n++; n > 1<<20 {
			break
		}
	}
	return l
}

func c11IsNamedOp(op uint16) bool {
	switch op {
	case pOpDevice, pOpProcessor, pOpPowerRes, pOpThermalZone, pOpMethod, pOpName, pOpOpRegion, pOpMutex, pOpEvent, pOpIntNamedField, pOpIntScopeBlock, pOpDataRegion:
		return true
	}
	return false
}

// c11Lookup walks the absolute path of o through the tree.
func c11Lookup(tree *ObjectTree, o *c11Obj) (*Object, string) {
	var chain []*c11Obj
	for p := o; p.parent != nil; p = p.parent {
		chain = append([]*c11Obj{p}, chain...)
	}
	cur := tree.ObjectAt(0)
	for _, c := range chain {
		var found []*Object
		for _, k := range c11ScopeKids(tree, cur) {
			if c11IsNamedOp(k.opcode) && string(k.name[:]) == c.seg {
				found = append(found, k)
			}
		}
		if len(found) == 0 {
			return nil, fmt.Sprintf("segment %q not found below %q", c.seg, c.parent.path())
		}
		if len(found) > 1 {
			return nil, fmt.Sprintf("%d objects named %q in scope %q", len(found), c.seg, c.parent.path())
		}
		cur = found[0]
	}
	return cur, ""
}

// ---------------------------------------------------------------------------
// expected token stream of an expression (pre-order), see DESIGN C11

type c11Tok struct {
	op      uint16
	val     uint64
	hasVal  bool
	bytes   []byte
	hasB    bool
	target  *c11Obj
	kids    []int // indices of the expected direct children (when checkKids)
	check   bool
	isCall  bool
	what    string
	pkg     bool
}

type c11Exp struct {
	toks []c11Tok
}

func c11FirstT(spec string) int {
	for i := 0; i < len(spec); i++ {
		if spec[i] == c11AT {
			return i
		}
	}
	return len(spec)
}

// add appends the tokens of e and returns the index of its root token (-1 when e produces no object).
func (x *c11Exp) add(e *c11Expr, strict, viaTarget bool) int {
	idx := len(x.toks)
	switch e.kind {
	case c11EConst:
		t := c11Tok{op: e.op, what: "integer constant"}
		if e.op != pOpZero && e.op != pOpOne && e.op != pOpOnes {
			t.val, t.hasVal = e.val, true
			switch e.op {
			case pOpBytePrefix:
				t.val &= 0xff
			case pOpWordPrefix:
				t.val &= 0xffff
			case pOpDwordPrefix:
				t.val &= 0xffffffff
			}
		}
		x.toks = append(x.toks, t)
	case c11ERaw:
		op := map[int]uint16{1: pOpBytePrefix, 2: pOpWordPrefix, 4: pOpDwordPrefix}[e.rawSize]
		x.toks = append(x.toks, c11Tok{op: op, val: e.val, hasVal: true, what: "raw data operand"})
	case c11EString:
		x.toks = append(x.toks, c11Tok{op: pOpStringPrefix, bytes: e.str, hasB: true, what: "string"})
	case c11ELocal:
		x.toks = append(x.toks, c11Tok{op: pOpLocal0 + uint16(e.n), what: "local"})
	case c11EArg:
		x.toks = append(x.toks, c11Tok{op: pOpArg0 + uint16(e.n), what: "arg"})
	case c11ENameRef:
		if viaTarget {
			x.toks = append(x.toks, c11Tok{op: pOpIntNamePath, bytes: e.written, hasB: true, what: "name used as target"})
		} else {
			x.toks = append(x.toks, c11Tok{op: pOpIntResolvedNamePath, target: e.target, what: "name reference"})
		}
	case c11ENewName:
		x.toks = append(x.toks, c11Tok{op: pOpIntNamePath, bytes: e.written, hasB: true, what: "new name"})
	case c11ENull:
		if viaTarget {
			return -1
		}
		x.toks = append(x.toks, c11Tok{op: pOpZero, what: "null target"})
	case c11EDebug:
		x.toks = append(x.toks, c11Tok{op: pOpDebug, what: "Debug"})
	case c11ECall:
		x.toks = append(x.toks, c11Tok{op: pOpIntMethodCall, target: e.target, check: true, isCall: true, what: "method call"})
		var kids []int
		for _, a := range e.args {
			if k := x.add(a, strict, false); k >= 0 {
				kids = append(kids, k)
			}
		}
		x.toks[idx].kids = kids
	case c11EOp:
		if e.op == pOpNoop {
			return -1
		}
		x.toks = append(x.toks, c11Tok{op: e.op, check: true, what: e.spec.name})
		ft := c11FirstT(e.spec.args)
		var kids []int
		for i, a := range e.args {
			k := e.spec.args[i]
			via := (k == c11AS || k == c11AG) && (strict || i < ft)
			if j := x.add(a, strict, via); j >= 0 {
				kids = append(kids, j)
			}
		}
		x.toks[idx].kids = kids
	case c11EBuffer:
		x.toks = append(x.toks, c11Tok{op: pOpBuffer, check: true, what: "Buffer"})
		k0 := x.add(e.args[0], true, false)
		k1 := len(x.toks)
		x.toks = append(x.toks, c11Tok{op: pOpIntByteList, bytes: e.str, hasB: true, what: "buffer bytes"})
		x.toks[idx].kids = []int{k0, k1}
	case c11EPackage:
		x.toks = append(x.toks, c11Tok{op: pOpPackage, check: true, pkg: true, what: "Package"})
		k0 := len(x.toks)
		x.toks = append(x.toks, c11Tok{op: pOpBytePrefix, val: uint64(e.n), hasVal: true, what: "package element count"})
		kids := []int{k0}
		for _, a := range e.args {
			kids = append(kids, x.add(a, strict, false))
		}
		x.toks[idx].kids = kids
	case c11EIf, c11EWhile:
		op := pOpIf
		st := strict
		if e.kind == c11EWhile {
			op, st = pOpWhile, true
		}
		x.toks = append(x.toks, c11Tok{op: op, what: "If/While"})
		kids := []int{x.add(e.args[0], st, false)}
		swallows := false
		for i, s := range e.body {
			if c11IsBlock(s) && i < len(e.body)-1 {
				s.followed, swallows = true, true
			}
			if j := x.add(s, st, false); j >= 0 {
				kids = append(kids, j)
			}
		}
		if st && !swallows && !e.followed {
			// a block parsed in the deferred pass has a scope of its own: it holds its predicate and exactly
			// its statements. Not demanded outside deferred blocks (an If has no scope there, open finding K6)
			// nor around a nested block that is followed by further statements: such a block swallows them
			// into its own scope (the other face of open finding K9; their order is still compared)
			x.toks[idx].kids, x.toks[idx].check = kids, true
		}
	case c11EElse:
		x.toks = append(x.toks, c11Tok{op: pOpElse, what: "Else"})
		var kids []int
		swallows := false
		for i, s := range e.body {
			if c11IsBlock(s) && i < len(e.body)-1 {
				s.followed, swallows = true, true
			}
			if j := x.add(s, strict, false); j >= 0 {
				kids = append(kids, j)
			}
		}
		if strict && !swallows && !e.followed {
			x.toks[idx].kids, x.toks[idx].check = kids, true
		}
	case c11ENameDecl:
		x.toks = append(x.toks, c11Tok{op: pOpName, check: true, what: "method-local Name"})
		k0 := len(x.toks)
		x.toks = append(x.toks, c11Tok{op: pOpIntNamePath, bytes: e.written, hasB: true, what: "name of method-local Name"})
		k1 := x.add(e.args[0], strict, false)
		x.toks[idx].kids = []int{k0, k1}
	default:
		panic("tokens: kind")
	}
	return idx
}

// c11Preorder lists the subtree below obj (scope blocks are transparent).
func c11Preorder(tree *ObjectTree, obj *Object, out *[]*Object, budget *int) {
	for _, k := range c11Kids(tree, obj) {
		if *budget--; *budget < 0 {
			return
		}
		if k.opcode != pOpIntScopeBlock {
			*out = append(*out, k)
		}
		c11Preorder(tree, k, out, budget)
	}
}

func c11ObjDesc(o *Object) string {
	s := fmt.Sprintf("%s@%#x", pOpcodeName(o.opcode), o.amlOffset)
	switch v := o.value.(type) {
	case uint64:
		s += fmt.Sprintf("=%#x", v)
	case []byte:
		s += fmt.Sprintf("=%q", v)
	case uint32:
		s += fmt.Sprintf("->#%d", v)
	}
	return s
}

// c11Compare checks the objects actual (pre-order, scope blocks removed)
// against the expected tokens. It returns (layer, message) of the first mismatch.
func c11Compare(tree *ObjectTree, exp *c11Exp, actual []*Object, objOf map[*c11Obj]*Object) (string, string) {
	n := len(exp.toks)
	if len(actual) < n {
		n = len(actual)
	}
	for i := 0; i < n; i++ {
		t, a := exp.toks[i], actual[i]
		if a.opcode != t.op {
			layer := "L3-structure"
			if t.isCall || a.opcode == pOpIntMethodCall {
				layer = "L4-call"
			}
			return layer, fmt.Sprintf("element %d: expected %s (%s) but the tree has %s", i, pOpcodeName(t.op), t.what, c11ObjDesc(a))
		}
		if t.hasVal {
			if v, ok := a.value.(uint64); !ok || v != t.val {
				return "L3-value", fmt.Sprintf("element %d (%s): value %v, want %#x", i, t.what, a.value, t.val)
			}
		}
		if t.hasB {
			if v, ok := a.value.([]byte); !ok || !bytes.Equal(v, t.bytes) {
				return "L3-value", fmt.Sprintf("element %d (%s): bytes %q, want %q", i, t.what, a.value, t.bytes)
			}
		}
		if t.target != nil {
			want := objOf[t.target]
			v, ok := a.value.(uint32)
			if !ok || want == nil || v != want.index {
				layer := "L3-reference"
				if t.isCall {
					layer = "L4-call"
				}
				got := "?"
				if ok {
					if g := tree.ObjectAt(v); g != nil {
						got = fmt.Sprintf("%s %q", pOpcodeName(g.opcode), g.name[:])
					}
				}
				return layer, fmt.Sprintf("element %d (%s): refers to %s, want %s", i, t.what, got, t.target.path())
			}
		}
	}
	if len(actual) != len(exp.toks) {
		extra := ""
		if len(actual) > n {
			extra = "; first extra: " + c11ObjDesc(actual[n])
		} else {
			extra = fmt.Sprintf("; first missing: %s (%s)", pOpcodeName(exp.toks[n].op), exp.toks[n].what)
		}
		return "L3-structure", fmt.Sprintf("%d objects in the tree, %d expected%s", len(actual), len(exp.toks), extra)
	}
	// argument attachment: calls and operators must carry exactly their operands, in order
	for i, t := range exp.toks {
		if !t.check {
			continue
		}
		var kids []*Object
		for _, k := range c11Kids(tree, actual[i]) {
			if k.opcode == pOpIntScopeBlock {
				kids = append(kids, c11Kids(tree, k)...)
			} else {
				kids = append(kids, k)
			}
		}
		ok := len(kids) == len(t.kids)
		for j := 0; ok && j < len(kids); j++ {
			if kids[j] != actual[t.kids[j]] {
				ok = false
			}
		}
		if !ok {
			var got []string
			for _, k := range kids {
				got = append(got, c11ObjDesc(k))
			}
			var want []string
			for _, j := range t.kids {
				want = append(want, c11ObjDesc(actual[j]))
			}
			layer := "L3-structure"
			if t.isCall {
				layer = "L4-call"
			}
			return layer, fmt.Sprintf("%s at %#x has arguments [%s], want [%s]", t.what, actual[i].amlOffset, strings.Join(got, ", "), strings.Join(want, ", "))
		}
	}
	return "", ""
}

// ---------------------------------------------------------------------------
// the oracle

type c11Verdict struct {
	layer string
	msg   string
}

func c11Check(g *c11Gen, res *c11Result, counts map[string]int64) *c11Verdict {
	tree := res.tree
	// L1
	if res.panicV != nil {
		return &c11Verdict{"L1-panic", fmt.Sprintf("parser panicked on table %d: %v\n%s", res.failedAt, res.panicV, res.stack)}
	}
	if res.failedAt >= 0 {
		msg := strings.TrimSpace(res.errText)
		return &c11Verdict{"L1-parse-error:" + c11ErrClass(msg), fmt.Sprintf("table %d rejected: %s", res.failedAt, msg)}
	}
	// L5a structure
	if p := c13CheckTreeInvariants(tree); p != "" {
		sig := p
		if i := strings.Index(p, ":"); i > 0 {
			sig = p[:i]
		}
		return &c11Verdict{"L5-tree:" + sig, p}
	}
	// L2: every declared object at its path with its kind
	objOf := map[*c11Obj]*Object{}
	objOf[g.root] = tree.ObjectAt(0)
	for _, p := range g.predef {
		o, why := c11Lookup(tree, p)
		if o == nil {
			return &c11Verdict{"L2-path", "predefined scope " + p.seg + ": " + why}
		}
		objOf[p] = o
	}
	for _, o := range g.all {
		got, why := c11Lookup(tree, o)
		if got == nil {
			return &c11Verdict{"L2-path:" + o.form, fmt.Sprintf("%s %s (written as %q in table %d): %s", c11KindNames[o.kind], o.path(), o.written, o.table, why)}
		}
		if got.opcode != c11KindOpcode[o.kind] {
			return &c11Verdict{"L2-kind", fmt.Sprintf("%s is a %s, want %s", o.path(), pOpcodeName(got.opcode), c11KindNames[o.kind])}
		}
		if int(got.tableHandle) != o.table {
			return &c11Verdict{"L2-table", fmt.Sprintf("%s carries table handle %d, want %d", o.path(), got.tableHandle, o.table)}
		}
		objOf[o] = got
		counts["L2_objects_found_at_path"]++
	}
	// nothing else is named in any scope
	scopes := map[*c11Obj]bool{g.root: true}
	for _, p := range g.predef {
		scopes[p] = true
	}
	for _, o := range g.all {
		if c11IsContainer(o.kind) || o.kind == c11KMethod {
			scopes[o] = true
		}
	}
	for s := range scopes {
		n := 0
		for _, k := range c11ScopeKids(tree, objOf[s]) {
			if c11IsNamedOp(k.opcode) && k.opcode != pOpIntScopeBlock {
				n++
			}
		}
		want := 0
		for _, k := range s.kids {
			if k.kind != c11KScope {
				want++
			}
		}
		if n != want {
			return &c11Verdict{"L2-extra-or-missing", fmt.Sprintf("scope %s holds %d named objects in the tree, the program declares %d there", s.path(), n, want)}
		}
	}
	// L3 / L4
	for _, o := range g.all {
		a := objOf[o]
		kids := c11Kids(tree, a)
		x := &c11Exp{}
		fail := func(layer, format string, args ...interface{}) *c11Verdict {
			return &c11Verdict{layer, fmt.Sprintf("%s %s: ", c11KindNames[o.kind], o.path()) + fmt.Sprintf(format, args...)}
		}
		nameTok := c11Tok{op: pOpIntNamePath, bytes: []byte(o.seg), hasB: true, what: "object name"}
		switch o.kind {
		case c11KName:
			if o.methodLocal {
				continue // checked as part of its method body
			}
			x.toks = append(x.toks, nameTok)
			x.add(o.data, false, false)
		case c11KMutex:
			x.toks = append(x.toks, nameTok, c11Tok{op: pOpBytePrefix, val: uint64(o.sync), hasVal: true, what: "mutex sync level"})
		case c11KEvent:
			x.toks = append(x.toks, nameTok)
		case c11KOpRegion:
			x.toks = append(x.toks, nameTok, c11Tok{op: pOpBytePrefix, val: uint64(o.space), hasVal: true, what: "region space"})
			x.add(o.roff, false, false)
			x.add(o.rlen, false, false)
		case c11KDataRegion:
			x.toks = append(x.toks, nameTok)
			for _, d := range o.dstr {
				x.add(d, false, false)
			}
		case c11KProcessor:
			x.toks = append(x.toks, nameTok, c11Tok{op: pOpBytePrefix, val: uint64(o.procID), hasVal: true, what: "processor id"},
				c11Tok{op: pOpDwordPrefix, val: uint64(o.pblk), hasVal: true, what: "processor block address"},
				c11Tok{op: pOpBytePrefix, val: uint64(o.pblkLen), hasVal: true, what: "processor block length"})
		case c11KPowerRes:
			x.toks = append(x.toks, nameTok, c11Tok{op: pOpBytePrefix, val: uint64(o.sysLevel), hasVal: true, what: "power resource system level"},
				c11Tok{op: pOpWordPrefix, val: uint64(o.resOrder), hasVal: true, what: "power resource order"})
		case c11KDevice, c11KThermalZone:
			x.toks = append(x.toks, nameTok)
		case c11KMethod:
			x.toks = append(x.toks, nameTok, c11Tok{op: pOpBytePrefix, val: uint64(o.mflags), hasVal: true, what: "method flags"})
			for _, s := range o.body {
				x.add(s, false, false)
			}
		case c11KFieldUnit:
			fe, ok := a.value.(*fieldElement)
			if !ok {
				return fail("L3-field", "field unit carries no field element")
			}
			f := o.funit
			if fe.offset != f.bitOffset || fe.width != f.width {
				return fail("L3-field", "bit offset %d width %d, want offset %d width %d", fe.offset, fe.width, f.bitOffset, f.width)
			}
			if fe.accessType != f.atype || fe.accessAttrib != f.attrib || fe.accessLength != f.alen || fe.lockType != f.lock || fe.updateType != f.update {
				return fail("L3-field", "access type/attrib/length/lock/update = %d/%d/%d/%d/%d, want %d/%d/%d/%d/%d", fe.accessType, fe.accessAttrib, fe.accessLength, fe.lockType, fe.updateType, f.atype, f.attrib, f.alen, f.lock, f.update)
			}
			if f.hasConn != (fe.connectionIndex != InvalidIndex) {
				return fail("L3-field", "connection present=%v, want %v", fe.connectionIndex != InvalidIndex, f.hasConn)
			}
			if f.hasConn {
				c := tree.ObjectAt(fe.connectionIndex)
				if c == nil || c.opcode != pOpIntConnection || len(c11Kids(tree, c)) != 1 {
					return fail("L3-field", "connection object malformed")
				}
				arg := c11Kids(tree, c)[0]
				v, _ := arg.value.([]byte)
				if f.connObj != nil && (arg.opcode != pOpIntNamePath || string(v) != f.connObj.seg) {
					return fail("L3-field", "connection names %q, want %q", v, f.connObj.seg)
				}
				if f.connObj == nil && (arg.opcode != pOpIntByteList || !bytes.Equal(v, f.connBuf)) {
					return fail("L3-field", "connection buffer %x, want %x", v, f.connBuf)
				}
			}
			fd := tree.ObjectAt(fe.fieldIndex)
			wantOp := pOpField
			if f.fieldDecl.kind == 3 {
				wantOp = pOpIndexField
			}
			if f.fieldDecl.kind == 4 {
				wantOp = pOpBankField
			}
			if fd == nil || fd.opcode != wantOp {
				return fail("L3-field", "field unit does not point back to its %s declaration", pOpcodeName(wantOp))
			}
			fk := c11Kids(tree, fd)
			if len(fk) < 2 {
				return fail("L3-field", "field declaration has %d operands", len(fk))
			}
			if v, _ := fk[0].value.([]byte); !bytes.Equal(v, f.fieldDecl.written) {
				return fail("L3-field", "field declaration names region %q, want %q", v, f.fieldDecl.written)
			}
			counts["L3_field_units_checked"]++
			continue
		}
		// containers: the last child is the scope block; the operands precede it
		var actual []*Object
		switch o.kind {
		case c11KDevice, c11KThermalZone, c11KProcessor, c11KPowerRes:
			if len(kids) == 0 || kids[len(kids)-1].opcode != pOpIntScopeBlock {
				return fail("L3-structure", "no scope block as last operand")
			}
			for _, k := range kids[:len(kids)-1] {
				actual = append(actual, k)
			}
		default:
			budget := 1 << 20
			c11Preorder(tree, a, &actual, &budget)
		}
		if layer, msg := c11Compare(tree, x, actual, objOf); layer != "" {
			return fail(layer, "%s", msg)
		}
		counts["L3_objects_operands_checked"]++
		counts["L3_tokens_compared"] += int64(len(x.toks))
		for _, t := range x.toks {
			if t.isCall {
				counts["L4_calls_checked"]++
			}
		}
	}
	// L5b: printing
	if pv, st := vlib.Protect(func() { tree.PrettyPrint(ioutil.Discard) }); pv != nil {
		return &c11Verdict{"L5-print-panic", fmt.Sprintf("%v\n%s", pv, st)}
	}
	return nil
}

// c11ErrClass reduces a parser error message to a stable class.
func c11ErrClass(msg string) string {
	if i := strings.Index(msg, "] "); i >= 0 {
		msg = msg[i+2:]
	}
	if i := strings.Index(msg, "\n"); i >= 0 {
		msg = msg[:i]
	}
	for _, k := range []string{"unable to resolve path expression", "unable to resolve reference to scope", "unable to resolve relocation path", "unexpected arg count", "resolved to non-scope object", "encountered unexpected opcode", "named object of type", "could not parse"} {
		if strings.Contains(msg, k) {
			return strings.Replace(k, " ", "-", -1)
		}
	}
	if msg == "" {
		return "no-message"
	}
	if len(msg) > 40 {
		msg = msg[:40]
	}
	return strings.Replace(msg, " ", "-", -1)
}

func c11FeatureKeys(m map[string]int) []string {
	var l []string
	for k := range m {
		l = append(l, k)
	}
	sort.Strings(l)
	return l
}

func TestVerifC11(t *testing.T) {
	run := vlib.Start(t, "C11")
	defer run.Finish()
	run.SetRule("case = 1-3 AML tables generated from an AST together with the namespace the ACPI scoping rules assign to it (all ten object kinds, name forms \\X, \\_SB_.X, \\DEV.X, SIBL.X, ^X, Scope directives with absolute/simple targets, field lists with reserved/access/connection elements, method bodies with operators, If/Else/While, buffers with computed sizes, packages, backward/forward/nested calls, later tables extending and calling earlier ones; tiny name alphabet); parsed by the real ParseAML from guard-paged memory and compared layer by layer (L1 parse, L2 paths/kinds, L3 operands and values, L4 call arguments, L5 tree invariants + printing). non-trivial = program with >= 1 relocated declaration or Scope directive and >= 1 method call with arguments; distinct = fingerprint of the table bytes")
	run.Assume("construct classes listed as open findings in known_findings.json (K1, K2, ...) are not emitted by the random population; each has a fixed reproducer that is re-executed on every run")
	run.Assume("the mapping between an AML operand and its node in the tree (resolved/unresolved name, null target) follows the parse mode, see DESIGN C11")

	c11Run = run
	debug.SetMaxStack(64 << 20)
	dump := os.Getenv("VERIF_C11_DUMP") != ""
	n := run.N(4000, 1200000)
	feats := map[string]int{}
	counts := map[string]int64{}
	run.Cases(n, func(c *vlib.Case) {
		r := c.R
		o := c11DefaultOpts(r)
		g, tables := c11Build(r, o)
		total := 0
		var hex []string
		for _, tb := range tables {
			total += len(tb)
			hex = append(hex, vlib.Hex(tb))
		}
		if total > 60000 {
			return
		}
		if g.ambiguous {
			run.Count("skipped_order_dependent_programs", 1)
			return
		}
		desc := map[string]interface{}{"tables_hex": hex}
		c.Begin(desc)
		res := c11Parse(tables)
		v := c11Check(g, res, counts)
		for k, n := range g.feat {
			feats[k] += n
		}
		run.Count("tables_parsed", int64(len(tables)))
		run.Count("aml_bytes", int64(total))
		if v != nil {
			var objs []string
			for _, ob := range g.all {
				objs = append(objs, fmt.Sprintf("%s %s (%s, table %d)", c11KindNames[ob.kind], ob.path(), ob.form, ob.table))
			}
			det := map[string]interface{}{"what": v.msg, "program": g.asl(), "parser_messages": res.errText}
			_ = objs
			if dump {
				var sb bytes.Buffer
				res.tree.PrettyPrint(&sb)
				det["tree"] = sb.String()
			}
			c.Violation(v.layer, det)
			return
		}
		reloc := g.feat["nameform_root"] + g.feat["nameform_predef"] + g.feat["nameform_devpath"] + g.feat["nameform_sibling"] + g.feat["nameform_caret"]
		scopes := 0
		for k, n := range g.feat {
			if strings.HasPrefix(k, "scope_") {
				scopes += n
			}
		}
		callsWithArgs := g.feat["call"] - g.feat["call_argc_0"]
		if reloc+scopes > 0 && callsWithArgs > 0 {
			fp := vlib.NewFP()
			for _, tb := range tables {
				fp = fp.Bytes(tb)
			}
			run.Nontrivial(fp)
		}
		if run.WantSample() && reloc > 0 && callsWithArgs > 0 && total < 400 {
			var objs []string
			for _, ob := range g.all {
				objs = append(objs, fmt.Sprintf("%s %s written %q", c11KindNames[ob.kind], ob.path(), ob.written))
			}
			run.Sample(map[string]interface{}{"tables_hex": hex, "declared": objs, "calls": g.feat["call"]})
		}
	})
	for _, k := range c11FeatureKeys(feats) {
		run.Count("generated_"+k, int64(feats[k]))
	}
	for k, v := range counts {
		run.Count(k, v)
	}
	c11Fixed(run)
}
