//go:build verif
// +build verif

package aml

import (
	"bytes"
	"fmt"
	"io/ioutil"
	"os"
	"runtime"
	"runtime/debug"
	"runtime/metrics"
	"strings"
	"sync/atomic"
	"testing"
	"time"
	"unsafe"

	"github.com/ProjectSerenity/firefly/kernel"
	"github.com/ProjectSerenity/firefly/kernel/device/acpi/table"
	"github.com/ProjectSerenity/firefly/kernel/zzverif/vlib"
)

// C12 - malformed AML is rejected with an error, never a crash, a hang or a
// stray pointer.
//
// Per input (announced with c.Begin before the parser sees it): the bytes are
// wrapped in a table header and copied into guard-paged memory (last byte of
// the table = last byte before a PROT_NONE page, or first byte = first byte
// after one); ParseAML runs with a bounded stack and panic-on-fault under a
// wall-clock watchdog. Afterwards, whatever the outcome:
//   - outcome is nil or errParsingAML;
//   - the pool passes C13's structural checker and an own visited-set walk from
//     the root (no node reached twice, no freed / out-of-pool node reachable);
//   - every []byte stored in a reachable object is empty or lies inside the
//     bytes of the table its object was parsed from; every object index stored
//     as a value (resolved name, method call, field connection) is live;
//   - PrettyPrint into a discarding writer does not panic;
//   - if the case has further tables (1-3 tables per case), they are parsed into
//     the tree the earlier ones left behind, accepted or rejected, and checked the same way;
//   - the number of objects the parse created is bounded by a constant times
//     the table length (wall-clock-free part of "bound proportional to input").

const (
	c12HeaderLen  = 36
	c12ArenaBytes = 17 * vlib.PageSize // 64 KiB + a page
	c12MaxStack   = 512 << 20
	c12StackAlarm = 128 << 20 // far above any recursion that is linear in a 64 KiB input
	c12MemLimit   = 3 << 30
)

// ---------------------------------------------------------------------------
// Tables in guard-paged memory.

type c12Table struct {
	start uintptr // address of the header
	size  int     // header + payload
}

func (t c12Table) header() *table.SDTHeader { return (*table.SDTHeader)(unsafe.Pointer(t.start)) }
func (t c12Table) contains(p uintptr, n int) bool {
	return p >= t.start && p+uintptr(n) >= p && p+uintptr(n) <= t.start+uintptr(t.size)
}

func c12BuildTable(payload []byte, sig string) []byte {
	b := make([]byte, c12HeaderLen+len(payload))
	copy(b[0:4], sig)
	n := uint32(len(b))
	b[4], b[5], b[6], b[7] = byte(n), byte(n>>8), byte(n>>16), byte(n>>24)
	b[8] = 2
	copy(b[10:16], "VERIF ")
	copy(b[16:24], "C12TABLE")
	copy(b[c12HeaderLen:], payload)
	return b
}

// c12Place copies a whole table (header included) into the arena. tail: the
// last byte of the table is the last byte before the trailing guard page (the
// header then starts wherever that puts it); head: the first byte of the table
// is the first byte after the leading guard page.
func c12Place(a *vlib.Arena, tbl []byte, tail bool) c12Table {
	if tail {
		return c12Table{start: a.PlaceTail(tbl), size: len(tbl)}
	}
	return c12Table{start: a.PlaceHead(tbl), size: len(tbl)}
}

// ---------------------------------------------------------------------------
// Error writer: records message classes and counts bytes.

type c12ErrWriter struct {
	bytes int64
	calls int64
	buf   []byte
}

func (w *c12ErrWriter) Write(p []byte) (int, error) {
	w.bytes += int64(len(p))
	w.calls++
	if len(w.buf) < 512 {
		w.buf = append(w.buf, p...)
	}
	return len(p), nil
}

// class reduces the first message to a stable class: table/offset prefix,
// numbers and quoted names stripped.
func (w *c12ErrWriter) class() string {
	s := string(w.buf)
	if i := strings.IndexByte(s, '\n'); i >= 0 {
		s = s[:i]
	}
	if i := strings.Index(s, "] "); i >= 0 && strings.HasPrefix(s, "[table:") {
		s = s[i+2:]
	}
	var b strings.Builder
	for i := 0; i < len(s); i++ {
		ch := s[i]
		switch {
		case ch >= '0' && ch <= '9':
			if b.Len() == 0 || b.String()[b.Len()-1] != '#' {
				b.WriteByte('#')
			}
		case ch < 0x20 || ch > 0x7e:
			// raw name bytes
		default:
			b.WriteByte(ch)
		}
	}
	out := b.String()
	for _, cut := range []string{"path expression", "scope \"", "relocation path", "target method \""} {
		if i := strings.Index(out, cut); i >= 0 {
			out = out[:i+len(cut)]
		}
	}
	if len(out) > 90 {
		out = out[:90]
	}
	if out == "" {
		return "(no message)"
	}
	return out
}

type c12Discard struct{ n int64 }

func (d *c12Discard) Write(p []byte) (int, error) { d.n += int64(len(p)); return len(p), nil }

// ---------------------------------------------------------------------------
// Watchdog (wall clock; never a verdict by itself, see vlib.Run.Watchdog).

var (
	c12CallStart int64 // unix nanos, 0 = idle
	c12CallLimit int64 // nanos
	c12CallWhat  atomic.Value
)

func c12Arm(what string, limit time.Duration) {
	c12CallWhat.Store(what)
	atomic.StoreInt64(&c12CallLimit, int64(limit))
	atomic.StoreInt64(&c12CallStart, time.Now().UnixNano())
}
func c12Disarm() { atomic.StoreInt64(&c12CallStart, 0) }

func c12StartWatchdog(run *vlib.Run) (stop func()) {
	done := make(chan struct{})
	go func() {
		tick := time.NewTicker(20 * time.Millisecond)
		defer tick.Stop()
		n := 0
		stacks := []metrics.Sample{{Name: "/memory/classes/heap/stacks:bytes"}}
		for {
			select {
			case <-done:
				return
			case <-tick.C:
				st := atomic.LoadInt64(&c12CallStart)
				if st == 0 {
					continue
				}
				what, _ := c12CallWhat.Load().(string)
				// Runaway recursion: the runtime would end the process with "stack
				// overflow" followed by so many frames that vcheck no longer sees that
				// line in the tail of the output; say it first, briefly, and stop. (If
				// the recursion wins the race the runtime's own fatal error stands.)
				if metrics.Read(stacks); stacks[0].Value.Kind() == metrics.KindUint64 && stacks[0].Value.Uint64() > c12StackAlarm {
					fmt.Fprintf(os.Stderr, "fatal error: stack overflow (C12 stack monitor: goroutine stacks passed %d MiB in %s: unbounded recursion)\n", c12StackAlarm>>20, what)
					os.Exit(3)
				}
				if n%5 != 0 {
					n++
					continue
				}
				if el := time.Now().UnixNano() - st; el > atomic.LoadInt64(&c12CallLimit) {
					c12NoteWatchdog(run)
					// (no duration in the text: vcheck builds the signature from it)
					run.Watchdog(what + " did not return within its time bound")
				}
				if n++; n%25 == 1 {
					var ms runtime.MemStats
					runtime.ReadMemStats(&ms)
					if ms.HeapAlloc > c12MemLimit {
						c12NoteWatchdog(run)
						run.Watchdog(fmt.Sprintf("%s: heap grew past %d MiB", what, c12MemLimit>>20))
					}
				}
			}
		}
	}()
	return func() { close(done) }
}

// A hang costs the watchdog bound plus vcheck's confirmation run with 20x that
// bound. Signatures are de-duplicated, so after the second firing in one shard
// nothing new is learnt: the shard's later restarts stop at once (recorded as
// inconclusive for the cases not run). The count lives in vcheck's private work
// directory of this invocation.
const c12MaxWatchdogFirings = 2

func c12WatchdogFile(run *vlib.Run) string {
	dir := os.Getenv("VERIF_WORK")
	if dir == "" || run.Single() || run.Replay {
		return ""
	}
	return fmt.Sprintf("%s/c12-watchdog-shard%d.log", dir, run.Shard)
}

func c12NoteWatchdog(run *vlib.Run) {
	if fn := c12WatchdogFile(run); fn != "" {
		if f, err := os.OpenFile(fn, os.O_CREATE|os.O_WRONLY|os.O_APPEND, 0644); err == nil {
			f.WriteString("fired\n")
			f.Close()
		}
	}
}

func c12WatchdogFirings(run *vlib.Run) int {
	if fn := c12WatchdogFile(run); fn != "" {
		if b, err := ioutil.ReadFile(fn); err == nil {
			return strings.Count(string(b), "\n")
		}
	}
	return 0
}

// ---------------------------------------------------------------------------
// Preludes: good first tables, parsed once per process, cloned per case.

type c12Prelude struct {
	name   string
	tables []c12Table // in handle order (handle = position)
	tree   *ObjectTree
}

func c12CloneTree(t *ObjectTree) *ObjectTree {
	out := &ObjectTree{freeListHeadIndex: t.freeListHeadIndex, objPool: make([]*Object, len(t.objPool))}
	for i, o := range t.objPool {
		c := *o
		out.objPool[i] = &c
	}
	return out
}

const c12DefaultScopeHandle = 42

func c12MakePrelude(name string, tables [][]byte) (*c12Prelude, error) {
	p := &c12Prelude{name: name, tree: NewObjectTree()}
	p.tree.CreateDefaultScopes(c12DefaultScopeHandle)
	for h, tb := range tables {
		a, err := vlib.NewArena(0, len(tb), false)
		if err != nil {
			return nil, err
		}
		t := c12Place(a, tb, true)
		p.tables = append(p.tables, t)
		w := &c12ErrWriter{}
		if e := NewParser(w, p.tree).ParseAML(uint8(h), fmt.Sprintf("PRE%d", h), t.header()); e != nil {
			return nil, fmt.Errorf("prelude %s table %d rejected: %s", name, h, w.class())
		}
	}
	if prob := c13CheckTreeInvariants(p.tree); prob != "" {
		return nil, fmt.Errorf("prelude %s: %s", name, prob)
	}
	return p, nil
}

// ---------------------------------------------------------------------------
// The oracle.

type c12Env struct {
	run    *vlib.Run
	arenas [3]*vlib.Arena // one per table of a case: earlier tables stay mapped while later ones are parsed
	pre    []*c12Prelude  // index 0 = none

	// own tallies of the facets the run must have reached
	nOK, nErr, nDeferred, nResolve, nSlices, nPrinted, nLaterOK, nAfterError int
}

// c12Part is one table of a case.
type c12Part struct {
	source  string
	recipe  []string
	kinds   []string
	payload []byte
	shortLn int // if > 0: header.Length is set to this value (< 36) and the table is that short
}

// c12Input is one case: 1-3 tables parsed in this order into one tree
// (optionally a tree that already holds good tables).
type c12Input struct {
	parts   []c12Part
	prelude int
	tail    bool
}

func (in *c12Input) desc(full bool) map[string]interface{} {
	d := map[string]interface{}{"prelude": in.prelude, "tail": in.tail}
	var tl []interface{}
	for _, pt := range in.parts {
		t := map[string]interface{}{"source": pt.source, "len": len(pt.payload)}
		if len(pt.recipe) > 0 {
			t["recipe"] = pt.recipe
		}
		if pt.shortLn > 0 {
			t["header_length"] = pt.shortLn
		}
		if full || len(pt.payload) <= 2048 {
			t["hex"] = vlib.Hex(pt.payload)
		} else {
			t["fnv"] = fmt.Sprintf("%016x", uint64(vlib.NewFP().Bytes(pt.payload)))
		}
		tl = append(tl, t)
	}
	d["tables"] = tl
	return d
}

func (in *c12Input) hexes() []string {
	var l []string
	for _, pt := range in.parts {
		l = append(l, vlib.Hex(pt.payload))
	}
	return l
}

type c12FaultAddr interface{ Addr() uintptr }

// panicSig classifies a recovered panic. A fault inside a guard page of the
// arena is named as such (it is a read outside the table).
func (e *c12Env) panicSig(stage string, pv interface{}, st string, tbl c12Table) string {
	class := vlib.PanicClass(pv)
	if fa, ok := pv.(c12FaultAddr); ok {
		addr := fa.Addr()
		switch {
		case addr >= tbl.start+uintptr(tbl.size) && addr < tbl.start+uintptr(tbl.size)+vlib.PageSize:
			class = "fault: read past the end of the table"
		case addr < tbl.start && addr+vlib.PageSize >= tbl.start:
			class = "fault: read before the start of the table"
		case addr < vlib.PageSize:
			class = "fault: nil pointer dereference"
		default:
			class = "fault: stray address"
		}
	}
	return stage + ":" + vlib.PanicSite(st) + ":" + class
}

type c12Walk struct {
	nodes, slices, sliceBytes, indexValues, emptySlices int
	problem                                             string // signature: detail
}

// c12WalkTree visits everything reachable from the root with a visited set
// (iteratively: no recursion on a possibly cyclic structure) and checks every
// value. tables maps a table handle to the memory of that table.
func c12WalkTree(tree *ObjectTree, tables map[uint8]c12Table) (w c12Walk) {
	pool := tree.objPool
	n := uint32(len(pool))
	if n == 0 {
		return
	}
	live := func(i uint32) bool { return i < n && pool[i] != nil && pool[i].opcode != pOpIntFreedObject }
	if !live(0) {
		w.problem = "walk-root-dead: pool slot 0 is freed"
		return
	}
	visited := make([]bool, n)
	stack := []uint32{0}
	visited[0] = true
	for len(stack) > 0 {
		i := stack[len(stack)-1]
		stack = stack[:len(stack)-1]
		o := pool[i]
		w.nodes++
		// values
		switch v := o.value.(type) {
		case []byte:
			if len(v) == 0 {
				w.emptySlices++
				break
			}
			w.slices++
			w.sliceBytes += len(v)
			p := uintptr(unsafe.Pointer(&v[0]))
			t, ok := tables[o.tableHandle]
			if !ok || !t.contains(p, len(v)) {
				rel := "no table registered for this handle"
				if ok {
					rel = fmt.Sprintf("table is [%#x,%#x): slice starts at table offset %d and ends at table offset %d of %d", t.start, t.start+uintptr(t.size), int64(p)-int64(t.start), int64(p)-int64(t.start)+int64(len(v)), t.size)
				}
				w.problem = fmt.Sprintf("slice-outside-table:%s: object %d (opcode %s, table handle %d, aml offset %#x) holds a %d-byte slice at %#x; %s", pOpcodeName(o.opcode), i, pOpcodeName(o.opcode), o.tableHandle, o.amlOffset, len(v), p, rel)
				return
			}
		case uint32:
			if o.opcode == pOpIntMethodCall || o.opcode == pOpIntResolvedNamePath {
				w.indexValues++
				if !live(v) {
					w.problem = fmt.Sprintf("index-value-dead:%s: object %d refers to object %d, which is freed or outside the pool (%d slots)", pOpcodeName(o.opcode), i, v, n)
					return
				}
			}
		case *fieldElement:
			if v == nil {
				w.problem = fmt.Sprintf("field-element-nil: object %d", i)
				return
			}
			w.indexValues++
			if !live(v.fieldIndex) || (v.connectionIndex != InvalidIndex && !live(v.connectionIndex)) {
				w.problem = fmt.Sprintf("index-value-dead:NamedField: field unit %d refers to field %d / connection %d, one of which is freed or outside the pool (%d slots)", i, v.fieldIndex, int32(v.connectionIndex), n)
				return
			}
		}
		// children
		steps := uint32(0)
		for c := o.firstArgIndex; c != InvalidIndex; c = pool[c].nextSiblingIndex {
			if !live(c) {
				w.problem = fmt.Sprintf("walk-dead-node-reachable: child list of object %d reaches slot %d, which is freed or outside the pool (%d slots)", i, c, n)
				return
			}
			if visited[c] {
				w.problem = fmt.Sprintf("walk-node-reached-twice: object %d is reached again through the child list of object %d (cycle or shared node)", c, i)
				return
			}
			visited[c] = true
			stack = append(stack, c)
			if steps++; steps > n {
				w.problem = fmt.Sprintf("walk-sibling-cycle: child list of %d does not end", i)
				return
			}
		}
	}
	return
}

func c12Sig(problem string) string {
	// signature = text before the first ": " (keeps "slice-outside-table:ByteList")
	if i := strings.Index(problem, ": "); i >= 0 {
		return problem[:i]
	}
	return problem
}

// runInput executes one case and applies the oracle after every table.
func (e *c12Env) runInput(c *vlib.Case, in *c12Input) {
	run := e.run
	single := run.Single()

	// the tree the tables are parsed into
	pre := e.pre[in.prelude]
	var tree *ObjectTree
	tables := map[uint8]c12Table{}
	handle := uint8(0)
	if pre == nil {
		tree = NewObjectTree()
		tree.CreateDefaultScopes(c12DefaultScopeHandle)
	} else {
		tree = c12CloneTree(pre.tree)
		for h, t := range pre.tables {
			tables[uint8(h)] = t
		}
		handle = uint8(len(pre.tables))
	}

	c.Begin(in.desc(single))
	run.Count("cases", 1)
	run.Count(fmt.Sprintf("cases_with_%d_tables", len(in.parts)), 1)
	if in.tail {
		run.Count("cases_placed_against_trailing_guard", 1)
	} else {
		run.Count("cases_placed_after_leading_guard", 1)
	}
	if pre != nil {
		run.Count("cases_parsed_into_tree_holding_"+pre.name, 1)
	}

	fp := vlib.NewFP().Int(in.prelude)
	nontrivial := false
	prevOutcome := ""
	for pi := range in.parts {
		pt := &in.parts[pi]
		tblBytes := c12BuildTable(pt.payload, "DSDT")
		if pt.shortLn > 0 {
			tblBytes = tblBytes[:pt.shortLn]
			tblBytes[4], tblBytes[5], tblBytes[6], tblBytes[7] = byte(pt.shortLn), 0, 0, 0
			run.Count("tables_with_length_below_header_size", 1)
		}
		tbl := c12Place(e.arenas[pi], tblBytes, in.tail)
		tables[handle] = tbl
		poolBefore := len(tree.objPool)

		run.Count("tables", 1)
		run.Count("table_bytes", int64(len(pt.payload)))
		run.Count("source_"+pt.source, 1)
		for _, k := range pt.kinds {
			run.Count("mutation_"+k, 1)
		}
		run.SetAdd("length_buckets", c12LenBucket(len(pt.payload)))

		limit := 2*time.Second + time.Duration(len(tblBytes))*time.Millisecond
		if single {
			limit *= 20
		}
		detail := func(m map[string]interface{}) map[string]interface{} {
			m["table_index"] = pi
			m["earlier_table_outcome"] = prevOutcome
			m["hex"] = in.hexes()
			return m
		}

		ew := &c12ErrWriter{}
		p := NewParser(ew, tree)
		if len(tblBytes)%8 == 3 {
			// a parser without an error stream of its own: kfmt sends what is written to a nil writer to the
			// early log, so nil is a configuration like any other, and "malformed input yields an error,
			// never a crash" holds for it as well
			p = NewParser(nil, tree)
			run.Count("tables_parsed_with_a_nil_error_writer", 1)
		}
		var perr *kernel.Error
		c12Arm("ParseAML", limit)
		pv, st := vlib.Protect(func() { perr = p.ParseAML(handle, "DSDT", tbl.header()) })
		c12Disarm()

		stage := "parse-panic"
		if pi > 0 {
			// the tree was left behind by an earlier table of this case
			stage = "later-table-parse-panic"
		}
		outcome := "ok"
		switch {
		case pv != nil:
			outcome = "panic"
			c.Violation(e.panicSig(stage, pv, st, tbl), detail(map[string]interface{}{"panic": fmt.Sprint(pv), "stack": c12TrimStack(st)}))
		case perr == errParsingAML:
			outcome = "error"
			run.SetAdd("error_classes", ew.class())
			run.Count("outcome_error", 1)
			e.nErr++
		case perr != nil:
			outcome = "other-error"
			c.Violation("outcome:unexpected-error-value", detail(map[string]interface{}{"error": perr.Error()}))
		default:
			run.Count("outcome_ok", 1)
			e.nOK++
			if pi > 0 {
				e.nLaterOK++
				run.Count("outcome_ok_for_later_table", 1)
			}
		}
		if pi > 0 && prevOutcome == "error" {
			e.nAfterError++
			run.Count("tables_parsed_after_a_rejected_table", 1)
		}
		created := len(tree.objPool) - poolBefore
		run.Count("objects_created", int64(created))
		run.Count("errwriter_bytes", ew.bytes)
		if p.resolvePasses > 0 {
			run.Count("reached_resolve_phase", 1)
			e.nResolve++
			run.Max("max_resolve_passes", int64(p.resolvePasses))
			if p.resolvePasses > 1 {
				run.Count("needed_extra_resolve_pass", 1)
			}
		}
		if p.mode == parseModeAllBlocks {
			run.Count("reached_deferred_phase", 1)
			e.nDeferred++
		}
		if outcome == "panic" {
			// the tree is in whatever state the panic left it; nothing more can be demanded
			return
		}

		// proportionality, wall-clock free: every object the parser creates is paid
		// for by at least one byte of input (scope blocks, byte lists and connection
		// nodes ride on the opcode that owns them)
		if bound := 4*len(tblBytes) + 64; created > bound {
			c.Violation("objects-not-proportional-to-input", detail(map[string]interface{}{"created": created, "table_bytes": len(tblBytes), "bound": bound}))
		}
		if len(tblBytes) > 0 {
			run.Max("max_objects_per_100_table_bytes", int64(created*100/len(tblBytes)))
		}

		if !e.checkTree(c, tree, tables, tbl, outcome, detail) {
			return
		}
		if created >= 3 && (len(pt.kinds) > 0 || !strings.HasPrefix(pt.source, "hand")) {
			nontrivial = true
		}
		fp = fp.Bytes(pt.payload)
		if run.WantSample() && outcome == "error" && len(pt.payload) <= 96 && len(pt.kinds) > 0 && len(in.parts) == 1 {
			run.Sample(map[string]interface{}{"source": pt.source, "recipe": pt.recipe, "hex": vlib.Hex(pt.payload), "outcome": outcome, "error": ew.class(), "objects_created": created})
		}
		if c.Idx >= vlib.FixedBase && c.Idx < vlib.FixedBase+1000 && pi == 0 && len(pt.recipe) > 0 {
			o := outcome
			if outcome == "error" {
				o += " (" + ew.class() + ")"
			}
			run.SetAdd("unmodified_program_outcomes", fmt.Sprintf("%s prelude=%d: %s", strings.TrimPrefix(pt.recipe[0], "base="), in.prelude, o))
		}
		prevOutcome = outcome
		handle++
	}
	if nontrivial {
		run.Nontrivial(fp)
	}
}

// checkTree applies the structural, containment and printing checks. It
// returns false when the tree is damaged (later tables of the case are then
// not parsed into it).
func (e *c12Env) checkTree(c *vlib.Case, tree *ObjectTree, tables map[uint8]c12Table, tbl c12Table, outcome string, detail func(map[string]interface{}) map[string]interface{}) bool {
	run := e.run
	sound := true
	var prob string
	if pv, st := vlib.Protect(func() { prob = c13CheckTreeInvariants(tree) }); pv != nil {
		// the checker range-checks before it follows a link; a panic here means a wild link field
		c.Violation("tree:checker-panic:"+vlib.PanicClass(pv), detail(map[string]interface{}{"panic": fmt.Sprint(pv), "stack": c12TrimStack(st), "parse_outcome": outcome}))
		return false
	}
	if prob != "" {
		c.Violation("tree:"+c13Sig(prob), detail(map[string]interface{}{"what": prob, "parse_outcome": outcome}))
		sound = false
	} else {
		run.Count("tree_checks_passed_after_"+outcome, 1)
	}
	var w c12Walk
	if pv, st := vlib.Protect(func() { w = c12WalkTree(tree, tables) }); pv != nil {
		c.Violation("walk-panic:"+vlib.PanicClass(pv), detail(map[string]interface{}{"panic": fmt.Sprint(pv), "stack": c12TrimStack(st), "parse_outcome": outcome}))
		return false
	}
	run.Count("nodes_walked", int64(w.nodes))
	run.Count("slices_checked", int64(w.slices))
	run.Count("slice_bytes_checked", int64(w.sliceBytes))
	run.Count("index_values_checked", int64(w.indexValues))
	e.nSlices += w.slices
	if w.problem != "" {
		c.Violation(c12Sig(w.problem), detail(map[string]interface{}{"what": w.problem, "parse_outcome": outcome}))
		if !strings.HasPrefix(w.problem, "slice-") {
			// cyclic / dangling structure: not safely printable; dead index values:
			// PrettyPrint dereferences them, the panic would only repeat the finding
			return false
		}
		sound = false
	}
	d := &c12Discard{}
	c12Arm("PrettyPrint", 30*time.Second)
	pv, st := vlib.Protect(func() { tree.PrettyPrint(d) })
	c12Disarm()
	if pv != nil {
		c.Violation(e.panicSig("print-panic", pv, st, tbl), detail(map[string]interface{}{"panic": fmt.Sprint(pv), "stack": c12TrimStack(st), "parse_outcome": outcome}))
		return false
	}
	run.Count("trees_printed", 1)
	run.Count("bytes_printed", d.n)
	e.nPrinted++
	return sound
}

func c12TrimStack(st string) string {
	if len(st) > 2500 {
		return st[:2500] + "\n..."
	}
	return st
}

func c12LenBucket(n int) string {
	switch {
	case n == 0:
		return "0"
	case n < 8:
		return "1-7"
	case n < 64:
		return "8-63"
	case n < 512:
		return "64-511"
	case n < 4096:
		return "512-4095"
	case n < 16384:
		return "4096-16383"
	default:
		return "16384+"
	}
}

// c12FollowProgram: a small good table used as the follow-up; its names do not
// collide with the library prelude.
func c12FollowProgram() []byte {
	return c12Cat(
		c12Name("ZZZ0", c12Byte(1)),
		c12Method("ZMT0", 1, c12B(0xa4, 0x68)),
		c12Scope("\\_SB_", c12Device("ZDV0", c12Name("_HID", c12Dword(0x030ad041)), c12Method("ZMT1", 0, c12B(0xa4), c12S("ZMT0"), c12Byte(3)))),
	)
}

// ---------------------------------------------------------------------------
// The test.

func TestVerifC12(t *testing.T) {
	run := vlib.Start(t, "C12")
	defer run.Finish()
	run.SetRule("inputs = structure-aware mutations (truncation by offset class, bit flips, opcode-alphabet substitution, package-length and field-width corruption in all four encodings, name-string duplication/self/ancestor references, splices between programs, operand deletion/duplication, snippet insertion, field-element corruption; 1-3 per input, placed by a tolerant structure scanner) of the three shipped tables, of ~40 hand-assembled programs and of programs from an opcode-table-driven generator (+ any source registered in c12ExtraSources), plus unmutated generated programs and random short strings; 43% are parsed into a tree that already holds one or two good tables (one of them a table of Scope directives whose merging leaves two dozen recycled slots on the free list); non-trivial = the parser created >= 3 objects from the input before accepting or rejecting it (hand programs only when mutated); distinct = distinct (payload bytes, prelude)")
	run.Assume("the table header is trusted (Length = header + payload; a few inputs use a Length below the header size); tables larger than 64 KiB are not generated")
	run.Assume("goroutine stacks of " + fmt.Sprint(c12StackAlarm>>20) + " MiB are enough for any recursion whose depth is linear in a 64 KiB input; passing that mark (or the runtime's limit of " + fmt.Sprint(c12MaxStack>>20) + " MiB) is reported as stack overflow")
	run.Assume("wall clock is used only by the watchdog (2 s + 1 ms/byte; a firing is re-run alone with 20x before vcheck reports it)")

	if n := c12WatchdogFirings(run); n >= c12MaxWatchdogFirings {
		run.Inconclusive(fmt.Sprintf("shard %d: the watchdog fired %d times (reported separately); the cases from index %d on were not run", run.Shard, n, run.From))
		return
	}
	if err := c12LoadBases(); err != nil {
		t.Fatalf("C12: cannot load the shipped tables: %v", err)
	}
	defer debug.SetMaxStack(debug.SetMaxStack(c12MaxStack))
	defer debug.SetPanicOnFault(debug.SetPanicOnFault(true))
	defer c12StartWatchdog(run)()

	env := &c12Env{run: run}
	for i := range env.arenas {
		env.arenas[i] = vlib.MustArena(0, c12ArenaBytes, false)
		env.arenas[i].Fill(0xa5)
	}

	// preludes (index 0 = none)
	env.pre = []*c12Prelude{nil}
	c12Arm("prelude parses", 60*time.Second)
	for _, spec := range []struct {
		name   string
		tables [][]byte
	}{
		{"library", [][]byte{c12BuildTable(c12Lib(), "DSDT")}},
		{"testsuite", [][]byte{c12Shipped[2].payload}},
		{"DSDT", [][]byte{c12Shipped[0].payload}},
		{"DSDT+SSDT", [][]byte{c12Shipped[0].payload, c12Shipped[1].payload}},
		// a table of Scope directives that are merged into \_SB_ and freed: the free list of the tree then
		// holds two dozen slots that carried name strings of that table (seeded round 15: whatever a slot
		// held in its previous life must not show in the object made from it for a later table)
		{"library+scopes", [][]byte{c12BuildTable(c12Lib(), "DSDT"), c12BuildTable(bytes.Repeat([]byte{0x10, 0x06, '\\', '_', 'S', 'B', '_'}, 24), "SSDT")}},
	} {
		p, err := c12MakePrelude(spec.name, spec.tables)
		if err != nil {
			run.Inconclusive("prelude not usable: " + err.Error())
			env.pre = append(env.pre, nil)
			continue
		}
		env.pre = append(env.pre, p)
	}
	c12Disarm()

	sources := c12Sources(run.Thorough())
	totalW := 0
	for _, s := range sources {
		totalW += s.weight
	}
	maxLen := 16 << 10
	if run.Thorough() {
		maxLen = c12MaxPayload
	}
	pickSource := func(r *vlib.Rand) int {
		pick := r.Intn(totalW)
		si := 0
		for ; pick >= sources[si].weight; si++ {
			pick -= sources[si].weight
		}
		return si
	}
	draw := func(r *vlib.Rand, limit int) c12Part {
		si := pickSource(r)
		for sources[si].gen == nil { // multi-table sources only start a case: draw again
			si = pickSource(r)
		}
		pt := c12Part{source: sources[si].name}
		pt.payload, pt.recipe, pt.kinds = sources[si].gen(r)
		if len(pt.payload) > limit {
			pt.payload = pt.payload[:limit]
			pt.recipe = append(pt.recipe, fmt.Sprintf("cut@%d", limit))
		}
		return pt
	}
	good := []c12Base{{name: "follow", payload: c12FollowProgram()}, {name: "hand:lib", payload: c12Lib()}, {name: "hand:uses-lib", payload: c12UsesLib()}, {name: "hand:uses-lib", payload: c12UsesLib()}, c12Bases[1], c12Bases[2]}

	run.Cases(run.N(40000, 1500000), func(c *vlib.Case) {
		r := c.R
		in := &c12Input{}
		r1 := r.Fork(1)
		if m := sources[pickSource(r1)]; m.multi != nil {
			in.parts = m.multi(r1)
			for i := range in.parts {
				if len(in.parts[i].payload) > maxLen {
					in.parts[i].payload = in.parts[i].payload[:maxLen]
				}
			}
		} else {
			in.parts = append(in.parts, draw(r.Fork(1), maxLen))
		}
		r2 := r.Fork(2)
		in.tail = r2.Chance(3, 4)
		switch x := r2.Intn(100); {
		case x < 57:
			in.prelude = 0
		case x < 65:
			in.prelude = 5
		case x < 83:
			in.prelude = 1
		case x < 93:
			in.prelude = 2
		case x < 97:
			in.prelude = 3
		default:
			in.prelude = 4
		}
		if env.pre[in.prelude] == nil {
			in.prelude = 0
		}
		if r2.Chance(1, 150) {
			in.parts[0].shortLn = r2.Range(8, c12HeaderLen-1) // the Length field itself is always there
		}
		// later tables: the tree left behind by table 1 must take them
		extra := 0
		switch x := r2.Intn(100); {
		case x >= 92:
			extra = 2
		case x >= 70:
			extra = 1
		}
		for k := 0; k < extra && len(in.parts) < len(env.arenas); k++ {
			if r2.Chance(2, 5) {
				g := good[r2.Intn(len(good))]
				in.parts = append(in.parts, c12Part{source: "good", recipe: []string{"base=" + g.name, "unmodified"}, payload: g.payload})
			} else {
				in.parts = append(in.parts, draw(r.Fork(uint64(10+k)), 2048))
			}
		}
		env.runInput(c, in)
	})

	// Fixed inputs: the unmodified shipped tables and programs, then reproducers.
	fixed := 0
	for bi := range c12Bases {
		b := c12Bases[bi]
		fixed++
		run.OneCase(vlib.FixedBase+fixed, func(c *vlib.Case) {
			env.runInput(c, &c12Input{tail: true, parts: []c12Part{
				{source: "hand", recipe: []string{"base=" + b.name, "unmodified"}, payload: b.payload},
				{source: "good", recipe: []string{"base=follow", "unmodified"}, payload: c12FollowProgram()}}})
		})
		fixed++
		run.OneCase(vlib.FixedBase+fixed, func(c *vlib.Case) {
			env.runInput(c, &c12Input{prelude: 1, tail: false, parts: []c12Part{
				{source: "hand", recipe: []string{"base=" + b.name, "unmodified", "after library"}, payload: b.payload}}})
		})
	}
	for i, rp := range c12Reproducers {
		rp := rp
		run.OneCase(vlib.FixedBase+1000+i, func(c *vlib.Case) {
			in := &c12Input{prelude: rp.prelude, tail: true}
			for _, h := range rp.hex {
				payload := c12UsesLib()
				if h != "uses-lib" {
					payload = vlib.UnHex(h)
				}
				in.parts = append(in.parts, c12Part{source: "reproducer", recipe: []string{rp.what}, payload: payload})
			}
			env.runInput(c, in)
		})
	}
	// every truncation of the two small shipped tables and of the library (offset sweep)
	sweep := []c12Base{c12Bases[1], c12Bases[2], {name: "hand:lib", payload: c12Lib()}}
	swIdx := vlib.FixedBase + 5000
	for _, b := range sweep {
		b := b
		step := 1
		if !run.Thorough() {
			step = 3
		}
		for cut := 0; cut < len(b.payload); cut += step {
			cut := cut
			swIdx++
			run.OneCase(swIdx, func(c *vlib.Case) {
				env.runInput(c, &c12Input{tail: true, parts: []c12Part{
					{source: "truncation-sweep", recipe: []string{"base=" + b.name, fmt.Sprintf("truncate@%d", cut)}, kinds: []string{"truncate"}, payload: b.payload[:cut]}}})
			})
		}
	}

	if !run.Single() && !run.Replay && run.From == 0 {
		// tallies are per process; a shard of a few thousand cases reaches all of these
		for _, f := range []struct {
			n    int
			what string
		}{
			{env.nOK, "no table was accepted"}, {env.nErr, "no table was rejected with the parse error"},
			{env.nResolve, "no table reached the scope-merge / relocation phase"}, {env.nDeferred, "no table reached the deferred-block phase"},
			{env.nSlices, "no byte slice was found in any tree"}, {env.nPrinted, "no tree was printed"},
			{env.nLaterOK, "no later table of a multi-table case was accepted"}, {env.nAfterError, "no table was parsed into a tree left behind by a rejected table"},
		} {
			if f.n == 0 {
				run.Inconclusive(f.what)
			}
		}
	}
}

// c12Reproducers: inputs that made the parser crash, loop or leave a damaged
// tree (kept as regression cases; see /verif/tools/proposed-fixes/C12-*.txt).
var c12Reproducers = []struct {
	what    string
	hex     []string // tables, in parse order
	prelude int
}{
	{"Device(AAAA.AAAA): relocation under itself (stack overflow before names were assigned at relocation time)", []string{"5b820a2e4141414141414141"}, 0},
	{"Method(MTH0.MTH0): same, method", []string{"140b2e4d5448304d54483000"}, 0},
	{"Field(REG0){Connection(Buffer(0x4000){1,2})}: byte list past the table end", []string{"5b810e52454730010211060b00400102"}, 0},
	{"region + field with a connection buffer longer than its package", []string{"5b805245473008000a025b811352454730010211060b004001024141414108"}, 0},
	{"Method whose package length is refused: PrettyPrint of the partial object", []string{"143f"}, 0},
	{"operand borrowed from the parent's siblings stays linked as last child", []string{"08415b2a895b13424242420a080a04464c4430"}, 0},
	{"relocated IndexField borrowed by an operator inside an OpRegion", []string{"5b802e5f53425f4d544833007fa36b934d5448326a5f50525f13030a675b861e5c2e5f53425f444556304d5448320252454730124d54483317030109c4"}, 0},
	{"Buffer chain with packages reaching past their parents: quadratic object count", []string{strings.Repeat("1103", 128) + strings.Repeat("01", 20)}, 0},
	{"Buffer inside While reaching past the While: package end restored below the offset", []string{"a2040111030a05"}, 0},
	{"overlapping buffers found by coverage-guided fuzzing, after the library", []string{"11111130113011301130113011301130113011111130113011301130113011301130113011111130113011301130113011301130113011111130113011301130113011301130113011111130113011301130113011301130113011111130113011301130113011301130113011111130113011301130113011301130113011111130113011301130113011301130113011111130112011201120112011201120112011211111111111111111111111111111111161303030303030303030303030303030", "uses-lib"}, 1},
}
