//go:build verif
// +build verif

package aml

import (
	"fmt"
	"io/ioutil"
	"strings"
	"testing"

	"github.com/ProjectSerenity/firefly/kernel/device/acpi/table"
	"github.com/ProjectSerenity/firefly/kernel/zzverif/vlib"
)

// C13 — the namespace tree stays well-formed under any history of
// newObject/newNamedObject/append/appendAfter/detach/free, and path lookup
// (Find) follows the ACPI search rules over each node's direct children.
//
// Two monitors:
//   (a) after EVERY editing operation: c13CheckTreeInvariants (needs no
//       reference) + c13Compare against a reference tree that is a parent
//       pointer and an ordered child slice per node;
//   (b) at check points: Find for every (live scope, generated expression)
//       pair against c13Resolve, an independent resolver written from the
//       property sentence; ClosestNamedAncestor / NumArgs / ArgAt against the
//       reference tree for every live node.

// ---------------------------------------------------------------------------
// (1) Structural well-formedness of an ObjectTree, without a reference tree.
//     Exposed for the C11/C12 harnesses.

// c13CheckTreeInvariants walks the whole object pool and returns a description
// of the first structural problem, or "" when the pool is a forest of
// well-formed trees (the tree under slot 0 plus any detached sub-trees):
// slots carry their own index; the free list is an acyclic chain of freed
// slots and contains every freed slot; no link field of a live object leads
// to a freed or non-existent slot; every child list read forward and backward
// gives the same sequence, agrees with first/last and with each child's
// parent/prev/next fields; every object that names a parent is in exactly
// that parent's list and in no other; parentless objects have no siblings;
// parent chains end (no cycles). The text before the first ':' is a stable
// signature.
func c13CheckTreeInvariants(tree *ObjectTree) (problem string) {
	pool := tree.objPool
	n := uint32(len(pool))
	if n == 0 {
		if tree.freeListHeadIndex != InvalidIndex {
			return fmt.Sprintf("freelist-out-of-range: empty pool but free list head is %d", tree.freeListHeadIndex)
		}
		return ""
	}
	for i, o := range pool {
		if o == nil {
			return fmt.Sprintf("nil-slot: pool slot %d is nil", i)
		}
		if o.index != uint32(i) {
			return fmt.Sprintf("slot-index-field: pool slot %d holds an object whose index field is %d", i, o.index)
		}
	}

	// Free list: acyclic chain of freed slots ...
	onFree := make([]bool, n)
	for idx := tree.freeListHeadIndex; idx != InvalidIndex; idx = pool[idx].nextSiblingIndex {
		if idx >= n {
			return fmt.Sprintf("freelist-out-of-range: free list reaches index %d, pool has %d slots", idx, n)
		}
		if onFree[idx] {
			return fmt.Sprintf("freelist-cycle: free list visits slot %d twice", idx)
		}
		if pool[idx].opcode != pOpIntFreedObject {
			return fmt.Sprintf("freelist-live-entry: slot %d is on the free list but is not marked freed (opcode %#x)", idx, pool[idx].opcode)
		}
		onFree[idx] = true
	}
	// ... which holds every freed slot (otherwise the slot can never be reused).
	for i := uint32(0); i < n; i++ {
		if pool[i].opcode == pOpIntFreedObject && !onFree[i] {
			return fmt.Sprintf("freed-slot-not-on-freelist: slot %d is marked freed but the free list does not contain it", i)
		}
	}

	live := func(idx uint32) bool { return idx < n && pool[idx].opcode != pOpIntFreedObject }

	if !live(0) {
		return "root-freed: pool slot 0 (the root scope) is freed"
	}
	if pool[0].parentIndex != InvalidIndex {
		return fmt.Sprintf("root-has-parent: slot 0 has parent %d", pool[0].parentIndex)
	}

	// No link of a live object may lead to a freed / non-existent slot.
	for i := uint32(0); i < n; i++ {
		o := pool[i]
		if !live(i) {
			continue
		}
		links := [5]uint32{o.parentIndex, o.prevSiblingIndex, o.nextSiblingIndex, o.firstArgIndex, o.lastArgIndex}
		names := [5]string{"parent", "prevSibling", "nextSibling", "firstArg", "lastArg"}
		for k, l := range links {
			if l != InvalidIndex && !live(l) {
				return fmt.Sprintf("link-to-dead-slot: %s link of live object %d is %d, which is freed or outside the pool (%d slots)", names[k], i, l, n)
			}
		}
	}

	// Child lists, both directions.
	listedBy := make([]uint32, n)
	for i := range listedBy {
		listedBy[i] = InvalidIndex
	}
	for i := uint32(0); i < n; i++ {
		o := pool[i]
		if !live(i) {
			continue
		}
		if (o.firstArgIndex == InvalidIndex) != (o.lastArgIndex == InvalidIndex) {
			return fmt.Sprintf("first-last-mismatch: object %d has firstArg %d but lastArg %d", i, o.firstArgIndex, o.lastArgIndex)
		}
		prev, count := InvalidIndex, uint32(0)
		for c := o.firstArgIndex; c != InvalidIndex; c = pool[c].nextSiblingIndex {
			if listedBy[c] != InvalidIndex {
				return fmt.Sprintf("node-listed-twice: object %d is reached in the child list of %d and again in the child list of %d", c, listedBy[c], i)
			}
			listedBy[c] = i
			if count++; count > n {
				return fmt.Sprintf("sibling-cycle: forward walk of the children of %d does not end", i)
			}
			if pool[c].parentIndex != i {
				return fmt.Sprintf("child-parent-link: %d is in the child list of %d but its parent field is %d", c, i, pool[c].parentIndex)
			}
			if pool[c].prevSiblingIndex != prev {
				return fmt.Sprintf("child-prev-link: child %d of %d follows %d in the forward walk but its prev field is %d", c, i, prev, pool[c].prevSiblingIndex)
			}
			prev = c
		}
		if prev != o.lastArgIndex {
			return fmt.Sprintf("last-arg-link: forward walk of the children of %d ends at %d but lastArg is %d", i, prev, o.lastArgIndex)
		}
		next, bcount := InvalidIndex, uint32(0)
		for c := o.lastArgIndex; c != InvalidIndex; c = pool[c].prevSiblingIndex {
			if bcount++; bcount > n {
				return fmt.Sprintf("sibling-cycle: backward walk of the children of %d does not end", i)
			}
			if pool[c].parentIndex != i {
				return fmt.Sprintf("child-parent-link: %d is reached walking the children of %d backward but its parent field is %d", c, i, pool[c].parentIndex)
			}
			if pool[c].nextSiblingIndex != next {
				return fmt.Sprintf("child-next-link: child %d of %d precedes %d in the backward walk but its next field is %d", c, i, next, pool[c].nextSiblingIndex)
			}
			next = c
		}
		if next != o.firstArgIndex {
			return fmt.Sprintf("first-arg-link: backward walk of the children of %d ends at %d but firstArg is %d", i, next, o.firstArgIndex)
		}
		if bcount != count {
			return fmt.Sprintf("forward-backward-length: children of %d: %d forward, %d backward", i, count, bcount)
		}
	}
	for i := uint32(0); i < n; i++ {
		o := pool[i]
		if !live(i) {
			continue
		}
		if o.parentIndex == InvalidIndex {
			if o.prevSiblingIndex != InvalidIndex || o.nextSiblingIndex != InvalidIndex {
				return fmt.Sprintf("parentless-node-has-siblings: object %d has no parent but prev=%d next=%d", i, o.prevSiblingIndex, o.nextSiblingIndex)
			}
		} else if listedBy[i] != o.parentIndex {
			return fmt.Sprintf("node-not-in-parents-list: object %d names %d as its parent but is not in that child list", i, o.parentIndex)
		}
	}
	// Parent chains end: together with the above, each live node lies in
	// exactly one tree.
	for i := uint32(0); i < n; i++ {
		if !live(i) {
			continue
		}
		steps := uint32(0)
		for p := pool[i].parentIndex; p != InvalidIndex; p = pool[p].parentIndex {
			if steps++; steps > n {
				return fmt.Sprintf("parent-cycle: the parent chain of object %d does not end", i)
			}
		}
	}
	return ""
}

func c13Sig(problem string) string {
	for i := 0; i < len(problem); i++ {
		if problem[i] == ':' {
			return problem[:i]
		}
	}
	return problem
}

// ---------------------------------------------------------------------------
// (2) Reference tree.

const (
	c13KindPlain     = iota // object without a name (operator, constant, name-path operand ...)
	c13KindNamed            // named object: created with a name (Device, Method, Name, named scope ...)
	c13KindScopeDir         // unresolved Scope() directive: has no name of its own
	c13KindField            // named field unit: has a name, never has children
	c13KindAnonBlock        // scope block the parser hangs under a scoped object: no name
)

var c13KindNames = [...]string{"plain", "named", "scopedir", "field", "anonblock"}

type c13Node struct {
	live bool
	kind int
	name [amlNameLen]byte
	// leftover: what the name field of a nameless object held right after it
	// was created (non-zero only when newObject recycled the slot of a named
	// object without clearing it). Used for diagnosis only, see findViolation.
	leftover [amlNameLen]byte
	opcode   uint16
	parent   uint32
	kids     []uint32
}

func (nd *c13Node) hasName() bool { return nd.kind == c13KindNamed || nd.kind == c13KindField }

type c13Model struct {
	nodes []c13Node // index = pool slot
	// diagnosis mode: resolve as if leftover names were real names
	leftoversVisible bool
	freed            []uint32 // freed slots in the order they were freed (the last one is the LIFO candidate)
}

func (m *c13Model) isLive(i uint32) bool { return i < uint32(len(m.nodes)) && m.nodes[i].live }

func (m *c13Model) depth(i uint32) int {
	d := 0
	for p := m.nodes[i].parent; p != InvalidIndex; p = m.nodes[p].parent {
		d++
	}
	return d
}

// inSubtree reports whether x is a or lies below a.
func (m *c13Model) inSubtree(a, x uint32) bool {
	for ; x != InvalidIndex; x = m.nodes[x].parent {
		if x == a {
			return true
		}
	}
	return false
}

func (m *c13Model) attached(i uint32) bool { return m.inSubtree(0, i) }

func (m *c13Model) indexOfKid(p, c uint32) int {
	for k, v := range m.nodes[p].kids {
		if v == c {
			return k
		}
	}
	return -1
}

func (m *c13Model) removeKid(p, c uint32) {
	k := m.indexOfKid(p, c)
	kids := m.nodes[p].kids
	m.nodes[p].kids = append(kids[:k:k], kids[k+1:]...)
}

func (m *c13Model) insertKid(p, c uint32, at int) {
	kids := m.nodes[p].kids
	out := make([]uint32, 0, len(kids)+1)
	out = append(out, kids[:at]...)
	out = append(out, c)
	out = append(out, kids[at:]...)
	m.nodes[p].kids = out
	m.nodes[c].parent = p
}

func (m *c13Model) hasNamedKid(p uint32, name [amlNameLen]byte) bool {
	for _, k := range m.nodes[p].kids {
		if m.nodes[k].hasName() && m.nodes[k].name == name {
			return true
		}
	}
	return false
}

// c13Compare compares every pool slot with the reference tree. "" = equal.
func c13Compare(tree *ObjectTree, m *c13Model) string {
	if p := c13CheckTreeInvariants(tree); p != "" {
		return p
	}
	pool := tree.objPool
	if len(pool) != len(m.nodes) {
		return fmt.Sprintf("pool-length: pool has %d slots, the reference %d", len(pool), len(m.nodes))
	}
	nFreed := 0
	for i := range pool {
		o, nd := pool[i], &m.nodes[i]
		if (o.opcode != pOpIntFreedObject) != nd.live {
			return fmt.Sprintf("slot-liveness: slot %d live=%v in the pool, live=%v in the reference", i, o.opcode != pOpIntFreedObject, nd.live)
		}
		if (tree.ObjectAt(uint32(i)) != nil) != nd.live {
			return fmt.Sprintf("objectat-liveness: ObjectAt(%d) nil=%v but reference live=%v", i, tree.ObjectAt(uint32(i)) == nil, nd.live)
		}
		if !nd.live {
			nFreed++
			continue
		}
		if o.opcode != nd.opcode {
			return fmt.Sprintf("opcode-changed: live object %d has opcode %#x, created with %#x", i, o.opcode, nd.opcode)
		}
		if nd.hasName() && o.name != nd.name {
			return fmt.Sprintf("name-changed: named object %d carries name %q, was given %q", i, o.name[:], nd.name[:])
		}
		if o.parentIndex != nd.parent {
			return fmt.Sprintf("parent-differs: object %d has parent %d, reference %d", i, o.parentIndex, nd.parent)
		}
		first, last := InvalidIndex, InvalidIndex
		if len(nd.kids) > 0 {
			first, last = nd.kids[0], nd.kids[len(nd.kids)-1]
		}
		if o.firstArgIndex != first || o.lastArgIndex != last {
			return fmt.Sprintf("first-last-differs: object %d has first/last %d/%d, reference %d/%d", i, o.firstArgIndex, o.lastArgIndex, first, last)
		}
		k := 0
		for c := o.firstArgIndex; c != InvalidIndex; c = pool[c].nextSiblingIndex {
			if k >= len(nd.kids) || nd.kids[k] != c {
				return fmt.Sprintf("child-list-differs: forward child %d of object %d is %d, reference list %v", k, i, c, nd.kids)
			}
			k++
		}
		if k != len(nd.kids) {
			return fmt.Sprintf("child-list-differs: object %d has %d children walking forward, reference list %v", i, k, nd.kids)
		}
		k = len(nd.kids)
		for c := o.lastArgIndex; c != InvalidIndex; c = pool[c].prevSiblingIndex {
			k--
			if k < 0 || nd.kids[k] != c {
				return fmt.Sprintf("child-list-differs: walking backward, object %d yields %d at position %d, reference list %v", i, c, k, nd.kids)
			}
		}
		if k != 0 {
			return fmt.Sprintf("child-list-differs: backward walk of object %d stops %d short, reference list %v", i, k, nd.kids)
		}
	}
	if nFreed != len(m.freed) {
		return fmt.Sprintf("harness-bug: reference freed list has %d entries, %d slots are dead", len(m.freed), nFreed)
	}
	return ""
}

// ---------------------------------------------------------------------------
// (3) Independent resolver: the property sentence, over the reference tree.

const (
	c13ClassStrict  = iota // the sentence fixes the outcome (up to same-named siblings)
	c13ClassLenient        // the sentence leaves it open between a few outcomes
	c13ClassJunk           // malformed: must merely not crash and not return a dead slot
)

var c13ClassNames = [...]string{"strict", "lenient", "junk"}

func c13LeadChar(b byte) bool { return (b >= 'A' && b <= 'Z') || b == '_' }
func c13NameChar(b byte) bool { return c13LeadChar(b) || (b >= '0' && b <= '9') }

type c13Parsed struct {
	class    int
	why      string // which shape of expression (evidence bucket)
	abs      bool
	ups      int
	segs     [][amlNameLen]byte
	notFound bool // strict: designates nothing
	search   bool // a single bare name segment: search rules apply
	// lenient alternatives
	orNotFound bool // not-found is acceptable besides the path result
	orSearch   bool // the search-rule result is acceptable too
}

// c13SplitSegs splits b into complete name segments and a tail of 0-3 bytes.
// ok=false when a byte is not a name character in its position.
func c13SplitSegs(b []byte) (segs [][amlNameLen]byte, tail int, ok bool) {
	for len(b) >= amlNameLen {
		var s [amlNameLen]byte
		copy(s[:], b[:amlNameLen])
		if !c13LeadChar(s[0]) || !c13NameChar(s[1]) || !c13NameChar(s[2]) || !c13NameChar(s[3]) {
			return nil, 0, false
		}
		segs = append(segs, s)
		b = b[amlNameLen:]
	}
	for i, ch := range b {
		if (i == 0 && !c13LeadChar(ch)) || !c13NameChar(ch) {
			return nil, 0, false
		}
	}
	return segs, len(b), true
}

// c13StripEmbedded removes dual-name prefixes (0x2e) and multi-name prefixes
// (0x2f + count byte) that sit at name-segment boundaries. ok=false when the
// remainder is not a clean run of complete name segments.
func c13StripEmbedded(b []byte) (segs [][amlNameLen]byte, stripped int, ok bool) {
	for len(b) > 0 {
		switch {
		case b[0] == 0x2e:
			b = b[1:]
			stripped++
		case b[0] == 0x2f:
			if len(b) < 2 || c13LeadChar(b[1]) {
				return nil, 0, false
			}
			b = b[2:]
			stripped++
		default:
			if len(b) < amlNameLen {
				return nil, 0, false
			}
			var s [amlNameLen]byte
			copy(s[:], b[:amlNameLen])
			if !c13LeadChar(s[0]) || !c13NameChar(s[1]) || !c13NameChar(s[2]) || !c13NameChar(s[3]) {
				return nil, 0, false
			}
			segs = append(segs, s)
			b = b[amlNameLen:]
		}
	}
	return segs, stripped, len(segs) > 0
}

func c13Parse(expr []byte) c13Parsed {
	var p c13Parsed
	if len(expr) == 0 {
		p.why, p.notFound = "empty", true
		return p
	}
	i := 0
	if expr[0] == '\\' {
		p.abs, i = true, 1
	} else {
		for i < len(expr) && expr[i] == '^' {
			p.ups++
			i++
		}
	}
	rest := expr[i:]
	if len(rest) == 0 {
		p.why = "prefix-only" // `\` or a run of `^`
		return p
	}
	declared := -1
	body := rest
	switch rest[0] {
	case 0x2e:
		declared, body = 2, rest[1:]
	case 0x2f:
		if len(rest) < 2 {
			p.why, p.notFound = "short:multi-prefix-without-count", true
			return p
		}
		declared, body = int(rest[1]), rest[2:]
		if declared < 1 || declared > 8 {
			p.class, p.why = c13ClassJunk, "junk:multi-prefix-count"
			return p
		}
	}
	segs, tail, ok := c13SplitSegs(body)
	if !ok {
		// Not a clean name string. If it becomes one by skipping dual/multi
		// prefix bytes at segment boundaries, an implementation may skip
		// them (resolve downward) or refuse (not found) - but nothing else.
		if es, _, eok := c13StripEmbedded(rest); eok {
			p.class, p.why, p.segs, p.orNotFound = c13ClassLenient, "lenient:embedded-prefix-bytes", es, true
			return p
		}
		p.class, p.why = c13ClassJunk, "junk:bytes"
		return p
	}
	p.segs = segs
	switch {
	case declared < 0: // plain run of segments
		if tail > 0 || len(segs) == 0 {
			p.why, p.notFound = "short:name", true
			return p
		}
		if len(segs) == 1 {
			p.why = "single"
			p.search = !p.abs && p.ups == 0
		} else {
			p.why = "multi:concatenated"
		}
	case len(segs) == declared && tail == 0:
		if declared == 1 {
			// MultiNamePrefix with one segment: a one-name path spelled as a
			// multi-name path; either reading is defensible.
			p.class, p.why = c13ClassLenient, "lenient:multi-prefix-count-1"
			p.orSearch = !p.abs && p.ups == 0
			p.orNotFound = true
			return p
		}
		p.why = "multi:prefixed"
	case len(segs) < declared && tail > 0:
		p.why, p.notFound = "short:name", true
	case len(segs) < declared && len(segs) == 0:
		p.why, p.notFound = "short:prefix-without-names", true
	case len(segs) < declared:
		// cut exactly at a segment boundary: fewer names than announced
		p.class, p.why, p.orNotFound = c13ClassLenient, "lenient:fewer-names-than-announced", true
	default:
		// more bytes than announced: nothing sensible can be demanded
		p.segs = nil
		p.class, p.why = c13ClassJunk, "junk:more-bytes-than-announced"
	}
	return p
}

func c13Add(set []uint32, v uint32) []uint32 {
	for _, x := range set {
		if x == v {
			return set
		}
	}
	return append(set, v)
}

func (m *c13Model) namedKids(scope uint32, name [amlNameLen]byte, out []uint32) []uint32 {
	for _, k := range m.nodes[scope].kids {
		nd := &m.nodes[k]
		if (nd.hasName() && nd.name == name) || (m.leftoversVisible && !nd.hasName() && nd.leftover == name) {
			out = c13Add(out, k)
		}
	}
	return out
}

// down resolves segs downward from start. The result is the set of nodes
// some choice among same-named siblings leads to; dead=true when some choice
// (or the only one) runs into a scope without the next name.
func (m *c13Model) down(start uint32, segs [][amlNameLen]byte) (res []uint32, dead bool) {
	cur := []uint32{start}
	for _, s := range segs {
		var next []uint32
		for _, sc := range cur {
			before := len(next)
			if next = m.namedKids(sc, s, next); len(next) == before && len(m.namedKids(sc, s, nil)) == 0 {
				dead = true
			}
		}
		cur = next
		if len(cur) == 0 {
			return nil, true
		}
	}
	return cur, dead
}

// c13Resolve returns the class of expr and the set of acceptable results of a
// lookup of expr from scope (InvalidIndex = not found). For class junk the set
// is nil (any live slot or not-found is tolerated).
func (m *c13Model) c13Resolve(scope uint32, expr []byte) (p c13Parsed, acc []uint32, ambiguous bool) {
	p = c13Parse(expr)
	if p.class == c13ClassJunk {
		return p, nil, false
	}
	if p.notFound {
		return p, []uint32{InvalidIndex}, false
	}
	start := scope
	if p.abs {
		start = 0 // absolute paths start at the root: pool slot 0
	}
	for u := 0; u < p.ups; u++ { // each '^' one level up; above the top: not found
		if start = m.nodes[start].parent; start == InvalidIndex {
			return p, []uint32{InvalidIndex}, false
		}
	}
	if len(p.segs) == 0 {
		return p, []uint32{start}, false
	}
	if p.search || p.orSearch {
		// single name: this scope, then each enclosing scope
		found := false
		for sc := start; sc != InvalidIndex; sc = m.nodes[sc].parent {
			if ks := m.namedKids(sc, p.segs[0], nil); len(ks) > 0 {
				for _, k := range ks {
					acc = c13Add(acc, k)
				}
				ambiguous = ambiguous || len(ks) > 1
				found = true
				break
			}
		}
		if !found {
			acc = c13Add(acc, InvalidIndex)
		}
		if p.search {
			return p, acc, ambiguous
		}
	}
	res, dead := m.down(start, p.segs)
	for _, v := range res {
		acc = c13Add(acc, v)
	}
	if dead || len(res) == 0 {
		acc = c13Add(acc, InvalidIndex)
	}
	if len(res) > 1 || (dead && len(res) > 0) {
		ambiguous = true
	}
	if p.orNotFound {
		acc = c13Add(acc, InvalidIndex)
	}
	return p, acc, ambiguous
}

// closestNamedAncestor: "the first named object that is an ancestor of obj;
// InvalidIndex if any of obj's parents [on the way] is an unresolved scope
// directive". An anonymous scope block is an object of a named class without a
// name; the sentence does not say whether it counts, so both are accepted.
func (m *c13Model) closestNamedAncestor(i uint32) (acc []uint32) {
	for a := m.nodes[i].parent; a != InvalidIndex; a = m.nodes[a].parent {
		switch m.nodes[a].kind {
		case c13KindScopeDir:
			return c13Add(acc, InvalidIndex)
		case c13KindNamed:
			return c13Add(acc, a)
		case c13KindAnonBlock:
			acc = c13Add(acc, a)
		}
	}
	return c13Add(acc, InvalidIndex)
}

func c13In(set []uint32, v uint32) bool {
	for _, x := range set {
		if x == v {
			return true
		}
	}
	return false
}

// ---------------------------------------------------------------------------
// (4) Workload.

var c13NamedOps = []uint16{pOpDevice, pOpMethod, pOpName, pOpMutex, pOpEvent, pOpOpRegion, pOpProcessor, pOpPowerRes, pOpThermalZone, pOpIntScopeBlock, pOpAlias}
var c13PlainOps = []uint16{pOpIf, pOpElse, pOpWhile, pOpAdd, pOpStore, pOpBuffer, pOpPackage, pOpIntNamePath, pOpIntMethodCall, pOpIntResolvedNamePath, pOpIntNamePathOrMethodCall, pOpBytePrefix, pOpZero, pOpIntByteList, pOpField, pOpReturn, pOpLEqual}

var c13CommonNames = [][amlNameLen]byte{
	{'A', 'A', 'A', 'A'}, {'B', 'A', 'A', 'A'}, {'_', 'A', '0', '_'}, {'A', 'B', '_', '0'}, {'Z', '_', '9', 'Z'},
}

func c13RandName(r *vlib.Rand) [amlNameLen]byte {
	if r.Chance(4, 5) {
		return c13CommonNames[r.Intn(len(c13CommonNames))]
	}
	lead := []byte{'A', 'Z', '_'} // the edges of the LeadNameChar ranges
	rest := []byte{'A', 'Z', '_', '0', '9'}
	return [amlNameLen]byte{lead[r.Intn(3)], rest[r.Intn(5)], rest[r.Intn(5)], rest[r.Intn(5)]}
}

type c13Driver struct {
	c     *vlib.Case
	run   *vlib.Run
	r     *vlib.Rand
	tree  *ObjectTree
	m     *c13Model
	uniq  bool     // keep named siblings' names distinct (what ACPI requires of a namespace)
	log   []string // most recent operations
	first []string // first 12 operations (samples)
	nops  int
	fp    vlib.FP
	bad   bool

	reuses, midInserts, midDetaches, frees int
	lookFound, lookNotFound                int

	tracked []c13Query // lookups repeated after every step
}

func (d *c13Driver) note(format string, a ...interface{}) {
	s := fmt.Sprintf(format, a...)
	d.fp = d.fp.Str(s)
	d.nops++
	if len(d.first) < 12 {
		d.first = append(d.first, s)
	}
	if d.log = append(d.log, s); len(d.log) > 256 { // keep the most recent ones
		d.log = append([]string(nil), d.log[128:]...)
	}
}

func (d *c13Driver) tail() []string {
	if len(d.log) > 40 {
		return d.log[len(d.log)-40:]
	}
	return d.log
}

func (d *c13Driver) violation(sig string, what string) {
	d.bad = true
	d.c.Violation(sig, map[string]interface{}{"what": what, "last_ops": d.tail(), "ops_so_far": d.nops})
}

// verify runs after every editing operation.
func (d *c13Driver) verify(op string) bool {
	if p := c13Compare(d.tree, d.m); p != "" {
		d.violation("tree:"+op+":"+c13Sig(p), "after "+op+": "+p)
		return false
	}
	d.run.Count("tree_checks", 1)
	d.run.Count("slots_compared", int64(len(d.m.nodes)))
	return true
}

func (d *c13Driver) call(op string, f func()) bool {
	if pv, st := vlib.Protect(f); pv != nil {
		d.bad = true
		d.c.Violation("panic-in-"+op+":"+vlib.PanicSite(st)+":"+vlib.PanicClass(pv), map[string]interface{}{"panic": fmt.Sprint(pv), "stack": st, "last_ops": d.tail()})
		return false
	}
	return true
}

// opNew creates an object of the given kind; returns its slot.
func (d *c13Driver) opNew(kind int, name [amlNameLen]byte, viaNamedCtor bool) (uint32, bool) {
	var opcode uint16
	switch kind {
	case c13KindNamed:
		opcode = c13NamedOps[d.r.Intn(len(c13NamedOps))]
	case c13KindScopeDir:
		opcode = pOpScope
	case c13KindField:
		opcode = pOpIntNamedField
	case c13KindAnonBlock:
		opcode = pOpIntScopeBlock
	default:
		opcode = c13PlainOps[d.r.Intn(len(c13PlainOps))]
	}
	handle := uint8(d.r.Intn(3))
	poolBefore := len(d.tree.objPool)
	var obj *Object
	hasName := kind == c13KindNamed || kind == c13KindField
	if !d.call("new", func() {
		if hasName && viaNamedCtor {
			obj = d.tree.newNamedObject(opcode, handle, name)
		} else {
			obj = d.tree.newObject(opcode, handle)
			if hasName {
				// the way the parser names objects: allocate, then fill in the name
				obj.name = name
			}
		}
	}) {
		return 0, false
	}
	if obj == nil {
		d.violation("new:nil", "newObject returned nil")
		return 0, false
	}
	slot := obj.index
	d.note("new(%s,%q,op=%#x)->%d", c13KindNames[kind], name[:], opcode, slot)
	d.run.Count("ops_new_"+c13KindNames[kind], 1)
	if len(d.m.freed) > 0 {
		// a freed slot must be reused before the pool grows
		k := -1
		for i, f := range d.m.freed {
			if f == slot {
				k = i
			}
		}
		if len(d.tree.objPool) != poolBefore {
			d.violation("new:pool-grew-with-free-slots", fmt.Sprintf("pool grew from %d to %d slots while %d freed slots were available", poolBefore, len(d.tree.objPool), len(d.m.freed)))
			return 0, false
		}
		if k < 0 {
			d.violation("new:slot-not-from-freed-set", fmt.Sprintf("newObject handed out slot %d; freed slots are %v", slot, d.m.freed))
			return 0, false
		}
		if k == len(d.m.freed)-1 {
			d.run.Count("reuse_most_recently_freed", 1)
		} else {
			d.run.Count("reuse_other_freed_slot", 1) // allowed by the statement, only counted
		}
		d.m.freed = append(d.m.freed[:k:k], d.m.freed[k+1:]...)
		d.reuses++
		d.run.Count("slot_reuses", 1)
	} else {
		if int(slot) != poolBefore || len(d.tree.objPool) != poolBefore+1 {
			d.violation("new:fresh-slot", fmt.Sprintf("free list empty, pool had %d slots: newObject returned slot %d and the pool now has %d", poolBefore, slot, len(d.tree.objPool)))
			return 0, false
		}
		d.m.nodes = append(d.m.nodes, c13Node{})
		d.run.Count("pool_growths", 1)
	}
	if int(slot) >= len(d.m.nodes) {
		d.violation("new:slot-out-of-range", fmt.Sprintf("slot %d", slot))
		return 0, false
	}
	nd := c13Node{live: true, kind: kind, opcode: opcode, parent: InvalidIndex}
	if hasName {
		nd.name = name
	} else if nd.leftover = obj.name; nd.leftover != [amlNameLen]byte{} {
		d.run.Count("nameless_objects_created_with_leftover_name", 1)
	}
	d.m.nodes[slot] = nd
	if obj.parentIndex != InvalidIndex || obj.prevSiblingIndex != InvalidIndex || obj.nextSiblingIndex != InvalidIndex || obj.firstArgIndex != InvalidIndex || obj.lastArgIndex != InvalidIndex {
		d.violation("new:links-not-cleared", fmt.Sprintf("fresh object %d has links parent=%d prev=%d next=%d first=%d last=%d", slot, obj.parentIndex, obj.prevSiblingIndex, obj.nextSiblingIndex, obj.firstArgIndex, obj.lastArgIndex))
		return 0, false
	}
	return slot, d.verify("new")
}

func (d *c13Driver) opAppend(parent, arg uint32) bool {
	d.note("append(%d,%d)", parent, arg)
	d.run.Count("ops_append", 1)
	if len(d.m.nodes[parent].kids) == 0 {
		d.run.Count("append_to_empty_list", 1)
	}
	if !d.call("append", func() { d.tree.append(d.tree.objPool[parent], d.tree.objPool[arg]) }) {
		return false
	}
	d.m.insertKid(parent, arg, len(d.m.nodes[parent].kids))
	return d.verify("append")
}

func (d *c13Driver) opAppendAfter(parent, arg, nextTo uint32) bool {
	at := d.m.indexOfKid(parent, nextTo)
	d.note("appendAfter(%d,%d,after=%d@%d/%d)", parent, arg, nextTo, at, len(d.m.nodes[parent].kids))
	d.run.Count("ops_appendAfter", 1)
	if at == len(d.m.nodes[parent].kids)-1 {
		d.run.Count("appendAfter_last", 1)
	} else {
		d.run.Count("appendAfter_middle", 1)
		d.midInserts++
	}
	if !d.call("appendAfter", func() {
		d.tree.appendAfter(d.tree.objPool[parent], d.tree.objPool[arg], d.tree.objPool[nextTo])
	}) {
		return false
	}
	d.m.insertKid(parent, arg, at+1)
	return d.verify("appendAfter")
}

func (d *c13Driver) countPos(prefix string, parent, arg uint32) {
	at, n := d.m.indexOfKid(parent, arg), len(d.m.nodes[parent].kids)
	switch {
	case n == 1:
		d.run.Count(prefix+"_only_child", 1)
	case at == 0:
		d.run.Count(prefix+"_first", 1)
	case at == n-1:
		d.run.Count(prefix+"_last", 1)
	default:
		d.run.Count(prefix+"_middle", 1)
		d.midDetaches++
	}
}

func (d *c13Driver) opDetach(arg uint32) bool {
	parent := d.m.nodes[arg].parent
	d.note("detach(%d,%d)", parent, arg)
	d.run.Count("ops_detach", 1)
	d.countPos("detach", parent, arg)
	if !d.call("detach", func() { d.tree.detach(d.tree.objPool[parent], d.tree.objPool[arg]) }) {
		return false
	}
	d.m.removeKid(parent, arg)
	d.m.nodes[arg].parent = InvalidIndex
	return d.verify("detach")
}

func (d *c13Driver) opFree(obj uint32) bool {
	parent := d.m.nodes[obj].parent
	d.note("free(%d,parent=%d)", obj, int32(parent))
	d.run.Count("ops_free", 1)
	if parent != InvalidIndex {
		d.run.Count("free_attached", 1)
		d.countPos("free", parent, obj)
	} else {
		d.run.Count("free_detached", 1)
	}
	if !d.call("free", func() { d.tree.free(d.tree.objPool[obj]) }) {
		return false
	}
	if parent != InvalidIndex {
		d.m.removeKid(parent, obj)
	}
	d.m.nodes[obj] = c13Node{parent: InvalidIndex}
	d.m.freed = append(d.m.freed, obj)
	d.frees++
	return d.verify("free")
}

// candidate sets (slot order: deterministic)
func (d *c13Driver) liveSlots() []uint32 {
	var out []uint32
	for i := range d.m.nodes {
		if d.m.nodes[i].live {
			out = append(out, uint32(i))
		}
	}
	return out
}

func (d *c13Driver) detachedTops() []uint32 {
	var out []uint32
	for i := range d.m.nodes {
		if i != 0 && d.m.nodes[i].live && d.m.nodes[i].parent == InvalidIndex {
			out = append(out, uint32(i))
		}
	}
	return out
}

func (d *c13Driver) withParent() []uint32 {
	var out []uint32
	for i := range d.m.nodes {
		if d.m.nodes[i].live && d.m.nodes[i].parent != InvalidIndex {
			out = append(out, uint32(i))
		}
	}
	return out
}

func (d *c13Driver) freeable() []uint32 {
	var out []uint32
	for i := range d.m.nodes {
		if i != 0 && d.m.nodes[i].live && len(d.m.nodes[i].kids) == 0 {
			out = append(out, uint32(i))
		}
	}
	return out
}

// hosts returns the live objects arg may be attached under: not arg or one of
// its descendants, not a field unit; with uniq, no same-named sibling.
func (d *c13Driver) hosts(arg uint32, needKids bool) []uint32 {
	var out []uint32
	an := &d.m.nodes[arg]
	for i := range d.m.nodes {
		nd := &d.m.nodes[i]
		if !nd.live || nd.kind == c13KindField || d.m.inSubtree(arg, uint32(i)) {
			continue
		}
		if needKids && len(nd.kids) == 0 {
			continue
		}
		if d.uniq && an.hasName() && d.m.hasNamedKid(uint32(i), an.name) {
			continue
		}
		out = append(out, uint32(i))
	}
	return out
}

func (d *c13Driver) pickHost(hosts []uint32) uint32 {
	// bias toward deep and toward attached hosts so that trees get depth
	best := hosts[d.r.Intn(len(hosts))]
	for t := 0; t < 2; t++ {
		h := hosts[d.r.Intn(len(hosts))]
		if d.m.depth(h) > d.m.depth(best) && d.r.Chance(2, 3) {
			best = h
		}
	}
	return best
}

// attach hangs the detached object arg somewhere, by append or appendAfter.
func (d *c13Driver) attach(arg uint32) bool {
	if d.r.Chance(2, 5) {
		if hs := d.hosts(arg, true); len(hs) > 0 {
			p := d.pickHost(hs)
			kids := d.m.nodes[p].kids
			var nextTo uint32
			switch d.r.Intn(4) {
			case 0:
				nextTo = kids[0]
			case 1:
				nextTo = kids[len(kids)-1]
			default:
				nextTo = kids[d.r.Intn(len(kids))]
			}
			return d.opAppendAfter(p, arg, nextTo)
		}
	}
	hs := d.hosts(arg, false)
	if len(hs) == 0 {
		return true
	}
	return d.opAppend(d.pickHost(hs), arg)
}

func (d *c13Driver) randKind() int {
	switch x := d.r.Intn(20); {
	case x < 10:
		return c13KindNamed
	case x < 15:
		return c13KindPlain
	case x < 17:
		return c13KindField
	case x < 19:
		return c13KindAnonBlock
	default:
		return c13KindScopeDir
	}
}

// step performs one randomly chosen editing step (one to a few operations,
// each verified). mode: 0 grow, 1 churn, 2 shrink.
func (d *c13Driver) step(mode, maxLive int) bool {
	liveN := len(d.liveSlots())
	w := [6]int{} // new+attach, new only, attach a detached top, detach, free, move
	switch mode {
	case 0:
		w = [6]int{10, 2, 3, 1, 1, 2}
	case 1:
		w = [6]int{5, 2, 4, 4, 5, 5}
	default:
		w = [6]int{1, 1, 2, 3, 12, 2}
	}
	if liveN >= maxLive {
		w[0], w[1] = 0, 0
	}
	total := 0
	for _, x := range w {
		total += x
	}
	pick := d.r.Intn(total)
	choice := 0
	for ; pick >= w[choice]; choice++ {
		pick -= w[choice]
	}
	switch choice {
	case 0, 1:
		slot, ok := d.opNew(d.randKind(), c13RandName(d.r), d.r.Bool())
		if !ok {
			return false
		}
		if choice == 0 {
			return d.attach(slot)
		}
	case 2:
		if tops := d.detachedTops(); len(tops) > 0 {
			return d.attach(tops[d.r.Intn(len(tops))])
		}
	case 3:
		if c := d.withParent(); len(c) > 0 {
			return d.opDetach(c[d.r.Intn(len(c))])
		}
	case 4:
		if c := d.freeable(); len(c) > 0 {
			return d.opFree(c[d.r.Intn(len(c))])
		}
	case 5: // relocate, as the parser does: detach, then attach elsewhere
		if c := d.withParent(); len(c) > 0 {
			x := c[d.r.Intn(len(c))]
			if !d.opDetach(x) {
				return false
			}
			return d.attach(x)
		}
	}
	return true
}

// ---------------------------------------------------------------------------
// Expressions.

func (d *c13Driver) someName() [amlNameLen]byte {
	if d.r.Chance(3, 5) {
		var named []uint32
		for i := range d.m.nodes {
			if d.m.nodes[i].live && d.m.nodes[i].hasName() && i != 0 {
				named = append(named, uint32(i))
			}
		}
		if len(named) > 0 {
			return d.m.nodes[named[d.r.Intn(len(named))]].name
		}
	}
	return c13RandName(d.r)
}

func (d *c13Driver) genSegs() [][amlNameLen]byte {
	var segs [][amlNameLen]byte
	if d.r.Chance(1, 2) {
		// the names on the way down to some object (so that deep lookups can succeed)
		var named []uint32
		for i := range d.m.nodes {
			if i != 0 && d.m.nodes[i].live && d.m.nodes[i].hasName() && d.m.nodes[i].parent != InvalidIndex {
				named = append(named, uint32(i))
			}
		}
		if len(named) > 0 {
			t := named[d.r.Intn(len(named))]
			levels := d.r.Range(1, 5)
			for x := t; x != InvalidIndex && x != 0 && len(segs) < levels && d.m.nodes[x].hasName(); x = d.m.nodes[x].parent {
				segs = append([][amlNameLen]byte{d.m.nodes[x].name}, segs...)
			}
			if d.r.Chance(1, 8) && len(segs) > 0 { // spoil one
				segs[d.r.Intn(len(segs))] = c13RandName(d.r)
			}
			return segs
		}
	}
	n := d.r.Intn(6)
	for i := 0; i < n; i++ {
		segs = append(segs, d.someName())
	}
	return segs
}

func (d *c13Driver) genExpr(maxDepth int) []byte {
	r := d.r
	if r.Chance(1, 25) { // pure junk
		return r.Bytes(r.Intn(14))[:]
	}
	var e []byte
	switch x := r.Intn(20); {
	case x < 8:
	case x < 13:
		e = append(e, '\\')
	default:
		k := 1
		switch r.Intn(4) {
		case 0:
			k = r.Range(1, maxDepth+2)
		case 1:
			k = r.Range(1, 12)
		default:
			k = r.Range(1, 3)
		}
		for i := 0; i < k; i++ {
			e = append(e, '^')
		}
	}
	segs := d.genSegs()
	canonical := r.Bool()
	if canonical {
		switch {
		case len(segs) == 2 && r.Chance(5, 6):
			e = append(e, 0x2e)
		case len(segs) >= 2:
			e = append(e, 0x2f, byte(len(segs)))
		case len(segs) == 1 && r.Chance(1, 6):
			e = append(e, 0x2f, 1)
		}
	}
	for _, s := range segs {
		e = append(e, s[:]...)
	}
	// mutations
	switch x := r.Intn(40); {
	case x < 8 && len(e) > 0: // truncation at any byte
		e = e[:r.Intn(len(e))]
	case x < 12 && len(segs) > 0: // dual/multi prefix bytes embedded at a segment boundary
		at := len(e) - amlNameLen*r.Range(0, len(segs))
		var ins []byte
		if r.Bool() {
			ins = []byte{0x2e}
		} else {
			ins = []byte{0x2f, byte(r.Range(0, 6))}
		}
		e = append(e[:at:at], append(ins, e[at:]...)...)
	case x < 14 && canonical && len(segs) >= 2: // count byte does not match
		for i := range e {
			if e[i] == 0x2f && i+1 < len(e) {
				e[i+1] = byte(r.Range(0, 9))
				break
			}
		}
	case x < 17 && len(e) > 0: // one junk byte
		junk := []byte{0, 1, ' ', '.', '/', '0', '9', '@', '[', '\\', '^', '`', 'a', 'z', 0x7f, 0x80, 0xff, byte(r.U64())}
		e[r.Intn(len(e))] = junk[r.Intn(len(junk))]
	case x < 19: // inserted junk byte
		at := r.Intn(len(e) + 1)
		junk := []byte{0, '\\', '^', 0x2e, 0x2f, 'a', '0', 0xff, byte(r.U64())}
		e = append(e[:at:at], append([]byte{junk[r.Intn(len(junk))]}, e[at:]...)...)
	case x < 20: // null name after the prefix, the way AML spells "no name"
		e = append(e, 0)
	}
	return e
}

var c13FixedExprs = [][]byte{
	{}, {'\\'}, {'^'}, {'^', '^'}, {'\\', 0x2f}, {0x2e}, {0x2f}, {0x2f, 3}, {0}, {'\\', 0}, {0, 0, 0, 0}, {'\\', 0, 0, 0, 0},
	{'^', 0, 0, 0, 0}, {'A', 0, 0, 0}, {'F', 'O', 'O'}, {'^', '^', 'F', 'O', 'O'}, {'\\', '\\'}, {'^', '\\'}, {'\\', '^'},
	{0x2e, 0x2e, 0x2e, 0x2e}, {0x2f, 0x2f, 0x2f, 0x2f, 0x2f}, {'\\', 0x2f, 3, '?'},
}

// lookups compares Find with the resolver for every (live scope, expression)
// pair and the accessors with the reference tree for every live object.
func (d *c13Driver) lookups(nExpr int) bool {
	live := d.liveSlots()
	maxDepth := 0
	for _, s := range live {
		if dp := d.m.depth(s); dp > maxDepth {
			maxDepth = dp
		}
	}
	d.run.Max("max_tree_depth", int64(maxDepth))
	d.run.Max("max_live_objects", int64(len(live)))

	// accessors
	for _, s := range live {
		obj := d.tree.objPool[s]
		nd := &d.m.nodes[s]
		var gotN uint32
		var gotCNA uint32
		args := make([]*Object, len(nd.kids)+1)
		if !d.call("accessors", func() {
			gotN = d.tree.NumArgs(obj)
			gotCNA = d.tree.ClosestNamedAncestor(obj)
			for k := range args {
				args[k] = d.tree.ArgAt(obj, uint32(k))
			}
		}) {
			return false
		}
		if gotN != uint32(len(nd.kids)) {
			d.violation("numargs", fmt.Sprintf("NumArgs(%d)=%d, reference children %v", s, gotN, nd.kids))
			return false
		}
		for k := range args {
			if k < len(nd.kids) {
				if args[k] == nil || args[k].index != nd.kids[k] || args[k] != d.tree.objPool[nd.kids[k]] {
					d.violation("argat", fmt.Sprintf("ArgAt(%d,%d) wrong, reference children %v", s, k, nd.kids))
					return false
				}
			} else if args[k] != nil {
				d.violation("argat-past-end", fmt.Sprintf("ArgAt(%d,%d) returned object %d, reference children %v", s, k, args[k].index, nd.kids))
				return false
			}
		}
		acc := d.m.closestNamedAncestor(s)
		if !c13In(acc, gotCNA) {
			d.violation("closest-named-ancestor", fmt.Sprintf("ClosestNamedAncestor(%d)=%d, acceptable %v (chain: %s)", s, int32(gotCNA), c13I32(acc), d.chain(s)))
			return false
		}
		if gotCNA == InvalidIndex {
			d.run.Count("cna_none", 1)
		} else {
			d.run.Count("cna_found", 1)
			if d.m.nodes[gotCNA].kind == c13KindAnonBlock {
				d.run.Count("cna_found_anonymous_scope_block", 1)
			}
		}
		d.run.Count("accessor_checks", int64(2+len(args)))
	}
	{ // nil arguments are documented
		var n, a uint32
		var o *Object
		if !d.call("accessors-nil", func() {
			n, a, o = d.tree.NumArgs(nil), d.tree.ClosestNamedAncestor(nil), d.tree.ArgAt(nil, 0)
		}) {
			return false
		}
		if n != 0 || a != InvalidIndex || o != nil {
			d.violation("accessors-nil", "NumArgs/ClosestNamedAncestor/ArgAt of nil")
			return false
		}
	}

	exprs := make([][]byte, 0, nExpr+len(c13FixedExprs))
	for i := 0; i < nExpr; i++ {
		exprs = append(exprs, d.genExpr(maxDepth))
	}
	exprs = append(exprs, c13FixedExprs...)

	for _, e := range exprs {
		d.fp = d.fp.Bytes(e)
		shape := ""
		for _, s := range live {
			p, acc, amb := d.m.c13Resolve(s, e)
			shape = p.why
			var got uint32
			arg := append([]byte(nil), e...) // Find must not depend on spare capacity
			if pv, st := vlib.Protect(func() { got = d.tree.Find(s, arg) }); pv != nil {
				d.bad = true
				d.c.Violation("find-panic:"+vlib.PanicSite(st)+":"+vlib.PanicClass(pv), map[string]interface{}{"scope": s, "expr": vlib.Hex(e), "panic": fmt.Sprint(pv), "stack": st, "last_ops": d.tail()})
				return false
			}
			d.run.Count("find_pairs_"+c13ClassNames[p.class], 1)
			if got != InvalidIndex && !d.m.isLive(got) {
				d.findViolation(p, "returned-dead-slot", s, e, got, acc)
				return false
			}
			if p.class == c13ClassJunk {
				if got == InvalidIndex {
					d.run.Count("find_junk_notfound", 1)
				} else {
					d.run.Count("find_junk_found_something", 1)
				}
				continue
			}
			if amb {
				d.run.Count("find_pairs_with_same_named_siblings", 1)
			}
			if !c13In(acc, got) {
				kind := "wrong-node"
				switch {
				case got == InvalidIndex:
					kind = "notfound-but-designated"
				case !d.m.nodes[got].hasName() && len(p.segs) > 0:
					kind = "matched-object-without-name"
				case len(acc) == 1 && acc[0] == InvalidIndex:
					kind = "found-but-nothing-designated"
				}
				d.findViolation(p, kind, s, e, got, acc)
				return false
			}
			if got == InvalidIndex {
				d.run.Count("find_notfound_"+c13ClassNames[p.class], 1)
				if p.class == c13ClassStrict {
					d.lookNotFound++
				}
			} else {
				d.run.Count("find_found_"+c13ClassNames[p.class], 1)
				if p.class == c13ClassStrict {
					d.lookFound++
					if p.search && d.m.nodes[got].parent != s {
						d.run.Count("find_single_name_found_in_enclosing_scope", 1)
					}
					if p.ups > 0 && len(p.segs) > 0 {
						d.run.Count("find_found_via_caret_path", 1)
					}
					if p.abs && len(p.segs) > 0 {
						d.run.Count("find_found_via_absolute_path", 1)
					}
					if len(p.segs) >= 3 {
						d.run.Count("find_found_3plus_segments", 1)
					}
				}
			}
		}
		if shape != "" {
			d.run.SetAdd("expression_shapes", shape)
			d.run.Count("exprs_"+shape, 1)
		}
	}
	// InvalidIndex as scope is documented to give not-found
	if got := d.tree.Find(InvalidIndex, []byte("AAAA")); got != InvalidIndex {
		d.violation("find:invalid-scope", "Find(InvalidIndex, AAAA) returned a node")
		return false
	}
	return true
}

// c13Query is a lookup that is repeated after every editing step: the same (scope, expression) pair straddles
// appends, inserts, detaches and frees, so an answer remembered from the previous call shows up as a wrong node.
type c13Query struct {
	scope uint32
	expr  []byte
}

// requery re-evaluates the tracked queries (dropping those whose scope died) and keeps their number at four.
func (d *c13Driver) requery() bool {
	r := d.r
	kept := d.tracked[:0]
	for _, q := range d.tracked {
		if d.m.isLive(q.scope) && !r.Chance(1, 12) {
			kept = append(kept, q)
		}
	}
	d.tracked = kept
	live := d.liveSlots()
	for len(d.tracked) < 4 && len(live) > 0 {
		q := c13Query{scope: live[r.Intn(len(live))]}
		if r.Chance(2, 3) {
			n := d.someName() // a single name segment: the search rules apply
			q.expr = append([]byte(nil), n[:]...)
		} else {
			q.expr = d.genExpr(3)
		}
		d.tracked = append(d.tracked, q)
	}
	for _, q := range d.tracked {
		p, acc, _ := d.m.c13Resolve(q.scope, q.expr)
		var got uint32
		arg := append([]byte(nil), q.expr...)
		if pv, st := vlib.Protect(func() { got = d.tree.Find(q.scope, arg) }); pv != nil {
			d.bad = true
			d.c.Violation("find-panic:"+vlib.PanicSite(st)+":"+vlib.PanicClass(pv), map[string]interface{}{"scope": q.scope, "expr": vlib.Hex(q.expr), "panic": fmt.Sprint(pv), "stack": st, "last_ops": d.tail()})
			return false
		}
		d.run.Count("find_repeated_queries", 1)
		if got != InvalidIndex && !d.m.isLive(got) {
			d.findViolation(p, "repeated:returned-dead-slot", q.scope, q.expr, got, acc)
			return false
		}
		if p.class == c13ClassJunk {
			continue
		}
		if !c13In(acc, got) {
			d.findViolation(p, "repeated:wrong-answer-after-an-edit", q.scope, q.expr, got, acc)
			return false
		}
	}
	return true
}

func c13I32(v []uint32) []int32 {
	out := make([]int32, len(v))
	for i, x := range v {
		out[i] = int32(x)
	}
	return out
}

func (d *c13Driver) chain(s uint32) string {
	out := ""
	for x := s; x != InvalidIndex; x = d.m.nodes[x].parent {
		nd := &d.m.nodes[x]
		out += fmt.Sprintf("%d(%s", x, c13KindNames[nd.kind])
		if nd.hasName() {
			out += fmt.Sprintf(" %q", nd.name[:])
		}
		out += ")"
		if nd.parent != InvalidIndex {
			out += " <- "
		}
	}
	return out
}

func (d *c13Driver) findViolation(p c13Parsed, kind string, scope uint32, e []byte, got uint32, acc []uint32) {
	d.bad = true
	sig := "find:" + c13ClassNames[p.class] + ":" + kind
	// Diagnosis: if the answer is exactly what the search rules give once the
	// names left behind in recycled slots are taken for real names, report
	// the whole family under one signature (still a violation).
	if kind != "returned-dead-slot" {
		d.m.leftoversVisible = true
		_, acc2, _ := d.m.c13Resolve(scope, e)
		d.m.leftoversVisible = false
		if c13In(acc2, got) {
			sig = "find:leftover-name-of-freed-object-still-matches"
		}
	}
	gotDesc := "not found"
	if got != InvalidIndex {
		gotDesc = fmt.Sprintf("slot %d", got)
		if d.m.isLive(got) {
			gotDesc += " = " + d.chain(got)
		}
	}
	d.c.Violation(sig, map[string]interface{}{
		"scope": d.chain(scope), "expr_hex": vlib.Hex(e), "expr": fmt.Sprintf("%q", e), "shape": p.why,
		"find_returned": gotDesc, "acceptable": c13I32(acc), "tree": d.dump(), "last_ops": d.tail(),
	})
}

// dump renders the reference tree (small: at most a few dozen nodes).
func (d *c13Driver) dump() []string {
	var out []string
	var rec func(i uint32, ind string)
	rec = func(i uint32, ind string) {
		nd := &d.m.nodes[i]
		s := fmt.Sprintf("%s%d %s", ind, i, c13KindNames[nd.kind])
		if nd.hasName() {
			s += fmt.Sprintf(" %q", nd.name[:])
		}
		out = append(out, s)
		for _, k := range nd.kids {
			rec(k, ind+"  ")
		}
	}
	for i := range d.m.nodes {
		if d.m.nodes[i].live && d.m.nodes[i].parent == InvalidIndex {
			rec(uint32(i), "")
		}
	}
	if len(out) > 120 {
		out = out[:120]
	}
	return out
}

func c13NewDriver(c *vlib.Case, run *vlib.Run) *c13Driver {
	d := &c13Driver{c: c, run: run, r: c.R, tree: NewObjectTree(), m: &c13Model{}, fp: vlib.NewFP()}
	return d
}

// root creates pool slot 0, the root scope, the way CreateDefaultScopes does.
func (d *c13Driver) root() bool {
	slot, ok := d.opNew(c13KindNamed, [amlNameLen]byte{'\\'}, true)
	if ok && slot != 0 {
		d.violation("new:root-slot", fmt.Sprintf("first object of a new tree got slot %d", slot))
		return false
	}
	return ok
}

func TestVerifC13(t *testing.T) {
	run := vlib.Start(t, "C13")
	defer run.Finish()
	run.SetRule("case = a fresh ObjectTree driven through a random history of 20-300 editing steps (newObject/newNamedObject, append, appendAfter, detach, free, relocate = detach+attach; grow/churn/shrink phases; named objects, nameless operators, scope directives, field units and nameless scope blocks; names mostly from 5 fixed names, otherwise over the letters A Z _ 0 9; 3 of 4 cases keep named siblings distinct) with every pool slot compared with a reference tree after every operation, and 2-5 lookup rounds in which Find is compared with an independent resolver for every (live scope, expression) pair over 30-90 generated expressions (no/root/caret prefixes, 0-5 segments, concatenated or dual/multi-prefixed, truncated, with embedded prefix bytes, wrong counts, junk) plus 22 fixed ones; non-trivial = the history reused a freed slot, inserted into the middle of a child list, removed a middle child, and its lookups gave at least one strict hit and one strict miss; distinct = fingerprint of the operation list and expressions")
	run.Assume("preconditions documented in obj_tree.go are respected: only parentless objects are attached, never under themselves or a descendant, appendAfter's anchor is a child of the target, only childless objects are freed, slot 0 (root) is never freed or attached; scopes handed to Find are live objects")
	run.Assume("an object is 'named' iff its creator gave it a name (newNamedObject, or newObject followed by filling in the name as the parser does); an object created by newObject without a name has none, whatever its pool slot held before")
	run.Note("LIFO order of slot reuse is counted (reuse_most_recently_freed / reuse_other_freed_slot) but not demanded: the statement only requires reuse before growth")

	c13FixedCases(run) // first, so that the smallest reproducer represents a signature

	var agg struct{ cases, reuses, midInserts, midDetaches, found, notFound int }
	nCases := run.N(3000, 300000)
	run.Cases(nCases, func(c *vlib.Case) {
		r := c.R
		d := c13NewDriver(c, run)
		steps := r.Range(20, 300)
		maxLive := r.Range(3, 60)
		if r.Chance(1, 10) {
			maxLive = r.Range(60, 140)
		}
		d.uniq = !r.Chance(1, 4)
		rounds := r.Range(2, 5)
		nExpr := r.Range(30, 90)
		c.Begin(map[string]interface{}{"steps": steps, "max_live": maxLive, "unique_sibling_names": d.uniq, "lookup_rounds": rounds, "exprs_per_round": nExpr})
		defer func() { // whatever way the case ends
			agg.cases++
			agg.reuses += d.reuses
			agg.midInserts += d.midInserts
			agg.midDetaches += d.midDetaches
			agg.found += d.lookFound
			agg.notFound += d.lookNotFound
		}()
		if !d.root() {
			return
		}
		mode := 0
		nextLookup := steps / rounds
		for s := 0; s < steps && !d.bad; s++ {
			if s > 0 && r.Chance(1, 25) {
				mode = r.Intn(3)
			}
			if !d.step(mode, maxLive) {
				return
			}
			if !d.requery() {
				return
			}
			if s == nextLookup {
				if !d.lookups(nExpr) {
					return
				}
				nextLookup += steps / rounds
			}
		}
		if d.bad || !d.lookups(nExpr) {
			return
		}
		if d.uniq {
			run.Count("cases_unique_sibling_names", 1)
		} else {
			run.Count("cases_duplicate_sibling_names_allowed", 1)
		}
		if d.reuses > 0 && d.midInserts > 0 && d.midDetaches > 0 && d.lookFound > 0 && d.lookNotFound > 0 {
			run.Nontrivial(d.fp)
		}
		if run.WantSample() && d.reuses > 0 && d.nops > 12 {
			run.Sample(map[string]interface{}{"first_ops": d.first, "ops": d.nops, "final_tree": d.dump(), "strict_hits": d.lookFound, "strict_misses": d.lookNotFound})
		}
	})

	// facets that are the point of the harness (whole runs only)
	if !run.Single() && !run.Replay && agg.cases > 0 {
		if agg.reuses == 0 {
			run.Inconclusive("no freed slot was ever reused")
		}
		if agg.midInserts == 0 || agg.midDetaches == 0 {
			run.Inconclusive("no insertion into / removal from the middle of a child list")
		}
		if agg.found == 0 || agg.notFound == 0 {
			run.Inconclusive("strict lookups did not produce both hits and misses")
		}
	}
}

func c13FixedCases(run *vlib.Run) {
	// Fixed 1: the tree of the ACPI 6.2 example (p. 252) that the repository's
	// own test uses, full cross product of scopes and a systematic expression set.
	run.OneCase(vlib.FixedBase+1, func(c *vlib.Case) {
		d := c13NewDriver(c, run)
		c.Begin("ACPI 6.2 p.252 example tree; systematic expressions")
		if !d.root() {
			return
		}
		mk := func(parent uint32, name string) uint32 {
			var nm [amlNameLen]byte
			copy(nm[:], name)
			s, ok := d.opNew(c13KindNamed, nm, true)
			if !ok || !d.opAppend(parent, s) {
				return InvalidIndex
			}
			return s
		}
		sb := mk(0, "_SB_")
		if sb == InvalidIndex {
			return
		}
		pci := mk(sb, "PCI0")
		if pci == InvalidIndex {
			return
		}
		if mk(pci, "_CRS") == InvalidIndex {
			return
		}
		ide := mk(pci, "IDE0")
		if ide == InvalidIndex {
			return
		}
		if mk(ide, "_ADR") == InvalidIndex || mk(0, "_CRS") == InvalidIndex || mk(sb, "IDE0") == InvalidIndex {
			return
		}
		names := []string{"_SB_", "PCI0", "IDE0", "_ADR", "_CRS", "XXXX"}
		var exprs [][]byte
		prefixes := []string{"", "\\", "^", "^^", "^^^", "^^^^"}
		for _, pf := range prefixes {
			exprs = append(exprs, []byte(pf))
			for _, a := range names {
				exprs = append(exprs, []byte(pf+a), []byte(pf+a[:3]))
				for _, b := range names {
					exprs = append(exprs, []byte(pf+a+b), []byte(pf+"\x2e"+a+b), []byte(pf+"\x2f\x02"+a+b), []byte(pf+a+b[:2]))
					for _, cc := range names[:5] {
						exprs = append(exprs, []byte(pf+a+b+cc), []byte(pf+"\x2f\x03"+a+b+cc))
					}
				}
			}
		}
		save := c13FixedExprs
		c13FixedExprs = append(append([][]byte(nil), save...), exprs...)
		defer func() { c13FixedExprs = save }()
		d.lookups(0)
		if d.lookFound > 0 && d.lookNotFound > 0 {
			run.Nontrivial(d.fp)
		}
	})

	// Fixed 2: a nameless object in a reused slot must not answer to the name
	// of the freed object that occupied the slot before.
	run.OneCase(vlib.FixedBase+2, func(c *vlib.Case) {
		d := c13NewDriver(c, run)
		c.Begin("free a named object, allocate a nameless one in its slot, look the old name up")
		if !d.root() {
			return
		}
		dev, ok := d.opNew(c13KindNamed, [amlNameLen]byte{'D', 'E', 'V', '0'}, true)
		if !ok || !d.opAppend(0, dev) || !d.opFree(dev) {
			return
		}
		op, ok := d.opNew(c13KindPlain, [amlNameLen]byte{}, false)
		if !ok || !d.opAppend(0, op) {
			return
		}
		save := c13FixedExprs
		c13FixedExprs = [][]byte{[]byte("DEV0"), []byte("\\DEV0"), []byte("^DEV0")}
		defer func() { c13FixedExprs = save }()
		d.lookups(0)
	})

	// Fixed 3: a chain as deep as caret runs get: '^' x depth reaches the top, one more fails.
	run.OneCase(vlib.FixedBase+3, func(c *vlib.Case) {
		d := c13NewDriver(c, run)
		c.Begin("chain of 40 nested scopes; caret runs of 0..45")
		if !d.root() {
			return
		}
		cur := uint32(0)
		for i := 0; i < 40; i++ {
			s, ok := d.opNew(c13KindNamed, c13CommonNames[i%2], i%3 == 0)
			if !ok || !d.opAppend(cur, s) {
				return
			}
			cur = s
		}
		var exprs [][]byte
		for k := 0; k <= 45; k++ {
			e := make([]byte, k)
			for i := range e {
				e[i] = '^'
			}
			exprs = append(exprs, e, append(append([]byte(nil), e...), "AAAA"...), append(append([]byte(nil), e...), "AAAABAAA"...))
		}
		save := c13FixedExprs
		c13FixedExprs = exprs
		defer func() { c13FixedExprs = save }()
		d.lookups(0)
	})

	// Fixed 5: the longest paths there are. A chain of 262 nested scopes; paths of 254 and 255 segments (the most a
	// MultiNamePath can announce), spelled with the multi-name prefix and as plain runs, behind 0-4 parent prefixes.
	run.OneCase(vlib.FixedBase+5, func(c *vlib.Case) {
		d := c13NewDriver(c, run)
		c.Begin("chain of 262 nested scopes; 254- and 255-segment paths behind 0-4 parent prefixes")
		if !d.root() {
			return
		}
		cur := uint32(0)
		for i := 0; i < 262; i++ {
			s, ok := d.opNew(c13KindNamed, c13CommonNames[i%2], i%3 == 0)
			if !ok || !d.opAppend(cur, s) {
				return
			}
			cur = s
		}
		var exprs [][]byte
		for carets := 0; carets <= 4; carets++ {
			for parity := 0; parity < 2; parity++ {
				for _, nseg := range []int{254, 255} {
					var segs []byte
					for i := 0; i < nseg; i++ {
						segs = append(segs, c13CommonNames[(i+parity)%2][:]...)
					}
					pre := make([]byte, carets)
					for i := range pre {
						pre[i] = '^'
					}
					exprs = append(exprs, append(append(append([]byte(nil), pre...), 0x2f, byte(nseg)), segs...), append(append([]byte(nil), pre...), segs...))
				}
			}
		}
		save := c13FixedExprs
		c13FixedExprs = exprs
		defer func() { c13FixedExprs = save }()
		d.lookups(0)
	})

	// Fixed 4 (observation, not a verdict of this property): the trees the
	// parser builds from the shipped tables pass c13CheckTreeInvariants. This
	// is what C11/C12 rely on when they reuse the checker; here it only guards
	// against the checker demanding more than real parser output satisfies.
	run.OneCase(vlib.FixedBase+4, func(c *vlib.Case) {
		c.Begin("shipped DSDT/SSDT and parser-testsuite tables through c13CheckTreeInvariants")
		for _, files := range [][]string{{"DSDT.aml", "SSDT.aml"}, {"parser-testsuite-DSDT.aml"}} {
			resolver := mockResolver{pathToDumps: "../table/tabletest/", tableFiles: files}
			tree := NewObjectTree()
			tree.CreateDefaultScopes(42)
			p := NewParser(ioutil.Discard, tree)
			for i, f := range files {
				name := strings.Replace(f, ".aml", "", -1)
				var hdr *table.SDTHeader
				if pv, _ := vlib.Protect(func() { hdr = resolver.LookupTable(name) }); pv != nil || hdr == nil {
					run.Count("shipped_tables_not_readable", 1)
					return
				}
				if err := p.ParseAML(uint8(i), name, hdr); err != nil {
					run.Note("shipped table " + name + " did not parse: " + err.Message)
					return
				}
			}
			run.Count("shipped_table_trees_checked", 1)
			run.Count("shipped_table_tree_slots", int64(len(tree.objPool)))
			if problem := c13CheckTreeInvariants(tree); problem != "" {
				run.Count("shipped_table_trees_with_checker_problem", 1)
				run.Note("c13CheckTreeInvariants on the tree parsed from " + strings.Join(files, "+") + ": " + problem)
			}
		}
	})
}
