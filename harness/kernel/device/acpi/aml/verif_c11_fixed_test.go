//go:build verif
// +build verif

package aml

import (
	"fmt"
	"strings"

	"github.com/ProjectSerenity/firefly/kernel/zzverif/vlib"
)

// Fixed reproducers for C11: one per repaired defect (regression cases, they
// must pass) and one per open finding (re-executed on every run; while they
// still fail with the recorded signature vcheck prints KNOWN-FINDING).

func fxCat(parts ...[]byte) []byte {
	var b []byte
	for _, p := range parts {
		b = append(b, p...)
	}
	return b
}

func fxPkg(op []byte, body ...[]byte) []byte {
	bb := fxCat(body...)
	return fxCat(op, c11PkgLenEnc(len(bb), 0), bb)
}

func fxPkgEnc(op []byte, enc int, body ...[]byte) []byte {
	bb := fxCat(body...)
	return fxCat(op, c11PkgLenEnc(len(bb), enc), bb)
}

// fxBigMethod is Method(MAA1,0){<pad Noops> Return(One)} Name(NAA0,1) with the method's length in the given encoding.
func fxBigMethod(pad, enc int) []byte {
	noops := make([]byte, pad)
	for i := range noops {
		noops[i] = byte(pOpNoop)
	}
	return fxCat(fxPkgEnc([]byte{byte(pOpMethod)}, enc, fxNS("", "MAA1"), []byte{0}, noops, []byte{byte(pOpReturn), byte(pOpOne)}), fxName(fxNS("", "NAA0"), fxOne...))
}

func fxBigMethodCheck(tree *ObjectTree) string {
	if s := fxWant("\\MAA1", "\\NAA0")(tree); s != "" {
		return s
	}
	return fxOperands("\\MAA1", pOpReturn, 1)(tree)
}

func fxNS(prefix string, segs ...string) []byte { return c11NameString(prefix, segs...) }

func fxName(name []byte, data ...byte) []byte { return fxCat([]byte{byte(pOpName)}, name, data) }
func fxDev(name []byte, body ...[]byte) []byte {
	return fxPkg(c11OpBytes(pOpDevice), append([][]byte{name}, body...)...)
}
func fxScope(name []byte, body ...[]byte) []byte {
	return fxPkg([]byte{byte(pOpScope)}, append([][]byte{name}, body...)...)
}
func fxMethod(name []byte, flags byte, body ...[]byte) []byte {
	return fxPkg([]byte{byte(pOpMethod)}, append([][]byte{name, {flags}}, body...)...)
}

var fxOne = []byte{0x0a, 0x01}

// fxAt walks an absolute path ("\\_SB_.DAA0.NAA0") through the tree; the scope
// of a Device/Method/... is its scope block.
func fxAt(tree *ObjectTree, path string) *Object {
	cur := tree.ObjectAt(0)
	path = strings.TrimPrefix(path, "\\")
	if path == "" {
		return cur
	}
	for _, seg := range strings.Split(path, ".") {
		var next *Object
		for _, k := range c11ScopeKids(tree, cur) {
			if c11IsNamedOp(k.opcode) && string(k.name[:]) == seg {
				if next != nil {
					return nil
				}
				next = k
			}
		}
		if next == nil {
			return nil
		}
		cur = next
	}
	return cur
}

// fxWhere lists where objects with the given final segment ended up.
func fxWhere(tree *ObjectTree, seg string) string {
	var out []string
	var rec func(o *Object, path string, depth int)
	rec = func(o *Object, path string, depth int) {
		if depth > 12 {
			return
		}
		for _, k := range c11ScopeKids(tree, o) {
			if c11IsNamedOp(k.opcode) && k.opcode != pOpIntScopeBlock || (k.opcode == pOpIntScopeBlock && k.name[0] != 0) {
				p := path + "." + string(k.name[:])
				if string(k.name[:]) == seg {
					out = append(out, strings.TrimPrefix(p, "."))
				}
				rec(k, p, depth+1)
			}
		}
	}
	rec(tree.ObjectAt(0), "", 0)
	if len(out) == 0 {
		return "nowhere"
	}
	return "\\" + strings.Join(out, ", \\")
}

type fxCase struct {
	id     string
	what   string
	tables [][]byte
	// check returns "" when the tree is right, otherwise a short stable observation
	check func(tree *ObjectTree) string
}

func fxWant(paths ...string) func(tree *ObjectTree) string {
	return func(tree *ObjectTree) string {
		for _, p := range paths {
			if fxAt(tree, p) == nil {
				seg := p[strings.LastIndexAny(p, ".\\")+1:]
				return fmt.Sprintf("%s-not-at-%s-but-at-%s", seg, p, fxWhere(tree, seg))
			}
		}
		return ""
	}
}

// fxCallArgs finds the first method call inside method mpath whose target is named callee and
// checks the opcodes of its arguments.
func fxCallArgs(mpath, callee string, argOps ...uint16) func(tree *ObjectTree) string {
	return func(tree *ObjectTree) string {
		m := fxAt(tree, mpath)
		if m == nil {
			return "method-" + mpath + "-missing"
		}
		var all []*Object
		budget := 100000
		c11Preorder(tree, m, &all, &budget)
		for _, o := range all {
			if o.opcode != pOpIntMethodCall {
				continue
			}
			t := tree.ObjectAt(o.value.(uint32))
			if t == nil || string(t.name[:]) != callee {
				continue
			}
			kids := c11Kids(tree, o)
			if len(kids) != len(argOps) {
				return fmt.Sprintf("call-to-%s-has-%d-args-want-%d", callee, len(kids), len(argOps))
			}
			for i, k := range kids {
				if k.opcode != argOps[i] {
					return fmt.Sprintf("call-to-%s-arg-%d-is-%s", callee, i, strings.Replace(pOpcodeName(k.opcode), " ", "", -1))
				}
			}
			return ""
		}
		return "no-call-to-" + callee + "-in-" + mpath
	}
}

// fxOperands finds the first object with the given opcode inside method mpath and checks its operand count.
func fxOperands(mpath string, op uint16, want int) func(tree *ObjectTree) string {
	return func(tree *ObjectTree) string {
		m := fxAt(tree, mpath)
		if m == nil {
			return "method-" + mpath + "-missing"
		}
		var all []*Object
		budget := 100000
		c11Preorder(tree, m, &all, &budget)
		for _, o := range all {
			if o.opcode == op {
				if n := len(c11Kids(tree, o)); n != want {
					return fmt.Sprintf("%s-has-%d-operands-want-%d", strings.Replace(pOpcodeName(op), " ", "", -1), n, want)
				}
				return ""
			}
		}
		return "no-" + strings.Replace(pOpcodeName(op), " ", "", -1) + "-in-" + mpath
	}
}

func c11FixedCases() []fxCase {
	ret0 := fxMethod(fxNS("", "MAA0"), 1, []byte{byte(pOpReturn), byte(pOpArg0)}) // Method(MAA0,1){Return(Arg0)}
	return []fxCase{
		// ---- repaired defects (must pass) ----
		{id: "F1-scope-root", what: "Scope(\\){Name(NAA0,1)}: the root path written as '\\' NullName was decoded as an empty string",
			tables: [][]byte{fxScope(fxNS("\\"), fxName(fxNS("", "NAA0"), fxOne...))},
			check:  fxWant("\\NAA0")},
		{id: "F7-nested-call-in-deferred-operator", what: "While(LEqual(MAA0(Arg0), Zero)){Break}: a call nested in an operator inside a deferred block was looked up from an unattached object",
			tables: [][]byte{fxCat(ret0, fxMethod(fxNS("", "MAA1"), 1,
				fxPkg([]byte{byte(pOpWhile)}, []byte{byte(pOpLEqual)}, fxNS("", "MAA0"), []byte{byte(pOpArg0), 0x00}, []byte{byte(pOpBreak)})))},
			check: fxCallArgs("\\MAA1", "MAA0", pOpArg0)},
		{id: "F6-call-with-operator-argument", what: "MAA0(Add(1,2)) as the last statement: the call took its siblings before Add had taken its operands",
			tables: [][]byte{fxCat(ret0, fxMethod(fxNS("", "MAA1"), 0, fxNS("", "MAA0"), []byte{byte(pOpAdd), 0x0a, 1, 0x0a, 2, 0x00}))},
			check: func(tree *ObjectTree) string {
				if s := fxCallArgs("\\MAA1", "MAA0", pOpAdd)(tree); s != "" {
					return s
				}
				if p := c13CheckTreeInvariants(tree); p != "" {
					return "tree-" + strings.SplitN(p, ":", 2)[0]
				}
				return ""
			}},
		{id: "F6b-call-with-two-operator-arguments", what: "MAA2(Divide(Local4,8,,), Not(1,)): the call took Divide and Local4",
			tables: [][]byte{fxCat(fxMethod(fxNS("", "MAA2"), 2, []byte{byte(pOpReturn), byte(pOpArg1)}),
				fxMethod(fxNS("", "MAA1"), 0, fxNS("", "MAA2"), []byte{byte(pOpDivide), byte(pOpLocal4), 0x0a, 8, 0, 0}, []byte{byte(pOpNot), 0x0a, 1, 0}, []byte{byte(pOpIncrement), byte(pOpLocal0)}))},
			check: fxCallArgs("\\MAA1", "MAA2", pOpDivide, pOpNot)},
		{id: "F3-pending-name-visible", what: "Name(DAA0.NAA0,1) relocated into Device(DAA2.DAA0), which was still waiting for its own relocation but already answered to 'DAA0'",
			tables: [][]byte{fxCat(fxDev(fxNS("", "DAA2")), fxScope(fxNS("\\"), fxDev(fxNS("", "DAA2", "DAA0")), fxDev(fxNS("", "DAA0"))), fxName(fxNS("", "DAA0", "NAA0"), fxOne...))},
			check:  fxWant("\\DAA0.NAA0", "\\DAA2.DAA0", "\\DAA0")},
		{id: "F2-caret-inside-unmerged-scope", what: "Scope(\\_SI_){Device(^DAB1){}} Scope(DAB1){Scope(\\_PR_){Device(^DAA0){}}}: '^' was consumed against the block of the unmerged Scope directive",
			tables: [][]byte{fxCat(fxScope(fxNS("\\", "_SI_"), fxDev(fxNS("^", "DAB1"))), fxScope(fxNS("", "DAB1"), fxScope(fxNS("\\", "_PR_"), fxDev(fxNS("^", "DAA0")))))},
			check:  fxWant("\\DAB1", "\\DAA0")},
		{id: "F4-scope-inside-pending-object", what: "Device(DAA1){} Device(DAA1.DAA1){Scope(DAA1){Name(NAA0,1)}}: the Scope directive was resolved from where the device is written, not from where it belongs",
			tables: [][]byte{fxCat(fxDev(fxNS("", "DAA1")), fxDev(fxNS("", "DAA1", "DAA1"), fxScope(fxNS("", "DAA1"), fxName(fxNS("", "NAA0"), fxOne...))))},
			check:  fxWant("\\DAA1.DAA1.NAA0")},
		{id: "F5-progress-through-merges", what: "a chain of Scope directives that becomes resolvable one merge per pass was given up after a pass without relocations",
			tables: [][]byte{fxCat(
				fxDev(fxNS("\\", "DAA2"), fxScope(fxNS("\\"), fxDev(fxNS("", "DAB0")))),
				fxScope(fxNS("\\"), fxScope(fxNS("", "DAB0"), fxScope(fxNS("\\"), fxDev(fxNS("", "DAB1"))))),
				fxScope(fxNS("", "DAB1"), fxName(fxNS("", "NAA0"), fxOne...)))},
			check: fxWant("\\DAA2", "\\DAB0", "\\DAB1", "\\DAB1.NAA0")},

		{id: "R1-deferred-blocks-keep-their-extent", what: "Method(MAA1){While(Local0<10){Increment(Local0) Sleep(1)} Return(Local0)} Name(NAA0,4) Name(NAA1,Buffer(NAA0){}) Scope(\\_SB_){Method(MAA2,1){While(Arg0<8){Increment(Arg0) If(Arg0==5){Break}} Return(Arg0)}} Name(NAA2,1): MAA2 is written after MAA1 and NAA1 but visited before them; each deferred block keeps its own extent",
			tables: [][]byte{fxCat(
				fxMethod(fxNS("", "MAA1"), 0,
					fxPkg([]byte{byte(pOpWhile)}, []byte{byte(pOpLLess), byte(pOpLocal0), 0x0a, 10}, []byte{byte(pOpIncrement), byte(pOpLocal0)}, c11OpBytes(pOpSleep), fxOne),
					[]byte{byte(pOpReturn), byte(pOpLocal0)}),
				fxName(fxNS("", "NAA0"), 0x0a, 4),
				fxCat([]byte{byte(pOpName)}, fxNS("", "NAA1"), fxPkg([]byte{byte(pOpBuffer)}, fxNS("", "NAA0"))),
				fxScope(fxNS("\\", "_SB_"), fxMethod(fxNS("", "MAA2"), 1,
					fxPkg([]byte{byte(pOpWhile)}, []byte{byte(pOpLLess), byte(pOpArg0), 0x0a, 8}, []byte{byte(pOpIncrement), byte(pOpArg0)},
						fxPkg([]byte{byte(pOpIf)}, []byte{byte(pOpLEqual), byte(pOpArg0), 0x0a, 5}, []byte{byte(pOpBreak)})),
					[]byte{byte(pOpReturn), byte(pOpArg0)})),
				fxName(fxNS("", "NAA2"), fxOne...))},
			check: func(tree *ObjectTree) string {
				if s := fxWant("\\MAA1", "\\NAA0", "\\NAA1", "\\_SB_.MAA2", "\\NAA2")(tree); s != "" {
					return s
				}
				var all []*Object
				budget := 100000
				c11Preorder(tree, fxAt(tree, "\\MAA1"), &all, &budget)
				for _, o := range all {
					if o.opcode == pOpWhile {
						kids := c11Kids(tree, o)
						if len(kids) != 2 {
							return fmt.Sprintf("while-of-MAA1-has-%d-operands", len(kids))
						}
						if n := len(c11Kids(tree, kids[1])); n != 2 {
							return fmt.Sprintf("while-body-of-MAA1-has-%d-statements-want-2", n)
						}
					}
				}
				all = all[:0]
				c11Preorder(tree, fxAt(tree, "\\NAA1"), &all, &budget)
				for _, o := range all {
					if o.opcode == pOpIntByteList {
						if b, _ := o.value.([]byte); len(b) != 0 {
							return fmt.Sprintf("empty-buffer-initialiser-of-NAA1-has-%d-bytes", len(b))
						}
					}
				}
				if p := c13CheckTreeInvariants(tree); p != "" {
					return "tree-" + strings.SplitN(p, ":", 2)[0]
				}
				return ""
			}},

		{id: "R2-pkglen-3-bytes-70000", what: "a method of 70 000 bytes (3-byte package length, all three bytes in use) followed by a Name", tables: [][]byte{fxBigMethod(70000, 3)}, check: fxBigMethodCheck},
		{id: "R3-pkglen-4-bytes-5000", what: "a method of 5 000 bytes written with the 4-byte package length (second length byte in use)", tables: [][]byte{fxBigMethod(5000, 4)}, check: fxBigMethodCheck},
		{id: "R4-pkglen-4-bytes-70000", what: "a method of 70 000 bytes written with the 4-byte package length (third length byte in use)", tables: [][]byte{fxBigMethod(70000, 4)}, check: fxBigMethodCheck},
		{id: "R5-pkglen-4-bytes-1100000", what: "a method of 1 100 000 bytes (4-byte package length, all four bytes in use) followed by a Name", tables: [][]byte{fxBigMethod(1100000, 4)}, check: fxBigMethodCheck},

		{id: "T1-increment-index", what: "Increment(Index(Arg0, 1, )): a Type6 opcode where a SuperName is expected", tables: [][]byte{fxMethod(fxNS("", "MAA1"), 1, []byte{byte(pOpIncrement), byte(pOpIndex), byte(pOpArg0), 0x0a, 1, 0x00})}, check: fxOperands("\\MAA1", pOpIndex, 3)},
		{id: "T2-increment-derefof", what: "Increment(DerefOf(Arg0))", tables: [][]byte{fxMethod(fxNS("", "MAA1"), 1, []byte{byte(pOpIncrement), byte(pOpDerefOf), byte(pOpArg0)})}, check: fxOperands("\\MAA1", pOpDerefOf, 1)},
		{id: "T3-increment-refof", what: "Increment(RefOf(Local0))", tables: [][]byte{fxMethod(fxNS("", "MAA1"), 1, []byte{byte(pOpIncrement), byte(pOpRefOf), byte(pOpLocal0)})}, check: fxOperands("\\MAA1", pOpRefOf, 1)},
		{id: "T4-sizeof-derefof-then-statement", what: "SizeOf(DerefOf(Arg0)) Increment(Local0): DerefOf takes exactly its operand", tables: [][]byte{fxMethod(fxNS("", "MAA1"), 1, []byte{byte(pOpSizeOf), byte(pOpDerefOf), byte(pOpArg0), byte(pOpIncrement), byte(pOpLocal0)})}, check: fxOperands("\\MAA1", pOpDerefOf, 1)},
		{id: "T5-notify-derefof-index", what: "Notify(DerefOf(Index(Arg0, 1, )), 0x80)", tables: [][]byte{fxMethod(fxNS("", "MAA1"), 1, []byte{byte(pOpNotify), byte(pOpDerefOf), byte(pOpIndex), byte(pOpArg0), 0x0a, 1, 0x00, 0x0a, 0x80})}, check: fxOperands("\\MAA1", pOpNotify, 2)},
		{id: "T6-store-to-index", what: "Store(1, Index(Arg0, 1, ))", tables: [][]byte{fxMethod(fxNS("", "MAA1"), 1, []byte{byte(pOpStore), 0x0a, 1, byte(pOpIndex), byte(pOpArg0), 0x0a, 1, 0x00})}, check: fxOperands("\\MAA1", pOpIndex, 3)},
		{id: "T7-increment-index-then-statement", what: "Increment(Index(Arg0, 1, )) Increment(Local0)", tables: [][]byte{fxMethod(fxNS("", "MAA1"), 1, []byte{byte(pOpIncrement), byte(pOpIndex), byte(pOpArg0), 0x0a, 1, 0x00, byte(pOpIncrement), byte(pOpLocal0)})}, check: fxOperands("\\MAA1", pOpIndex, 3)},
		{id: "T8-store-to-derefof-index", what: "Store(1, DerefOf(Index(Arg0, 1, )))", tables: [][]byte{fxMethod(fxNS("", "MAA1"), 1, []byte{byte(pOpStore), 0x0a, 1, byte(pOpDerefOf), byte(pOpIndex), byte(pOpArg0), 0x0a, 1, 0x00})}, check: fxOperands("\\MAA1", pOpStore, 2)},
		{id: "T9-add-with-index-target", what: "Add(1, 2, Index(Arg0, 1, ))", tables: [][]byte{fxMethod(fxNS("", "MAA1"), 1, []byte{byte(pOpAdd), 0x0a, 1, 0x0a, 2, byte(pOpIndex), byte(pOpArg0), 0x0a, 1, 0x00})}, check: fxOperands("\\MAA1", pOpAdd, 3)},
		{id: "F10-type6-inside-refof", what: "Increment(RefOf(DerefOf(Arg0))): the operand of a Type6 opcode nested two SuperNames deep was looked for one level up only and the table was rejected", tables: [][]byte{fxMethod(fxNS("", "MAA1"), 1, []byte{byte(pOpIncrement), byte(pOpRefOf), byte(pOpDerefOf), byte(pOpArg0)})}, check: fxOperands("\\MAA1", pOpDerefOf, 1)},
		{id: "F11-name-below-type6-target-in-deferred-block", what: "Name(NAA0,1) Method(MAA1,0){While(One){ToHexString(0x51, DerefOf(NAA0))}}: a name below a Type6 opcode written as a target inside a deferred block was looked up from an unattached object",
			tables: [][]byte{fxCat(fxName(fxNS("", "NAA0"), fxOne...), fxMethod(fxNS("", "MAA1"), 0,
				fxPkg([]byte{byte(pOpWhile)}, []byte{byte(pOpOne)}, []byte{byte(pOpToHexString), 0x0a, 0x51, byte(pOpDerefOf)}, fxNS("", "NAA0"))))},
			check: fxOperands("\\MAA1", pOpDerefOf, 1)},
		{id: "F12-absolute-name-inside-a-late-scope", what: "Device(DAA0){} Scope(DAA0){Device(\\DAA1){}} Scope(DAA1){Device(\\DAA2){}} ... Scope(DAB3){OpRegion(\\RAA0,...)}: an absolutely named object does not have to wait until the chain of Scope directives around it has been resolved link by link (more links than the resolve-pass limit)",
			tables: [][]byte{func() []byte {
				names := []string{"DAA0", "DAA1", "DAA2", "DAB0", "DAB1", "DAB2", "DAB3", "DAB4"}
				t := fxDev(fxNS("", names[0]))
				for i := 0; i+1 < len(names); i++ {
					t = fxCat(t, fxScope(fxNS("", names[i]), fxDev(fxNS("\\", names[i+1]))))
				}
				return fxCat(t, fxScope(fxNS("", names[len(names)-1]), fxCat(c11OpBytes(pOpOpRegion), fxNS("\\", "RAA0"), []byte{0, 0x0a, 0, 0x0a, 0x10})))
			}()},
			check: fxWant("\\DAA0", "\\DAA1", "\\DAB0", "\\DAB4", "\\RAA0")},
		{id: "R6-literal-bytes", what: "a table written as the literal bytes the ACPI specification assigns (no opcode constant of the package is used to build it): Scope(\\_SB_){Device(DAA0){Name Method Mutex Event OpRegion Field} Processor PowerResource ThermalZone}",
			tables: [][]byte{func() []byte {
				pk := func(op []byte, body ...[]byte) []byte {
					b := fxCat(body...)
					if len(b)+1 <= 0x3f {
						return fxCat(op, []byte{byte(len(b) + 1)}, b)
					}
					l := len(b) + 2 // two-byte PkgLength: 0x40 | low nibble, then bits 4-11
					return fxCat(op, []byte{0x40 | byte(l&0xf), byte(l >> 4)}, b)
				}
				dev := pk([]byte{0x5b, 0x82}, []byte("DAA0"),
					[]byte{0x08, 'N', 'A', 'A', '0', 0x0a, 0x2a},
					pk([]byte{0x14}, []byte("MAA0"), []byte{0x01}, []byte{0xa4, 0x68}),
					[]byte{0x5b, 0x01, 'X', 'A', 'A', '0', 0x00},
					[]byte{0x5b, 0x02, 'E', 'A', 'A', '0'},
					[]byte{0x5b, 0x80, 'R', 'A', 'A', '0', 0x00, 0x0a, 0x00, 0x0a, 0x10},
					pk([]byte{0x5b, 0x81}, []byte("RAA0"), []byte{0x00}, []byte("FAA0"), []byte{0x08}))
				return pk([]byte{0x10}, []byte{0x5c, '_', 'S', 'B', '_'}, dev,
					pk([]byte{0x5b, 0x83}, []byte("PAA0"), []byte{0x01, 0, 0, 0, 0, 0x06}),
					pk([]byte{0x5b, 0x84}, []byte("WAA0"), []byte{0x00, 0x00, 0x00}),
					pk([]byte{0x5b, 0x85}, []byte("TAA0")))
			}()},
			check: func(tree *ObjectTree) string {
				for _, w := range [][2]string{{"\\_SB_.DAA0", "Device"}, {"\\_SB_.DAA0.NAA0", "Name"}, {"\\_SB_.DAA0.MAA0", "Method"}, {"\\_SB_.DAA0.XAA0", "Mutex"},
					{"\\_SB_.DAA0.EAA0", "Event"}, {"\\_SB_.DAA0.RAA0", "OpRegion"}, {"\\_SB_.PAA0", "Processor"}, {"\\_SB_.WAA0", "PowerRes"}, {"\\_SB_.TAA0", "ThermalZone"}} {
					o := fxAt(tree, w[0])
					if o == nil {
						return "missing-" + w[1]
					}
					if n := pOpcodeName(o.opcode); n != w[1] {
						return w[1] + "-parsed-as-" + strings.Replace(n, " ", "", -1)
					}
				}
				n := fxAt(tree, "\\_SB_.DAA0.NAA0")
				if kids := c11Kids(tree, n); len(kids) != 2 || kids[1].value != uint64(0x2a) {
					return "name-value-wrong"
				}
				return fxOperands("\\_SB_.DAA0.MAA0", 0xa4, 1)(tree)
			}},
		{id: "R7-opcode-constants-against-the-specification", what: "the bytes the generator writes for each of the 117 opcode constants of the package are the bytes the ACPI specification assigns (the generator and the parser share the constants, so a drifting constant would move both)",
			tables: [][]byte{fxName(fxNS("", "NAA0"), fxOne...)},
			check: func(tree *ObjectTree) string { return c11SpecCheck() }},
		// ---- open findings (expected to fail with the recorded observation) ----
		{id: "K15b-acquire-derefof-timeout", what: "Acquire(DerefOf(Arg0), 0xffff): the operands of DerefOf are left for the second pass, the timeout word is read from the bytes that follow DerefOf's opcode", tables: [][]byte{fxMethod(fxNS("", "MAA1"), 1, fxCat(c11OpBytes(pOpAcquire), []byte{byte(pOpDerefOf), byte(pOpArg0), 0xff, 0xff}))}, check: fxOperands("\\MAA1", pOpAcquire, 2)},
		{id: "K15c-condrefof-type6-then-second-name", what: "CondRefOf(DerefOf(Arg0), RefOf(Local0)): DerefOf's operand is taken as CondRefOf's second name, the real second name is left behind as a statement", tables: [][]byte{fxMethod(fxNS("", "MAA1"), 1, fxCat(c11OpBytes(pOpCondRefOf), []byte{byte(pOpDerefOf), byte(pOpArg0), byte(pOpRefOf), byte(pOpLocal0)}))}, check: fxOperands("\\MAA1", pOpCondRefOf, 2)},
		{id: "K1a-scope-below-device", what: "Scope(\\_SB_.DAA0.DAA1){Name(NAA0,1)}: a path with a segment below a Device never resolves",
			tables: [][]byte{fxCat(fxScope(fxNS("\\", "_SB_"), fxDev(fxNS("", "DAA0"), fxDev(fxNS("", "DAA1")))), fxScope(fxNS("\\", "_SB_", "DAA0", "DAA1"), fxName(fxNS("", "NAA0"), fxOne...)))},
			check:  fxWant("\\_SB_.DAA0.DAA1.NAA0")},
		{id: "K1b-call-through-device-path", what: "Return(\\_SB_.DAA0.MAA0(One)): the call stays a bare name path and its argument is left behind",
			tables: [][]byte{fxCat(fxScope(fxNS("\\", "_SB_"), fxDev(fxNS("", "DAA0"), ret0)),
				fxMethod(fxNS("", "MAA1"), 0, []byte{byte(pOpReturn)}, fxNS("\\", "_SB_", "DAA0", "MAA0"), []byte{byte(pOpOne)}))},
			check: fxCallArgs("\\MAA1", "MAA0", pOpOne)},
		{id: "K2-caret-inside-device-body", what: "Device(DAA0){Device(^DAA1){}}: the inner device must land at \\DAA1",
			tables: [][]byte{fxDev(fxNS("", "DAA0"), fxDev(fxNS("^", "DAA1")))},
			check:  fxWant("\\DAA1")},
		{id: "K6-if-with-empty-body", what: "Method(MAA1,0){If(One){}}: rejected (outside deferred blocks an If takes the statement that follows as its body)",
			tables: [][]byte{fxMethod(fxNS("", "MAA1"), 0, fxPkg([]byte{byte(pOpIf)}, []byte{byte(pOpOne)}))},
			check:  fxWant("\\MAA1")},
		{id: "K7-scope-resolved-before-relocation", what: "Device(DAA2){} Device(DAA1){Device(\\_GPE.DAA2){}} Scope(\\_GPE){Scope(DAA2){Name(NAA0,1)}}: the nearer \\_GPE.DAA2 is still waiting for its relocation when the Scope directive is resolved",
			tables: [][]byte{fxCat(fxDev(fxNS("", "DAA2")), fxDev(fxNS("", "DAA1"), fxDev(fxNS("\\", "_GPE", "DAA2"))), fxScope(fxNS("\\", "_GPE"), fxScope(fxNS("", "DAA2"), fxName(fxNS("", "NAA0"), fxOne...))))},
			check:  fxWant("\\_GPE.DAA2.NAA0")},
		{id: "K9-statements-after-nested-block-in-while-dropped", what: "While(One){If(One){Continue} MAA0(One)}: everything after a nested If inside a deferred block is dropped",
			tables: [][]byte{fxCat(ret0, fxMethod(fxNS("", "MAA1"), 0,
				fxPkg([]byte{byte(pOpWhile)}, []byte{byte(pOpOne)}, fxPkg([]byte{byte(pOpIf)}, []byte{byte(pOpOne), byte(pOpContinue)}), fxNS("", "MAA0"), []byte{byte(pOpOne)})))},
			check: fxCallArgs("\\MAA1", "MAA0", pOpOne)},
		{id: "K11-match-opcode-operands", what: "Return(Match(Arg0, MGT, 1, MTR, 2, 3)): the match opcodes are raw bytes that follow a TermArg and are read as AML opcodes in the first pass",
			tables: [][]byte{fxMethod(fxNS("", "MAA1"), 1, []byte{byte(pOpReturn), byte(pOpMatch), byte(pOpArg0), 5, 0x0a, 1, 0, 0x0a, 2, 0x0a, 3})},
			check:  fxOperands("\\MAA1", pOpMatch, 6)},
		{id: "K12-varpackage-element-count", what: "Store(VarPackage(2){1,2}, Local0): the element count of a VarPackage is a TermArg, the opcode table reads it as a raw byte",
			tables: [][]byte{fxMethod(fxNS("", "MAA1"), 0, []byte{byte(pOpStore)}, fxPkg([]byte{byte(pOpVarPackage)}, []byte{0x0a, 2, 0x0a, 1, 0x0a, 2}), []byte{byte(pOpLocal0)})},
			check:  fxOperands("\\MAA1", pOpStore, 2)},
		{id: "F8-tostring-length-operand", what: "Store(ToString(Arg0, 3, ), Local0): ToString takes a length operand before its target; the opcode table listed two operands",
			tables: [][]byte{fxMethod(fxNS("", "MAA1"), 1, []byte{byte(pOpStore), byte(pOpToString), byte(pOpArg0), 0x0a, 3, 0, byte(pOpLocal0)})},
			check: func(tree *ObjectTree) string {
				if s := fxOperands("\\MAA1", pOpToString, 3)(tree); s != "" {
					return s
				}
				return fxOperands("\\MAA1", pOpStore, 2)(tree)
			}},
		{id: "K13-loadtable-six-operands", what: "Store(LoadTable(\"A\",\"B\",\"C\",\"D\",\"E\",1), Local0): LoadTable has six operands, the opcode table lists seven, so it swallows what follows (pinned by the parser-testsuite dump)",
			tables: [][]byte{fxMethod(fxNS("", "MAA1"), 0, []byte{byte(pOpStore)}, c11OpBytes(pOpLoadTable),
				[]byte{0x0d, 'A', 0, 0x0d, 'B', 0, 0x0d, 'C', 0, 0x0d, 'D', 0, 0x0d, 'E', 0, 0x0a, 1}, []byte{byte(pOpLocal0)})},
			check: func(tree *ObjectTree) string {
				if s := fxOperands("\\MAA1", pOpLoadTable, 6)(tree); s != "" {
					return s
				}
				return fxOperands("\\MAA1", pOpStore, 2)(tree)
			}},
		{id: "K14-alias-named-after-its-source", what: "Name(NAA0,1) Alias(NAA0, NAA1): the alias object must be found as \\NAA1; it takes the name of its first operand (the source)",
			tables: [][]byte{fxCat(fxName(fxNS("", "NAA0"), fxOne...), []byte{byte(pOpAlias)}, fxNS("", "NAA0"), fxNS("", "NAA1"))},
			check: func(tree *ObjectTree) string {
				n := 0
				for _, k := range c11ScopeKids(tree, tree.ObjectAt(0)) {
					if string(k.name[:]) == "NAA0" {
						n++
					}
				}
				found := false
				for _, k := range c11ScopeKids(tree, tree.ObjectAt(0)) {
					if k.opcode == pOpAlias && string(k.name[:]) == "NAA1" {
						found = true
					}
				}
				if !found {
					return fmt.Sprintf("alias-not-named-NAA1-and-%d-objects-named-NAA0", n)
				}
				return ""
			}},
		{id: "F9-external-declaration", what: "External(EAA0, MethodObj, 2) followed by Device(DAA0){Name(NAA0, One)} and a method: the declaration's two raw bytes must not disturb what follows",
			tables: [][]byte{fxCat(
				fxCat(c11OpBytes(pOpExternal), fxNS("", "EAA0"), []byte{8, 2}),
				fxDev(fxNS("", "DAA0"), fxName(fxNS("", "NAA0"), fxOne...)),
				fxMethod(fxNS("", "MAA1"), 0, []byte{byte(pOpReturn)}, fxNS("", "NAA0")))},
			check: fxWant("\\DAA0", "\\DAA0.NAA0", "\\MAA1")},
		{id: "K10-indexfield-answers-to-index-unit-name", what: "a reference to the field unit used as index of an IndexField resolves to the IndexField declaration, which carries that name",
			tables: [][]byte{fxCat(
				fxCat(c11OpBytes(pOpOpRegion), fxNS("", "RAA0"), []byte{0, 0x0a, 0, 0x0a, 0x10}),
				fxScope(fxNS("\\"), fxPkg(c11OpBytes(pOpField), fxNS("", "RAA0"), []byte{0}, []byte("FAA0"), []byte{8}, []byte("FAA1"), []byte{8})),
				fxPkg(c11OpBytes(pOpIndexField), fxNS("", "FAA0"), fxNS("", "FAA1"), []byte{0}, []byte("FAB0"), []byte{8}),
				fxMethod(fxNS("", "MAA1"), 0, []byte{byte(pOpReturn)}, fxNS("", "FAA0")))},
			check: func(tree *ObjectTree) string {
				m := fxAt(tree, "\\MAA1")
				if m == nil {
					return "method-missing"
				}
				var all []*Object
				budget := 1000
				c11Preorder(tree, m, &all, &budget)
				for _, o := range all {
					if o.opcode == pOpIntResolvedNamePath {
						t := tree.ObjectAt(o.value.(uint32))
						if t.opcode != pOpIntNamedField {
							return "reference-to-FAA0-resolves-to-" + strings.Replace(pOpcodeName(t.opcode), " ", "", -1)
						}
						return ""
					}
				}
				return "no-resolved-reference"
			}},
	}
}

func c11Fixed(run *vlib.Run) {
	for i, fc := range c11FixedCases() {
		fc := fc
		run.OneCase(vlib.FixedBase+1+i, func(c *vlib.Case) {
			var hex []string
			for _, tb := range fc.tables {
				hex = append(hex, vlib.Hex(tb))
			}
			c.Begin(map[string]interface{}{"fixed_case": fc.id, "what": fc.what, "tables_hex": hex})
			res := c11Parse(fc.tables)
			obs := ""
			switch {
			case res.panicV != nil:
				obs = "panic"
			case res.failedAt >= 0:
				obs = "parse-error:" + c11ErrClass(strings.TrimSpace(res.errText))
			default:
				obs = fc.check(res.tree)
			}
			run.Count("fixed_reproducers_run", 1)
			if obs != "" {
				c.Violation("fixed:"+fc.id+":"+obs, map[string]interface{}{"what": fc.what, "observed": obs, "parser_messages": res.errText})
			} else {
				run.Count("fixed_reproducers_passing", 1)
			}
		})
	}
}
