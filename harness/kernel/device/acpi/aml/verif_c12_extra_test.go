//go:build verif
// +build verif

package aml

import "github.com/ProjectSerenity/firefly/kernel/zzverif/vlib"

// An extra C12 source aimed at 32-bit length arithmetic: small programs in
// which a length-like constant (the declared size of a connection buffer, of a
// Buffer, a field width) takes a boundary value of every magnitude class,
// including the values next to 2^32 where offset+length wraps.

func c12xLen(r *vlib.Rand) uint32 {
	switch r.Intn(10) {
	case 0:
		return uint32(r.Intn(4))
	case 1:
		return uint32(r.PickInt([]int{0x3f, 0x40, 0x7f, 0x80, 0xff, 0x100, 0xfff, 0x1000, 0xffff, 0x10000}))
	case 2:
		return 0x7fffffff - uint32(r.Intn(3))
	case 3:
		return 0x80000000 + uint32(r.Intn(3))
	case 4, 5, 6:
		return 0xffffffff - uint32(r.Intn(0x80)) // offset+length wraps for every offset below 0x80..
	case 7:
		return 0xffffff00 + uint32(r.Intn(256))
	default:
		return r.U32()
	}
}

func c12xConst(r *vlib.Rand, v uint32) []byte {
	switch {
	case v <= 0xff && r.Bool():
		return []byte{byte(pOpBytePrefix), byte(v)}
	case v <= 0xffff && r.Bool():
		return []byte{byte(pOpWordPrefix), byte(v), byte(v >> 8)}
	default:
		return []byte{byte(pOpDwordPrefix), byte(v), byte(v >> 8), byte(v >> 16), byte(v >> 24)}
	}
}

func init() {
	c12ExtraSources = append(c12ExtraSources, func(r *vlib.Rand) []byte {
		region := fxCat(c11OpBytes(pOpOpRegion), fxNS("", "RAA0"), []byte{byte(r.Intn(10)), 0x0a, 0, 0x0b, 0, 1})
		var fields [][]byte
		n := r.Range(1, 5)
		for i := 0; i < n; i++ {
			switch r.Intn(6) {
			case 4, 5: // Connection(Buffer) whose package length is 0, 1 or 2: no room for the size constant, or for nothing at all
				pl := byte(r.Intn(3))
				el := []byte{0x02, byte(pOpBuffer), pl}
				if pl == 2 {
					el = append(el, byte(r.PickInt([]int{int(pOpBytePrefix), int(pOpZero), 0xff})))
				}
				fields = append(fields, el)
			case 0, 1: // Connection(Buffer(size){data})
				data := r.Bytes(r.Intn(12))
				body := fxCat(c12xConst(r, c12xLen(r)), data)
				fields = append(fields, fxCat([]byte{0x02, byte(pOpBuffer)}, c11PkgLenEnc(len(body), 0), body))
			case 2: // named field with a boundary width
				fields = append(fields, fxCat([]byte("FAA0"), c11FieldWidthEnc(c12xLen(r)&0x0fffffff)))
			default: // reserved field
				fields = append(fields, fxCat([]byte{0}, c11FieldWidthEnc(c12xLen(r)&0x0fffffff)))
			}
		}
		field := fxPkg(c11OpBytes(pOpField), append([][]byte{fxNS("", "RAA0"), {byte(r.Intn(256))}}, fields...)...)
		// a Buffer whose declared size is a boundary value as well
		bdata := r.Bytes(r.Intn(10))
		buf := fxName(fxNS("", "NAA0"), fxPkg([]byte{byte(pOpBuffer)}, c12xConst(r, c12xLen(r)), bdata)...)
		pad := make([]byte, r.Intn(40))
		for i := range pad {
			pad[i] = byte(pOpNoop)
		}
		if r.Bool() {
			return fxCat(pad, region, field, buf)
		}
		return fxCat(region, buf, pad, field)
	})
}
