//go:build verif
// +build verif

package aml

import (
	"fmt"
	"strings"

	"github.com/ProjectSerenity/firefly/kernel/zzverif/vlib"
)

// Grammar-directed generator of well-formed AML programs for C11 (and, as a
// corpus source, for C12). The generator builds an AST together with the
// namespace the ACPI scoping rules assign to it; the encoder turns the AST
// into AML bytes; the oracle (verif_c11_test.go) compares the parser's tree
// with the AST.

// ---------------------------------------------------------------------------
// namespace model

const (
	c11KScope = iota // predefined scope or root (not an object declared by a table)
	c11KDevice
	c11KProcessor
	c11KPowerRes
	c11KThermalZone
	c11KMethod
	c11KName
	c11KOpRegion
	c11KMutex
	c11KEvent
	c11KFieldUnit
	c11KDataRegion
)

var c11KindNames = []string{"Scope", "Device", "Processor", "PowerResource", "ThermalZone", "Method", "Name", "OpRegion", "Mutex", "Event", "FieldUnit", "DataRegion"}

var c11KindOpcode = map[int]uint16{
	c11KDevice: pOpDevice, c11KProcessor: pOpProcessor, c11KPowerRes: pOpPowerRes, c11KThermalZone: pOpThermalZone,
	c11KMethod: pOpMethod, c11KName: pOpName, c11KOpRegion: pOpOpRegion, c11KMutex: pOpMutex, c11KEvent: pOpEvent, c11KFieldUnit: pOpIntNamedField, c11KDataRegion: pOpDataRegion,
}

func c11IsContainer(k int) bool {
	return k == c11KScope || k == c11KDevice || k == c11KProcessor || k == c11KPowerRes || k == c11KThermalZone
}

type c11Field struct {
	kind   int    // 0 named, 1 reserved, 2 access, 3 ext access, 4 connection(name), 5 connection(buffer)
	name   string // named
	width  uint32 // named / reserved (bits)
	atype  uint8
	attrib uint8
	alen   uint8
	conn   *c11Obj // connection by name
	connB  []byte  // connection buffer payload (resource template bytes)
	unit   *c11Obj // the field unit object (named)
}

type c11Obj struct {
	kind    int
	seg     string   // final name segment (4 chars)
	written []byte   // the NameString as written in the declaration
	form    string   // description of the name form (evidence)
	parent  *c11Obj  // namespace parent (nil for root)
	kids    []*c11Obj // namespace children in declaration order (containers, methods)
	table   int
	// operands
	argc      int      // method
	mflags    uint8    // method flags byte (argc | serialized<<3 | sync<<4)
	data      *c11Expr // Name
	space     uint8    // OpRegion
	roff      *c11Expr // OpRegion offset
	rlen      *c11Expr // OpRegion length
	sync      uint8    // Mutex
	procID    uint8
	pblk      uint32
	pblkLen   uint8
	sysLevel  uint8
	resOrder  uint16
	body      []*c11Expr // method body
	funit     *c11FieldInfo
	items     []*c11Item // lexical content (containers)
	forward   bool
	methodLocal bool // declared inside a method body
	isIndexUnit bool // used as the index unit of an IndexField
	isBankUnit  bool // declared by a BankField (created late, in the deferred pass)
	dstr        []*c11Expr // DataRegion: signature, OEM id, OEM table id
}

type c11FieldInfo struct {
	bitOffset, width         uint32
	atype, attrib, alen      uint8
	lock, update             uint8
	hasConn                  bool
	connObj                  *c11Obj
	connBuf                  []byte
	fieldDecl                *c11Item
}

// c11Item is one lexical element of a term list outside methods.
type c11Item struct {
	kind   int // 0 object declaration, 1 Scope directive, 2 Field, 3 IndexField, 4 BankField
	bankVal *c11Expr // BankField: bank value
	obj    *c11Obj
	target *c11Obj  // Scope directive target / Field region
	index  *c11Obj  // IndexField: index field unit
	dataU  *c11Obj  // IndexField: data field unit
	written []byte  // NameString of the Scope target / region name
	written2 []byte // IndexField data name
	fflags uint8
	fields []c11Field
	items  []*c11Item // Scope directive contents
	pkgEnc int        // package length encoding size to use (0 = minimal)
	lex    *c11Obj    // Scope directive: namespace scope in which it is written
	simple bool       // Scope directive: target written as a single name segment
}

func (o *c11Obj) path() string {
	if o.parent == nil {
		return "\\"
	}
	var segs []string
	for p := o; p.parent != nil; p = p.parent {
		segs = append([]string{p.seg}, segs...)
	}
	return "\\" + strings.Join(segs, ".")
}

func (o *c11Obj) child(seg string) *c11Obj {
	for _, k := range o.kids {
		if k.seg == seg {
			return k
		}
	}
	return nil
}

func (o *c11Obj) depth() int {
	d := 0
	for p := o; p.parent != nil; p = p.parent {
		d++
	}
	return d
}

// c11Resolve implements the ACPI search rules over the generator's namespace:
// a single NameSeg is searched in the scope and then each enclosing scope.
func c11ResolveSimple(scope *c11Obj, seg string, maxTable int) *c11Obj {
	for s := scope; s != nil; s = s.parent {
		if k := s.child(seg); k != nil && k.table <= maxTable {
			return k
		}
	}
	return nil
}

// ---------------------------------------------------------------------------
// expressions / statements of method bodies and data objects

const (
	c11EConst = iota // Zero/One/Ones/Byte/Word/Dword/Qword (op = opcode, val)
	c11EString
	c11ELocal
	c11EArg
	c11ENameRef // reference to a declared object by name (not a method)
	c11ECall    // method invocation
	c11EOp      // operator / statement with fixed operands
	c11EBuffer
	c11EPackage
	c11EIf
	c11EElse
	c11EWhile
	c11ENull  // NullName target
	c11EDebug // Debug object
	c11ENewName // a NameString that declares a new (method-local) object: CreateXField
	c11ENameDecl // Name(XXXX, data) inside a method body
	c11ERaw // raw simple operand (ByteData/WordData/DwordData)
)

type c11Expr struct {
	kind    int
	op      uint16
	val     uint64
	str     []byte
	n       int
	target  *c11Obj
	written []byte
	args    []*c11Expr
	body    []*c11Expr
	spec    *c11OpSpec
	rawSize int
	pkgEnc  int
	decl    *c11Obj
	followed bool // a nested block inside a deferred block that is followed by further statements (set by the oracle)
}

// operand kinds of c11OpSpec
const (
	c11AT = 'T' // TermArg
	c11AS = 'S' // SuperName
	c11AG = 'G' // Target (may be NullName)
	c11AN = 'N' // NameString declaring a new name
	c11AB = 'B' // ByteData
	c11AW = 'W' // WordData
	c11AD = 'D' // DwordData
)

type c11OpSpec struct {
	name  string
	op    uint16
	args  string
	value bool // usable as an expression (produces a value)
	stmt  bool // usable as a statement
}

var c11Ops = []*c11OpSpec{
	{"Store", pOpStore, "TS", true, true},
	{"Add", pOpAdd, "TTG", true, true},
	{"Subtract", pOpSubtract, "TTG", true, true},
	{"Multiply", pOpMultiply, "TTG", true, true},
	{"ShiftLeft", pOpShiftLeft, "TTG", true, true},
	{"ShiftRight", pOpShiftRight, "TTG", true, true},
	{"And", pOpAnd, "TTG", true, true},
	{"Nand", pOpNand, "TTG", true, true},
	{"Or", pOpOr, "TTG", true, true},
	{"Nor", pOpNor, "TTG", true, true},
	{"Xor", pOpXor, "TTG", true, true},
	{"Mod", pOpMod, "TTG", true, true},
	{"Concat", pOpConcat, "TTG", true, true},
	{"ConcatRes", pOpConcatRes, "TTG", true, true},
	{"Index", pOpIndex, "TTG", true, false},
	{"Divide", pOpDivide, "TTGG", true, true},
	{"Not", pOpNot, "TG", true, true},
	{"FindSetLeftBit", pOpFindSetLeftBit, "TG", true, true},
	{"FindSetRightBit", pOpFindSetRightBit, "TG", true, true},
	{"ToBuffer", pOpToBuffer, "TG", true, true},
	{"ToDecimalString", pOpToDecimalString, "TG", true, true},
	{"ToHexString", pOpToHexString, "TG", true, true},
	{"ToInteger", pOpToInteger, "TG", true, true},
	{"ToString", pOpToString, "TTG", true, true},
	{"FromBCD", pOpFromBCD, "TG", true, true},
	{"ToBCD", pOpToBCD, "TG", true, true},
	{"Increment", pOpIncrement, "S", true, true},
	{"Decrement", pOpDecrement, "S", true, true},
	{"SizeOf", pOpSizeOf, "S", true, false},
	{"ObjectType", pOpObjectType, "S", true, false},
	{"RefOf", pOpRefOf, "S", true, false},
	{"DerefOf", pOpDerefOf, "T", true, false},
	{"Land", pOpLand, "TT", true, false},
	{"Lor", pOpLor, "TT", true, false},
	{"LEqual", pOpLEqual, "TT", true, false},
	{"LGreater", pOpLGreater, "TT", true, false},
	{"LLess", pOpLLess, "TT", true, false},
	{"Lnot", pOpLnot, "T", true, false},
	{"Mid", pOpMid, "TTTG", true, true},
	{"CopyObject", pOpCopyObject, "TS", true, true},
	{"Notify", pOpNotify, "ST", false, true},
	{"Acquire", pOpAcquire, "SW", true, true},
	{"Release", pOpRelease, "S", false, true},
	{"Signal", pOpSignal, "T", false, true},
	{"Wait", pOpWait, "ST", true, true},
	{"Reset", pOpReset, "S", false, true},
	{"Sleep", pOpSleep, "T", false, true},
	{"Stall", pOpStall, "T", false, true},
	{"Return", pOpReturn, "T", false, true},
	{"Break", pOpBreak, "", false, true},
	{"Continue", pOpContinue, "", false, true},
	{"BreakPoint", pOpBreakPoint, "", false, true},
	{"Fatal", pOpFatal, "BDT", false, true},
	{"Timer", pOpTimer, "", true, false},
	{"Revision", pOpRevision, "", true, false},
	{"CreateDWordField", pOpCreateDWordField, "TTN", false, true},
	{"CreateWordField", pOpCreateWordField, "TTN", false, true},
	{"CreateByteField", pOpCreateByteField, "TTN", false, true},
	{"CreateBitField", pOpCreateBitField, "TTN", false, true},
	{"CreateQWordField", pOpCreateQWordField, "TTN", false, true},
	{"CreateField", pOpCreateField, "TTTN", false, true},
	{"CondRefOf", pOpCondRefOf, "SS", true, true},
	{"Load", pOpLoad, "NS", false, true},
	{"Unload", pOpUnload, "S", false, true},
}

func c11OpByName(n string) *c11OpSpec {
	for _, s := range c11Ops {
		if s.name == n {
			return s
		}
	}
	panic("no op " + n)
}

// ---------------------------------------------------------------------------
// encoder

func c11PkgLenEnc(bodyLen int, enc int) []byte {
	// the encoded length includes the PkgLength bytes themselves
	for n := 1; n <= 4; n++ {
		if n < enc {
			continue
		}
		total := bodyLen + n
		switch n {
		case 1:
			if total <= 0x3f {
				return []byte{byte(total)}
			}
		case 2:
			if total <= 0xfff {
				return []byte{0x40 | byte(total&0xf), byte(total >> 4)}
			}
		case 3:
			if total <= 0xfffff {
				return []byte{0x80 | byte(total&0xf), byte(total >> 4), byte(total >> 12)}
			}
		default:
			return []byte{0xc0 | byte(total&0xf), byte(total >> 4), byte(total >> 12), byte(total >> 20)}
		}
	}
	panic("pkglen")
}

// c11FieldWidthEnc encodes a field width / reserved length (same variable-length format, but the value is not self-inclusive).
func c11FieldWidthEnc(v uint32) []byte {
	switch {
	case v <= 0x3f:
		return []byte{byte(v)}
	case v <= 0xfff:
		return []byte{0x40 | byte(v&0xf), byte(v >> 4)}
	case v <= 0xfffff:
		return []byte{0x80 | byte(v&0xf), byte(v >> 4), byte(v >> 12)}
	default:
		return []byte{0xc0 | byte(v&0xf), byte(v >> 4), byte(v >> 12), byte(v >> 20)}
	}
}

func c11OpBytes(op uint16) []byte {
	if op > 0xff {
		return []byte{extOpPrefix, byte(op - 0xff)}
	}
	return []byte{byte(op)}
}

// c11NameString encodes a name string: prefix ("", "\\", "^", "^^"...) + segments.
func c11NameString(prefix string, segs ...string) []byte {
	b := []byte(prefix)
	switch len(segs) {
	case 0:
		b = append(b, 0)
	case 1:
		b = append(b, segs[0]...)
	case 2:
		b = append(b, 0x2e)
		b = append(b, segs[0]...)
		b = append(b, segs[1]...)
	default:
		b = append(b, 0x2f, byte(len(segs)))
		for _, s := range segs {
			b = append(b, s...)
		}
	}
	return b
}

func c11Int(v uint64, r *vlib.Rand) *c11Expr {
	// pick the narrowest encoding or a wider one at random (all are well-formed)
	e := &c11Expr{kind: c11EConst, val: v}
	min := 0
	switch {
	case v > 0xffffffff:
		min = 4
	case v > 0xffff:
		min = 3
	case v > 0xff:
		min = 2
	case v > 1:
		min = 1
	}
	w := min
	if r != nil && r.Chance(1, 4) {
		w = r.Range(min, 4)
	}
	if w == 0 && !(r != nil && r.Chance(1, 3)) {
		if v == 0 {
			e.op = pOpZero
		} else {
			e.op = pOpOne
		}
		return e
	}
	if w == 0 {
		w = 1
	}
	if v == ^uint64(0) && (r == nil || r.Bool()) {
		e.op = pOpOnes
		return e
	}
	e.op = []uint16{0, pOpBytePrefix, pOpWordPrefix, pOpDwordPrefix, pOpQwordPrefix}[w]
	return e
}

func (e *c11Expr) emit(out *[]byte) {
	switch e.kind {
	case c11EConst:
		*out = append(*out, c11OpBytes(e.op)...)
		n := 0
		switch e.op {
		case pOpBytePrefix:
			n = 1
		case pOpWordPrefix:
			n = 2
		case pOpDwordPrefix:
			n = 4
		case pOpQwordPrefix:
			n = 8
		}
		for i := 0; i < n; i++ {
			*out = append(*out, byte(e.val>>(8*uint(i))))
		}
	case c11ERaw:
		for i := 0; i < e.rawSize; i++ {
			*out = append(*out, byte(e.val>>(8*uint(i))))
		}
	case c11EString:
		*out = append(*out, byte(pOpStringPrefix))
		*out = append(*out, e.str...)
		*out = append(*out, 0)
	case c11ELocal:
		*out = append(*out, byte(pOpLocal0)+byte(e.n))
	case c11EArg:
		*out = append(*out, byte(pOpArg0)+byte(e.n))
	case c11ENameRef, c11ENewName:
		*out = append(*out, e.written...)
	case c11ECall:
		*out = append(*out, e.written...)
		for _, a := range e.args {
			a.emit(out)
		}
	case c11EOp:
		*out = append(*out, c11OpBytes(e.op)...)
		for _, a := range e.args {
			a.emit(out)
		}
	case c11ENull:
		*out = append(*out, 0)
	case c11EDebug:
		*out = append(*out, c11OpBytes(pOpDebug)...)
	case c11EBuffer:
		var body []byte
		e.args[0].emit(&body)
		body = append(body, e.str...)
		*out = append(*out, byte(pOpBuffer))
		*out = append(*out, c11PkgLenEnc(len(body), e.pkgEnc)...)
		*out = append(*out, body...)
	case c11EPackage:
		var body []byte
		body = append(body, byte(e.n))
		for _, a := range e.args {
			a.emit(&body)
		}
		*out = append(*out, byte(pOpPackage))
		*out = append(*out, c11PkgLenEnc(len(body), e.pkgEnc)...)
		*out = append(*out, body...)
	case c11EIf, c11EWhile:
		var body []byte
		e.args[0].emit(&body)
		for _, s := range e.body {
			s.emit(&body)
		}
		if e.kind == c11EIf {
			*out = append(*out, byte(pOpIf))
		} else {
			*out = append(*out, byte(pOpWhile))
		}
		*out = append(*out, c11PkgLenEnc(len(body), e.pkgEnc)...)
		*out = append(*out, body...)
	case c11EElse:
		var body []byte
		for _, s := range e.body {
			s.emit(&body)
		}
		*out = append(*out, byte(pOpElse))
		*out = append(*out, c11PkgLenEnc(len(body), e.pkgEnc)...)
		*out = append(*out, body...)
	case c11ENameDecl:
		*out = append(*out, byte(pOpName))
		*out = append(*out, e.written...)
		e.args[0].emit(out)
	default:
		panic(fmt.Sprintf("emit: kind %d", e.kind))
	}
}

func c11EmitFieldList(fields []c11Field, out *[]byte) {
	for _, f := range fields {
		switch f.kind {
		case 0:
			*out = append(*out, f.name...)
			*out = append(*out, c11FieldWidthEnc(f.width)...)
		case 1:
			*out = append(*out, 0)
			*out = append(*out, c11FieldWidthEnc(f.width)...)
		case 2:
			*out = append(*out, 1, f.atype, f.attrib)
		case 3:
			*out = append(*out, 3, f.atype, f.attrib, f.alen)
		case 4:
			*out = append(*out, 2)
			*out = append(*out, c11NameString("", f.conn.seg)...)
		case 5:
			// Connection(Buffer): 0x02 BufferOp PkgLength BufferSize(ByteData-prefixed const) bytes
			var body []byte
			// the size constant is written with a byte, word or dword prefix (a function of the content, so that
			// the encoder needs no random source); 256 bytes and more need at least a word
			n := len(f.connB)
			switch k := n % 3; {
			case k == 0 && n < 256:
				body = append(body, byte(pOpBytePrefix), byte(n))
			case k == 1 || (k == 0 && n < 65536):
				body = append(body, byte(pOpWordPrefix), byte(n), byte(n>>8))
			default:
				body = append(body, byte(pOpDwordPrefix), byte(n), byte(n>>8), byte(n>>16), byte(n>>24))
			}
			body = append(body, f.connB...)
			*out = append(*out, 2, byte(pOpBuffer))
			*out = append(*out, c11PkgLenEnc(len(body), 0)...)
			*out = append(*out, body...)
		}
	}
}

func (it *c11Item) emit(out *[]byte) {
	switch it.kind {
	case 1: // Scope directive
		var body []byte
		body = append(body, it.written...)
		for _, c := range it.items {
			c.emit(&body)
		}
		*out = append(*out, byte(pOpScope))
		*out = append(*out, c11PkgLenEnc(len(body), it.pkgEnc)...)
		*out = append(*out, body...)
	case 2: // Field
		var body []byte
		body = append(body, it.written...)
		body = append(body, it.fflags)
		c11EmitFieldList(it.fields, &body)
		*out = append(*out, c11OpBytes(pOpField)...)
		*out = append(*out, c11PkgLenEnc(len(body), it.pkgEnc)...)
		*out = append(*out, body...)
	case 4: // BankField
		var body []byte
		body = append(body, it.written...)
		body = append(body, it.written2...)
		it.bankVal.emit(&body)
		body = append(body, it.fflags)
		c11EmitFieldList(it.fields, &body)
		*out = append(*out, c11OpBytes(pOpBankField)...)
		*out = append(*out, c11PkgLenEnc(len(body), it.pkgEnc)...)
		*out = append(*out, body...)
	case 3: // IndexField
		var body []byte
		body = append(body, it.written...)
		body = append(body, it.written2...)
		body = append(body, it.fflags)
		c11EmitFieldList(it.fields, &body)
		*out = append(*out, c11OpBytes(pOpIndexField)...)
		*out = append(*out, c11PkgLenEnc(len(body), it.pkgEnc)...)
		*out = append(*out, body...)
	default:
		it.obj.emitDecl(out, it)
	}
}

func (o *c11Obj) emitDecl(out *[]byte, it *c11Item) {
	switch o.kind {
	case c11KName:
		*out = append(*out, byte(pOpName))
		*out = append(*out, o.written...)
		o.data.emit(out)
	case c11KMutex:
		*out = append(*out, c11OpBytes(pOpMutex)...)
		*out = append(*out, o.written...)
		*out = append(*out, o.sync)
	case c11KEvent:
		*out = append(*out, c11OpBytes(pOpEvent)...)
		*out = append(*out, o.written...)
	case c11KOpRegion:
		*out = append(*out, c11OpBytes(pOpOpRegion)...)
		*out = append(*out, o.written...)
		*out = append(*out, o.space)
		o.roff.emit(out)
		o.rlen.emit(out)
	case c11KDataRegion:
		*out = append(*out, c11OpBytes(pOpDataRegion)...)
		*out = append(*out, o.written...)
		for _, d := range o.dstr {
			d.emit(out)
		}
	case c11KMethod:
		var body []byte
		body = append(body, o.written...)
		body = append(body, o.mflags)
		for _, s := range o.body {
			s.emit(&body)
		}
		*out = append(*out, byte(pOpMethod))
		*out = append(*out, c11PkgLenEnc(len(body), it.pkgEnc)...)
		*out = append(*out, body...)
	case c11KDevice, c11KThermalZone, c11KProcessor, c11KPowerRes:
		var body []byte
		body = append(body, o.written...)
		switch o.kind {
		case c11KProcessor:
			body = append(body, o.procID, byte(o.pblk), byte(o.pblk>>8), byte(o.pblk>>16), byte(o.pblk>>24), o.pblkLen)
		case c11KPowerRes:
			body = append(body, o.sysLevel, byte(o.resOrder), byte(o.resOrder>>8))
		}
		for _, c := range o.items {
			c.emit(&body)
		}
		*out = append(*out, c11OpBytes(c11KindOpcode[o.kind])...)
		*out = append(*out, c11PkgLenEnc(len(body), it.pkgEnc)...)
		*out = append(*out, body...)
	default:
		panic("emitDecl kind")
	}
}

// ---------------------------------------------------------------------------
// ASL-like rendering of a generated program (for replay files and samples)

func c11NameStr(b []byte) string {
	var sb strings.Builder
	i := 0
	for i < len(b) && (b[i] == '\\' || b[i] == '^') {
		sb.WriteByte(b[i])
		i++
	}
	if i < len(b) {
		switch b[i] {
		case 0:
			return sb.String()
		case 0x2e:
			i++
		case 0x2f:
			i += 2
		}
	}
	first := true
	for ; i+4 <= len(b); i += 4 {
		if !first {
			sb.WriteByte('.')
		}
		sb.Write(b[i : i+4])
		first = false
	}
	return sb.String()
}

func (e *c11Expr) asl() string {
	switch e.kind {
	case c11EConst:
		switch e.op {
		case pOpZero:
			return "Zero"
		case pOpOne:
			return "One"
		case pOpOnes:
			return "Ones"
		}
		return fmt.Sprintf("%#x/%s", e.val, pOpcodeName(e.op))
	case c11ERaw:
		return fmt.Sprintf("%#x", e.val)
	case c11EString:
		return fmt.Sprintf("%q", e.str)
	case c11ELocal:
		return fmt.Sprintf("Local%d", e.n)
	case c11EArg:
		return fmt.Sprintf("Arg%d", e.n)
	case c11ENameRef, c11ENewName:
		return c11NameStr(e.written)
	case c11ENull:
		return "<null>"
	case c11EDebug:
		return "Debug"
	case c11ECall:
		var a []string
		for _, x := range e.args {
			a = append(a, x.asl())
		}
		return c11NameStr(e.written) + "(" + strings.Join(a, ", ") + ")"
	case c11EOp:
		var a []string
		for _, x := range e.args {
			a = append(a, x.asl())
		}
		return e.spec.name + "(" + strings.Join(a, ", ") + ")"
	case c11EBuffer:
		return fmt.Sprintf("Buffer(%s){%d bytes}", e.args[0].asl(), len(e.str))
	case c11EPackage:
		var a []string
		for _, x := range e.args {
			a = append(a, x.asl())
		}
		return fmt.Sprintf("Package(%d){%s}", e.n, strings.Join(a, ", "))
	case c11EIf, c11EWhile:
		var a []string
		for _, x := range e.body {
			a = append(a, x.asl())
		}
		k := "If"
		if e.kind == c11EWhile {
			k = "While"
		}
		return fmt.Sprintf("%s(%s){%s}", k, e.args[0].asl(), strings.Join(a, "; "))
	case c11EElse:
		var a []string
		for _, x := range e.body {
			a = append(a, x.asl())
		}
		return fmt.Sprintf("Else{%s}", strings.Join(a, "; "))
	case c11ENameDecl:
		return fmt.Sprintf("Name(%s, %s)", c11NameStr(e.written), e.args[0].asl())
	}
	return "?"
}

func c11AslItems(items []*c11Item, ind string, sb *strings.Builder) {
	for _, it := range items {
		switch it.kind {
		case 1:
			fmt.Fprintf(sb, "%sScope(%s) {   // -> %s\n", ind, c11NameStr(it.written), it.target.path())
			c11AslItems(it.items, ind+"  ", sb)
			fmt.Fprintf(sb, "%s}\n", ind)
		case 2, 3, 4:
			var f []string
			for _, fe := range it.fields {
				switch fe.kind {
				case 0:
					f = append(f, fmt.Sprintf("%s,%d", fe.name, fe.width))
				case 1:
					f = append(f, fmt.Sprintf("Reserved,%d", fe.width))
				case 2:
					f = append(f, fmt.Sprintf("AccessAs(%d,%d)", fe.atype, fe.attrib))
				case 3:
					f = append(f, fmt.Sprintf("AccessAs(%d,%d,%d)", fe.atype, fe.attrib, fe.alen))
				case 4:
					f = append(f, "Connection("+fe.conn.seg+")")
				case 5:
					f = append(f, fmt.Sprintf("Connection(Buffer %d bytes)", len(fe.connB)))
				}
			}
			k := "Field"
			if it.kind == 3 {
				k = "IndexField"
			}
			if it.kind == 4 {
				k = "BankField[" + it.bankVal.asl() + "]"
			}
			fmt.Fprintf(sb, "%s%s(%s %s, flags %#x){%s}\n", ind, k, c11NameStr(it.written), c11NameStr(it.written2), it.fflags, strings.Join(f, "; "))
		default:
			o := it.obj
			switch o.kind {
			case c11KMethod:
				var a []string
				for _, s := range o.body {
					a = append(a, s.asl())
				}
				fmt.Fprintf(sb, "%sMethod(%s, %d) { %s }   // %s\n", ind, c11NameStr(o.written), o.argc, strings.Join(a, "; "), o.path())
			case c11KName:
				fmt.Fprintf(sb, "%sName(%s, %s)   // %s\n", ind, c11NameStr(o.written), o.data.asl(), o.path())
			case c11KDevice, c11KThermalZone, c11KProcessor, c11KPowerRes:
				fmt.Fprintf(sb, "%s%s(%s) {   // %s\n", ind, c11KindNames[o.kind], c11NameStr(o.written), o.path())
				c11AslItems(o.items, ind+"  ", sb)
				fmt.Fprintf(sb, "%s}\n", ind)
			default:
				fmt.Fprintf(sb, "%s%s(%s)   // %s\n", ind, c11KindNames[o.kind], c11NameStr(o.written), o.path())
			}
		}
	}
}

func (g *c11Gen) asl() []string {
	var out []string
	for t, items := range g.tables {
		var sb strings.Builder
		fmt.Fprintf(&sb, "// table %d\n", t)
		c11AslItems(items, "", &sb)
		out = append(out, strings.Split(strings.TrimRight(sb.String(), "\n"), "\n")...)
	}
	return out
}
