//go:build verif
// +build verif

package aml

import (
	"fmt"
	"os"
	"strings"

	"github.com/ProjectSerenity/firefly/kernel/zzverif/vlib"
)

// Program builder: phase 1 lays out the namespace and the lexical structure of
// every table, phase 2 fills in data objects and method bodies (which may
// refer, backward or forward, to anything declared in the same or an earlier
// table), phase 3 encodes.

type c11Opts struct {
	tables         int
	maxDepth       int
	itemsPerBlock  int
	absNames       bool // \NAME, \_SB_.NAME declarations
	devPathNames   bool // \DEV0.NAME, \_SB_.DEV0.NAME declarations
	siblingNames   bool // DEV0.NAME declarations
	caretNames     bool // ^NAME inside Scope(\_SB_) blocks
	scopeDirs      bool
	scopeInDevice  bool
	forwardConts   bool // containers declared after objects that are relocated into them
	fields         bool
	indexFields    bool
	bankFields     bool
	connections    bool
	bodies         bool
	calls          bool
	nestedCalls    bool // calls as arguments of calls / operators
	deferred       bool // While, Buffer with computed size
	deferredNames  bool // names/calls inside deferred blocks
	packages       bool
	localDecls     bool // Name()/CreateField inside method bodies
	type6Targets   bool // RefOf/DerefOf/Index written where a SuperName is expected
	nestedDeferred bool // If/Else/While nested inside deferred blocks (restricted to what open finding K9 leaves intact)
	bigPkg         bool // force 2/3/4-byte package length encodings
	maxStmts       int
	maxExprDepth   int
}

func c11DefaultOpts(r *vlib.Rand) *c11Opts {
	o := &c11Opts{
		tables: r.PickInt([]int{1, 1, 2, 3}), maxDepth: r.Range(1, 4), itemsPerBlock: r.Range(1, 6),
		absNames: r.Chance(3, 4), devPathNames: r.Chance(2, 3), siblingNames: r.Chance(2, 3), caretNames: r.Chance(2, 3),
		scopeDirs: r.Chance(4, 5), scopeInDevice: r.Chance(1, 2), forwardConts: r.Chance(2, 3),
		fields: r.Chance(3, 4), indexFields: r.Chance(1, 2), bankFields: r.Chance(1, 2), connections: r.Chance(1, 2),
		bodies: r.Chance(5, 6), calls: r.Chance(5, 6), nestedCalls: r.Chance(3, 4),
		deferred: r.Chance(3, 4), deferredNames: r.Chance(3, 4), packages: r.Chance(3, 4), localDecls: r.Chance(2, 3), nestedDeferred: r.Chance(2, 3), type6Targets: r.Chance(1, 2),
		bigPkg: r.Chance(1, 3), maxStmts: r.Range(1, 6), maxExprDepth: r.Range(1, 4),
	}
	c11ApplyOverride(o)
	return o
}

// c11ApplyOverride is a development aid: VERIF_C11_ONLY="flag,flag,tables=1" switches every
// feature off except the listed ones; VERIF_C11_OFF="flag,flag" switches the listed ones off.
func c11ApplyOverride(o *c11Opts) {
	flags := map[string]*bool{"absNames": &o.absNames, "devPathNames": &o.devPathNames, "siblingNames": &o.siblingNames, "caretNames": &o.caretNames,
		"scopeDirs": &o.scopeDirs, "scopeInDevice": &o.scopeInDevice, "fields": &o.fields, "indexFields": &o.indexFields, "bankFields": &o.bankFields, "connections": &o.connections,
		"bodies": &o.bodies, "calls": &o.calls, "nestedCalls": &o.nestedCalls, "deferred": &o.deferred, "deferredNames": &o.deferredNames,
		"packages": &o.packages, "localDecls": &o.localDecls, "bigPkg": &o.bigPkg, "nestedDeferred": &o.nestedDeferred, "type6Targets": &o.type6Targets}
	ints := map[string]*int{"tables": &o.tables, "maxDepth": &o.maxDepth, "itemsPerBlock": &o.itemsPerBlock, "maxStmts": &o.maxStmts, "maxExprDepth": &o.maxExprDepth}
	apply := func(list string, only bool) {
		if list == "" {
			return
		}
		if only {
			for _, p := range flags {
				*p = false
			}
		}
		for _, f := range strings.Split(list, ",") {
			if i := strings.Index(f, "="); i > 0 {
				if p := ints[f[:i]]; p != nil {
					n := 0
					fmt.Sscanf(f[i+1:], "%d", &n)
					*p = n
				}
				continue
			}
			if p := flags[f]; p != nil {
				*p = only
			}
		}
	}
	apply(os.Getenv("VERIF_C11_ONLY"), true)
	apply(os.Getenv("VERIF_C11_OFF"), false)
}

type c11Gen struct {
	r         *vlib.Rand
	o         *c11Opts
	root      *c11Obj
	predef    []*c11Obj
	tables    [][]*c11Item
	table     int
	all       []*c11Obj // every declared object, declaration order
	pend      []*c11Obj // forward containers still to be emitted at the end of the current table's root block
	feat      map[string]int
	calls     []*c11Expr
	ambiguous bool
	// names of containers that a Scope directive refers to by a single segment: the parser
	// resolves such targets while relocations may still be pending (open finding K7), so the
	// population keeps these names unique among containers
	scopeSegs map[string]bool
}

func c11NewGen(r *vlib.Rand, o *c11Opts) *c11Gen {
	g := &c11Gen{r: r, o: o, feat: map[string]int{}}
	g.root = &c11Obj{kind: c11KScope, seg: "\\", table: -1}
	for _, n := range []string{"_GPE", "_PR_", "_SB_", "_SI_", "_TZ_"} {
		p := &c11Obj{kind: c11KScope, seg: n, parent: g.root, table: -1}
		g.root.kids = append(g.root.kids, p)
		g.predef = append(g.predef, p)
	}
	return g
}

var c11Lead = map[int]byte{c11KDevice: 'D', c11KProcessor: 'P', c11KPowerRes: 'W', c11KThermalZone: 'T', c11KMethod: 'M', c11KName: 'N', c11KOpRegion: 'R', c11KMutex: 'X', c11KEvent: 'E', c11KFieldUnit: 'F', c11KDataRegion: 'G'}

// newSeg picks a name from a tiny alphabet that is still free in scope.
func (g *c11Gen) newSeg(scope *c11Obj, lead byte) string {
	for tries := 0; tries < 40; tries++ {
		alpha := "AB"
		if tries > 10 {
			alpha = "ABCDEFGH_"
		}
		s := string([]byte{lead, alpha[g.r.Intn(len(alpha))], alpha[g.r.Intn(len(alpha))], "012"[g.r.Intn(3)]})
		if tries > 25 {
			s = string([]byte{lead, byte('A' + g.r.Intn(26)), byte('A' + g.r.Intn(26)), byte('0' + g.r.Intn(10))})
		}
		if scope.child(s) == nil && !(g.scopeSegs[s]) {
			return s
		}
	}
	return ""
}

func (g *c11Gen) containerSegCount(seg string) int {
	n := 0
	for _, o := range g.all {
		if c11IsContainer(o.kind) && o.seg == seg {
			n++
		}
	}
	return n
}

func (g *c11Gen) topLevelHome(o *c11Obj) bool { // o sits directly under root or a predefined scope
	return o.parent != nil && (o.parent == g.root || (o.parent.parent == g.root && o.parent.kind == c11KScope))
}

// absPathOf returns prefix and segments for an absolute reference to o, or nil
// when o is deeper than what the population uses (a path segment below a
// Device/Processor/... is the open finding K1).
func (g *c11Gen) absName(o *c11Obj) []byte {
	if o.parent == g.root {
		return c11NameString("\\", o.seg)
	}
	if o.parent.parent == g.root && o.parent.kind == c11KScope {
		return c11NameString("\\", o.parent.seg, o.seg)
	}
	return nil
}

// containers known so far (same or earlier table) that may be named by a path
func (g *c11Gen) containersUnder(scope *c11Obj) []*c11Obj {
	var l []*c11Obj
	for _, k := range scope.kids {
		if k.kind != c11KScope && c11IsContainer(k.kind) {
			l = append(l, k)
		}
	}
	return l
}

// declare places a new object of kind k written in the lexical block whose
// namespace scope is lex. lexKind: 0 root block, 1 Scope-directive block, 2 container body.
func (g *c11Gen) declare(k int, lex *c11Obj, lexKind int, depth int) *c11Item {
	r := g.r
	home := lex
	form := "simple"
	type cand struct {
		form string
		home *c11Obj
	}
	cands := []cand{{"simple", lex}, {"simple", lex}, {"simple", lex}}
	if g.o.absNames {
		cands = append(cands, cand{"root", g.root}, cand{"predef", g.predef[r.Intn(len(g.predef))]})
	}
	if g.o.devPathNames {
		var tops []*c11Obj
		tops = append(tops, g.containersUnder(g.root)...)
		for _, p := range g.predef {
			tops = append(tops, g.containersUnder(p)...)
		}
		if len(tops) > 0 {
			cands = append(cands, cand{"devpath", tops[r.Intn(len(tops))]})
		}
	}
	if g.o.siblingNames {
		if sib := g.containersUnder(lex); len(sib) > 0 {
			cands = append(cands, cand{"sibling", sib[r.Intn(len(sib))]})
		}
	}
	if g.o.caretNames && lexKind == 1 && lex.kind == c11KScope && lex.parent == g.root {
		cands = append(cands, cand{"caret", g.root}, cand{"caret", g.root})
	}
	c := cands[r.Intn(len(cands))]
	form, home = c.form, c.home
	if c11IsContainer(k) && home.depth()+1 > g.o.maxDepth+1 {
		form, home = "simple", lex
	}
	seg := g.newSeg(home, c11Lead[k])
	if seg == "" {
		return nil
	}
	o := &c11Obj{kind: k, seg: seg, parent: home, table: g.table, form: form}
	switch form {
	case "simple":
		o.written = c11NameString("", seg)
	case "root":
		o.written = c11NameString("\\", seg)
	case "predef":
		o.written = c11NameString("\\", home.seg, seg)
	case "devpath":
		if home.parent == g.root {
			o.written = c11NameString("\\", home.seg, seg)
		} else {
			o.written = c11NameString("\\", home.parent.seg, home.seg, seg)
		}
	case "sibling":
		o.written = c11NameString("", home.seg, seg)
	case "caret":
		o.written = c11NameString("^", seg)
	}
	g.feat["nameform_"+form]++
	g.feat["kind_"+c11KindNames[k]]++
	home.kids = append(home.kids, o)
	g.all = append(g.all, o)
	it := &c11Item{kind: 0, obj: o}
	switch k {
	case c11KMethod:
		o.argc = r.Intn(8)
		if r.Chance(1, 3) {
			o.argc = r.Intn(3)
		}
		o.mflags = uint8(o.argc)
		if r.Bool() {
			o.mflags |= 1 << 3
		}
		o.mflags |= uint8(r.Intn(16)) << 4
	case c11KMutex:
		o.sync = uint8(r.Intn(16))
	case c11KOpRegion:
		o.space = uint8(r.PickInt([]int{0, 1, 2, 3, 4, 5, 6, 7, 8, 9, 10, 0x80, 0xff}))
	case c11KProcessor:
		o.procID, o.pblk, o.pblkLen = uint8(r.Intn(256)), r.U32(), uint8(r.PickInt([]int{0, 6}))
	case c11KPowerRes:
		o.sysLevel, o.resOrder = uint8(r.Intn(6)), uint16(r.Intn(65536))
	}
	if c11IsContainer(k) {
		if depth < g.o.maxDepth {
			o.items = g.genItems(o, 2, depth+1)
		}
	}
	return it
}

// scopeTarget picks a target for a Scope directive written in lexical scope lex and
// returns the NameString to write.
func (g *c11Gen) scopeTarget(lex *c11Obj) (*c11Obj, []byte, string) {
	r := g.r
	for tries := 0; tries < 10; tries++ {
		switch r.Intn(6) {
		case 0:
			return g.root, c11NameString("\\"), "root"
		case 1:
			p := g.predef[r.Intn(len(g.predef))]
			return p, c11NameString("\\", p.seg), "predef-abs"
		case 2:
			p := g.predef[r.Intn(len(g.predef))]
			if c11ResolveSimple(lex, p.seg, g.table) == p {
				return p, c11NameString("", p.seg), "predef-simple"
			}
		case 3: // container directly under root / a predefined scope, absolute path
			var tops []*c11Obj
			tops = append(tops, g.containersUnder(g.root)...)
			for _, p := range g.predef {
				tops = append(tops, g.containersUnder(p)...)
			}
			if len(tops) > 0 {
				t := tops[r.Intn(len(tops))]
				return t, g.absName(t), "container-abs"
			}
		default: // container by simple name, found by the upward search
			var vis []*c11Obj
			for s := lex; s != nil; s = s.parent {
				for _, k := range g.containersUnder(s) {
					if c11ResolveSimple(lex, k.seg, g.table) == k {
						vis = append(vis, k)
					}
				}
			}
			if len(vis) > 0 {
				t := vis[r.Intn(len(vis))]
				if g.containerSegCount(t.seg) == 1 {
					if g.scopeSegs == nil {
						g.scopeSegs = map[string]bool{}
					}
					g.scopeSegs[t.seg] = true
					return t, c11NameString("", t.seg), "container-simple"
				}
			}
		}
	}
	return nil, nil, ""
}

func (g *c11Gen) genFieldItem(lex *c11Obj) *c11Item {
	r := g.r
	// a region visible by simple name
	var regs []*c11Obj
	for s := lex; s != nil; s = s.parent {
		for _, k := range s.kids {
			if k.kind == c11KOpRegion && c11ResolveSimple(lex, k.seg, g.table) == k {
				regs = append(regs, k)
			}
		}
	}
	if len(regs) == 0 {
		return nil
	}
	reg := regs[r.Intn(len(regs))]
	it := &c11Item{kind: 2, target: reg, written: c11NameString("", reg.seg), fflags: uint8(r.Intn(6)) | uint8(r.Intn(2))<<4 | uint8(r.Intn(3))<<5}
	g.feat["field"]++
	// index field?
	if g.o.indexFields && r.Chance(1, 4) {
		var units []*c11Obj
		for _, k := range lex.kids {
			if k.kind == c11KFieldUnit {
				units = append(units, k)
			}
		}
		if len(units) >= 2 {
			it.kind = 3
			it.index, it.dataU = units[r.Intn(len(units))], units[r.Intn(len(units))]
			// (open finding K10) the IndexField declaration object answers to the name of its
			// index unit, so references to that unit are ambiguous in the tree: not generated
			it.index.isIndexUnit = true
			it.written, it.written2 = c11NameString("", it.index.seg), c11NameString("", it.dataU.seg)
			g.feat["indexfield"]++
		}
	}
	if it.kind == 2 && g.o.bankFields && r.Chance(1, 4) {
		var units []*c11Obj
		for _, k := range lex.kids {
			if k.kind == c11KFieldUnit && !k.isBankUnit {
				units = append(units, k)
			}
		}
		if len(units) >= 1 {
			it.kind = 4
			it.index = units[r.Intn(len(units))]
			it.written2 = c11NameString("", it.index.seg)
			it.bankVal = c11Int(uint64(r.Intn(70000)), r)
			if it.bankVal.op == pOpOnes {
				it.bankVal = c11Int(7, nil)
			}
			g.feat["bankfield"]++
		}
	}
	atype, attrib, alen := it.fflags&0xf, uint8(0), uint8(0)
	lock, update := (it.fflags>>4)&1, (it.fflags>>5)&3
	var conn *c11Obj
	var connB []byte
	hasConn := false
	bit := uint32(0)
	n := r.Range(1, 6)
	for i := 0; i < n; i++ {
		switch x := r.Intn(10); {
		case x < 5:
			seg := g.newSeg(lex, 'F')
			if seg == "" {
				continue
			}
			w := uint32(r.PickInt([]int{1, 3, 8, 16, 32, 63, 64, 65, 300, 4095, 4096, 70000, 1, 8, 16, 32, 0xfffff, 0x100000, 1100000, 0xfffffff}))
			u := &c11Obj{kind: c11KFieldUnit, seg: seg, parent: lex, table: g.table, form: "fieldunit", isBankUnit: it.kind == 4}
			u.funit = &c11FieldInfo{bitOffset: bit, width: w, atype: atype, attrib: attrib, alen: alen, lock: lock, update: update, hasConn: hasConn, connObj: conn, connBuf: connB, fieldDecl: it}
			lex.kids = append(lex.kids, u)
			g.all = append(g.all, u)
			it.fields = append(it.fields, c11Field{kind: 0, name: seg, width: w, unit: u})
			bit += w
			g.feat["fieldunit"]++
		case x < 7:
			w := uint32(r.PickInt([]int{1, 7, 8, 63, 64, 1000, 5000, 70000, 0x100000, 0x2345678}))
			it.fields = append(it.fields, c11Field{kind: 1, width: w})
			bit += w
			g.feat["field_reserved"]++
		case x < 8:
			atype, attrib = uint8(r.Intn(6)), uint8(r.PickInt([]int{0, 2, 4, 6, 8, 10, 12, 13}))
			it.fields = append(it.fields, c11Field{kind: 2, atype: atype, attrib: attrib})
			g.feat["field_access"]++
		case x < 9:
			atype, attrib, alen = uint8(r.Intn(6)), uint8(r.PickInt([]int{0x0b, 0x0e, 0x0f})), uint8(r.Intn(256))
			it.fields = append(it.fields, c11Field{kind: 3, atype: atype, attrib: attrib, alen: alen})
			g.feat["field_extaccess"]++
		default:
			if !g.o.connections || it.kind == 3 || it.kind == 4 {
				continue
			}
			if r.Bool() {
				// connection by name: a Name object visible in lex
				var names []*c11Obj
				for _, k := range lex.kids {
					if k.kind == c11KName && k.table <= g.table {
						names = append(names, k)
					}
				}
				if len(names) == 0 {
					continue
				}
				conn, connB, hasConn = names[r.Intn(len(names))], nil, true
				it.fields = append(it.fields, c11Field{kind: 4, conn: conn})
				g.feat["field_connection_name"]++
			} else {
				connB, conn, hasConn = r.Bytes(r.PickInt([]int{r.Range(0, 40), r.Range(0, 40), r.Range(0, 40), r.Range(250, 400)})), nil, true
				it.fields = append(it.fields, c11Field{kind: 5, connB: connB})
				g.feat["field_connection_buffer"]++
			}
		}
	}
	return it
}

func (g *c11Gen) genItems(lex *c11Obj, lexKind int, depth int) []*c11Item {
	r := g.r
	var items []*c11Item
	n := r.Range(0, g.o.itemsPerBlock)
	if lexKind == 0 {
		n = r.Range(1, g.o.itemsPerBlock+2)
	}
	for i := 0; i < n; i++ {
		x := r.Intn(100)
		var it *c11Item
		switch {
		case x < 14:
			it = g.declare(c11KDevice, lex, lexKind, depth)
		case x < 17:
			it = g.declare(c11KThermalZone, lex, lexKind, depth)
		case x < 20:
			it = g.declare(c11KProcessor, lex, lexKind, depth)
		case x < 23:
			it = g.declare(c11KPowerRes, lex, lexKind, depth)
		case x < 43:
			it = g.declare(c11KMethod, lex, lexKind, depth)
		case x < 58:
			it = g.declare(c11KName, lex, lexKind, depth)
		case x < 66:
			it = g.declare(c11KOpRegion, lex, lexKind, depth)
		case x < 70:
			it = g.declare(c11KMutex, lex, lexKind, depth)
		case x < 72:
			it = g.declare(c11KEvent, lex, lexKind, depth)
		case x < 74:
			it = g.declare(c11KDataRegion, lex, lexKind, depth)
		case x < 83:
			if g.o.fields {
				it = g.genFieldItem(lex)
			}
		default:
			if g.o.scopeDirs && (lexKind != 2 || g.o.scopeInDevice) && depth < g.o.maxDepth+1 {
				t, w, how := g.scopeTarget(lex)
				if t != nil {
					it = &c11Item{kind: 1, target: t, written: w, lex: lex, simple: strings.HasSuffix(how, "-simple")}
					g.feat["scope_"+how]++
					it.items = g.genItems(t, 1, depth+1)
				}
			}
		}
		if it != nil {
			if g.o.bigPkg && r.Chance(1, 6) {
				it.pkgEnc = r.Range(2, 4)
				g.feat[fmt.Sprintf("pkglen_enc_%d", it.pkgEnc)]++
			}
			items = append(items, it)
		}
	}
	return items
}

// ---------------------------------------------------------------------------
// phase 2: data objects and method bodies

type c11Ctx struct {
	g        *c11Gen
	scope    *c11Obj // namespace scope for name resolution (the method, or the scope holding a data object)
	argc     int
	strict   bool // inside a deferred block (While / Buffer size)
	table    int
	inMethod bool
	maxIdx   int  // when > 0: only objects declared before g.all[maxIdx] may be named (load-time evaluated data)
	inIf     bool // inside the predicate or body of an If that is parsed in the first pass (open finding K6)
}

// refName returns how to write a reference to target from ctx.scope, or nil.
func (x *c11Ctx) refName(t *c11Obj) []byte {
	if c11ResolveSimple(x.scope, t.seg, x.table) == t && !(x.g.r.Chance(1, 5) && x.g.absName(t) != nil && x.g.o.absNames) {
		return c11NameString("", t.seg)
	}
	if x.g.o.absNames {
		return x.g.absName(t)
	}
	return nil
}

func (x *c11Ctx) visible(kinds ...int) []*c11Obj {
	var l []*c11Obj
	for i, o := range x.g.all {
		if o.table > x.table {
			continue
		}
		if x.maxIdx != 0 && i >= x.maxIdx && o.kind != c11KMethod {
			continue
		}
		ok := false
		for _, k := range kinds {
			if o.kind == k {
				ok = true
			}
		}
		if !ok {
			continue
		}
		if o.methodLocal && o.parent != x.scope {
			continue
		}
		if o.isIndexUnit || o.isBankUnit {
			continue
		}
		if x.refName(o) != nil {
			l = append(l, o)
		}
	}
	return l
}

func (x *c11Ctx) leaf() *c11Expr {
	r := x.g.r
	switch r.Intn(10) {
	case 0, 1, 2:
		return c11Int(r.PickU64([]uint64{0, 1, 2, 0xff, 0x100, 0xffff, 0x10000, 0xffffffff, 0x100000000, ^uint64(0), r.U64(), uint64(r.Intn(300))}), r)
	case 3:
		if x.inMethod {
			return &c11Expr{kind: c11ELocal, n: r.Intn(8)}
		}
	case 4:
		if x.inMethod && x.argc > 0 {
			return &c11Expr{kind: c11EArg, n: r.Intn(x.argc)}
		}
	case 5:
		s := make([]byte, r.Intn(12))
		for i := range s {
			s[i] = byte(r.Range(0x20, 0x7e))
			if r.Chance(1, 8) {
				s[i] = byte(r.PickInt([]int{0x01, 0x7f, 0x09, 0x1f}))
			}
		}
		return &c11Expr{kind: c11EString, str: s}
	case 6, 7:
		if !x.strict || x.g.o.deferredNames {
			if v := x.visible(c11KName, c11KFieldUnit); len(v) > 0 {
				t := v[r.Intn(len(v))]
				x.g.feat["nameref"]++
				if x.strict {
					x.g.feat["nameref_in_deferred_block"]++
				}
				return &c11Expr{kind: c11ENameRef, target: t, written: x.refName(t)}
			}
		}
	}
	return c11Int(uint64(r.Intn(256)), r)
}

func (x *c11Ctx) superName() *c11Expr { return x.superNameD(2) } // simple names only

// type6OK reports whether operand i of spec may be written as a Type6 opcode (RefOf/DerefOf/Index): the first
// pass leaves the operands of such an opcode for the second pass, so operands of the enclosing operator that
// follow it are only found when they are TermArgs (open findings K15b, K15c); CopyObject takes a SimpleName.
func c11Type6OK(spec *c11OpSpec, i int) bool {
	if spec.name == "CopyObject" {
		return false
	}
	for _, k := range spec.args[i+1:] {
		if k != c11AT {
			return false
		}
	}
	return true
}

func (x *c11Ctx) superNameD(depth int) *c11Expr {
	r := x.g.r
	if x.g.o.type6Targets && depth < 2 && r.Chance(1, 6) {
		// Type6Opcode as SuperName: RefOf(SuperName), DerefOf(TermArg), Index(TermArg, TermArg, Target)
		x.g.feat["type6_supername"]++
		switch r.Intn(3) {
		case 0:
			e := &c11Expr{kind: c11EOp, op: pOpRefOf, spec: c11OpByName("RefOf")}
			e.args = []*c11Expr{x.superNameD(depth + 1)}
			return e
		case 1:
			e := &c11Expr{kind: c11EOp, op: pOpDerefOf, spec: c11OpByName("DerefOf")}
			e.args = []*c11Expr{x.leaf()}
			return e
		default:
			e := &c11Expr{kind: c11EOp, op: pOpIndex, spec: c11OpByName("Index")}
			e.args = []*c11Expr{x.leaf(), x.leaf(), &c11Expr{kind: c11ENull}}
			return e
		}
	}
	switch r.Intn(6) {
	case 0, 1:
		if x.inMethod {
			return &c11Expr{kind: c11ELocal, n: r.Intn(8)}
		}
	case 2:
		if x.inMethod && x.argc > 0 {
			return &c11Expr{kind: c11EArg, n: r.Intn(x.argc)}
		}
	case 3:
		return &c11Expr{kind: c11EDebug}
	}
	if v := x.visible(c11KName, c11KFieldUnit); len(v) > 0 {
		t := v[r.Intn(len(v))]
		x.g.feat["nameref_as_target"]++
		return &c11Expr{kind: c11ENameRef, target: t, written: x.refName(t)}
	}
	if x.inMethod {
		return &c11Expr{kind: c11ELocal, n: r.Intn(8)}
	}
	return &c11Expr{kind: c11EDebug}
}

func (x *c11Ctx) call(depth int) *c11Expr {
	r := x.g.r
	if !x.g.o.calls || (x.strict && !x.g.o.deferredNames) {
		return nil
	}
	v := x.visible(c11KMethod)
	if len(v) == 0 {
		return nil
	}
	t := v[r.Intn(len(v))]
	e := &c11Expr{kind: c11ECall, target: t, written: x.refName(t)}
	for i := 0; i < t.argc; i++ {
		if x.g.o.nestedCalls {
			e.args = append(e.args, x.expr(depth+1))
		} else {
			e.args = append(e.args, x.leaf())
		}
	}
	x.g.calls = append(x.g.calls, e)
	x.g.feat["call"]++
	x.g.feat[fmt.Sprintf("call_argc_%d", t.argc)]++
	if t.table < x.table {
		x.g.feat["call_into_earlier_table"]++
	}
	if x.strict {
		x.g.feat["call_in_deferred_block"]++
	}
	return e
}

func (x *c11Ctx) opExpr(spec *c11OpSpec, depth int) *c11Expr {
	r := x.g.r
	e := &c11Expr{kind: c11EOp, op: spec.op, spec: spec}
	for i := 0; i < len(spec.args); i++ {
		switch spec.args[i] {
		case c11AT:
			e.args = append(e.args, x.expr(depth+1))
		case c11AS:
			if c11Type6OK(spec, i) {
				e.args = append(e.args, x.superNameD(0))
			} else {
				e.args = append(e.args, x.superName())
			}
		case c11AG:
			if r.Bool() {
				e.args = append(e.args, &c11Expr{kind: c11ENull})
			} else if c11Type6OK(spec, i) {
				e.args = append(e.args, x.superNameD(0))
			} else {
				e.args = append(e.args, x.superName())
			}
		case c11AB:
			e.args = append(e.args, &c11Expr{kind: c11ERaw, rawSize: 1, val: uint64(r.Intn(256))})
		case c11AW:
			e.args = append(e.args, &c11Expr{kind: c11ERaw, rawSize: 2, val: uint64(r.Intn(65536))})
		case c11AD:
			e.args = append(e.args, &c11Expr{kind: c11ERaw, rawSize: 4, val: uint64(r.U32())})
		case c11AN:
			seg := x.g.newSeg(x.scope, 'C')
			if seg == "" {
				seg = "CZZ9"
			}
			// created fields are not named objects of the tree: nothing is added to the namespace
			e.args = append(e.args, &c11Expr{kind: c11ENewName, written: c11NameString("", seg)})
		}
	}
	x.g.feat["op_"+spec.name]++
	return e
}

func (x *c11Ctx) buffer(depth int) *c11Expr {
	r := x.g.r
	data := r.Bytes(r.Range(0, 24))
	e := &c11Expr{kind: c11EBuffer, str: data}
	sub := *x
	sub.strict = true
	var size *c11Expr
	if x.g.o.deferred && r.Chance(1, 2) {
		size = sub.expr(depth + 1) // computed size: names, calls, operators
		x.g.feat["buffer_computed_size"]++
	} else {
		size = c11Int(uint64(len(data)+r.Intn(4)), r)
		if size.op == pOpOnes {
			size = c11Int(3, nil)
		}
	}
	e.args = []*c11Expr{size}
	if x.g.o.bigPkg && r.Chance(1, 8) {
		e.pkgEnc = r.Range(2, 4)
	}
	x.g.feat["buffer"]++
	return e
}

func (x *c11Ctx) pkg(depth int) *c11Expr {
	r := x.g.r
	n := r.Intn(5)
	e := &c11Expr{kind: c11EPackage, n: n + r.Intn(2)}
	for i := 0; i < n; i++ {
		switch r.Intn(6) {
		case 0:
			if depth < 2 {
				e.args = append(e.args, x.pkg(depth+1))
				continue
			}
		case 1:
			e.args = append(e.args, x.buffer(depth+1))
			continue
		case 2:
			if v := x.visible(c11KName, c11KFieldUnit, c11KDevice); len(v) > 0 && !x.strict {
				t := v[r.Intn(len(v))]
				e.args = append(e.args, &c11Expr{kind: c11ENameRef, target: t, written: x.refName(t)})
				x.g.feat["package_name_element"]++
				continue
			}
		}
		l := x.leaf()
		for l.kind == c11ELocal || l.kind == c11EArg || l.kind == c11ENameRef {
			l = c11Int(uint64(r.Intn(1000)), r)
		}
		e.args = append(e.args, l)
	}
	x.g.feat["package"]++
	return e
}

func (x *c11Ctx) expr(depth int) *c11Expr {
	r := x.g.r
	if depth >= x.g.o.maxExprDepth || r.Chance(2, 5) {
		return x.leaf()
	}
	switch r.Intn(10) {
	case 0, 1:
		if c := x.call(depth); c != nil {
			return c
		}
	case 2:
		if !x.strict {
			return x.buffer(depth)
		}
	case 3:
		if x.g.o.packages && !x.strict && !x.inIf {
			return x.pkg(depth)
		}
	}
	// a value-producing operator
	for {
		s := c11Ops[r.Intn(len(c11Ops))]
		if s.value && !(s.args != "" && s.args[len(s.args)-1] == c11AN) {
			return x.opExpr(s, depth)
		}
	}
}

func (x *c11Ctx) stmts(depth int, top bool) []*c11Expr {
	r := x.g.r
	var out []*c11Expr
	n := r.Range(1, x.g.o.maxStmts)
	for i := 0; i < n; i++ {
		k := r.Intn(20)
		switch {
		case k < 3 && depth < 3 && (!x.strict || x.g.o.nestedDeferred): // inside deferred blocks see closeBlock (open finding K9)
			sub := *x
			sub.inIf = sub.inIf || !x.strict
			e := &c11Expr{kind: c11EIf, args: []*c11Expr{sub.expr(1)}}
			e.body = sub.stmts(depth+1, false)
			out = append(out, e)
			x.g.feat["if"]++
			if x.strict {
				x.g.feat["if_in_deferred_block"]++
			}
			if r.Bool() {
				el := &c11Expr{kind: c11EElse}
				el.body = x.stmts(depth+1, false)
				out = append(out, el)
				x.g.feat["else"]++
			}
		case k < 5 && depth < 3 && x.g.o.deferred && (!x.strict || x.g.o.nestedDeferred):
			sub := *x
			sub.strict = true
			e := &c11Expr{kind: c11EWhile, args: []*c11Expr{sub.expr(1)}}
			e.body = sub.stmts(depth+1, false)
			out = append(out, e)
			x.g.feat["while"]++
			if x.strict {
				x.g.feat["while_in_deferred_block"]++
			}
		case k < 8:
			if c := x.call(0); c != nil {
				out = append(out, c)
				x.g.feat["call_as_statement"]++
			}
		case k < 9 && top && x.g.o.localDecls && !x.strict:
			seg := x.g.newSeg(x.scope, 'L')
			if seg != "" {
				o := &c11Obj{kind: c11KName, seg: seg, parent: x.scope, table: x.table, form: "method-local", methodLocal: true, written: c11NameString("", seg)}
				d := c11Int(uint64(r.Intn(100000)), r)
				o.data = d
				x.scope.kids = append(x.scope.kids, o)
				x.g.all = append(x.g.all, o)
				out = append(out, &c11Expr{kind: c11ENameDecl, written: o.written, args: []*c11Expr{d}, decl: o})
				x.g.feat["method_local_name"]++
			}
		default:
			for {
				s := c11Ops[r.Intn(len(c11Ops))]
				if !s.stmt {
					continue
				}
				if len(s.args) > 0 && s.args[len(s.args)-1] == c11AN && (!top || !x.g.o.localDecls) {
					continue
				}
				if (s.name == "Break" || s.name == "Continue") && !x.strict {
					continue
				}
				out = append(out, x.opExpr(s, 1))
				break
			}
		}
	}
	if len(out) == 0 {
		// (open finding K6) outside deferred blocks an If with an empty body is rejected
		// or swallows the statement that follows it: the population never leaves a body empty
		out = append(out, x.opExpr(c11OpByName("Increment"), 1))
	}
	if r.Chance(1, 12) {
		// firmware pads code with Noop statements: one to three of them in front of one of the statements
		at := r.Intn(len(out))
		for i, n := 0, r.Range(1, 3); i < n; i++ {
			out = append(out[:at:at], append([]*c11Expr{{kind: c11EOp, op: pOpNoop, spec: &c11OpSpec{name: "Noop", op: pOpNoop}}}, out[at:]...)...)
		}
		x.g.feat["noop_before_a_statement"]++
	}
	if x.g.o.bigPkg && r.Chance(1, 10) {
		// pad with Noops so that the enclosing package needs a longer length encoding
		for i := 0; i < r.PickInt([]int{70, 200, 4100}); i++ {
			out = append(out, &c11Expr{kind: c11EOp, op: pOpNoop, spec: &c11OpSpec{name: "Noop", op: pOpNoop}})
		}
		x.g.feat["noop_padding"]++
	}
	if x.strict {
		// (open finding K9) inside a deferred block the package end of a nested block is only popped when the
		// block's last statement ends in a TermArg; everything after any other nested block is dropped. The
		// population keeps to what the parser handles: a nested block that is followed by anything ends in such
		// a statement, a nested block in last position is left as generated.
		for i, e := range out {
			if c11IsBlock(e) && i < len(out)-1 {
				x.closeBlock(e)
				x.g.feat["nested_block_followed_in_deferred_block"]++
			}
		}
	}
	return out
}

func c11IsBlock(e *c11Expr) bool {
	return e.kind == c11EIf || e.kind == c11EElse || e.kind == c11EWhile
}

// closeBlock makes the body of a nested block end in a statement whose last operand is a TermArg.
func (x *c11Ctx) closeBlock(e *c11Expr) {
	last := e.body[len(e.body)-1]
	if c11IsBlock(last) {
		x.closeBlock(last) // it is about to be followed by a statement
	}
	if last.kind == c11EOp && last.spec != nil && len(last.spec.args) > 0 && last.spec.args[len(last.spec.args)-1] == c11AT {
		return
	}
	sub := *x
	sub.strict = true
	e.body = append(e.body, sub.opExpr(c11OpByName([]string{"Sleep", "Stall", "Return", "Signal"}[x.g.r.Intn(4)]), 1))
}

func (g *c11Gen) fillTable(t int) {
	for i, o := range g.all {
		if o.table != t || o.methodLocal {
			continue
		}
		x := &c11Ctx{g: g, scope: o.parent, table: t, maxIdx: i}
		if i == 0 {
			x.maxIdx = -1
		}
		switch o.kind {
		case c11KName:
			switch g.r.Intn(6) {
			case 0:
				o.data = x.buffer(0)
			case 1:
				if g.o.packages {
					o.data = x.pkg(0)
					break
				}
				fallthrough
			case 2:
				s := make([]byte, g.r.Intn(20))
				for i := range s {
					s[i] = byte(g.r.Range(0x20, 0x7e))
					if g.r.Chance(1, 8) {
						s[i] = byte(g.r.PickInt([]int{0x01, 0x7f, 0x09, 0x1f}))
					}
				}
				o.data = &c11Expr{kind: c11EString, str: s}
			default:
				o.data = c11Int(g.r.PickU64([]uint64{0, 1, 0xff, 0x100, 0xffff, 0x10000, 0xffffffff, 0x100000000, ^uint64(0), g.r.U64()}), g.r)
			}
		case c11KDataRegion:
			for k := 0; k < 3; k++ {
				s := make([]byte, g.r.Intn(9))
				for i := range s {
					s[i] = byte(g.r.Range(0x20, 0x7e))
				}
				o.dstr = append(o.dstr, &c11Expr{kind: c11EString, str: s})
			}
		case c11KOpRegion:
			o.roff = c11Int(uint64(g.r.U32()), g.r)
			o.rlen = c11Int(uint64(g.r.Intn(70000)), g.r)
		case c11KMethod:
			if g.o.bodies {
				mx := &c11Ctx{g: g, scope: o, argc: o.argc, table: t, inMethod: true}
				o.body = mx.stmts(0, true)
			}
		}
	}
}

// c11Build generates a complete multi-table program.
func c11Build(r *vlib.Rand, o *c11Opts) (*c11Gen, [][]byte) {
	g := c11NewGen(r, o)
	firstOf := make([]int, o.tables+1)
	for t := 0; t < o.tables; t++ {
		g.table = t
		firstOf[t] = len(g.all)
		g.tables = append(g.tables, g.genItems(g.root, 0, 0))
	}
	var out [][]byte
	// Simple names written in Scope directives are resolved by the generator at the point
	// where they are written; a program in which a later declaration of the same table would
	// change that resolution is order-dependent and is not part of the population.
	var recheck func(items []*c11Item, table int)
	recheck = func(items []*c11Item, table int) {
		for _, it := range items {
			if it.kind == 1 {
				if it.simple && c11ResolveSimple(it.lex, it.target.seg, table) != it.target {
					g.ambiguous = true
				}
				recheck(it.items, table)
			}
			if it.kind == 0 && it.obj != nil {
				recheck(it.obj.items, table)
			}
		}
	}
	for t := 0; t < o.tables; t++ {
		recheck(g.tables[t], t)
	}
	for t := 0; t < o.tables; t++ {
		g.table = t
		g.fillTable(t)
	}
	for t := 0; t < o.tables; t++ {
		var b []byte
		for _, it := range g.tables[t] {
			it.emit(&b)
		}
		out = append(out, b)
	}
	return g, out
}
