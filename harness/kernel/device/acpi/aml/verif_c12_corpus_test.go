//go:build verif
// +build verif

package aml

import (
	"fmt"
	"io/ioutil"
	"os"
	"path/filepath"

	"github.com/ProjectSerenity/firefly/kernel/zzverif/vlib"
)

// C12 workload: where the byte strings come from.
//
//   bases      the three shipped tables (payload = bytes after the 36-byte
//              header), ~30 hand-assembled programs, and programs drawn from
//              a generator driven by the opcode table (every opcode, operands
//              by operand kind, names from a tiny alphabet);
//   mutators   structure-aware edits placed with the help of c12Scan, a small
//              tolerant grammar walker of the harness (it knows nothing about
//              name resolution; it only finds opcode starts, package lengths,
//              name strings, field elements and object extents in ANY byte
//              string, so mutations stay structure-aware after the first one);
//   raw        uniformly random and alphabet-random short strings.
//
// Everything is a function of the case PRNG only.

// c12ExtraSources is the hook for other harness files of this package (the
// C11 grammar-directed generator appends to it in an init()). Each function
// returns one AML payload (no table header); the C12 driver uses the result
// both as-is and as a base for mutation.
var c12ExtraSources []func(r *vlib.Rand) []byte

const c12MaxPayload = 64<<10 - 36

// ---------------------------------------------------------------------------
// Assembler helpers.

func c12Cat(parts ...[]byte) []byte {
	var out []byte
	for _, p := range parts {
		out = append(out, p...)
	}
	return out
}

func c12B(b ...byte) []byte { return b }
func c12S(s string) []byte  { return []byte(s) }

// c12EncLen encodes a package length value in exactly enc bytes (1..4). The
// value is truncated to what the encoding can hold.
func c12EncLen(val, enc int) []byte {
	switch enc {
	case 1:
		return []byte{byte(val & 0x3f)}
	case 2:
		return []byte{0x40 | byte(val&0xf), byte(val >> 4)}
	case 3:
		return []byte{0x80 | byte(val&0xf), byte(val >> 4), byte(val >> 12)}
	default:
		return []byte{0xc0 | byte(val&0xf), byte(val >> 4), byte(val >> 12), byte(val >> 20)}
	}
}

var c12EncMax = [5]int{0, 0x3f, 0xfff, 0xfffff, 0xfffffff}

// c12Pkg prefixes body with a package length that covers itself and body.
// enc = 0 picks the shortest encoding.
func c12Pkg(enc int, body []byte) []byte {
	if enc == 0 {
		for enc = 1; enc < 4 && len(body)+enc > c12EncMax[enc]; enc++ {
		}
	}
	return c12Cat(c12EncLen(len(body)+enc, enc), body)
}

func c12Name(n string, data []byte) []byte { return c12Cat(c12B(0x08), c12S(n), data) }
func c12Scope(n string, body ...[]byte) []byte {
	return c12Cat(c12B(0x10), c12Pkg(0, c12Cat(c12S(n), c12Cat(body...))))
}
func c12Device(n string, body ...[]byte) []byte {
	return c12Cat(c12B(0x5b, 0x82), c12Pkg(0, c12Cat(c12S(n), c12Cat(body...))))
}
func c12Method(n string, flags byte, body ...[]byte) []byte {
	return c12Cat(c12B(0x14), c12Pkg(0, c12Cat(c12S(n), c12B(flags), c12Cat(body...))))
}
func c12Region(n string, space byte, off, length []byte) []byte {
	return c12Cat(c12B(0x5b, 0x80), c12S(n), c12B(space), off, length)
}
func c12Field(region string, flags byte, elems ...[]byte) []byte {
	return c12Cat(c12B(0x5b, 0x81), c12Pkg(0, c12Cat(c12S(region), c12B(flags), c12Cat(elems...))))
}
func c12IndexField(a, b string, flags byte, elems ...[]byte) []byte {
	return c12Cat(c12B(0x5b, 0x86), c12Pkg(0, c12Cat(c12S(a), c12S(b), c12B(flags), c12Cat(elems...))))
}
func c12BankField(a, b string, bank []byte, flags byte, elems ...[]byte) []byte {
	return c12Cat(c12B(0x5b, 0x87), c12Pkg(0, c12Cat(c12S(a), c12S(b), bank, c12B(flags), c12Cat(elems...))))
}
func c12FldNamed(n string, bits int) []byte { return c12Cat(c12S(n), c12Pkg0Val(bits)) }
func c12FldReserved(bits int) []byte        { return c12Cat(c12B(0), c12Pkg0Val(bits)) }

// c12Pkg0Val encodes a bare value in package-length form (field widths).
func c12Pkg0Val(v int) []byte {
	enc := 1
	for enc < 4 && v > c12EncMax[enc] {
		enc++
	}
	return c12EncLen(v, enc)
}
func c12Buffer(size []byte, data ...byte) []byte {
	return c12Cat(c12B(0x11), c12Pkg(0, c12Cat(size, data)))
}
func c12Package(n byte, elems ...[]byte) []byte {
	return c12Cat(c12B(0x12), c12Pkg(0, c12Cat(c12B(n), c12Cat(elems...))))
}
func c12If(pred []byte, body ...[]byte) []byte {
	return c12Cat(c12B(0xa0), c12Pkg(0, c12Cat(pred, c12Cat(body...))))
}
func c12Else(body ...[]byte) []byte { return c12Cat(c12B(0xa1), c12Pkg(0, c12Cat(body...))) }
func c12While(pred []byte, body ...[]byte) []byte {
	return c12Cat(c12B(0xa2), c12Pkg(0, c12Cat(pred, c12Cat(body...))))
}
func c12Byte(v byte) []byte    { return c12B(0x0a, v) }
func c12Word(v uint16) []byte  { return c12B(0x0b, byte(v), byte(v>>8)) }
func c12Dword(v uint32) []byte { return c12B(0x0c, byte(v), byte(v>>8), byte(v>>16), byte(v>>24)) }
func c12Str(s string) []byte   { return c12Cat(c12B(0x0d), c12S(s), c12B(0)) }

type c12Base struct {
	name    string
	payload []byte
	heavy   bool // expensive to parse (the shipped DSDT): drawn less often
}

var c12Bases []c12Base    // shipped + hand-assembled
var c12Shipped [3]c12Base // DSDT, SSDT, parser-testsuite-DSDT (whole tables, with header)

// c12Lib is the good first table of two-table cases: devices, methods with
// 0..3 arguments, a region and fields, all with names from the tiny alphabet
// that mutated second tables are likely to hit.
func c12Lib() []byte {
	return c12Cat(
		c12Name("AAAA", c12Byte(1)),
		c12Method("MTH0", 0, c12B(0xa4), c12Byte(7)),
		c12Method("MTH1", 1, c12B(0xa4, 0x68)),
		c12Method("MTH2", 2, c12B(0xa4, 0x72, 0x68, 0x69, 0x00)),
		c12Method("MTH3", 3, c12B(0xa4, 0x72, 0x68, 0x72, 0x69, 0x6a, 0x00, 0x00)),
		c12Region("REG0", 1, c12Word(0x100), c12Byte(0x10)),
		c12Field("REG0", 1, c12FldNamed("FLD0", 8), c12FldReserved(8), c12FldNamed("FLD1", 16)),
		c12Scope("\\_SB_",
			c12Device("DEV0",
				c12Name("_HID", c12Dword(0x030ad041)),
				c12Name("BBBB", c12Str("lib")),
				c12Method("MTH4", 1, c12B(0xa4), c12S("MTH1"), c12B(0x68)),
				c12Device("DEV1", c12Name("CCCC", c12Buffer(c12Byte(4), 1, 2, 3, 4))),
			),
			c12Device("BBBB", c12Name("AAAA", c12B(0x00))),
		),
		c12Cat(c12B(0x5b, 0x01), c12S("MUT0"), c12B(0)),
	)
}

// c12UsesLib refers, from plain and from deferred contexts, to the names that
// c12Lib (and most small programs here) declare: parsed after another table it
// exercises lookups into whatever that table left in the tree.
func c12UsesLib() []byte {
	return c12Cat(
		c12Scope("\\_SB_", c12Scope("DEV0", c12Name("XXXX", c12Cat(c12S("MTH1"), c12B(0x01))))),
		c12Method("MTH9", 1,
			c12While(c12Cat(c12B(0x93), c12S("MTH1"), c12B(0x68), c12B(0x00)), c12B(0x70), c12S("MTH2"), c12B(0x01, 0x01, 0x60)),
			c12B(0x70), c12S("MTH3"), c12S("MTH0"), c12S("MTH1"), c12B(0x68), c12S("AAAA"), c12B(0x61),
			c12B(0xa4), c12Buffer(c12S("MTH0"), 1, 2)),
		c12BankField("REG0", "FLD0", c12S("MTH0"), 1, c12FldNamed("BNK0", 8)),
		c12Name("YYYY", c12Buffer(c12Cat(c12S("MTH1"), c12Byte(4)))),
		c12Name("WWWW", c12Package(3, c12S("MTH0"), c12S("DEV0"), c12S("\\AAAA"))),
		c12Cat(c12B(0x08, 0x5c, 0x2f, 0x03), c12S("_SB_DEV0VVVV"), c12B(0x01)),
	)
}

// c12Deep builds a program nested depth levels deep; kind selects what nests.
func c12Deep(kind, depth int) []byte {
	var inner []byte
	switch kind {
	case 0: // Add(Add(Add(... in a deferred While predicate inside a method
		pred := c12Cat(repeatBytes(c12B(0x72), depth), c12B(0x01), repeatBytes(c12B(0x01, 0x00), depth))
		return c12Method("MTH0", 0, c12While(pred, c12B(0xa3)))
	case 1: // nested packages
		inner = c12Package(1, c12B(0x01))
		for i := 0; i < depth; i++ {
			inner = c12Package(1, inner)
		}
		return c12Name("AAAA", inner)
	case 2: // nested devices
		inner = c12Name("_ADR", c12B(0x00))
		for i := 0; i < depth; i++ {
			inner = c12Device(c12TinyNames[i%3], inner)
		}
		return inner
	case 3: // nested If inside a method
		inner = c12B(0xa3)
		for i := 0; i < depth; i++ {
			inner = c12If(c12B(0x01), inner)
		}
		return c12Method("MTH0", 0, inner)
	case 4: // nested While (deferred) inside a method
		inner = c12B(0xa3)
		for i := 0; i < depth; i++ {
			inner = c12While(c12B(0x01), inner)
		}
		return c12Method("MTH0", 0, inner)
	default: // a long flat run of operators that all want operands: Store(Store(Store(...
		return c12Method("MTH0", 0, c12Cat(repeatBytes(c12B(0x70), depth), c12B(0x01), repeatBytes(c12B(0x60), depth)))
	}
}

func c12HandPrograms() []c12Base {
	var out []c12Base
	add := func(name string, parts ...[]byte) {
		out = append(out, c12Base{name: "hand:" + name, payload: c12Cat(parts...)})
	}
	add("empty")
	add("lib", c12Lib())
	add("name-consts",
		c12Name("AAAA", c12B(0x00)), c12Name("BBBB", c12B(0x01)), c12Name("CCCC", c12B(0xff)),
		c12Name("DDDD", c12Byte(0x42)), c12Name("EEEE", c12Word(0x1234)), c12Name("FFFF", c12Dword(0xdeadbeef)),
		c12Name("GGGG", c12B(0x0e, 1, 2, 3, 4, 5, 6, 7, 8)), c12Name("HHHH", c12Str("hello")),
		c12Name("IIII", c12Buffer(c12Byte(3), 9, 8, 7)), c12Name("JJJJ", c12Package(2, c12Byte(1), c12Str("x"))),
		c12Name("KKKK", c12B(0x5b, 0x30)))
	add("device-self-path", c12B(0x5b, 0x82, 0x0a, 0x2e), c12S("AAAAAAAA"))
	add("device-nest",
		c12Scope("\\_SB_", c12Device("AAAA", c12Device("BBBB", c12Device("CCCC", c12Name("_HID", c12Dword(0x0a0cd041)), c12Method("AAAA", 0))))))
	add("relocations",
		c12Scope("\\_SB_", c12Device("AAAA", c12Name("_ADR", c12B(0)))),
		c12Scope("\\_SB_", c12Scope("AAAA", c12Device("^BBBB", c12Name("_ADR", c12B(1))))),
		c12Scope("\\_SB_", c12Scope("BBBB", c12Name("CCCC", c12B(0)))),
		c12Name("\\DDDD", c12B(1)),
		c12Cat(c12B(0x08, 0x5c, 0x2e), c12S("_SB_EEEE"), c12B(1)),
		c12Cat(c12B(0x08, 0x5c, 0x2f, 0x03), c12S("_SB_AAAAFFFF"), c12B(1)))
	add("methods-calls",
		c12Method("MTH0", 0, c12B(0xa4), c12Byte(1)),
		c12Method("MTH1", 1, c12B(0xa4, 0x68)),
		c12Method("MTH2", 2, c12B(0x70), c12S("MTH1"), c12B(0x69), c12B(0x60), c12B(0xa4), c12S("MTH1"), c12S("MTH0")),
		c12Method("MTH3", 3, c12B(0xa4), c12S("MTH2"), c12S("MTH1"), c12B(0x68), c12S("MTH2"), c12B(0x69, 0x6a)),
		c12Method("MTH7", 7, c12B(0xa4), c12S("FWD0"), c12B(0x68)),
		c12Method("FWD0", 1, c12B(0xa4, 0x68)),
		c12Name("AAAA", c12S("MTH0")))
	add("control-flow",
		c12Method("MTH0", 2,
			c12If(c12Cat(c12B(0x93, 0x68), c12Byte(1)), c12B(0xa4, 0x01)),
			c12Else(c12While(c12Cat(c12B(0x95, 0x69), c12Byte(9)), c12B(0x75, 0x69), c12If(c12B(0x92, 0x93, 0x69, 0x00), c12B(0xa5)), c12B(0x9f))),
			c12B(0xa4, 0x00)))
	add("while-nested-call",
		c12Method("LEN0", 1, c12B(0xa4, 0x68)),
		c12Method("MTH0", 1, c12While(c12Cat(c12B(0x93), c12S("LEN0"), c12B(0x68), c12B(0x00)), c12B(0xa3)), c12Name("BBBB", c12Buffer(c12Cat(c12S("LEN0"), c12Byte(3)), 1, 2, 3))))
	add("region-field",
		c12Region("REG0", 0, c12Dword(0xfed00000), c12Word(0x400)),
		c12Field("REG0", 0x13, c12FldNamed("AAAA", 1), c12FldNamed("BBBB", 7), c12FldReserved(0x40), c12B(0x01, 0x03, 0x00), c12FldNamed("CCCC", 0x100),
			c12B(0x03, 0x05, 0x0b, 0x04), c12FldNamed("DDDD", 8)))
	add("field-connection-name",
		c12Region("REG0", 9, c12B(0x00), c12Byte(2)),
		c12Name("CONN", c12Buffer(c12Byte(2), 0x8e, 0x00)),
		c12Field("REG0", 5, c12B(0x02), c12S("CONN"), c12FldNamed("AAAA", 8), c12B(0x02), c12S("\\CONN"), c12FldNamed("BBBB", 8)))
	add("field-connection-buffer",
		c12Region("REG0", 8, c12B(0x00), c12Byte(2)),
		c12Field("REG0", 1, c12B(0x02, 0x11), c12Pkg(0, c12Cat(c12Byte(4), c12B(1, 2, 3, 4))), c12FldNamed("AAAA", 8)))
	add("field-connection-buffer-long", // declared data length exceeds what is left
		c12Region("REG0", 8, c12B(0x00), c12Byte(2)),
		c12Field("REG0", 1, c12B(0x02, 0x11), c12Pkg(0, c12Cat(c12Word(0x4000), c12B(1, 2))), c12FldNamed("AAAA", 8)))
	add("index-bank-field",
		c12Region("REG0", 1, c12Word(0x70), c12Byte(2)),
		c12Field("REG0", 1, c12FldNamed("IDX0", 8), c12FldNamed("DAT0", 8)),
		c12IndexField("IDX0", "DAT0", 1, c12FldReserved(0x10), c12FldNamed("AAAA", 8), c12FldNamed("BBBB", 8)),
		c12BankField("REG0", "IDX0", c12Byte(3), 1, c12FldNamed("CCCC", 8)),
		c12BankField("REG0", "IDX0", c12S("AAAA"), 1, c12FldNamed("DDDD", 4), c12B(0x01, 0x01, 0x00), c12FldNamed("EEEE", 4)))
	add("processor-power-thermal",
		c12Scope("\\_PR_", c12Cat(c12B(0x5b, 0x83), c12Pkg(0, c12Cat(c12S("CPU0"), c12B(0, 0x10, 0x08, 0, 0, 6), c12Name("AAAA", c12B(0)))))),
		c12Cat(c12B(0x5b, 0x84), c12Pkg(0, c12Cat(c12S("PWR0"), c12B(1, 2, 0), c12Method("_ON_", 0), c12Method("_OFF", 0), c12Method("_STA", 0, c12B(0xa4, 0x01))))),
		c12Scope("\\_TZ_", c12Cat(c12B(0x5b, 0x85), c12Pkg(0, c12Cat(c12S("THM0"), c12Method("_TMP", 0, c12B(0xa4), c12Word(0xbb8)))))))
	add("mutex-event-alias-external",
		c12Cat(c12B(0x5b, 0x01), c12S("MUT0"), c12B(3)), c12Cat(c12B(0x5b, 0x02), c12S("EVT0")),
		c12Name("AAAA", c12B(0)), c12Cat(c12B(0x06), c12S("AAAA"), c12S("BBBB")), c12Cat(c12B(0x15), c12S("EXT0"), c12B(8, 2)),
		c12Cat(c12B(0x5b, 0x88), c12S("DREG"), c12Str("OEM"), c12Str("ID"), c12Str("TBL")),
		c12Method("MTH0", 0, c12B(0x5b, 0x23), c12S("MUT0"), c12B(0xff, 0xff), c12B(0x5b, 0x27), c12S("MUT0"), c12B(0x5b, 0x24), c12S("EVT0"),
			c12B(0x5b, 0x25), c12S("EVT0"), c12Word(100), c12B(0x5b, 0x26), c12S("EVT0"), c12B(0x5b, 0x22), c12Byte(5), c12B(0x5b, 0x21), c12Byte(5)))
	add("expressions",
		c12Name("AAAA", c12Package(3, c12B(0), c12B(1), c12B(0xff))),
		c12Name("BBBB", c12Buffer(c12Byte(8), 1, 2, 3, 4, 5, 6, 7, 8)),
		c12Method("MTH0", 2,
			c12B(0x70), c12B(0x83, 0x88), c12S("AAAA"), c12B(0x01, 0x00), c12B(0x60),
			c12B(0x8a), c12S("BBBB"), c12B(0x00), c12S("DW00"),
			c12B(0x8d), c12S("BBBB"), c12Byte(3), c12S("BIT0"),
			c12B(0x5b, 0x13), c12S("BBBB"), c12Byte(8), c12Byte(4), c12S("FLD0"),
			c12B(0x72, 0x68, 0x69, 0x61), c12B(0x78, 0x68, 0x69, 0x62, 0x63), c12B(0x80, 0x68, 0x64),
			c12B(0x9e), c12S("BBBB"), c12B(0x00, 0x01, 0x65), c12B(0x9c), c12S("BBBB"), c12B(0xff, 0x66),
			c12B(0x89), c12S("AAAA"), c12B(0x00, 0x01, 0x00, 0x00, 0x00), c12B(0x70), c12B(0x87), c12S("BBBB"), c12B(0x67),
			c12B(0x5b, 0x12), c12S("CCCC"), c12B(0x60), c12B(0x86), c12S("AAAA"), c12Byte(0x80),
			c12B(0x70, 0x71), c12S("AAAA"), c12B(0x60), c12B(0x8e), c12S("AAAA"), c12B(0x9d, 0x60, 0x61),
			c12B(0x5b, 0x32, 0x01, 2, 0, 0, 0, 0x68), c12B(0x70, 0x5b, 0x33, 0x60), c12B(0x70, 0x68, 0x5b, 0x31), c12B(0xcc), c12B(0xa3)))
	add("load-unload",
		c12Name("AAAA", c12B(0)),
		c12Method("MTH0", 0, c12B(0x5b, 0x20), c12S("AAAA"), c12B(0x60), c12B(0x5b, 0x2a, 0x60),
			c12B(0x70, 0x5b, 0x1f), c12Str("OEM1"), c12Str("a"), c12Str("b"), c12Str("\\"), c12Str("c"), c12B(0x00), c12B(0x61)))
	add("package-nesting",
		c12Name("AAAA", c12Package(2, c12Package(2, c12Package(1, c12S("BBBB")), c12Buffer(c12B(0x01), 7)), c12Cat(c12B(0x13), c12Pkg(0, c12Cat(c12B(0x0a, 2), c12B(0x00), c12B(0x01)))))),
		c12Name("BBBB", c12B(0)))
	add("scope-unresolvable", c12Scope("ZZZZ", c12Name("AAAA", c12B(0))))
	add("scope-forward", c12Scope("\\_SB_", c12Scope("AAAA", c12Name("BBBB", c12B(0))), c12Device("AAAA")))
	add("relocate-unresolvable", c12Cat(c12B(0x08, 0x2e), c12S("ZZZZAAAA"), c12B(0)))
	add("relocate-to-nonscope", c12Name("AAAA", c12B(0)), c12Cat(c12B(0x08, 0x2e), c12S("AAAABBBB"), c12B(0)))
	add("method-self-path", c12Cat(c12B(0x14), c12Pkg(0, c12Cat(c12B(0x2e), c12S("MTH0MTH0"), c12B(0)))))
	add("device-child-of-later", c12Cat(c12B(0x5b, 0x82), c12Pkg(0, c12Cat(c12B(0x2e), c12S("BBBBAAAA")))), c12Device("BBBB"))
	add("mutual-relocation",
		c12Cat(c12B(0x5b, 0x82), c12Pkg(0, c12Cat(c12B(0x2e), c12S("BBBBAAAA")))),
		c12Cat(c12B(0x5b, 0x82), c12Pkg(0, c12Cat(c12B(0x2e), c12S("AAAABBBB")))))
	add("call-too-few-args", c12Method("MTH3", 3), c12Method("MTH0", 0, c12S("MTH3"), c12B(0x68)))
	add("call-at-end", c12Method("MTH1", 1), c12S("MTH1"))
	add("name-only", c12S("AAAA"))
	add("prefix-only", c12B(0x5c))
	add("multiname-255", c12B(0x08, 0x2f, 0xff), c12S("AAAA"))
	add("string-unterminated", c12B(0x08), c12S("AAAA"), c12B(0x0d), c12S("abc"))
	add("buffer-size-call", c12Method("LEN0", 1, c12B(0xa4, 0x68)), c12Name("AAAA", c12Buffer(c12Cat(c12S("LEN0"), c12S("LEN0"), c12Byte(1)), 1)))
	add("uses-lib", c12UsesLib())
	add("deep-adds", c12Method("MTH0", 0, c12Cat(c12B(0x70), repeatBytes(c12B(0x72, 0x01), 40), c12B(0x01), repeatBytes(c12B(0x00), 40), c12B(0x60))))
	return out
}

func repeatBytes(b []byte, n int) []byte {
	var out []byte
	for i := 0; i < n; i++ {
		out = append(out, b...)
	}
	return out
}

func c12LoadBases() error {
	if len(c12Bases) != 0 {
		return nil
	}
	dir := filepath.Join(pkgDirC12(), "..", "table", "tabletest")
	for i, f := range []string{"DSDT.aml", "SSDT.aml", "parser-testsuite-DSDT.aml"} {
		data, err := ioutil.ReadFile(filepath.Join(dir, f))
		if err != nil {
			return err
		}
		if len(data) < 36 {
			return fmt.Errorf("%s: shorter than a table header", f)
		}
		c12Shipped[i] = c12Base{name: "shipped:" + f, payload: data, heavy: i == 0}
		c12Bases = append(c12Bases, c12Base{name: "shipped:" + f, payload: data[36:], heavy: i == 0})
	}
	c12Bases = append(c12Bases, c12HandPrograms()...)
	return nil
}

// pkgDirC12: the test binary runs with the package directory as its working
// directory (vcheck sets cmd.Dir).
func pkgDirC12() string {
	if wd, err := os.Getwd(); err == nil {
		return wd
	}
	return "."
}

// ---------------------------------------------------------------------------
// c12Scan: tolerant structure scanner.

type c12Span struct{ off, n int }
type c12PkgSite struct {
	obj int // offset of the opcode that owns the length (or of the field element)
	off int // offset of the lead byte
	enc int // bytes of the encoding
	val int // decoded value
	fld bool
}

type c12Map struct {
	objs  []c12Span // object extents
	ops   []c12Span // opcode bytes
	pkgs  []c12PkgSite
	names []c12Span // name strings with their prefixes
	flds  []c12Span // field elements
	steps int
}

type c12Scanner struct {
	b []byte
	m *c12Map
}

func c12Scan(b []byte) *c12Map {
	s := &c12Scanner{b: b, m: &c12Map{}}
	s.list(0, len(b), 0)
	return s.m
}

func (s *c12Scanner) pkgLen(pos, end int) (val, enc int, ok bool) {
	if pos >= end {
		return 0, 0, false
	}
	lead := s.b[pos]
	enc = int(lead>>6) + 1
	if pos+enc > end {
		return 0, 0, false
	}
	if enc == 1 {
		return int(lead), 1, true
	}
	val = int(lead & 0xf)
	for i := 1; i < enc; i++ {
		val |= int(s.b[pos+i]) << uint(4+8*(i-1))
	}
	return val, enc, true
}

// nameString returns the length of a name string at pos (0 = none).
func (s *c12Scanner) nameString(pos, end int) int {
	p := pos
	for p < end && (s.b[p] == '\\' || s.b[p] == '^') {
		p++
	}
	if p >= end {
		return p - pos
	}
	switch ch := s.b[p]; {
	case ch == 0:
		p++
	case ch == 0x2e:
		p += 9
	case ch == 0x2f:
		if p+1 < end {
			p += 2 + 4*int(s.b[p+1])
		} else {
			p++
		}
	case (ch >= 'A' && ch <= 'Z') || ch == '_':
		p += 4
	default:
		return p - pos
	}
	if p > end {
		p = end
	}
	return p - pos
}

func (s *c12Scanner) list(pos, end, depth int) {
	for pos < end {
		np := s.one(pos, end, depth)
		if np <= pos {
			np = pos + 1
		}
		pos = np
	}
}

// one scans one object starting at pos and returns the offset after it.
func (s *c12Scanner) one(pos, end, depth int) int {
	if s.m.steps++; s.m.steps > 1<<20 || depth > 48 || pos >= end {
		return end
	}
	start := pos
	op := uint16(s.b[pos])
	opLen := 1
	if s.b[pos] == extOpPrefix && pos+1 < end {
		op = 0xff + uint16(s.b[pos+1])
		opLen = 2
	}
	idx := pOpcodeTableIndex(op, false)
	if idx == badOpcode || int(idx) >= len(pOpcodeTable) {
		if n := s.nameString(pos, end); n > 0 {
			s.m.names = append(s.m.names, c12Span{pos, n})
			s.m.objs = append(s.m.objs, c12Span{pos, n})
			return pos + n
		}
		return pos + 1
	}
	s.m.ops = append(s.m.ops, c12Span{pos, opLen})
	pos += opLen
	info := &pOpcodeTable[idx]
	localEnd := end
	hasPkg := false
	for a := uint8(0); a < info.argFlags.argCount() && pos <= localEnd; a++ {
		switch info.argFlags.arg(a) {
		case pArgTypePkgLen:
			val, enc, ok := s.pkgLen(pos, end)
			if !ok {
				s.m.objs = append(s.m.objs, c12Span{start, end - start})
				return end
			}
			s.m.pkgs = append(s.m.pkgs, c12PkgSite{obj: start, off: pos, enc: enc, val: val})
			if pos+val < localEnd {
				localEnd = pos + val
			}
			if localEnd < pos+enc {
				localEnd = pos + enc
			}
			pos += enc
			hasPkg = true
		case pArgTypeNameString:
			n := s.nameString(pos, localEnd)
			if n > 0 {
				s.m.names = append(s.m.names, c12Span{pos, n})
			}
			pos += n
		case pArgTypeByteData:
			pos++
		case pArgTypeWordData:
			pos += 2
		case pArgTypeDwordData:
			pos += 4
		case pArgTypeQwordData:
			pos += 8
		case pArgTypeString:
			for pos < localEnd && s.b[pos] != 0 {
				pos++
			}
			pos++
		case pArgTypeByteList:
			pos = localEnd
		case pArgTypeTermList:
			s.list(pos, localEnd, depth+1)
			pos = localEnd
		case pArgTypeFieldList:
			s.fields(pos, localEnd)
			pos = localEnd
		default: // term argument, data object, target, super name, simple name
			if pos < localEnd {
				pos = s.one(pos, localEnd, depth+1)
			}
		}
	}
	if hasPkg {
		pos = localEnd
	}
	if pos > end {
		pos = end
	}
	s.m.objs = append(s.m.objs, c12Span{start, pos - start})
	return pos
}

func (s *c12Scanner) fields(pos, end int) {
	for pos < end {
		start := pos
		switch s.b[pos] {
		case 0x00:
			pos++
			if val, enc, ok := s.pkgLen(pos, end); ok {
				s.m.pkgs = append(s.m.pkgs, c12PkgSite{obj: start, off: pos, enc: enc, val: val, fld: true})
				pos += enc
			} else {
				pos = end
			}
		case 0x01:
			pos += 3
		case 0x03:
			pos += 4
		case 0x02:
			pos++
			if pos < end && s.b[pos] == 0x11 {
				pos++
				if val, enc, ok := s.pkgLen(pos, end); ok {
					s.m.pkgs = append(s.m.pkgs, c12PkgSite{obj: start, off: pos, enc: enc, val: val})
					if val < enc {
						val = enc
					}
					pos += val
				} else {
					pos = end
				}
			} else {
				n := s.nameString(pos, end)
				if n > 0 {
					s.m.names = append(s.m.names, c12Span{pos, n})
				}
				pos += n
			}
		default:
			pos += 4
			if val, enc, ok := s.pkgLen(pos, end); ok && pos < end {
				s.m.pkgs = append(s.m.pkgs, c12PkgSite{obj: start, off: pos, enc: enc, val: val, fld: true})
				pos += enc
			} else {
				pos = end
			}
		}
		if pos > end {
			pos = end
		}
		if pos <= start {
			pos = start + 1
		}
		s.m.flds = append(s.m.flds, c12Span{start, pos - start})
	}
}

// ---------------------------------------------------------------------------
// Mutators.

// c12Alphabet: bytes that mean something to an AML parser.
var c12Alphabet = func() []byte {
	var a []byte
	for i := 0; i < 256; i++ {
		if opcodeMap[i] != badOpcode {
			a = append(a, byte(i))
		}
	}
	for i := 0; i < 256; i++ {
		if extendedOpcodeMap[i] != badOpcode {
			a = append(a, extOpPrefix) // weight of the extended prefix ~ number of extended opcodes
		}
	}
	a = append(a, 0x2e, 0x2f, 0x5c, 0x5e, 0x2e, 0x2f, 0x5c, 0x5e, 0x00, 0x00, 0x01, 0x02, 0x03, 0x3f, 0x40, 0x80, 0xc0, 0xff,
		'A', 'A', 'B', 'M', 'T', 'H', '_', '_', '0', '1', '7', 0x7f)
	return a
}()

var c12ExtBytes = func() []byte {
	var a []byte
	for i := 0; i < 256; i++ {
		if extendedOpcodeMap[i] != badOpcode {
			a = append(a, byte(i))
		}
	}
	return a
}()

var c12TinyNames = []string{"AAAA", "AAAA", "BBBB", "CCCC", "MTH0", "MTH1", "MTH2", "MTH3", "DEV0", "DEV1", "REG0", "FLD0", "_SB_", "_PR_", "_TZ_", "_GPE", "_SI_", "_HID", "MUT0"}

// c12Snippets: small constructs known to be delicate, inserted at object boundaries.
var c12Snippets = [][]byte{
	c12Cat(c12B(0x5b, 0x82, 0x0a, 0x2e), c12S("AAAAAAAA")),
	c12Cat(c12B(0x5b, 0x82, 0x06, 0x5e), c12S("AAAA")),
	c12Cat(c12B(0x02, 0x11, 0x05, 0x0a, 0x40, 0x01, 0x02)),
	c12Cat(c12B(0x02, 0x11, 0x06, 0x0b, 0xff, 0xff, 0x01)),
	c12Cat(c12B(0x02, 0x11, 0x08, 0x0c, 0xff, 0xff, 0xff, 0xff, 0x01)),
	c12Cat(c12B(0x02, 0x11, 0x00)),
	c12Cat(c12B(0x10, 0x05), c12S("AAAA")),
	c12Cat(c12B(0x10, 0x02, 0x5c)),
	c12Cat(c12B(0x10, 0x02, 0x00)),
	c12Cat(c12B(0x14, 0x06), c12S("MTH0"), c12B(0x07)),
	c12Cat(c12S("MTH3"), c12B(0x01)),
	c12Cat(c12B(0x11, 0x03, 0x0a, 0x10)),
	c12Cat(c12B(0x11, 0x02, 0x60)),
	c12Cat(c12B(0x11, 0x00)),
	c12Cat(c12B(0xa2, 0x02, 0x01)),
	c12Cat(c12B(0xa2, 0x01)),
	c12Cat(c12B(0x12, 0x02, 0xff)),
	c12Cat(c12B(0x5b, 0x81, 0x06), c12S("REG0"), c12B(0x00)),
	c12Cat(c12B(0x5b, 0x87, 0x0c), c12S("REG0"), c12S("FLD0"), c12B(0x00, 0x00)),
	c12Cat(c12B(0x5b, 0x86, 0x0a), c12S("FLD0"), c12S("FLD1"), c12B(0x00)),
	c12Cat(c12B(0x08, 0x2f, 0x00)),
	c12Cat(c12B(0x08, 0x2e), c12S("AAAA")),
	c12Cat(c12B(0x08, 0x00, 0x00)),
	c12Cat(c12B(0x06, 0x00, 0x00)),
	c12Cat(c12B(0x5b, 0x80, 0x00, 0x00, 0x00, 0x00)),
	c12Cat(c12B(0x14, 0x03, 0x00, 0x00)),
	c12Cat(c12B(0x5b, 0x82, 0x02, 0x00)),
	c12Cat(c12B(0x5b, 0x83, 0x07, 0x00, 0x00, 0x00, 0x00, 0x00, 0x00, 0x00)),
}

type c12Mut struct {
	r      *vlib.Rand
	b      []byte
	recipe []string
	kinds  []string
	donors []c12Base
}

func (m *c12Mut) note(kind, format string, a ...interface{}) {
	m.kinds = append(m.kinds, kind)
	if len(m.recipe) < 12 {
		m.recipe = append(m.recipe, kind+":"+fmt.Sprintf(format, a...))
	}
}

// replace substitutes b[off:off+del] by ins. If fix is set, the package
// lengths of all enclosing packages (as seen by the scanner before the edit)
// are adjusted by the length change where their encoding can hold the result.
func (m *c12Mut) replace(sm *c12Map, off, del int, ins []byte, fix bool) {
	if off < 0 {
		off = 0
	}
	if off > len(m.b) {
		off = len(m.b)
	}
	if del < 0 {
		del = 0
	}
	if off+del > len(m.b) {
		del = len(m.b) - off
	}
	delta := len(ins) - del
	if fix && delta != 0 && sm != nil {
		for _, p := range sm.pkgs {
			if p.fld || !(p.off+p.enc <= off && off+del <= p.off+p.val) {
				continue
			}
			nv := p.val + delta
			if nv < p.enc || nv > c12EncMax[p.enc] {
				continue
			}
			copy(m.b[p.off:], c12EncLen(nv, p.enc))
		}
	}
	out := make([]byte, 0, len(m.b)+delta)
	out = append(out, m.b[:off]...)
	out = append(out, ins...)
	out = append(out, m.b[off+del:]...)
	m.b = out
}

func (m *c12Mut) pickSpan(l []c12Span) (c12Span, bool) {
	if len(l) == 0 {
		return c12Span{}, false
	}
	return l[m.r.Intn(len(l))], true
}

func (m *c12Mut) alpha() byte {
	r := m.r
	if r.Chance(1, 8) {
		return byte(r.U64())
	}
	return c12Alphabet[r.Intn(len(c12Alphabet))]
}

func (m *c12Mut) truncate(sm *c12Map) {
	r, n := m.r, len(m.b)
	if n == 0 {
		return
	}
	at, class := 0, ""
	switch r.Intn(8) {
	case 0:
		at, class = r.Intn(n), "random"
	case 1:
		if s, ok := m.pickSpan(sm.ops); ok {
			at, class = s.off+r.Intn(s.n+1), "in-or-after-opcode"
		}
	case 2:
		if len(sm.pkgs) > 0 {
			p := sm.pkgs[r.Intn(len(sm.pkgs))]
			at, class = p.off+r.Intn(p.enc+1), "in-pkglen"
		}
	case 3:
		if s, ok := m.pickSpan(sm.names); ok {
			at, class = s.off+r.Intn(s.n+1), "in-name"
		}
	case 4:
		at, class = n-1-r.Intn(4), "near-end"
	case 5:
		if len(sm.pkgs) > 0 {
			p := sm.pkgs[r.Intn(len(sm.pkgs))]
			at, class = p.off+p.val+r.Range(-1, 1), "at-pkg-end"
		}
	case 6:
		if s, ok := m.pickSpan(sm.objs); ok {
			at, class = s.off+r.Intn(s.n+1), "in-object"
		}
	default:
		if s, ok := m.pickSpan(sm.flds); ok {
			at, class = s.off+r.Intn(s.n+1), "in-field-element"
		}
	}
	if class == "" {
		at, class = r.Intn(n), "random"
	}
	if at < 0 {
		at = 0
	}
	if at > n {
		at = n
	}
	m.b = append([]byte(nil), m.b[:at]...)
	m.note("truncate", "%s@%d", class, at)
}

func (m *c12Mut) sitePos(sm *c12Map) (int, string) {
	r, n := m.r, len(m.b)
	switch r.Intn(5) {
	case 0:
		if s, ok := m.pickSpan(sm.ops); ok {
			return s.off + r.Intn(s.n), "opcode"
		}
	case 1:
		if len(sm.pkgs) > 0 {
			p := sm.pkgs[r.Intn(len(sm.pkgs))]
			return p.off + r.Intn(p.enc), "pkglen"
		}
	case 2:
		if s, ok := m.pickSpan(sm.names); ok && s.n > 0 {
			return s.off + r.Intn(s.n), "name"
		}
	case 3:
		if s, ok := m.pickSpan(sm.flds); ok && s.n > 0 {
			return s.off + r.Intn(s.n), "field"
		}
	}
	return r.Intn(n), "random"
}

func (m *c12Mut) bitflip(sm *c12Map) {
	if len(m.b) == 0 {
		return
	}
	k := m.r.Range(1, 3)
	for i := 0; i < k; i++ {
		at, cl := m.sitePos(sm)
		if at >= len(m.b) {
			continue
		}
		bit := uint(m.r.Intn(8))
		m.b[at] ^= 1 << bit
		m.note("bitflip", "%s@%d.%d", cl, at, bit)
	}
}

func (m *c12Mut) subst(sm *c12Map) {
	if len(m.b) == 0 {
		return
	}
	k := m.r.Range(1, 4)
	for i := 0; i < k; i++ {
		at, cl := m.sitePos(sm)
		if at >= len(m.b) {
			continue
		}
		v := m.alpha()
		m.b[at] = v
		if v == extOpPrefix && at+1 < len(m.b) && m.r.Chance(3, 4) {
			m.b[at+1] = c12ExtBytes[m.r.Intn(len(c12ExtBytes))]
		}
		m.note("subst", "%s@%d=%02x", cl, at, v)
	}
}

func (m *c12Mut) pkglen(sm *c12Map) {
	r := m.r
	if len(sm.pkgs) == 0 {
		m.subst(sm)
		return
	}
	p := sm.pkgs[r.Intn(len(sm.pkgs))]
	rest := len(m.b) - p.off
	parentEnd := len(m.b)
	for _, q := range sm.pkgs {
		if !q.fld && q.off < p.off && p.off < q.off+q.val && q.off+q.val < parentEnd {
			parentEnd = q.off + q.val
		}
	}
	var nv int
	var class string
	switch r.Intn(14) {
	case 0:
		nv, class = 0, "zero"
	case 1:
		nv, class = 1, "one"
	case 2:
		nv, class = p.enc, "empty-body"
	case 3:
		nv, class = p.val-1, "minus1"
	case 4:
		nv, class = p.val+1, "plus1"
	case 5:
		nv, class = p.val-r.Range(2, 12), "shorter"
	case 6:
		nv, class = p.val+r.Range(2, 40), "longer"
	case 7:
		nv, class = rest, "to-table-end"
	case 8:
		nv, class = rest+1, "table-end-plus1"
	case 9:
		nv, class = rest+r.Range(2, 5000), "past-table-end"
	case 10:
		nv, class = -1, "encoding-max"
	case 11:
		nv, class = parentEnd-p.off, "to-parent-end"
	case 12:
		nv, class = parentEnd-p.off+1, "parent-end-plus1"
	default:
		nv, class = r.Intn(p.val+2), "random-shorter"
	}
	enc := p.enc
	if r.Chance(2, 5) {
		enc = r.Range(1, 4)
	}
	if nv < 0 || class == "encoding-max" {
		if class == "encoding-max" {
			nv = c12EncMax[enc]
		} else {
			nv = 0
		}
	}
	if nv > c12EncMax[enc] {
		if r.Bool() {
			for enc < 4 && nv > c12EncMax[enc] {
				enc++
			}
		}
		if nv > c12EncMax[enc] {
			nv = c12EncMax[enc]
		}
	}
	fix := enc != p.enc && r.Bool()
	m.replace(sm, p.off, p.enc, c12EncLen(nv, enc), fix)
	kind := "pkglen"
	if p.fld {
		kind = "fieldwidth"
	}
	m.note(kind, "%s@%d enc%d->%d val%d->%d fix=%v", class, p.off, p.enc, enc, p.val, nv, fix)
}

func (m *c12Mut) lastSeg(s c12Span) []byte {
	if s.n >= 4 {
		seg := m.b[s.off+s.n-4 : s.off+s.n]
		if (seg[0] >= 'A' && seg[0] <= 'Z') || seg[0] == '_' {
			return append([]byte(nil), seg...)
		}
	}
	return []byte(c12TinyNames[m.r.Intn(len(c12TinyNames))])
}

func (m *c12Mut) namedup(sm *c12Map) {
	r := m.r
	s, ok := m.pickSpan(sm.names)
	if !ok {
		m.insert(sm)
		return
	}
	seg := m.lastSeg(s)
	other := seg
	if o, ok := m.pickSpan(sm.names); ok {
		other = m.lastSeg(o)
	}
	// the name of a lexically enclosing named object, if any
	anc := other
	for _, p := range sm.pkgs {
		if !p.fld && p.off < s.off && s.off < p.off+p.val {
			for _, nm := range sm.names {
				if nm.off == p.off+p.enc {
					anc = m.lastSeg(nm)
				}
			}
		}
	}
	var ins []byte
	var class string
	switch r.Intn(16) {
	case 0:
		ins, class = c12Cat(c12B(0x2e), seg, seg), "dual-self"
	case 1:
		ins, class = c12Cat(c12B(0x5e), seg), "caret"
	case 2:
		ins, class = c12Cat(repeatBytes(c12B(0x5e), r.Range(2, 9)), seg), "carets"
	case 3:
		ins, class = c12Cat(c12B(0x5c), seg), "root"
	case 4:
		ins, class = c12Cat(c12B(0x5c, 0x2e), seg, seg), "root-dual-self"
	case 5:
		k := []int{1, 2, 3, 8, 63}[r.Intn(5)]
		ins, class = c12Cat(c12B(0x2f, byte(k)), repeatBytes(seg, k)), "multi-self"
	case 6:
		ins, class = c12Cat(c12B(0x2f, byte([]int{0, 200, 255}[r.Intn(3)])), seg), "multi-bad-count"
	case 7:
		ins, class = c12Cat(c12B(0x2e), anc, seg), "dual-ancestor"
	case 8:
		ins, class = c12Cat(c12B(0x2e), seg, anc), "dual-self-ancestor"
	case 9:
		ins, class = c12Cat(c12B(0x2e), other, seg), "dual-other"
	case 10:
		ins, class = c12Cat(c12B(0x5c, 0x2e), c12S("_SB_"), seg), "root-sb"
	case 11:
		ins, class = c12B(0x5c), "root-only"
	case 12:
		ins, class = c12B(0x00), "null"
	case 13:
		ins, class = c12Cat(c12B(0x5e, 0x2e), seg, seg), "caret-dual-self"
	case 14:
		ins, class = anc, "ancestor-name"
	default:
		ins, class = c12Cat(c12B(0x2f, 0x03), anc, seg, seg), "multi-ancestor-self-self"
	}
	fix := r.Chance(3, 4)
	m.replace(sm, s.off, s.n, ins, fix)
	m.note("namedup", "%s@%d fix=%v", class, s.off, fix)
}

func (m *c12Mut) donorExtent() []byte {
	r := m.r
	d := m.b
	if len(m.donors) > 0 && r.Chance(3, 4) {
		d = m.donors[r.Intn(len(m.donors))].payload
		if len(d) > 4096 { // a window of a big donor
			o := r.Intn(len(d) - 2048)
			d = d[o : o+2048]
		}
	}
	dm := c12Scan(d)
	if len(dm.objs) == 0 {
		return nil
	}
	best := dm.objs[r.Intn(len(dm.objs))]
	for t := 0; t < 2; t++ { // prefer bigger extents (whole bodies)
		if o := dm.objs[r.Intn(len(dm.objs))]; o.n > best.n && o.n <= 1024 {
			best = o
		}
	}
	if best.n > 2048 {
		best.n = 2048
	}
	return append([]byte(nil), d[best.off:best.off+best.n]...)
}

func (m *c12Mut) splice(sm *c12Map) {
	r := m.r
	ext := m.donorExtent()
	if len(ext) == 0 {
		m.insert(sm)
		return
	}
	fix := r.Chance(2, 3)
	if t, ok := m.pickSpan(sm.objs); ok {
		if r.Bool() {
			m.replace(sm, t.off, t.n, ext, fix)
			m.note("splice", "replace@%d del%d ins%d fix=%v", t.off, t.n, len(ext), fix)
		} else {
			at := t.off
			if r.Bool() {
				at += t.n
			}
			m.replace(sm, at, 0, ext, fix)
			m.note("splice", "insert@%d ins%d fix=%v", at, len(ext), fix)
		}
		return
	}
	at := r.Intn(len(m.b) + 1)
	m.replace(sm, at, 0, ext, false)
	m.note("splice", "insert-random@%d ins%d", at, len(ext))
}

func (m *c12Mut) deleteOperand(sm *c12Map) {
	t, ok := m.pickSpan(sm.objs)
	if !ok || t.n == 0 {
		m.truncate(sm)
		return
	}
	fix := m.r.Chance(2, 3)
	m.replace(sm, t.off, t.n, nil, fix)
	m.note("delete", "@%d del%d fix=%v", t.off, t.n, fix)
}

func (m *c12Mut) dupOperand(sm *c12Map) {
	t, ok := m.pickSpan(sm.objs)
	if !ok || t.n == 0 || t.n > 4096 {
		m.insert(sm)
		return
	}
	fix := m.r.Chance(2, 3)
	k := 1
	if m.r.Chance(1, 6) {
		k = m.r.Range(2, 8)
	}
	m.replace(sm, t.off+t.n, 0, repeatBytes(m.b[t.off:t.off+t.n], k), fix)
	m.note("duplicate", "@%d len%d x%d fix=%v", t.off, t.n, k, fix)
}

func (m *c12Mut) insert(sm *c12Map) {
	r := m.r
	var ins []byte
	class := "alphabet"
	switch r.Intn(4) {
	case 0:
		ins, class = c12Snippets[r.Intn(len(c12Snippets))], "snippet"
	case 1:
		ins, class = []byte(c12TinyNames[r.Intn(len(c12TinyNames))]), "name"
	default:
		k := r.Range(1, 6)
		for i := 0; i < k; i++ {
			ins = append(ins, m.alpha())
		}
	}
	at := r.Intn(len(m.b) + 1)
	if t, ok := m.pickSpan(sm.objs); ok && r.Chance(3, 4) {
		at = t.off
		if r.Bool() {
			at += t.n
		}
	}
	if f, ok := m.pickSpan(sm.flds); ok && r.Chance(1, 4) {
		at = f.off
	}
	fix := r.Chance(2, 3)
	m.replace(sm, at, 0, ins, fix)
	m.note("insert", "%s@%d ins%d fix=%v", class, at, len(ins), fix)
}

func (m *c12Mut) fieldElement(sm *c12Map) {
	r := m.r
	f, ok := m.pickSpan(sm.flds)
	if !ok {
		m.pkglen(sm)
		return
	}
	var ins []byte
	class := ""
	switch r.Intn(8) {
	case 0:
		ins, class = c12B(0x00), "reserved-lead"
	case 1:
		ins, class = c12B(0x01), "access-lead"
	case 2:
		ins, class = c12B(0x02), "connection-lead"
	case 3:
		ins, class = c12B(0x03), "extaccess-lead"
	case 4:
		ins, class = c12Cat(c12B(0x02, 0x11), c12Pkg(0, c12Cat(c12Byte(byte(r.Range(0, 255))), r.Bytes(r.Intn(6))))), "connection-buffer-byte-len"
	case 5:
		ins, class = c12Cat(c12B(0x02, 0x11), c12Pkg(0, c12Cat(c12Word(uint16(r.U64())), r.Bytes(r.Intn(6))))), "connection-buffer-word-len"
	case 6:
		ins, class = c12Cat(c12B(0x02, 0x11), c12Pkg(0, c12Cat(c12Dword(uint32(r.U64())), r.Bytes(r.Intn(6))))), "connection-buffer-dword-len"
	default:
		ins, class = c12Cat(c12B(0x02), []byte(c12TinyNames[r.Intn(len(c12TinyNames))])), "connection-name"
	}
	del := 0
	if len(ins) == 1 && r.Bool() {
		del = 1
	}
	fix := r.Chance(3, 4)
	m.replace(sm, f.off, del, ins, fix)
	m.note("fieldelem", "%s@%d fix=%v", class, f.off, fix)
}

var c12MutatorNames = []string{"truncate", "bitflip", "subst", "pkglen", "namedup", "splice", "delete", "duplicate", "insert", "fieldelem"}

// c12Mutate applies 1..3 mutators to base.
func c12Mutate(r *vlib.Rand, base []byte, donors []c12Base) (out []byte, recipe, kinds []string) {
	m := &c12Mut{r: r, b: append([]byte(nil), base...), donors: donors}
	steps := 1
	switch x := r.Intn(10); {
	case x >= 9:
		steps = 3
	case x >= 6:
		steps = 2
	}
	for i := 0; i < steps; i++ {
		sm := c12Scan(m.b)
		switch x := r.Intn(100); {
		case x < 12:
			m.truncate(sm)
		case x < 22:
			m.bitflip(sm)
		case x < 34:
			m.subst(sm)
		case x < 54:
			m.pkglen(sm)
		case x < 68:
			m.namedup(sm)
		case x < 77:
			m.splice(sm)
		case x < 84:
			m.deleteOperand(sm)
		case x < 90:
			m.dupOperand(sm)
		case x < 96:
			m.insert(sm)
		default:
			m.fieldElement(sm)
		}
		if len(m.b) > c12MaxPayload {
			m.b = m.b[:c12MaxPayload]
		}
	}
	return m.b, m.recipe, m.kinds
}

// ---------------------------------------------------------------------------
// Opcode-table-driven program generator.

type c12Gen struct {
	r     *vlib.Rand
	nodes int
}

var c12GenMethods = []string{"MTH0", "MTH1", "MTH2", "MTH3"} // MTHk takes k arguments

func (g *c12Gen) name() []byte {
	r := g.r
	n := []byte(c12TinyNames[r.Intn(len(c12TinyNames))])
	switch r.Intn(12) {
	case 0:
		return c12Cat(c12B(0x5c), n)
	case 1:
		return c12Cat(c12B(0x5e), n)
	case 2:
		return c12Cat(c12B(0x2e), n, []byte(c12TinyNames[r.Intn(len(c12TinyNames))]))
	case 3:
		return c12Cat(c12B(0x5c, 0x2e), c12S("_SB_"), n)
	case 4:
		return c12Cat(c12B(0x2f, 0x03), c12S("_SB_"), []byte(c12TinyNames[r.Intn(len(c12TinyNames))]), n)
	}
	return n
}

func (g *c12Gen) data(depth int) []byte {
	r := g.r
	switch r.Intn(12) {
	case 0:
		return c12B(0x00)
	case 1:
		return c12B(0x01)
	case 2:
		return c12B(0xff)
	case 3:
		return c12Byte(byte(r.U64()))
	case 4:
		return c12Word(uint16(r.U64()))
	case 5:
		return c12Dword(uint32(r.U64()))
	case 6:
		return c12Cat(c12B(0x0e), r.Bytes(8))
	case 7:
		return c12Str([]string{"", "a", "PNP0A03", "\\_SB"}[r.Intn(4)])
	case 8:
		if depth > 0 {
			return g.op(pOpBuffer, depth-1)
		}
	case 9:
		if depth > 0 {
			return g.op(pOpPackage, depth-1)
		}
	case 10:
		return c12B(0x5b, 0x30)
	}
	return c12Byte(byte(r.Intn(4)))
}

var c12Type2Ops = func() []uint16 {
	var l []uint16
	for _, e := range pOpcodeTable {
		if pOpIsType2(e.op) {
			l = append(l, e.op)
		}
	}
	return l
}()

var c12AllOps = func() []uint16 {
	var l []uint16
	for _, e := range pOpcodeTable {
		if pOpcodeTableIndex(e.op, false) != badOpcode {
			l = append(l, e.op)
		}
	}
	return l
}()

var c12DeclOps = []uint16{pOpName, pOpName, pOpMethod, pOpMethod, pOpDevice, pOpDevice, pOpScope, pOpOpRegion, pOpField, pOpIndexField, pOpBankField,
	pOpProcessor, pOpPowerRes, pOpThermalZone, pOpMutex, pOpEvent, pOpAlias, pOpExternal, pOpDataRegion, pOpCreateDWordField, pOpCreateField}

func (g *c12Gen) call() []byte {
	k := g.r.Intn(len(c12GenMethods))
	out := []byte(c12GenMethods[k])
	if g.r.Chance(1, 10) { // wrong number of arguments now and then
		k = g.r.Intn(5)
	}
	for i := 0; i < k; i++ {
		out = append(out, g.term(1)...)
	}
	return out
}

func (g *c12Gen) term(depth int) []byte {
	r := g.r
	g.nodes++
	if depth <= 0 || g.nodes > 400 {
		switch r.Intn(4) {
		case 0:
			return c12B(byte(0x60 + r.Intn(8)))
		case 1:
			return c12B(byte(0x68 + r.Intn(7)))
		case 2:
			return []byte(c12TinyNames[r.Intn(len(c12TinyNames))])
		}
		return g.data(0)
	}
	switch r.Intn(10) {
	case 0, 1:
		return g.data(depth)
	case 2:
		return c12B(byte(0x60 + r.Intn(8)))
	case 3:
		return c12B(byte(0x68 + r.Intn(7)))
	case 4:
		return g.name()
	case 5:
		return g.call()
	}
	return g.op(c12Type2Ops[r.Intn(len(c12Type2Ops))], depth-1)
}

func (g *c12Gen) target(depth int) []byte {
	r := g.r
	switch r.Intn(8) {
	case 0:
		return c12B(0x00)
	case 1, 2:
		return c12B(byte(0x60 + r.Intn(8)))
	case 3:
		return c12B(byte(0x68 + r.Intn(7)))
	case 4:
		return c12B(0x5b, 0x31)
	case 5:
		if depth > 0 {
			return g.op([]uint16{pOpIndex, pOpDerefOf, pOpRefOf}[r.Intn(3)], depth-1)
		}
	}
	return g.name()
}

func (g *c12Gen) fieldList() []byte {
	r := g.r
	var out []byte
	for i, n := 0, r.Intn(6); i < n; i++ {
		switch r.Intn(9) {
		case 0:
			out = append(out, c12FldReserved(r.Intn(300))...)
		case 1:
			out = append(out, 0x01, byte(r.Intn(8)), byte(r.Intn(16)))
		case 2:
			out = append(out, 0x03, byte(r.Intn(8)), byte(r.Intn(16)), byte(r.U64()))
		case 3:
			out = append(out, c12Cat(c12B(0x02), g.name())...)
		case 4:
			k := r.Intn(6)
			out = append(out, c12Cat(c12B(0x02, 0x11), c12Pkg(0, c12Cat(c12Byte(byte(k)), r.Bytes(k))))...)
		default:
			out = append(out, c12FldNamed(c12TinyNames[r.Intn(len(c12TinyNames))], r.Range(1, 70))...)
		}
	}
	return out
}

func (g *c12Gen) opBytes(op uint16) []byte {
	if op <= 0xff {
		return c12B(byte(op))
	}
	return c12B(extOpPrefix, byte(op-0xff))
}

// op emits opcode op with operands generated by operand kind.
func (g *c12Gen) op(op uint16, depth int) []byte {
	r := g.r
	g.nodes++
	idx := pOpcodeTableIndex(op, false)
	if idx == badOpcode {
		return c12B(0xa3)
	}
	info := &pOpcodeTable[idx]
	var body []byte
	hasPkg := false
	for a := uint8(0); a < info.argFlags.argCount(); a++ {
		switch info.argFlags.arg(a) {
		case pArgTypePkgLen:
			hasPkg = true
		case pArgTypeTermList:
			n := r.Intn(4)
			if depth <= 0 || g.nodes > 400 {
				n = r.Intn(2)
			}
			for i := 0; i < n; i++ {
				body = append(body, g.statement(depth-1, op == pOpMethod || op == pOpIf || op == pOpElse || op == pOpWhile)...)
			}
		case pArgTypeTermArg, pArgTypeDataRefObj:
			if op == pOpName || op == pOpPackage || op == pOpVarPackage {
				body = append(body, g.data(depth)...)
			} else {
				body = append(body, g.term(depth)...)
			}
		case pArgTypeByteList:
			body = append(body, r.Bytes(r.Intn(9))...)
		case pArgTypeString:
			body = append(body, c12S([]string{"", "abc", "_SB"}[r.Intn(3)])...)
			body = append(body, 0)
		case pArgTypeByteData:
			if op == pOpMethod {
				body = append(body, byte(r.Intn(8)))
			} else {
				body = append(body, byte(r.Intn(12)))
			}
		case pArgTypeWordData:
			body = append(body, r.Bytes(2)...)
		case pArgTypeDwordData:
			body = append(body, r.Bytes(4)...)
		case pArgTypeQwordData:
			body = append(body, r.Bytes(8)...)
		case pArgTypeNameString:
			if op == pOpMethod && r.Chance(2, 3) {
				// keep MTHk's declared argument count equal to k most of the time
				k := r.Intn(len(c12GenMethods))
				body = append(body, c12GenMethods[k]...)
				if a+1 < info.argFlags.argCount() && r.Chance(9, 10) {
					body = append(body, byte(k))
					a++
				}
			} else {
				body = append(body, g.name()...)
			}
		case pArgTypeFieldList:
			body = append(body, g.fieldList()...)
		default:
			body = append(body, g.target(depth)...)
		}
	}
	if hasPkg {
		enc := 0
		if r.Chance(1, 8) {
			enc = r.Range(1, 4)
			if len(body)+enc > c12EncMax[enc] {
				enc = 0
			}
		}
		return c12Cat(g.opBytes(op), c12Pkg(enc, body))
	}
	return c12Cat(g.opBytes(op), body)
}

func (g *c12Gen) statement(depth int, executable bool) []byte {
	r := g.r
	if g.nodes > 400 {
		return c12B(0xa3)
	}
	if executable && r.Chance(2, 3) {
		switch r.Intn(8) {
		case 0:
			return g.call()
		case 1:
			return g.op([]uint16{pOpIf, pOpWhile, pOpElse}[r.Intn(3)], depth)
		case 2:
			return g.op(pOpReturn, depth)
		case 3:
			return g.op(pOpStore, depth)
		}
		return g.op(c12AllOps[r.Intn(len(c12AllOps))], depth)
	}
	if r.Chance(1, 10) {
		return g.op(c12AllOps[r.Intn(len(c12AllOps))], depth)
	}
	return g.op(c12DeclOps[r.Intn(len(c12DeclOps))], depth)
}

func c12Generate(r *vlib.Rand) []byte {
	g := &c12Gen{r: r}
	var out []byte
	for i, n := 0, r.Range(1, 8); i < n; i++ {
		out = append(out, g.statement(r.Range(1, 4), false)...)
	}
	return out
}

// ---------------------------------------------------------------------------
// Sources.

type c12Source struct {
	name   string
	weight int
	gen    func(r *vlib.Rand) (payload []byte, recipe, kinds []string)
	// multi, when set, produces all tables of a case (1-3) instead of one
	multi func(r *vlib.Rand) []c12Part
}

func init() {
	// the C11 grammar-directed generator of well-formed programs, first table only
	c12ExtraSources = append(c12ExtraSources, func(r *vlib.Rand) []byte {
		_, t := c11Build(r, c11DefaultOpts(r))
		return t[0]
	})
}

// c12Overlap builds runs of deferred-parsed opcodes (Buffer, While, BankField)
// whose package lengths make the packages overlap or nest the wrong way round:
// each is skipped in the first pass and parsed from its own offset later.
func c12Overlap(r *vlib.Rand) ([]byte, []string, []string) {
	n := r.Range(8, 300)
	if r.Chance(1, 10) {
		n = r.Range(300, 1200)
	}
	// unit = opcode, package length, then whatever the opcode needs before its
	// next nested term (While: a predicate)
	type unit struct{ op, after []byte }
	units := []unit{{c12B(0x11), nil}, {c12B(0x11), nil}, {c12B(0xa2), c12B(0x01)}, {c12B(0x5b, 0x87), c12Cat(c12S("REG0"), c12S("FLD0"))}}
	u := units[r.Intn(len(units))]
	mixed := r.Chance(1, 5)
	lenClass := r.Intn(5)
	fixedLen := r.Range(2, 40) | 1
	fillDen := []int{0, 0, 16, 4, 2}[r.Intn(5)] // 0: no filler at all (clean chains)
	var out []byte
	for i := 0; i < n; i++ {
		if mixed {
			u = units[r.Intn(len(units))]
		}
		out = append(out, u.op...)
		var v int
		switch lenClass {
		case 0:
			v = fixedLen
		case 1:
			v = r.Range(2, 63)
		case 2:
			v = 3 + 2*len(u.after)
		case 3:
			v = r.Range(64, 4000)
		default:
			v = fixedLen + i%3
		}
		if v <= 63 {
			out = append(out, c12EncLen(v, 1)...)
		} else {
			out = append(out, c12EncLen(v, 2)...)
		}
		out = append(out, u.after...)
		if fillDen > 0 && r.Intn(fillDen) == 0 {
			switch r.Intn(3) {
			case 0:
				out = append(out, 0x01)
			case 1:
				out = append(out, 0x0a, byte(r.Intn(8)))
			default:
				out = append(out, c12TinyNames[r.Intn(len(c12TinyNames))]...)
			}
		}
	}
	out = append(out, repeatBytes(c12B(0x01), r.Intn(64))...)
	rec := []string{fmt.Sprintf("overlap n=%d lenclass=%d fixed=%d mixed=%v fill=1/%d", n, lenClass, fixedLen, mixed, fillDen)}
	if r.Chance(1, 3) {
		wrapped := c12Method("MTH0", 0, out)
		return wrapped, append(rec, "in-method"), nil
	}
	return out, rec, nil
}

// c12FromC11 turns one generated well-formed multi-table program into the
// tables of a case: all of them as generated, or one / all of them mutated.
func c12FromC11(r *vlib.Rand, light []c12Base) []c12Part {
	_, tabs := c11Build(r, c11DefaultOpts(r))
	if len(tabs) > 3 {
		tabs = tabs[:3]
	}
	mode := r.Intn(10)
	victim := r.Intn(len(tabs))
	var parts []c12Part
	for i, t := range tabs {
		pt := c12Part{source: "c11", recipe: []string{fmt.Sprintf("c11 program table %d/%d", i+1, len(tabs))}, payload: t}
		if mode >= 9 || (mode >= 2 && i == victim) {
			var rec []string
			pt.payload, rec, pt.kinds = c12Mutate(r, t, light)
			pt.recipe = append(pt.recipe, rec...)
			pt.source = "mut:c11"
		}
		if len(pt.payload) > c12MaxPayload {
			pt.payload = pt.payload[:c12MaxPayload]
		}
		parts = append(parts, pt)
	}
	return parts
}

func c12PickBase(r *vlib.Rand, allowHeavy bool) c12Base {
	for {
		b := c12Bases[r.Intn(len(c12Bases))]
		if b.heavy && !allowHeavy {
			continue
		}
		return b
	}
}

func c12LightBases() []c12Base {
	var l []c12Base
	for _, b := range c12Bases {
		if !b.heavy {
			l = append(l, b)
		}
	}
	return l
}

func c12Sources(thorough bool) []c12Source {
	light := c12LightBases()
	mutOf := func(name string, pick func(r *vlib.Rand) c12Base) func(r *vlib.Rand) ([]byte, []string, []string) {
		return func(r *vlib.Rand) ([]byte, []string, []string) {
			b := pick(r)
			out, rec, kinds := c12Mutate(r, b.payload, light)
			return out, append([]string{"base=" + b.name}, rec...), kinds
		}
	}
	src := []c12Source{
		{name: "mut:DSDT", weight: 5, gen: mutOf("DSDT", func(r *vlib.Rand) c12Base { return c12Bases[0] })},
		{name: "mut:DSDT-window", weight: 8, gen: func(r *vlib.Rand) ([]byte, []string, []string) {
			// a run of whole top-level objects of the big table: structure of the
			// real thing at a fraction of the cost
			d := c12Bases[0].payload
			sm := c12Scan(d)
			var tops []c12Span
			for _, o := range sm.objs {
				if o.n >= 16 && o.n <= 3000 {
					tops = append(tops, o)
				}
			}
			o := tops[r.Intn(len(tops))]
			win := d[o.off : o.off+o.n]
			out, rec, kinds := c12Mutate(r, win, light)
			return out, append([]string{fmt.Sprintf("base=shipped:DSDT.aml[%d:%d]", o.off, o.off+o.n)}, rec...), kinds
		}},
		{name: "mut:SSDT", weight: 8, gen: mutOf("SSDT", func(r *vlib.Rand) c12Base { return c12Bases[1] })},
		{name: "mut:testsuite", weight: 18, gen: mutOf("testsuite", func(r *vlib.Rand) c12Base { return c12Bases[2] })},
		{name: "mut:hand", weight: 24, gen: mutOf("hand", func(r *vlib.Rand) c12Base { return c12Bases[3+r.Intn(len(c12Bases)-3)] })},
		{name: "hand", weight: 2, gen: func(r *vlib.Rand) ([]byte, []string, []string) {
			b := c12Bases[3+r.Intn(len(c12Bases)-3)]
			return append([]byte(nil), b.payload...), []string{"base=" + b.name}, nil
		}},
		{name: "generated", weight: 10, gen: func(r *vlib.Rand) ([]byte, []string, []string) { return c12Generate(r), nil, nil }},
		{name: "mut:generated", weight: 16, gen: func(r *vlib.Rand) ([]byte, []string, []string) {
			out, rec, kinds := c12Mutate(r, c12Generate(r), light)
			return out, append([]string{"base=generated"}, rec...), kinds
		}},
		{name: "deep", weight: 2, gen: func(r *vlib.Rand) ([]byte, []string, []string) {
			kind, depth := r.Intn(6), r.Range(50, 1500)
			if r.Chance(1, 8) {
				depth = r.Range(1500, 6000)
				if thorough && r.Chance(1, 4) {
					depth = r.Range(6000, 15000) // stays below 64 KiB for every kind
				}
			}
			out := c12Deep(kind, depth)
			rec := []string{fmt.Sprintf("deep kind=%d depth=%d", kind, depth)}
			if r.Bool() {
				var r2, k2 []string
				out, r2, k2 = c12Mutate(r, out, light)
				return out, append(rec, r2...), k2
			}
			return out, rec, nil
		}},
		{name: "overlap", weight: 3, gen: c12Overlap},
		{name: "wide", weight: 1, gen: func(r *vlib.Rand) ([]byte, []string, []string) {
			// many small objects in one scope: lookups that scan sibling lists
			n := r.Range(100, 1500)
			if thorough && r.Chance(1, 4) {
				n = r.Range(1500, 9000)
			}
			kind := r.Intn(4)
			var out []byte
			for i := 0; i < n; i++ {
				nm := fmt.Sprintf("N%03X", i%4096)
				switch kind {
				case 0:
					out = append(out, c12Name(nm, c12B(0x00))...)
				case 1:
					out = append(out, nm...) // bare names: each one is looked up
				case 2:
					out = append(out, c12Cat(c12B(0x08, 0x5c, 0x2e), c12S("_SB_"), c12S(nm), c12B(0x01))...) // each one relocated
				default:
					out = append(out, c12Scope("\\_SB_", c12Name(nm, c12B(0x00)))...) // each one merged
				}
			}
			rec := []string{fmt.Sprintf("wide kind=%d n=%d", kind, n)}
			if kind == 1 {
				out = c12Cat(c12Method("N000", 0), out)
			}
			if r.Chance(1, 3) {
				var r2, k2 []string
				out, r2, k2 = c12Mutate(r, out, light)
				return out, append(rec, r2...), k2
			}
			return out, rec, nil
		}},
		{name: "c11-program", weight: 22, multi: func(r *vlib.Rand) []c12Part { return c12FromC11(r, light) }},
		{name: "random:bytes", weight: 3, gen: func(r *vlib.Rand) ([]byte, []string, []string) { return r.Bytes(r.Intn(65))[:], nil, nil }},
		{name: "random:alphabet", weight: 6, gen: func(r *vlib.Rand) ([]byte, []string, []string) {
			n := r.Intn(200)
			out := make([]byte, 0, n+4)
			for len(out) < n {
				switch r.Intn(6) {
				case 0:
					out = append(out, c12TinyNames[r.Intn(len(c12TinyNames))]...)
				case 1:
					out = append(out, extOpPrefix, c12ExtBytes[r.Intn(len(c12ExtBytes))])
				default:
					out = append(out, c12Alphabet[r.Intn(len(c12Alphabet))])
				}
			}
			return out, nil, nil
		}},
	}
	if n := len(c12ExtraSources); n > 0 {
		extra := func(r *vlib.Rand) []byte {
			p := c12ExtraSources[r.Intn(n)](r)
			if len(p) > c12MaxPayload {
				p = p[:c12MaxPayload]
			}
			return p
		}
		src = append(src,
			c12Source{name: "extra", weight: 6, gen: func(r *vlib.Rand) ([]byte, []string, []string) { return extra(r), nil, nil }},
			c12Source{name: "mut:extra", weight: 10, gen: func(r *vlib.Rand) ([]byte, []string, []string) {
				out, rec, kinds := c12Mutate(r, extra(r), light)
				return out, append([]string{"base=extra"}, rec...), kinds
			}})
	}
	return src
}
