//go:build verif
// +build verif

package device

// Export shim for the C16 harness (package hal): the list of registered
// drivers is package-private and can only grow through RegisterDriver.

// VerifC16Drivers returns a copy of the current registration list.
func VerifC16Drivers() DriverInfoList {
	out := make(DriverInfoList, len(registeredDrivers))
	copy(out, registeredDrivers)
	return out
}

// VerifC16SetDrivers replaces the registration list (nil = none registered).
// The harness registers its mock drivers through the real RegisterDriver
// afterwards.
func VerifC16SetDrivers(l DriverInfoList) {
	if l == nil {
		registeredDrivers = nil
		return
	}
	registeredDrivers = make(DriverInfoList, len(l))
	copy(registeredDrivers, l)
}
