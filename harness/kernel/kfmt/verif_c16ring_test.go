//go:build verif
// +build verif

package kfmt

import (
	"bytes"
	"fmt"
	"io"
	"testing"

	"github.com/ProjectSerenity/firefly/kernel/zzverif/vlib"
)

// C16 (second run) — the early ring buffer, the SetOutputSink hand-over and the
// PrefixWriter on their own, with completely known content.
//
// Oracles, from the statement: the ring is a drop-oldest byte queue of capacity
// 2047; a read delivers a non-empty prefix of the queue (never more than asked
// for) and reports end-of-data exactly when the queue is empty; installing a sink
// delivers the queue to it exactly once and later output goes to the sink only;
// a PrefixWriter puts the prefix at the start of every line, whatever the chunking.

const c16rCap = 2047

// c16rSink records every Write it is given (no ReadFrom: io.Copy drives Read itself).
type c16rSink struct {
	data   []byte
	writes int
}

func (s *c16rSink) Write(p []byte) (int, error) {
	s.data = append(s.data, p...)
	s.writes++
	return len(p), nil
}

func c16rSuffix(b []byte, n int) []byte {
	if len(b) > n {
		return b[len(b)-n:]
	}
	return b
}

func c16rDiff(a, b []byte) string {
	n := len(a)
	if len(b) < n {
		n = len(b)
	}
	at := n
	for i := 0; i < n; i++ {
		if a[i] != b[i] {
			at = i
			break
		}
	}
	cut := func(x []byte) []byte {
		lo, hi := at-16, at+16
		if lo < 0 {
			lo = 0
		}
		if hi > len(x) {
			hi = len(x)
		}
		if lo > hi {
			lo = hi
		}
		return x[lo:hi]
	}
	return fmt.Sprintf("lengths %d/%d, first difference at %d: got %q want %q", len(a), len(b), at, cut(a), cut(b))
}

// c16rBytes produces content in which every position is recognisable: a running
// counter rendered in text, so that a dropped, repeated or reordered byte shows.
func c16rBytes(r *vlib.Rand, n int, ctr *int, nlPercent int) []byte {
	b := make([]byte, 0, n+12)
	for len(b) < n {
		*ctr++
		b = append(b, fmt.Sprintf("%d", *ctr)...)
		if r.Intn(100) < nlPercent {
			b = append(b, '\n')
		} else {
			b = append(b, byte('a'+r.Intn(26)))
		}
	}
	return b[:n]
}

func c16rChunkLen(r *vlib.Rand) int {
	switch r.Intn(12) {
	case 0:
		return 0
	case 1:
		return 1
	case 2:
		return r.PickInt([]int{2046, 2047, 2048, 2049})
	case 3:
		return r.PickInt([]int{4095, 4096, 4097, 5000})
	case 4:
		return r.Range(1, 8)
	default:
		return r.Range(1, 700)
	}
}

// c16rAdvance brings a ring to the empty state at index `start` through its own API.
func c16rAdvance(rb *ringBuffer, start int) {
	if start <= 0 {
		return
	}
	junk := make([]byte, start)
	rb.Write(junk)
	for i := 0; i < 16; i++ {
		if n, err := rb.Read(junk); n == 0 || err != nil {
			break
		}
	}
}

// ---- part A: ring against a drop-oldest queue -------------------------------------------------

func c16rRingCase(c *vlib.Case, run *vlib.Run) {
	r := c.R
	start := r.PickInt([]int{0, 0, 1, 1023, 1024, 2040, 2046, 2047, r.Intn(2048)})
	nops := r.Range(1, 60)
	readHeavy := r.Intn(3)
	c.Begin(map[string]interface{}{"part": "ring", "start_index": start, "ops": nops, "read_bias": readHeavy})

	var rb ringBuffer
	c16rAdvance(&rb, start)
	var model []byte
	ctr := 0
	fp := vlib.NewFP().Int(start)
	dropped, wrapped, partial, eofs := 0, 0, 0, 0

	doRead := func(bufLen int) bool {
		p := make([]byte, bufLen)
		for i := range p {
			p[i] = 0xCC
		}
		wasWrapped := rb.rIndex > rb.wIndex
		n, err := rb.Read(p)
		run.Count("ring_reads", 1)
		if n < 0 || n > bufLen {
			c.Violationf("ring-read-count-out-of-range", "Read(len %d) returned n=%d", bufLen, n)
			return false
		}
		if len(model) == 0 {
			eofs++
			run.Count("ring_reads_on_empty", 1)
			if n != 0 || (err != io.EOF && !(bufLen == 0 && err == nil)) {
				c.Violationf("ring-read-empty-not-eof", "Read on an empty ring returned (%d, %v)", n, err)
				return false
			}
			return true
		}
		if err != nil {
			c.Violationf("ring-read-error-with-data", "Read(len %d) with %d bytes queued returned error %v", bufLen, len(model), err)
			return false
		}
		if n > len(model) {
			c.Violationf("ring-read-more-than-queued", "Read returned %d bytes, only %d are queued", n, len(model))
			return false
		}
		if bufLen > 0 && n == 0 {
			// (0, nil) is discouraged for an io.Reader, not forbidden; a reader that
			// does it twice in a row for the same request can never be drained.
			run.Count("ring_reads_without_progress", 1)
			if n2, err2 := rb.Read(p); n2 == 0 && err2 == nil {
				c.Violationf("ring-read-no-progress", "Read(len %d) with %d bytes queued returned (0, nil) twice in a row", bufLen, len(model))
				return false
			} else {
				n, err = n2, err2
				if err != nil || n > len(model) || n > bufLen || !bytes.Equal(p[:n], model[:n]) {
					c.Violationf("ring-read-wrong-bytes", "Read(len %d) retried after (0, nil): n=%d err=%v with %d queued", bufLen, n, err, len(model))
					return false
				}
			}
		}
		if !bytes.Equal(p[:n], model[:n]) {
			c.Violationf("ring-read-wrong-bytes", "Read(len %d) with %d queued: %s", bufLen, len(model), c16rDiff(p[:n], model[:n]))
			return false
		}
		run.Count("ring_bytes_read_and_compared", int64(n))
		if n < len(model) && n < bufLen {
			// fewer than available and fewer than asked: the two-segment read
			wrapped++
			run.Count("ring_reads_stopped_at_the_wrap", 1)
		} else if wasWrapped {
			run.Count("ring_reads_of_wrapped_content", 1)
		}
		if n < len(model) {
			partial++
		}
		model = model[n:]
		return true
	}

	for i := 0; i < nops; i++ {
		if r.Intn(3+readHeavy) < 2 {
			n := c16rChunkLen(r)
			data := c16rBytes(r, n, &ctr, 5)
			fp = fp.Int(1).Int(n)
			wn, err := rb.Write(data)
			run.Count("ring_writes", 1)
			run.Count("ring_bytes_written", int64(n))
			if wn != n || err != nil {
				c.Violationf("ring-write-result", "Write(len %d) returned (%d, %v)", n, wn, err)
				return
			}
			model = append(model, data...)
			if len(model) > c16rCap {
				dropped++
				run.Count("ring_writes_that_dropped_oldest", 1)
				switch {
				case len(model) == c16rCap+1:
					run.SetAdd("ring_overflow_by", "1")
				case len(model) <= c16rCap+8:
					run.SetAdd("ring_overflow_by", "2-8")
				default:
					run.SetAdd("ring_overflow_by", "more")
				}
				model = model[len(model)-c16rCap:]
			} else if len(model) == c16rCap {
				run.SetAdd("ring_fill_level", "exactly-2047")
			}
		} else {
			bl := c16rChunkLen(r)
			if r.Chance(1, 6) {
				bl = len(model) // exactly what is queued
			}
			fp = fp.Int(2).Int(bl)
			if !doRead(bl) {
				return
			}
		}
		if rb.rIndex < 0 || rb.rIndex >= ringBufferSize || rb.wIndex < 0 || rb.wIndex >= ringBufferSize {
			c.Violationf("ring-index-out-of-range", "rIndex=%d wIndex=%d", rb.rIndex, rb.wIndex)
			return
		}
	}
	// drain the rest the way SetOutputSink does
	var sink c16rSink
	var buf bytes.Buffer
	if r.Bool() {
		io.Copy(&sink, &rb)
	} else {
		io.Copy(&buf, &rb) // bytes.Buffer.ReadFrom drives Read with its own buffer sizes
		sink.data = buf.Bytes()
	}
	if !bytes.Equal(sink.data, model) {
		c.Violationf("ring-drain-differs", "io.Copy out of the ring: %s", c16rDiff(sink.data, model))
		return
	}
	run.Count("ring_bytes_read_and_compared", int64(len(model)))
	if n, err := rb.Read(make([]byte, 8)); n != 0 || err != io.EOF {
		c.Violationf("ring-read-empty-not-eof", "Read after a complete drain returned (%d, %v)", n, err)
	}
	if dropped > 0 && partial > 0 && (wrapped > 0 || eofs > 0) {
		run.Nontrivial(fp)
	}
	c16rTally.drops += dropped
	c16rTally.wraps += wrapped
}

// ---- part B: SetOutputSink ---------------------------------------------------------------------

func c16rLog(r *vlib.Rand, data []byte) {
	switch r.Intn(5) {
	case 0:
		Printf(string(data)) // as a format string: content has no '%'
	case 1:
		Printf("%s", string(data))
	case 2:
		Printf("%s", data)
	case 3:
		Fprintf(GetOutputSink(), "%s", data)
	default:
		GetOutputSink().Write(data)
	}
}

func c16rSinkCase(c *vlib.Case, run *vlib.Run) {
	r := c.R
	start := r.PickInt([]int{0, 1, 1024, 2046, 2047, r.Intn(2048)})
	var budget int
	switch r.Intn(6) {
	case 0:
		budget = 0
	case 1:
		budget = r.Range(1, 300)
	case 2:
		budget = r.PickInt([]int{2046, 2047, 2048, 2049})
	case 3:
		budget = r.Range(300, 2046)
	default:
		budget = r.Range(2048, 6000)
	}
	usePW := r.Chance(1, 3)
	c.Begin(map[string]interface{}{"part": "sink", "start_index": start, "pre_log_bytes": budget, "through_prefix_writer": usePW})

	outputSink = nil
	earlyPrintBuffer = ringBuffer{}
	c16rAdvance(&earlyPrintBuffer, start)

	ctr := 0
	var pre []byte
	prefix := []byte("[c16r] ")
	atLineStart := true
	pw := PrefixWriter{Prefix: prefix}
	for len(pre) < budget {
		n := r.Range(1, 700)
		if r.Chance(1, 8) {
			n = r.Range(1, 4)
		}
		if len(pre)+n > budget && !usePW {
			n = budget - len(pre)
		}
		data := c16rBytes(r, n, &ctr, 4)
		if usePW {
			// as hal.probe does: the writer's sink is whatever GetOutputSink returns now
			pw.Sink = GetOutputSink()
			pw.Write(data)
			for _, b := range data {
				if atLineStart {
					pre = append(pre, prefix...)
					atLineStart = false
				}
				pre = append(pre, b)
				if b == '\n' {
					atLineStart = true
				}
			}
		} else {
			c16rLog(r, data)
			pre = append(pre, data...)
		}
		run.Count("sink_pre_log_chunks", 1)
	}
	run.Count("sink_pre_log_bytes", int64(len(pre)))
	if !VerifC16IsEarlyRing(GetOutputSink()) {
		c.Violationf("sink-not-ring-before-handover", "GetOutputSink() with no sink installed is not the early ring")
		return
	}
	want := c16rSuffix(pre, c16rCap)
	if snap, _, _ := VerifC16EarlySnapshot(); !bytes.Equal(snap, want) {
		c.Violationf("ring-content-before-handover", "%d bytes logged: %s", len(pre), c16rDiff(snap, want))
		return
	}
	switch {
	case len(pre) < c16rCap:
		run.SetAdd("sink_pre_log_vs_capacity", "below-2047")
	case len(pre) == c16rCap:
		run.SetAdd("sink_pre_log_vs_capacity", "exactly-2047")
	case len(pre) == c16rCap+1:
		run.SetAdd("sink_pre_log_vs_capacity", "exactly-2048")
	default:
		run.SetAdd("sink_pre_log_vs_capacity", "above-2048")
	}

	// hand-over
	s1 := &c16rSink{}
	SetOutputSink(s1)
	run.Count("sink_handovers", 1)
	if !bytes.Equal(s1.data, want) {
		c.Violationf("handover-drain-differs", "%d bytes logged before SetOutputSink: the sink received %s", len(pre), c16rDiff(s1.data, want))
		return
	}
	run.Count("sink_drained_bytes_compared", int64(len(want)))
	if GetOutputSink() != io.Writer(s1) {
		c.Violationf("handover-sink-not-installed", "GetOutputSink() does not return the sink just installed")
		return
	}
	if snap, _, _ := VerifC16EarlySnapshot(); len(snap) != 0 {
		c.Violationf("handover-ring-not-emptied", "%d bytes remain in the early ring after the hand-over", len(snap))
		return
	}
	// later output: to the sink, after the drained bytes, nothing into the ring
	var post []byte
	for i, k := 0, r.Range(0, 6); i < k; i++ {
		data := c16rBytes(r, r.Range(1, 700), &ctr, 4)
		c16rLog(r, data)
		post = append(post, data...)
	}
	all := append(append([]byte(nil), want...), post...)
	if !bytes.Equal(s1.data, all) {
		c.Violationf("post-handover-output-differs", "after the hand-over %d more bytes were logged: %s", len(post), c16rDiff(s1.data, all))
		return
	}
	if snap, _, _ := VerifC16EarlySnapshot(); len(snap) != 0 {
		c.Violationf("post-handover-output-in-ring", "%d bytes went into the early ring while a sink is installed", len(snap))
		return
	}
	run.Count("sink_post_log_bytes_compared", int64(len(post)))
	// a second sink must not get anything a second time
	s2 := &c16rSink{}
	SetOutputSink(s2)
	if len(s2.data) != 0 {
		c.Violationf("drain-repeated", "a second SetOutputSink delivered %d bytes although nothing was buffered", len(s2.data))
		return
	}
	if len(s1.data) != len(all) {
		c.Violationf("drain-repeated", "the first sink received %d more bytes when a second sink was installed", len(s1.data)-len(all))
		return
	}
	more := c16rBytes(r, r.Range(1, 300), &ctr, 4)
	c16rLog(r, more)
	if !bytes.Equal(s2.data, more) || len(s1.data) != len(all) {
		c.Violationf("second-sink-output-differs", "output after installing a second sink: %s", c16rDiff(s2.data, more))
		return
	}
	// back to buffering, then a third sink: exactly what was buffered in between
	if r.Bool() {
		SetOutputSink(nil)
		if !VerifC16IsEarlyRing(GetOutputSink()) {
			c.Violationf("sink-nil-not-ring", "SetOutputSink(nil): GetOutputSink() is not the early ring")
			return
		}
		var again []byte
		for i, k := 0, r.Range(1, 5); i < k; i++ {
			data := c16rBytes(r, r.Range(1, 900), &ctr, 4)
			c16rLog(r, data)
			again = append(again, data...)
		}
		if len(s2.data) != len(more) {
			c.Violationf("detached-sink-written", "a sink that was detached received %d more bytes", len(s2.data)-len(more))
			return
		}
		s3 := &c16rSink{}
		SetOutputSink(s3)
		if w3 := c16rSuffix(again, c16rCap); !bytes.Equal(s3.data, w3) {
			c.Violationf("second-handover-drain-differs", "buffered %d bytes after SetOutputSink(nil): %s", len(again), c16rDiff(s3.data, w3))
			return
		}
		run.Count("sink_second_handovers", 1)
	}
	outputSink = nil
	earlyPrintBuffer = ringBuffer{}
	if len(pre) > c16rCap {
		c16rTally.sinkOverflow++
	}
	if len(pre) > 0 {
		run.Nontrivial(vlib.NewFP().Int(7).Int(start).Int(len(pre)).Int(len(post)).Bytes(c16rSuffix(pre, 32)))
	}
	if run.WantSample() && len(pre) > c16rCap {
		run.Sample(map[string]interface{}{"part": "sink", "ring_start_index": start, "bytes_logged_before_SetOutputSink": len(pre), "sink_received_on_handover": len(want), "first_bytes_received": string(want[:24]), "bytes_logged_after": len(post)})
	}
}

// ---- part C: PrefixWriter ----------------------------------------------------------------------

func c16rPrefixCase(c *vlib.Case, run *vlib.Run) {
	r := c.R
	n := r.Range(0, 600)
	nl := r.PickInt([]int{0, 2, 10, 40, 100})
	text := make([]byte, n)
	for i := range text {
		if r.Intn(100) < nl {
			text[i] = '\n'
		} else {
			text[i] = byte('a' + r.Intn(26))
		}
	}
	if n > 0 {
		switch r.Intn(4) {
		case 0:
			text[n-1] = '\n'
		case 1:
			text[0] = '\n'
		}
	}
	var prefix []byte
	switch r.Intn(5) {
	case 0:
	case 1:
		prefix = []byte(">")
	default:
		prefix = []byte(fmt.Sprintf("[hal] drv%d(%d.%d.%d): ", r.Intn(100), r.Intn(10), r.Intn(10), r.Intn(10)))
	}
	c.Begin(map[string]interface{}{"part": "prefix", "text": string(text), "prefix": string(prefix)})

	// "the prefix at the start of every line"
	var want []byte
	atLineStart := true
	for _, b := range text {
		if atLineStart {
			want = append(want, prefix...)
			atLineStart = false
		}
		want = append(want, b)
		if b == '\n' {
			atLineStart = true
		}
	}
	lines := bytes.Count(text, []byte{'\n'})
	run.Count("prefix_texts", 1)
	run.Count("prefix_lines", int64(lines))

	chunkings := 6
	for k := 0; k < chunkings; k++ {
		var sink c16rSink
		w := PrefixWriter{Sink: &sink, Prefix: prefix}
		pos := 0
		nchunks := 0
		for pos < len(text) || (k == 0 && nchunks == 0) {
			var cl int
			switch k {
			case 0:
				cl = len(text) // one chunk
			case 1:
				cl = 1 // byte by byte, as Fprintf does
			case 2: // split exactly after every line feed
				cl = bytes.IndexByte(text[pos:], '\n') + 1
				if cl == 0 {
					cl = len(text) - pos
				}
			case 3: // split exactly before every line feed
				cl = bytes.IndexByte(text[pos+1:], '\n') + 1
				if cl == 0 {
					cl = len(text) - pos
				}
			default:
				cl = r.Range(0, 40)
				if r.Chance(1, 5) {
					cl = 0
				}
			}
			if pos+cl > len(text) {
				cl = len(text) - pos
			}
			wn, err := w.Write(text[pos : pos+cl])
			nchunks++
			if wn != cl || err != nil {
				c.Violationf("prefix-writer-result", "chunking %d: Write(len %d) returned (%d, %v)", k, cl, wn, err)
				return
			}
			pos += cl
			if len(text) == 0 {
				break
			}
		}
		run.Count("prefix_chunks_written", int64(nchunks))
		if !bytes.Equal(sink.data, want) {
			c.Violationf("prefix-writer-output-differs", "chunking %d (%d chunks) of %q with prefix %q: %s", k, nchunks, text, prefix, c16rDiff(sink.data, want))
			return
		}
		run.Count("prefix_output_bytes_compared", int64(len(want)))
	}
	if lines >= 2 && len(prefix) > 0 {
		run.Nontrivial(vlib.NewFP().Int(9).Bytes(text).Bytes(prefix))
	}
}

var c16rTally struct{ drops, wraps, sinkOverflow int }

func TestVerifC16Ring(t *testing.T) {
	run := vlib.Start(t, "C16")
	defer run.Finish()
	run.SetRule("ring run: three kinds of case in rotation. (ring) 1-60 writes of {0,1,2-8,1-700,2046-2049,4095-5000} bytes and reads into buffers of the same size classes against a drop-oldest queue of capacity 2047, ring started empty at index {0,1,1023,1024,2040,2046,2047,random}, finally drained with io.Copy; non-trivial = at least one write dropped old bytes, one read was partial and one read hit the wrap or the empty ring. (sink) 0-6000 bytes logged through five kfmt entry points or a PrefixWriter into the early ring, SetOutputSink, later output, a second sink, optionally SetOutputSink(nil) and a third sink; non-trivial = something was logged before the hand-over. (prefix) text of 0-600 bytes with 0-100% line feeds written in six chunkings (whole, byte-wise, after each LF, before each LF, random incl. empty chunks) through a PrefixWriter; non-trivial = at least 2 lines and a non-empty prefix. distinct = fingerprint of the operation list / content")
	run.Assume("sinks accept every byte they are given (short writes and failing sinks are outside the statement)")

	defer func(s io.Writer, rb ringBuffer) {
		outputSink = s
		earlyPrintBuffer = rb
	}(outputSink, earlyPrintBuffer)

	run.Cases(run.N(6000, 400000), func(c *vlib.Case) {
		switch c.Idx % 3 {
		case 0:
			c16rRingCase(c, run)
		case 1:
			c16rSinkCase(c, run)
		default:
			c16rPrefixCase(c, run)
		}
	})
	if !run.Replay && run.From == 0 && run.To < 0 {
		if c16rTally.drops == 0 || c16rTally.wraps == 0 {
			run.Inconclusive("ring run: no write that dropped old bytes, or no read that stopped at the wrap, was observed")
		}
		if c16rTally.sinkOverflow == 0 {
			run.Inconclusive("ring run: no hand-over with an overflowed early ring")
		}
	}
}
