//go:build verif
// +build verif

package kfmt

import (
	"bytes"
	"errors"
	"fmt"
	"io"
	"reflect"
	"strconv"
	"strings"
	"testing"
	"unsafe"

	"github.com/ProjectSerenity/firefly/kernel/zzverif/vlib"
)

// C15 — kernel printf output is exact, bounded and allocation-free.
//
// Monitors:
//   * every byte handed to the io.Writer (captured into a fixed, pre-sized
//     buffer that never allocates) is compared with a reference formatter that
//     is written from the property statement on top of strconv/reflect and is
//     driven by the *segment list* the format string was generated from (the
//     oracle never parses the format string);
//   * the same call with a nil writer must leave the same bytes in the early
//     ring buffer (read back through its Read method);
//   * testing.AllocsPerRun(1, …) around Fprintf/Printf with writer, format and
//     argument slice built beforehand;
//   * panics (vlib.Protect).
// For format strings outside the supported grammar and for arbitrary argument
// lists only "no panic, 0 allocations" is demanded.

// ---------------------------------------------------------------------------
// writers that never allocate

// c15Unbounded is the panic value of a writer that received more bytes than
// any correct formatter could produce for the input ("bounded": without this
// a runaway width would simply never return; no wall clock is involved).
type c15Unbounded struct{ limit int }

type c15Capture struct {
	buf   []byte // fixed storage; bytes beyond it are counted, not stored
	n     int    // bytes stored
	total int    // bytes received
	limit int    // panic(c15Unbounded) when total exceeds it
	calls int
}

func (w *c15Capture) Write(p []byte) (int, error) {
	w.calls++
	w.total += len(p)
	w.n += copy(w.buf[w.n:], p)
	if w.total > w.limit {
		panic(c15Unbounded{w.limit})
	}
	return len(p), nil
}

func (w *c15Capture) reset() { w.n, w.total, w.calls = 0, 0, 0 }

type c15Discard struct {
	total int
	limit int
	calls int
}

func (w *c15Discard) Write(p []byte) (int, error) {
	w.calls++
	w.total += len(p)
	if w.total > w.limit {
		panic(c15Unbounded{w.limit})
	}
	return len(p), nil
}

// c15ArbitraryBound is a generous upper bound for the output of ANY format
// string with ANY arguments: every directive starts at a '%' and writes at
// most its width (< 10^6 by construction of the formats) or its argument or a
// marker; every other format byte yields at most one marker; every argument
// yields at most its own bytes or one marker.
func c15ArbitraryBound(format string, args []interface{}) int {
	b := 64 + 16*len(format) + 16*len(args)
	b += (strings.Count(format, "%") + 1) * (1000000 + 64)
	for _, a := range args {
		switch v := a.(type) {
		case string:
			b += len(v)
		case []byte:
			b += len(v)
		}
	}
	return b
}

// ---------------------------------------------------------------------------
// format strings as segment lists

const (
	c15Lit = iota
	c15Pct
	c15Verb
)

type c15Seg struct {
	kind   int
	lit    string // c15Lit: literal text, never contains '%'
	verb   byte   // c15Verb: one of d o x s t
	widthS string // c15Verb: the decimal width exactly as written ("" = absent)
	width  int    // numeric value of widthS
}

func c15L(s string) c15Seg { return c15Seg{kind: c15Lit, lit: s} }
func c15P() c15Seg         { return c15Seg{kind: c15Pct} }
func c15V(verb byte, widthS string) c15Seg {
	w := 0
	if widthS != "" {
		v, err := strconv.ParseUint(widthS, 10, 31)
		if err != nil {
			panic("c15: bad width " + widthS)
		}
		w = int(v)
	}
	return c15Seg{kind: c15Verb, verb: verb, widthS: widthS, width: w}
}

func c15Format(segs []c15Seg) string {
	var b strings.Builder
	for _, s := range segs {
		switch s.kind {
		case c15Lit:
			b.WriteString(s.lit)
		case c15Pct:
			b.WriteString("%%")
		case c15Verb:
			b.WriteByte('%')
			b.WriteString(s.widthS)
			b.WriteByte(s.verb)
		}
	}
	return b.String()
}

// ---------------------------------------------------------------------------
// the reference formatter (from the property statement; fixed marker texts and
// "zero padding applies to the digits, the sign goes in front" as pinned by the
// repository's own suite)

const (
	c15MarkMissing = "(MISSING)"
	c15MarkWrong   = "%!(WRONGTYPE)"
	c15MarkExtra   = "%!(EXTRA)"
	c15IntWidthCap = 31
)

// c15Span says which part of the expected output a segment produced.
type c15Span struct {
	start, end int
	class      string // signature class
	what       string // human description
	intType    string // dynamic type of the argument when it is a built-in integer rendered by %d/%o/%x
}

func c15Pad(out []byte, ch byte, n int) []byte {
	for ; n > 0; n-- {
		out = append(out, ch)
	}
	return out
}

// c15IsBuiltin reports whether the dynamic type is an unnamed (predeclared) type.
func c15IsBuiltin(rv reflect.Value) bool {
	t := rv.Type()
	return t.PkgPath() == "" && t.Name() == rv.Kind().String()
}

// c15RefInt appends the reference rendering of an integer argument; ok=false
// when the argument is not of a built-in integer type.
func c15RefInt(out []byte, arg interface{}, base, width int) ([]byte, bool) {
	rv := reflect.ValueOf(arg)
	if !rv.IsValid() || !c15IsBuiltin(rv) {
		return out, false
	}
	var s string
	switch rv.Kind() {
	case reflect.Int, reflect.Int8, reflect.Int16, reflect.Int32, reflect.Int64:
		s = strconv.FormatInt(rv.Int(), base)
	case reflect.Uint, reflect.Uint8, reflect.Uint16, reflect.Uint32, reflect.Uint64, reflect.Uintptr:
		s = strconv.FormatUint(rv.Uint(), base)
	default:
		return out, false
	}
	if width > c15IntWidthCap {
		width = c15IntWidthCap
	}
	if base == 10 {
		out = c15Pad(out, ' ', width-len(s))
		return append(out, s...), true
	}
	digits := s
	if strings.HasPrefix(s, "-") {
		out = append(out, '-')
		digits = s[1:]
	}
	out = c15Pad(out, '0', width-len(digits))
	return append(out, digits...), true
}

// c15Expect computes the expected output and the span of every segment.
func c15Expect(out []byte, segs []c15Seg, args []interface{}) ([]byte, []c15Span) {
	out = out[:0]
	spans := make([]c15Span, 0, len(segs)+4)
	next := 0
	for _, s := range segs {
		start := len(out)
		sp := c15Span{}
		switch s.kind {
		case c15Lit:
			out = append(out, s.lit...)
			sp.class, sp.what = "literal", "literal text"
		case c15Pct:
			out = append(out, '%')
			sp.class, sp.what = "%%", "%%"
		case c15Verb:
			sp.class = "%" + string(s.verb)
			sp.what = "%" + s.widthS + string(s.verb)
			if next >= len(args) {
				out = append(out, c15MarkMissing...)
				sp.class, sp.what = "missing-arg", sp.what+" without argument"
				break
			}
			arg := args[next]
			next++
			sp.what += " with " + c15DescArg(arg)
			ok := false
			switch s.verb {
			case 'd':
				out, ok = c15RefInt(out, arg, 10, s.width)
			case 'o':
				out, ok = c15RefInt(out, arg, 8, s.width)
			case 'x':
				out, ok = c15RefInt(out, arg, 16, s.width)
			case 's':
				switch v := arg.(type) {
				case string:
					out = c15Pad(out, ' ', s.width-len(v))
					out = append(out, v...)
					ok = true
				case []byte:
					out = c15Pad(out, ' ', s.width-len(v))
					out = append(out, v...)
					ok = true
				}
			case 't':
				if v, isBool := arg.(bool); isBool {
					out = strconv.AppendBool(out, v)
					ok = true
				}
			}
			if !ok {
				out = append(out, c15MarkWrong...)
				sp.class = "wrong-type-arg"
			} else if s.verb == 'd' || s.verb == 'o' || s.verb == 'x' {
				sp.intType = reflect.TypeOf(arg).String()
			}
		}
		sp.start, sp.end = start, len(out)
		spans = append(spans, sp)
	}
	for ; next < len(args); next++ {
		start := len(out)
		out = append(out, c15MarkExtra...)
		spans = append(spans, c15Span{start: start, end: len(out), class: "surplus-arg", what: "surplus argument " + c15DescArg(args[next])})
	}
	return out, spans
}

func c15DescArg(a interface{}) string {
	switch v := a.(type) {
	case nil:
		return "nil"
	case string:
		if len(v) > 24 {
			return fmt.Sprintf("string[len %d]%q…", len(v), v[:24])
		}
		return fmt.Sprintf("string %q", v)
	case []byte:
		if len(v) > 24 {
			return fmt.Sprintf("[]byte[len %d]%q…", len(v), v[:24])
		}
		return fmt.Sprintf("[]byte %q", v)
	}
	switch reflect.ValueOf(a).Kind() {
	case reflect.Ptr, reflect.Func, reflect.Chan, reflect.Map, reflect.UnsafePointer, reflect.Slice:
		return fmt.Sprintf("%T", a)
	}
	return fmt.Sprintf("%T(%v)", a, a)
}

func c15DescArgs(args []interface{}) []string {
	if args == nil {
		return nil
	}
	l := make([]string, len(args))
	for i, a := range args {
		l[i] = c15DescArg(a)
	}
	return l
}

func c15Window(b []byte, at int) string {
	lo, hi := at-24, at+40
	if lo < 0 {
		lo = 0
	}
	if hi > len(b) {
		hi = len(b)
	}
	if lo > hi {
		lo = hi
	}
	return fmt.Sprintf("[%d:%d]%q", lo, hi, b[lo:hi])
}

// ---------------------------------------------------------------------------
// generators

var c15IntTypes = []string{"int8", "int16", "int32", "int64", "int", "uint8", "uint16", "uint32", "uint64", "uint", "uintptr"}

func c15TypeBits(typ string) (bits uint, signed bool) {
	switch typ {
	case "int8":
		return 8, true
	case "int16":
		return 16, true
	case "int32":
		return 32, true
	case "int64", "int":
		return 64, true
	case "uint8":
		return 8, false
	case "uint16":
		return 16, false
	case "uint32":
		return 32, false
	}
	return 64, false
}

func c15BoxSigned(typ string, v int64) interface{} {
	switch typ {
	case "int8":
		return int8(v)
	case "int16":
		return int16(v)
	case "int32":
		return int32(v)
	case "int64":
		return int64(v)
	}
	return int(v)
}

func c15BoxUnsigned(typ string, v uint64) interface{} {
	switch typ {
	case "uint8":
		return uint8(v)
	case "uint16":
		return uint16(v)
	case "uint32":
		return uint32(v)
	case "uint64":
		return uint64(v)
	case "uint":
		return uint(v)
	}
	return uintptr(v)
}

// c15GenInt draws a value of the given built-in integer type, biased to the
// boundaries the property names. The bucket names which boundary was drawn.
func c15GenInt(r *vlib.Rand, typ string) (interface{}, string) {
	bits, signed := c15TypeBits(typ)
	if signed {
		min := int64(-1) << (bits - 1)
		max := -(min + 1)
		var v int64
		bucket := ""
		switch r.Intn(14) {
		case 0:
			v, bucket = 0, "zero"
		case 1:
			v, bucket = 1, "one"
		case 2:
			v, bucket = -1, "minus-one"
		case 3:
			v, bucket = min, "min"
		case 4:
			v, bucket = max, "max"
		case 5:
			v, bucket = min+1, "min+1"
		case 6:
			v, bucket = max-1, "max-1"
		case 7, 8: // digit-count boundary of one of the bases
			base := []int64{8, 10, 16}[r.Intn(3)]
			p := int64(1)
			for k := r.Intn(22); k > 0 && p <= max/base; k-- {
				p *= base
			}
			v = p - int64(r.Intn(2))
			if r.Bool() {
				v = -v
			}
			bucket = "digit-boundary"
		case 9: // boundary of a narrower width
			nb := []uint{7, 8, 15, 16, 31, 32}[r.Intn(6)]
			v = int64(1)<<nb - int64(r.Intn(2))
			if r.Bool() {
				v = -v
			}
			if v > max || v < min {
				v >>= (64 - bits + 8)
			}
			bucket = "narrower-width-boundary"
		case 10, 11: // random bit length
			v = int64(r.U64() >> uint(r.Intn(64)))
			if r.Bool() {
				v = -v
			}
			bucket = "random-bitlen"
		default:
			v = int64(r.U64())
			bucket = "random"
		}
		// truncate into the type (sign-extending from `bits`)
		v = v << (64 - bits) >> (64 - bits)
		return c15BoxSigned(typ, v), bucket
	}
	max := ^uint64(0) >> (64 - bits)
	var v uint64
	bucket := ""
	switch r.Intn(11) {
	case 0:
		v, bucket = 0, "zero"
	case 1:
		v, bucket = 1, "one"
	case 2:
		v, bucket = max, "max"
	case 3:
		v, bucket = max-1, "max-1"
	case 4:
		v, bucket = max>>1+uint64(r.Intn(2)), "sign-bit-boundary"
	case 5, 6:
		base := []uint64{8, 10, 16}[r.Intn(3)]
		p := uint64(1)
		for k := r.Intn(23); k > 0 && p <= max/base; k-- {
			p *= base
		}
		v, bucket = p-uint64(r.Intn(2)), "digit-boundary"
	case 7, 8:
		v, bucket = r.U64()>>uint(r.Intn(64)), "random-bitlen"
	default:
		v, bucket = r.U64(), "random"
	}
	v &= max
	return c15BoxUnsigned(typ, v), bucket
}

var c15Unit int = 7

type c15NamedInt int
type c15NamedStr string
type c15NamedBytes []byte
type c15NamedBool bool
type c15Stringer struct{ n int }

func (s *c15Stringer) String() string {
	panic("c15: String() must not be called by the kernel formatter")
}
func (s *c15Stringer) Error() string {
	panic("c15: Error() must not be called by the kernel formatter")
}

// c15WrongArg returns an argument whose type the verb does not accept
// (built-in or composite types only: whether a *named* integer type is
// "wrongly-typed" is not settled by the statement, those are used in the
// arbitrary class only).
func c15WrongArg(r *vlib.Rand, verb byte) interface{} {
	ints := func() interface{} {
		v, _ := c15GenInt(r, c15IntTypes[r.Intn(len(c15IntTypes))])
		return v
	}
	switch verb {
	case 'd', 'o', 'x':
		switch r.Intn(10) {
		case 0:
			return "12"
		case 1:
			return []byte("12")
		case 2:
			return r.Bool()
		case 3:
			return 1.5
		case 4:
			return float32(2)
		case 5:
			return complex(1, 2)
		case 6:
			return struct{}{}
		case 7:
			return &c15Unit
		case 8:
			return []int{1, 2}
		default:
			return errors.New("e")
		}
	case 's':
		switch r.Intn(7) {
		case 0, 1:
			return ints()
		case 2:
			return r.Bool()
		case 3:
			return 2.5
		case 4:
			return [3]byte{'a', 'b', 'c'}
		case 5:
			return []int{1}
		default:
			return &c15Unit
		}
	}
	switch r.Intn(5) {
	case 0, 1:
		return ints()
	case 2:
		return "true"
	case 3:
		return []byte("false")
	default:
		return 0.0
	}
}

func c15GenBytes(r *vlib.Rand, n int) []byte {
	b := r.Bytes(n)
	switch r.Intn(4) {
	case 0: // printable ASCII
		for i := range b {
			b[i] = ' ' + b[i]%95
		}
	case 1: // looks like a format string
		const al = "%%dxost0123456789 "
		for i := range b {
			b[i] = al[int(b[i])%len(al)]
		}
	}
	return b
}

func c15GenStrLen(r *vlib.Rand) int {
	switch r.Intn(12) {
	case 0:
		return 0
	case 1:
		return 1
	case 2:
		return []int{30, 31, 32, 33, 34}[r.Intn(5)]
	case 3:
		return []int{2046, 2047, 2048, 2049, 4096, 5000}[r.Intn(6)]
	case 4:
		return r.Intn(5001)
	case 5:
		return r.Range(2, 300)
	default:
		return r.Range(0, 20)
	}
}

// c15GenWidth draws a width around the natural length nat of the value.
// huge: whether 100 and 10^6 are cheap for this verb (integers are clamped).
func c15GenWidth(r *vlib.Rand, nat int, allowMillion bool) (string, string) {
	w, bucket := 0, ""
	switch r.Intn(16) {
	case 0, 1:
		return "", "none"
	case 2:
		w, bucket = 0, "0"
	case 3:
		w, bucket = 1, "1"
	case 4:
		w, bucket = nat-1, "natural-1"
	case 5:
		w, bucket = nat, "natural"
	case 6:
		w, bucket = nat+1, "natural+1"
	case 7:
		w, bucket = 30, "30"
	case 8:
		w, bucket = 31, "31"
	case 9:
		w, bucket = 32, "32"
	case 10:
		w, bucket = 33, "33"
	case 11:
		w, bucket = 100, "100"
	case 12:
		if allowMillion {
			w, bucket = 1000000, "10^6"
		} else {
			w, bucket = nat+r.Range(2, 40), "natural+k"
		}
	case 13:
		w, bucket = nat+r.Range(2, 40), "natural+k"
	default:
		w, bucket = r.Intn(45), "random<45"
	}
	if w < 0 {
		w, bucket = 0, "0"
	}
	s := strconv.Itoa(w)
	if r.Chance(1, 8) { // a decimal width may be written with leading zeros
		s = strings.Repeat("0", r.Range(1, 3)) + s
		bucket += "/leading-zeros"
	}
	return s, bucket
}

func c15GenLiteral(r *vlib.Rand) string {
	n := r.Range(1, 12)
	if r.Chance(1, 12) {
		n = r.Range(13, 300)
	}
	b := r.Bytes(n)
	mode := r.Intn(3)
	for i := range b {
		switch mode {
		case 0:
			b[i] = ' ' + b[i]%95
		case 1:
			const al = "dxost0123456789 -+#.*\n\tQvp()!"
			b[i] = al[int(b[i])%len(al)]
		}
		if b[i] == '%' {
			b[i] = '_'
		}
	}
	return string(b)
}

// c15Counter is what the generator reports its draws to (*vlib.Run, or
// c15NoCount when the generator is only used as a source of format text).
type c15Counter interface {
	Count(name string, d int64)
	SetAdd(set, member string)
	Max(name string, v int64)
}

type c15NoCount struct{}

func (c15NoCount) Count(string, int64)   {}
func (c15NoCount) SetAdd(string, string) {}
func (c15NoCount) Max(string, int64)     {}

// c15Exact describes one generated case of the supported grammar.
type c15Exact struct {
	segs       []c15Seg
	args       []interface{}
	nontrivial bool
	million    bool
}

func c15GenExact(r *vlib.Rand, run c15Counter) c15Exact {
	var e c15Exact
	nseg := r.Range(1, 8)
	if r.Chance(1, 20) {
		nseg = 0
	}
	millionLeft := 1 // at most one 10^6-wide string directive per format
	var verbSegs []int
	for i := 0; i < nseg; i++ {
		switch k := r.Intn(10); {
		case k < 3:
			e.segs = append(e.segs, c15L(c15GenLiteral(r)))
			run.Count("segments_literal", 1)
		case k < 4:
			e.segs = append(e.segs, c15P())
			run.Count("segments_percent", 1)
		case k < 8: // integer directive
			verb := "dox"[r.Intn(3)]
			typ := c15IntTypes[r.Intn(len(c15IntTypes))]
			val, vb := c15GenInt(r, typ)
			base := map[byte]int{'d': 10, 'o': 8, 'x': 16}[verb]
			nat, _ := c15RefInt(nil, val, base, 0)
			ws, wb := c15GenWidth(r, len(nat), true)
			e.segs = append(e.segs, c15V(verb, ws))
			e.args = append(e.args, val)
			verbSegs = append(verbSegs, len(e.segs)-1)
			run.Count("directives_%"+string(verb), 1)
			run.SetAdd("int_type_x_verb", typ+"/%"+string(verb))
			run.SetAdd("int_value_buckets", typ+":"+vb)
			run.SetAdd("int_width_buckets", wb)
			seg := e.segs[len(e.segs)-1]
			if seg.width > len(nat) || nat[0] == '-' {
				e.nontrivial = true
			}
			if seg.width > c15IntWidthCap {
				run.Count("int_widths_above_31", 1)
			}
		case k < 9: // string / byte slice directive
			n := c15GenStrLen(r)
			content := c15GenBytes(r, n)
			ws, wb := c15GenWidth(r, n, millionLeft > 0 && r.Chance(1, 3))
			seg := c15V('s', ws)
			if seg.width >= 1000000 {
				millionLeft--
				e.million = true
			}
			e.segs = append(e.segs, seg)
			if r.Bool() {
				e.args = append(e.args, string(content))
				run.Count("directives_%s_string", 1)
			} else {
				if n == 0 && r.Bool() {
					content = nil // a nil byte slice is a byte slice of length 0
				}
				e.args = append(e.args, content)
				run.Count("directives_%s_bytes", 1)
			}
			verbSegs = append(verbSegs, len(e.segs)-1)
			run.SetAdd("str_width_buckets", wb)
			run.Max("string_len", int64(n))
			if seg.width > n {
				e.nontrivial = true
			}
		default:
			ws, _ := c15GenWidth(r, 5, false)
			e.segs = append(e.segs, c15V('t', ws))
			e.args = append(e.args, r.Bool())
			verbSegs = append(verbSegs, len(e.segs)-1)
			run.Count("directives_%t", 1)
		}
	}
	// argument-list faults
	switch f := r.Intn(10); {
	case f == 0 && len(e.args) > 0: // too short
		e.args = e.args[:r.Intn(len(e.args))]
		e.nontrivial = true
		run.Count("arglists_too_short", 1)
	case f == 1: // too long
		for k := r.Range(1, 3); k > 0; k-- {
			e.args = append(e.args, c15WrongArg(r, "dst"[r.Intn(3)]))
		}
		e.nontrivial = true
		run.Count("arglists_too_long", 1)
	case f == 2 && len(e.args) > 0: // wrong type
		i := r.Intn(len(e.args))
		e.args[i] = c15WrongArg(r, e.segs[verbSegs[i]].verb)
		e.nontrivial = true
		run.Count("arglists_wrong_type", 1)
	case f == 3 && len(e.args) > 1: // too short and wrong
		e.args = e.args[:r.Range(1, len(e.args)-1)]
		i := r.Intn(len(e.args))
		e.args[i] = c15WrongArg(r, e.segs[verbSegs[i]].verb)
		e.nontrivial = true
		run.Count("arglists_too_short", 1)
		run.Count("arglists_wrong_type", 1)
	}
	if len(e.args) == 0 && r.Bool() {
		e.args = nil
	} else if e.args == nil && r.Bool() {
		e.args = []interface{}{}
	}
	return e
}

// c15CapDigits makes sure that no directive of an arbitrary format can
// accumulate a width above 999999: at most six digits may follow the most
// recent '%' (every directive starts at a '%'), later ones are replaced.
func c15CapDigits(b []byte) {
	digits := 0
	for i, ch := range b {
		switch {
		case ch == '%':
			digits = 0
		case ch >= '0' && ch <= '9':
			digits++
			if digits > 6 {
				b[i] = 'z'
			}
		}
	}
}

func c15GenArbitraryFormat(r *vlib.Rand) string {
	var b []byte
	if r.Chance(1, 3) { // grammar-conforming format with byte mutations
		e := c15GenExact(r, c15NoCount{})
		b = []byte(c15Format(e.segs))
		if len(b) > 400 {
			b = b[:400]
		}
		for k := r.Range(1, 4); k > 0 && len(b) > 0; k-- {
			i := r.Intn(len(b))
			switch r.Intn(4) {
			case 0:
				b[i] = '%'
			case 1:
				b[i] = byte(r.U64())
			case 2:
				b = append(b[:i], b[i+1:]...)
			default:
				b = b[:i+1]
			}
		}
	} else {
		const al = "%%%%dxost0123456789QvpTcbeEfgqU+-# .*[]\x00\xff\n"
		n := r.Intn(60)
		if r.Chance(1, 10) {
			n = r.Intn(600)
		}
		b = r.Bytes(n)
		if !r.Chance(1, 6) {
			for i := range b {
				b[i] = al[int(b[i])%len(al)]
			}
		}
	}
	c15CapDigits(b)
	// keep the number of long widths low: at most two directives may carry
	// more than three digits (each costs up to 10^6 one-byte writes).
	long, digits := 0, 0
	for i, ch := range b {
		switch {
		case ch == '%':
			digits = 0
		case ch >= '0' && ch <= '9':
			digits++
			if digits == 4 {
				long++
				if long > 2 {
					b[i] = 'y'
				}
			} else if digits > 4 && long > 2 {
				b[i] = 'y'
			}
		}
	}
	return string(b)
}

func c15GenArbitraryArgs(r *vlib.Rand) []interface{} {
	n := r.Intn(7)
	if r.Chance(1, 6) {
		return nil
	}
	args := make([]interface{}, 0, n)
	for i := 0; i < n; i++ {
		switch r.Intn(16) {
		case 0:
			args = append(args, nil)
		case 1:
			args = append(args, c15NamedInt(r.U64()))
		case 2:
			args = append(args, c15NamedStr("named"))
		case 3:
			args = append(args, c15NamedBytes("named-bytes"))
		case 4:
			args = append(args, c15NamedBool(true))
		case 5:
			args = append(args, &c15Stringer{1})
		case 6:
			args = append(args, func() {})
		case 7:
			args = append(args, map[string]int{"a": 1})
		case 8:
			args = append(args, unsafe.Pointer(&c15Unit))
		case 9:
			args = append(args, string(c15GenBytes(r, c15GenStrLen(r))))
		case 10:
			args = append(args, c15GenBytes(r, c15GenStrLen(r)))
		case 11:
			args = append(args, r.Bool())
		case 12:
			args = append(args, c15WrongArg(r, "dst"[r.Intn(3)]))
		default:
			v, _ := c15GenInt(r, c15IntTypes[r.Intn(len(c15IntTypes))])
			args = append(args, v)
		}
	}
	return args
}

// ---------------------------------------------------------------------------
// the driver

type c15Env struct {
	run     *vlib.Run
	cap     c15Capture
	dis     c15Discard
	exp     []byte
	ringBuf [4096]byte

	// tallies of the facets that must not be empty at the end
	nAlloc, nMillion, nRing int
	typeVerb                map[string]bool
	markers                 map[string]int
}

const (
	c15RouteFprintf = iota // Fprintf(w, …)
	c15RoutePrintf         // Printf(…) with the output sink set to w
)

// c15Call runs the formatter once; w == nil selects the early ring.
func c15Call(route int, w io.Writer, format string, args []interface{}) {
	if route == c15RoutePrintf {
		outputSink = w
		Printf(format, args...)
		return
	}
	Fprintf(w, format, args...)
}

// c15Allocs measures heap allocations of one call. A non-zero reading is
// repeated: the formatter is deterministic, so a real allocation shows up in
// every repetition, whereas the runtime's global counter may sporadically be
// bumped by something else in the process.
func (e *c15Env) allocs(f func()) float64 {
	e.run.Count("alloc_measurements", 1)
	e.nAlloc++
	a := testing.AllocsPerRun(1, f)
	if a == 0 {
		return 0
	}
	for i := 0; i < 5; i++ {
		if b := testing.AllocsPerRun(1, f); b < a {
			a = b
		}
	}
	if a == 0 {
		e.run.Count("alloc_readings_attributed_to_noise", 1)
	}
	return a
}

// c15DrainRing reads the early ring until EOF into e.ringBuf (bounded).
func (e *c15Env) drainRing() []byte {
	n := 0
	for i := 0; i < 16; i++ {
		k, err := earlyPrintBuffer.Read(e.ringBuf[n:])
		n += k
		if err == io.EOF || n == len(e.ringBuf) {
			break
		}
	}
	return e.ringBuf[:n]
}

func (e *c15Env) protect(c *vlib.Case, what string, f func()) bool {
	if pv, st := vlib.Protect(f); pv != nil {
		if ub, isUB := pv.(c15Unbounded); isUB {
			c.Violation("output-unbounded", map[string]interface{}{"during": what, "desc": "the writer received more than " + strconv.Itoa(ub.limit) + " bytes, more than any correct rendering of this input; the call was aborted"})
			return false
		}
		c.Violation("panic:"+vlib.PanicSite(st)+":"+vlib.PanicClass(pv),
			map[string]interface{}{"during": what, "panic": fmt.Sprint(pv), "stack": st})
		return false
	}
	return true
}

// checkExact runs one grammar-conforming case through every monitor.
func (e *c15Env) checkExact(c *vlib.Case, segs []c15Seg, args []interface{}, route int, handExpected *string) {
	run := e.run
	format := c15Format(segs)
	var spans []c15Span
	e.exp, spans = c15Expect(e.exp, segs, args)
	exp := e.exp
	if handExpected != nil && *handExpected != string(exp) {
		// the reference formatter disagrees with the hand-written expectation
		// of a fixed case: that is a harness bug, not a finding.
		run.Inconclusive(fmt.Sprintf("oracle self-check failed for fixed case %q: reference %q, hand-written %q", format, c15Window(exp, 0), *handExpected))
		return
	}
	if need := len(exp) + 4096; need > len(e.cap.buf) {
		e.cap.buf = make([]byte, need)
	}
	argsDesc := c15DescArgs(args)
	c.Begin(map[string]interface{}{"class": "grammar", "format": strconv.Quote(format), "args": argsDesc, "route": route, "expected_len": len(exp)})

	// 1. bytes received by the writer
	e.cap.reset()
	e.cap.limit = len(exp) + 2048 // < len(e.cap.buf): whatever arrives before the abort is kept for the report
	var w io.Writer = &e.cap
	aborted := false
	if pv, st := vlib.Protect(func() { c15Call(route, w, format, args) }); pv != nil {
		if _, aborted = pv.(c15Unbounded); !aborted {
			c.Violation("panic:"+vlib.PanicSite(st)+":"+vlib.PanicClass(pv),
				map[string]interface{}{"during": "writer", "format": strconv.Quote(format), "args": argsDesc, "panic": fmt.Sprint(pv), "stack": st})
			return
		}
		// more than len(exp)+2048 bytes arrived: reported below as a mismatch
	}
	got := e.cap.buf[:e.cap.n]
	for i, sp := range spans { // what this comparison covers (whatever its outcome)
		if sp.intType != "" {
			e.typeVerb[sp.intType+"/%"+string(segs[i].verb)] = true
		}
		if sp.class == "%s" && sp.end-sp.start >= 1000000 {
			e.nMillion++
		}
		switch sp.class {
		case "missing-arg", "wrong-type-arg", "surplus-arg":
			e.markers[sp.class]++
		}
	}
	run.Count("outputs_compared", 1)
	run.Count("bytes_compared", int64(len(exp)))
	run.Max("output_len", int64(len(exp)))
	if e.cap.total != e.cap.n || !bytes.Equal(got, exp) {
		at := 0
		for at < len(got) && at < len(exp) && got[at] == exp[at] {
			at++
		}
		sig, what := "output-mismatch:surplus-output", "after the end of the expected output"
		for _, sp := range spans {
			if at >= sp.start && at < sp.end {
				sig, what = "output-mismatch:"+sp.class, sp.what
				if sp.intType != "" && at == sp.start && bytes.HasPrefix(got[at:], []byte(c15MarkWrong)) {
					// a built-in integer type was answered with the wrong-type marker
					sig = "int-rejected-as-wrongtype:" + sp.intType
				}
				break
			}
		}
		if at == len(got) && at < len(exp) && sig == "output-mismatch:surplus-output" {
			sig = "output-mismatch:truncated"
		}
		c.Violation(sig, map[string]interface{}{
			"format": strconv.Quote(format), "args": argsDesc, "first_difference_at": at, "in": what,
			"got_len": e.cap.total, "want_len": len(exp), "got": c15Window(got, at), "want": c15Window(exp, at),
			"call_aborted_because_output_exceeded_want_len_plus_2048": aborted})
		return
	}
	for _, sp := range spans {
		switch sp.class {
		case "missing-arg", "wrong-type-arg", "surplus-arg":
			run.Count("markers_checked_"+sp.class, 1)
		}
	}

	// 2. no heap allocation (writer path)
	if a := e.allocs(func() { e.cap.reset(); c15Call(route, w, format, args) }); a != 0 {
		c.Violation("allocates:writer", map[string]interface{}{"format": strconv.Quote(format), "args": argsDesc, "allocs_per_call": a})
	}

	// 3. nil writer: the early ring receives the same bytes
	earlyPrintBuffer = ringBuffer{}
	if !e.protect(c, "nil writer", func() { c15Call(route, nil, format, args) }) {
		return
	}
	ring := e.drainRing()
	run.Count("early_ring_runs", 1)
	e.nRing++
	if len(exp) < ringBufferSize {
		if !bytes.Equal(ring, exp) {
			c.Violation("early-ring-mismatch", map[string]interface{}{"format": strconv.Quote(format), "args": argsDesc,
				"ring_len": len(ring), "want_len": len(exp), "ring": c15Window(ring, 0), "want": c15Window(exp, 0)})
		}
	} else {
		run.Count("early_ring_outputs_longer_than_ring", 1)
		if len(ring) == 0 || !bytes.HasSuffix(exp, ring) {
			c.Violation("early-ring-not-a-suffix", map[string]interface{}{"format": strconv.Quote(format), "args": argsDesc,
				"ring_len": len(ring), "want_len": len(exp), "ring_tail": c15Window(ring, len(ring)), "want_tail": c15Window(exp, len(exp))})
		}
	}
	if a := e.allocs(func() { c15Call(route, nil, format, args) }); a != 0 {
		c.Violation("allocates:nil-writer", map[string]interface{}{"format": strconv.Quote(format), "args": argsDesc, "allocs_per_call": a})
	}

	if run.WantSample() && len(exp) > 0 && len(exp) < 120 && len(args) > 1 {
		run.Sample(map[string]interface{}{"format": strconv.Quote(format), "args": argsDesc, "output": strconv.Quote(string(exp))})
	}
}

// checkArbitrary: any format string, any arguments: no panic, no allocation.
func (e *c15Env) checkArbitrary(c *vlib.Case, format string, args []interface{}, route int) {
	run := e.run
	argsDesc := c15DescArgs(args)
	c.Begin(map[string]interface{}{"class": "arbitrary", "format": strconv.Quote(format), "args": argsDesc, "route": route})
	var w io.Writer = &e.dis
	e.dis = c15Discard{limit: c15ArbitraryBound(format, args)}
	if !e.protect(c, "writer", func() { c15Call(route, w, format, args) }) {
		return
	}
	run.Count("arbitrary_formats", 1)
	run.Count("arbitrary_output_bytes", int64(e.dis.total))
	run.Max("arbitrary_output_len", int64(e.dis.total))
	if a := e.allocs(func() { e.dis.total = 0; c15Call(route, w, format, args) }); a != 0 {
		c.Violation("allocates:arbitrary-format", map[string]interface{}{"format": strconv.Quote(format), "args": argsDesc, "allocs_per_call": a})
	}
	earlyPrintBuffer = ringBuffer{}
	if !e.protect(c, "nil writer", func() { c15Call(route, nil, format, args) }) {
		return
	}
	if e.dis.total < 200000 { // the ring path costs the same again; skip the allocation reading for the giants
		if a := e.allocs(func() { c15Call(route, nil, format, args) }); a != 0 {
			c.Violation("allocates:arbitrary-format-nil-writer", map[string]interface{}{"format": strconv.Quote(format), "args": argsDesc, "allocs_per_call": a})
		}
	}
}

// c15ProbeStr is not a constant so that the conversion below is a real one.
var c15ProbeStr = strings.Repeat("p", 64)

// c15HostElidesConversionCopies reports whether this build of the package
// turns a non-escaping string->[]byte conversion into a zero-copy view
// (go1.22+ does unless built with -gcflags=-d=zerocopy=0). It matters for what
// a zero allocation reading means: a formatter that converts format text or a
// string argument with []byte(...) allocates for texts above 32 bytes on the
// compilers the kernel targets, but not in such a host build.
func c15HostElidesConversionCopies() bool {
	sum := 0
	a := testing.AllocsPerRun(10, func() {
		b := []byte(c15ProbeStr)
		for _, x := range b {
			sum += int(x)
		}
	})
	return a == 0 && sum != 0
}

type c15Fixed struct {
	segs []c15Seg
	args []interface{}
	want string
}

func c15FixedCases() []c15Fixed {
	sp := func(n int) string { return strings.Repeat(" ", n) }
	z := func(n int) string { return strings.Repeat("0", n) }
	const minI64 = int64(-1) << 63
	a := func(v ...interface{}) []interface{} { return v }
	return []c15Fixed{
		// extreme values in every base
		{[]c15Seg{c15V('d', "")}, a(minI64), "-9223372036854775808"},
		{[]c15Seg{c15V('x', "")}, a(minI64), "-8000000000000000"},
		{[]c15Seg{c15V('o', "")}, a(minI64), "-1000000000000000000000"},
		{[]c15Seg{c15V('d', "")}, a(^uint64(0)), "18446744073709551615"},
		{[]c15Seg{c15V('o', "")}, a(^uint64(0)), "1777777777777777777777"},
		{[]c15Seg{c15V('x', "")}, a(^uintptr(0)), "ffffffffffffffff"},
		{[]c15Seg{c15V('d', ""), c15L(" "), c15V('d', ""), c15L(" "), c15V('d', "")}, a(int8(-128), int16(-32768), int32(-2147483648)), "-128 -32768 -2147483648"},
		{[]c15Seg{c15V('x', ""), c15L(" "), c15V('o', "")}, a(int8(-128), int(-1)), "-80 -1"},
		// width clamp for integers
		{[]c15Seg{c15V('d', "31")}, a(minI64), sp(11) + "-9223372036854775808"},
		{[]c15Seg{c15V('d', "32")}, a(minI64), sp(11) + "-9223372036854775808"},
		{[]c15Seg{c15V('d', "1000000")}, a(int8(-1)), sp(29) + "-1"},
		{[]c15Seg{c15V('d', "30")}, a(uint8(0)), sp(29) + "0"},
		{[]c15Seg{c15V('x', "33")}, a(^uint64(0)), z(15) + "ffffffffffffffff"},
		{[]c15Seg{c15V('x', "31")}, a(uint16(0xbeef)), z(27) + "beef"},
		{[]c15Seg{c15V('o', "100")}, a(uint32(8)), z(29) + "10"},
		// zero padding: digits padded to the width, sign in front (as fmt_test.go pins for %128x)
		{[]c15Seg{c15V('x', "128")}, a(int(-0xbadf00d)), "-" + z(24) + "badf00d"},
		{[]c15Seg{c15V('o', "31")}, a(minI64), "-" + z(9) + "1000000000000000000000"},
		// decimal padding counts the sign
		{[]c15Seg{c15V('d', "10")}, a(int64(-12345678)), " -12345678"},
		{[]c15Seg{c15V('d', "10")}, a(int64(-123456789)), "-123456789"},
		{[]c15Seg{c15V('d', "05")}, a(42), "   42"},
		{[]c15Seg{c15V('d', "0")}, a(0), "0"},
		// strings and byte slices
		{[]c15Seg{c15L("'"), c15V('s', "4"), c15L("'")}, a("ABC"), "' ABC'"},
		{[]c15Seg{c15V('s', "4")}, a([]byte("ABCDE")), "ABCDE"},
		{[]c15Seg{c15V('s', "3")}, a([]byte(nil)), "   "},
		{[]c15Seg{c15V('s', "40")}, a("%d%s"), sp(36) + "%d%s"},
		{[]c15Seg{c15V('s', "1000000"), c15L("|")}, a("ab"), sp(999998) + "ab|"},
		{[]c15Seg{c15V('s', "1000000")}, a([]byte{0, '%', 0xff}), sp(999997) + "\x00%\xff"},
		// booleans, %%
		{[]c15Seg{c15P(), c15V('s', ""), c15V('d', ""), c15V('t', ""), c15P()}, a("foo", 123, true), "%foo123true%"},
		{[]c15Seg{c15V('t', "41")}, a(false), "false"},
		// markers
		{[]c15Seg{c15L("more args")}, a("foo", 1, nil), "more args%!(EXTRA)%!(EXTRA)%!(EXTRA)"},
		{[]c15Seg{c15V('d', ""), c15L(" "), c15V('s', "9"), c15L(" "), c15V('t', "")}, a(1), "1 (MISSING) (MISSING)"},
		{[]c15Seg{c15V('t', ""), c15V('d', "8"), c15V('s', "8")}, a("foo", "foo", 123), "%!(WRONGTYPE)%!(WRONGTYPE)%!(WRONGTYPE)"},
		{[]c15Seg{c15V('d', ""), c15L(".")}, a(1.5, 2), "%!(WRONGTYPE).%!(EXTRA)"},
		{nil, nil, ""},
		// every built-in integer type, including uint
		{[]c15Seg{c15V('d', ""), c15L(","), c15V('x', "4"), c15L(","), c15V('o', "")}, a(uint(5), uint(255), ^uint(0)), "5,00ff,1777777777777777777777"},
	}
}

func TestVerifC15(t *testing.T) {
	run := vlib.Start(t, "C15")
	defer run.Finish()
	run.SetRule("case = one format string + argument list, formatted through Fprintf or Printf into a fixed-buffer writer and again with a nil writer (early ring). 75% of the cases are drawn from the grammar (literal | %% | %[width]verb)* as a segment list (1-8 segments; all 11 built-in integer types x %d/%o/%x with values from {0,+-1,min,max,min+1,max-1,digit-count boundaries,narrower-width boundaries,random}; widths from {none,0,1,natural-1,natural,natural+1,30,31,32,33,100,10^6,random}, optionally with leading zeros; strings/byte slices of length 0-5000; argument lists too short/too long/wrong-typed in 40%) and compared byte for byte with the reference formatter; 25% are arbitrary byte strings / mutated formats with arbitrary arguments (nil, named types, pointers, ...) where only no-panic and 0 allocations are demanded. non-trivial = grammar case with at least one directive that needs padding, clamping or a minus sign, or at least one error marker. distinct = fingerprint of (format string, described argument list)")
	run.Assume("allocation is read from the host runtime's global malloc counter via testing.AllocsPerRun(1, ...) on go1.23, not the kernel's toolchain; a non-zero reading is repeated five times and only a reading that never drops to zero is reported")
	run.Assume("widths in arbitrary formats are limited to six digits after any '%' so that a call terminates; the early ring is reset with a zero value before each nil-writer call and read back through its Read method (the ring itself is C16's subject)")

	savedSink, savedRing := outputSink, earlyPrintBuffer
	defer func() { outputSink, earlyPrintBuffer = savedSink, savedRing }()

	if c15HostElidesConversionCopies() {
		run.SetAdd("build", "compiler elides the copy of non-escaping string->[]byte conversions: yes (default go1.22+ build)")
		run.Note("this build elides the copy of non-escaping string->[]byte conversions, so an allocation that exists only on older compilers (conversion of format text / string arguments above 32 bytes) reads as 0 here; build the kfmt package with -gcflags=-d=zerocopy=0 to see it")
	} else {
		run.SetAdd("build", "compiler elides the copy of non-escaping string->[]byte conversions: no (-d=zerocopy=0 or pre-1.22 semantics)")
	}

	env := &c15Env{run: run, typeVerb: map[string]bool{}, markers: map[string]int{}}
	env.cap.buf = make([]byte, 1<<20+8192)

	run.Cases(run.N(20000, 2000000), func(c *vlib.Case) {
		r := c.R
		route := c15RouteFprintf
		if r.Chance(1, 4) {
			route = c15RoutePrintf
			run.Count("route_printf_via_output_sink", 1)
		} else {
			run.Count("route_fprintf", 1)
		}
		defer func() { outputSink = nil }()
		if r.Chance(1, 4) {
			format := c15GenArbitraryFormat(r)
			args := c15GenArbitraryArgs(r)
			env.checkArbitrary(c, format, args, route)
			return
		}
		e := c15GenExact(r, run)
		env.checkExact(c, e.segs, e.args, route, nil)
		if e.million {
			run.Count("cases_with_width_10^6_string_padding", 1)
		}
		if e.nontrivial && !c.Failed() {
			fp := vlib.NewFP().Str(c15Format(e.segs))
			for _, d := range c15DescArgs(e.args) {
				fp = fp.Str(d)
			}
			run.Nontrivial(fp)
		}
	})

	for i, fc := range c15FixedCases() {
		fc := fc
		run.OneCase(vlib.FixedBase+i, func(c *vlib.Case) {
			defer func() { outputSink = nil }()
			run.Count("fixed_cases", 1)
			env.checkExact(c, fc.segs, fc.args, c.Idx&1, &fc.want)
		})
	}

	run.OneCase(vlib.FixedBase+900, func(c *vlib.Case) {
		defer func() { outputSink = nil }()
		c.Begin(map[string]interface{}{"fixed": "caller-side allocation probes"})
		env.checkCallers(c)
	})

	// facets that are the point of this harness (only judged when this process
	// ran its whole share of the case list, not for a replay of one case)
	if run.From == 0 && run.To < 0 && !run.Replay {
		if env.nAlloc == 0 {
			run.Inconclusive("no allocation measurement was taken")
		}
		if env.nMillion == 0 {
			run.Inconclusive("no case padded a string to width 10^6")
		}
		if env.nRing == 0 {
			run.Inconclusive("the nil-writer (early ring) path was never compared")
		}
		if len(env.typeVerb) < 3*len(c15IntTypes) {
			run.Inconclusive(fmt.Sprintf("only %d of %d (integer type x verb) combinations were compared", len(env.typeVerb), 3*len(c15IntTypes)))
		}
		for _, k := range []string{"missing-arg", "wrong-type-arg", "surplus-arg"} {
			if env.markers[k] == 0 {
				run.Inconclusive("no " + k + " marker was compared")
			}
		}
	}
}
