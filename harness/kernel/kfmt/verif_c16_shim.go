//go:build verif
// +build verif

package kfmt

// Export shim for the C16 harness in package hal: observation of the early
// ring buffer without consuming it, and a reset of the sink/ring between cases.

// VerifC16EarlySnapshot returns a copy of the bytes currently held by the early
// ring buffer, oldest first, together with the raw read and write indices.
// It does not go through ringBuffer.Read and changes nothing.
func VerifC16EarlySnapshot() (data []byte, rIndex, wIndex int) {
	rb := &earlyPrintBuffer
	r, w := rb.rIndex, rb.wIndex
	n := len(rb.buffer)
	if r < 0 || r >= n || w < 0 || w >= n {
		return nil, r, w
	}
	for i := r; i != w; i = (i + 1) % n {
		data = append(data, rb.buffer[i])
	}
	return data, r, w
}

// VerifC16ResetOutput detaches the output sink and empties the early ring. The
// ring is left empty with its indices at offset start (mod its size): that state
// is produced through the ring's own Write and Read, i.e. it is a state the
// kernel can be in after start bytes were logged and drained.
func VerifC16ResetOutput(start int) {
	outputSink = nil
	earlyPrintBuffer = ringBuffer{}
	start &= ringBufferSize - 1
	if start == 0 {
		return
	}
	junk := make([]byte, start)
	for i := range junk {
		junk[i] = 0xEE
	}
	earlyPrintBuffer.Write(junk)
	for i := 0; i < 16; i++ {
		n, err := earlyPrintBuffer.Read(junk)
		if n == 0 || err != nil {
			break
		}
	}
}

// VerifC16RawSink returns the raw output sink variable (nil = early ring).
func VerifC16RawSink() interface{} {
	if outputSink == nil {
		return nil
	}
	return outputSink
}

// VerifC16IsEarlyRing reports whether w is the early ring buffer.
func VerifC16IsEarlyRing(w interface{}) bool {
	rb, ok := w.(*ringBuffer)
	return ok && rb == &earlyPrintBuffer
}
