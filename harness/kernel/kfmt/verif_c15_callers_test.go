//go:build verif
// +build verif

package kfmt

import (
	"io"

	"github.com/ProjectSerenity/firefly/kernel/zzverif/vlib"
)

// "Formatting performs no heap allocation" has a caller-side half: the argument list of a call is
// built by the caller, and whether boxing a value into interface{} or slicing a local array needs
// the heap is decided by what the formatter's signature lets escape. The main harness builds its
// argument slices beforehand (on the heap), so it cannot see that half. These probes are written
// the way kernel code calls the formatter - literal argument lists, values in local variables -
// and are measured as a whole. The inputs come from package variables so that the compiler cannot
// fold them into constants (boxing a constant or a value below 256 never allocates).

var (
	c15CallerU64 = uint64(0x1122334455667788)
	c15CallerI32 = int32(-70000)
	c15CallerStr = "early boot string argument, longer than thirty-two bytes in total"
	c15CallerSig = [4]byte{'F', 'A', 'C', 'P'}
)

type c15CallerProbe struct {
	name string
	f    func(w io.Writer)
}

func c15CallerProbes() []c15CallerProbe {
	return []c15CallerProbe{
		{"byte-slice-of-a-local-array", func(w io.Writer) {
			var sig [4]byte
			sig = c15CallerSig
			Fprintf(w, "table %s found\n", sig[:])
		}},
		{"byte-slice-of-a-local-array-with-width", func(w io.Writer) {
			var name [8]byte
			copy(name[:], c15CallerStr)
			Fprintf(w, "[%12s]", name[:])
		}},
		{"local-uint64", func(w io.Writer) {
			v := c15CallerU64
			Fprintf(w, "addr 0x%16x", v)
		}},
		{"local-int32-and-uint64", func(w io.Writer) {
			a, b := c15CallerI32, c15CallerU64
			Fprintf(w, "%d frames at %x", a, b)
		}},
		{"local-string", func(w io.Writer) {
			s := c15CallerStr[3:]
			Fprintf(w, "%s", s)
		}},
		{"local-struct-field-and-bool", func(w io.Writer) {
			st := struct {
				n  uint16
				ok bool
			}{uint16(c15CallerU64), c15CallerI32 < 0}
			Fprintf(w, "%d %t", st.n, st.ok)
		}},
		{"wrong-type-argument", func(w io.Writer) {
			v := float64(c15CallerI32)
			Fprintf(w, "%d", v)
		}},
	}
}

// c15CheckCallers measures every probe with a real writer and with the nil writer (early ring).
func (e *c15Env) checkCallers(c *vlib.Case) {
	for _, p := range c15CallerProbes() {
		p := p
		var w io.Writer = &e.cap
		if pv, st := vlib.Protect(func() { e.cap.reset(); p.f(w) }); pv != nil {
			c.Violation("panic:caller-probe", map[string]interface{}{"probe": p.name, "panic": pv, "stack": st})
			continue
		}
		if a := e.allocs(func() { e.cap.reset(); p.f(w) }); a != 0 {
			c.Violation("allocates:caller-side:writer", map[string]interface{}{"probe": p.name, "allocs_per_call": a,
				"what": "a call whose arguments live in the caller's frame costs a heap allocation: the formatter lets its argument list escape"})
		}
		earlyPrintBuffer = ringBuffer{}
		if a := e.allocs(func() { p.f(nil) }); a != 0 {
			c.Violation("allocates:caller-side:nil-writer", map[string]interface{}{"probe": p.name, "allocs_per_call": a})
		}
		e.run.Count("caller_side_probes_measured", 2)
	}
}
