//go:build verif
// +build verif

// Package vlib is the harness-side half of the /verif runtime-monitoring
// framework. It exists only in the go-build overlay that vcheck passes to
// `go test`; it is never copied into the repository.
//
// A harness is an in-package TestVerif<ID> function that calls Start, runs a
// fixed list of cases (determined by seed and tier only) through Run.Cases and
// reports what its monitors observed through counters, fingerprints, samples
// and violations. All output goes to the JSON-lines file named by VERIF_OUT;
// vcheck aggregates it into evidence/<id>.json and the VIOLATION lines.
package vlib

import (
	"bufio"
	"encoding/binary"
	"encoding/hex"
	"encoding/json"
	"fmt"
	"os"
	"runtime/debug"
	"sort"
	"strconv"
	"strings"
	"sync"
	"sync/atomic"
	"testing"
	"time"
)

// ---------------------------------------------------------------------------
// PRNG: splitmix64, value-determined by (seed, case index).

type Rand struct{ s uint64 }

func NewRand(seed uint64) *Rand { return &Rand{s: seed} }

func Mix(a, b uint64) uint64 {
	x := a*0x9E3779B97F4A7C15 ^ (b + 0xD1B54A32D192ED03)
	x ^= x >> 30
	x *= 0xBF58476D1CE4E5B9
	x ^= x >> 27
	x *= 0x94D049BB133111EB
	x ^= x >> 31
	return x
}

func (r *Rand) U64() uint64 {
	r.s += 0x9E3779B97F4A7C15
	z := r.s
	z = (z ^ (z >> 30)) * 0xBF58476D1CE4E5B9
	z = (z ^ (z >> 27)) * 0x94D049BB133111EB
	return z ^ (z >> 31)
}
func (r *Rand) U32() uint32 { return uint32(r.U64() >> 32) }
func (r *Rand) Intn(n int) int {
	if n <= 0 {
		return 0
	}
	return int(r.U64() % uint64(n))
}

// Range returns a value in [lo, hi] inclusive.
func (r *Rand) Range(lo, hi int) int {
	if hi <= lo {
		return lo
	}
	return lo + r.Intn(hi-lo+1)
}
func (r *Rand) Bool() bool { return r.U64()&1 == 1 }

// Chance returns true with probability num/den.
func (r *Rand) Chance(num, den int) bool { return r.Intn(den) < num }
func (r *Rand) PickU64(v []uint64) uint64 { return v[r.Intn(len(v))] }
func (r *Rand) PickInt(v []int) int       { return v[r.Intn(len(v))] }
func (r *Rand) Bytes(n int) []byte {
	b := make([]byte, n)
	for i := 0; i < n; i += 8 {
		var t [8]byte
		binary.LittleEndian.PutUint64(t[:], r.U64())
		copy(b[i:], t[:])
	}
	return b
}
func (r *Rand) Perm(n int) []int {
	p := make([]int, n)
	for i := range p {
		p[i] = i
	}
	for i := n - 1; i > 0; i-- {
		j := r.Intn(i + 1)
		p[i], p[j] = p[j], p[i]
	}
	return p
}

// Fork derives an independent generator (used to give sub-parts of a case
// their own streams so that adding draws in one part does not shift another).
func (r *Rand) Fork(tag uint64) *Rand { return NewRand(Mix(r.U64(), tag)) }

// ---------------------------------------------------------------------------
// FNV-1a fingerprinting helper.

type FP uint64

func NewFP() FP { return FP(14695981039346656037) }
func (f FP) U64(v uint64) FP {
	for i := 0; i < 8; i++ {
		f ^= FP(v & 0xff)
		f *= 1099511628211
		v >>= 8
	}
	return f
}
func (f FP) Int(v int) FP { return f.U64(uint64(v)) }
func (f FP) Str(s string) FP {
	for i := 0; i < len(s); i++ {
		f ^= FP(s[i])
		f *= 1099511628211
	}
	return f.U64(uint64(len(s)))
}
func (f FP) Bytes(b []byte) FP {
	for i := 0; i < len(b); i++ {
		f ^= FP(b[i])
		f *= 1099511628211
	}
	return f.U64(uint64(len(b)))
}

// ---------------------------------------------------------------------------
// Run: one harness invocation.

type Run struct {
	ID      string
	Seed    uint64
	Tier    string
	From    int // first case index (inclusive)
	To      int // last case index (exclusive); <0 = no limit
	Shard   int
	NShards int
	Replay  bool // a single case is being replayed

	t        *testing.T
	mu       sync.Mutex
	f        *os.File
	w        *bufio.Writer
	counters map[string]int64
	maxes    map[string]int64
	fps      map[uint64]struct{}
	sets     map[string]map[string]struct{}
	samples  []interface{}
	maxSamp  int
	evals    int64
	viols    int64
	incon    int64
	rule     string
	notes    []string
	assume   []string
	finished bool

	caseStart int64 // unix nanoseconds at which the running case began; 0 between cases (atomic)
	caseLimit int64 // nanoseconds; 0 = no per-case watchdog (atomic)
	caseMaxNs int64 // longest case seen (atomic)
}

func envInt(name string, def int) int {
	if v := os.Getenv(name); v != "" {
		if n, err := strconv.Atoi(v); err == nil {
			return n
		}
	}
	return def
}

// Start reads the run parameters from the environment. When VERIF_OUT is not
// set the test is skipped: the harness only runs under vcheck.
func Start(t *testing.T, id string) *Run {
	out := os.Getenv("VERIF_OUT")
	if out == "" {
		t.Skip("VERIF_OUT not set: run through /verif/bin/vcheck")
	}
	seed, _ := strconv.ParseUint(os.Getenv("VERIF_SEED"), 10, 64)
	r := &Run{
		ID: id, Seed: seed, Tier: os.Getenv("VERIF_TIER"),
		From: envInt("VERIF_FROM", 0), To: envInt("VERIF_TO", -1),
		Shard: envInt("VERIF_SHARD", 0), NShards: envInt("VERIF_NSHARDS", 1),
		Replay: os.Getenv("VERIF_REPLAY") == "1",
		t:        t,
		counters: map[string]int64{}, maxes: map[string]int64{},
		fps: map[uint64]struct{}{}, sets: map[string]map[string]struct{}{},
		maxSamp: 4,
	}
	if r.Tier == "" {
		r.Tier = "quick"
	}
	if r.NShards < 1 {
		r.NShards = 1
	}
	f, err := os.OpenFile(out, os.O_CREATE|os.O_WRONLY|os.O_APPEND, 0644)
	if err != nil {
		t.Fatalf("verif: cannot open %s: %v", out, err)
	}
	r.f = f
	r.w = bufio.NewWriterSize(f, 1<<16)
	r.emit(map[string]interface{}{"ev": "start", "id": id, "seed": seed, "tier": r.Tier,
		"from": r.From, "to": r.To, "shard": r.Shard, "nshards": r.NShards})
	r.flush()
	// generic per-case watchdog: cases take milliseconds; one that has not finished after the limit is a hang
	// (an endless loop in the code under test). Like every watchdog it only ends the process; vcheck re-runs
	// the announced case alone and reports a timeout only if it hangs there as well.
	lim := 60
	if r.Thorough() {
		lim = 120
	}
	r.SetCaseTimeout(time.Duration(envInt("VERIF_CASE_TIMEOUT", lim)) * time.Second)
	go func() {
		for {
			time.Sleep(250 * time.Millisecond)
			st, l := atomic.LoadInt64(&r.caseStart), atomic.LoadInt64(&r.caseLimit)
			if st != 0 && l != 0 && time.Now().UnixNano()-st > l {
				r.Watchdog(fmt.Sprintf("a case did not finish within %ds", l/int64(time.Second)))
			}
		}
	}()
	return r
}

// SetCaseTimeout changes the per-case watchdog (0 disables it; harnesses with long stress cases bring their own).
func (r *Run) SetCaseTimeout(d time.Duration) { atomic.StoreInt64(&r.caseLimit, int64(d)) }

func (r *Run) Thorough() bool { return r.Tier == "thorough" }

// N picks a case count by tier.
func (r *Run) N(quick, thorough int) int {
	if r.Thorough() {
		return thorough
	}
	return quick
}

func (r *Run) emit(m map[string]interface{}) {
	b, err := json.Marshal(m)
	if err != nil {
		b, _ = json.Marshal(map[string]interface{}{"ev": "error", "msg": "marshal: " + err.Error()})
	}
	r.w.Write(b)
	r.w.WriteByte('\n')
}
func (r *Run) flush() { r.w.Flush() }

// SetRule documents how cases are generated and what counts as non-trivial.
func (r *Run) SetRule(s string) { r.rule = s }
func (r *Run) Note(s string) {
	r.mu.Lock()
	r.notes = append(r.notes, s)
	r.mu.Unlock()
}
func (r *Run) Assume(s string) { r.assume = append(r.assume, s) }

func (r *Run) Count(name string, d int64) {
	r.mu.Lock()
	r.counters[name] += d
	r.mu.Unlock()
}
func (r *Run) Max(name string, v int64) {
	r.mu.Lock()
	if v > r.maxes[name] {
		r.maxes[name] = v
	}
	r.mu.Unlock()
}

// SetAdd records a member of a named set of observed things (e.g. the set of
// boundary buckets hit); the evidence reports the size and the members.
func (r *Run) SetAdd(set, member string) {
	r.mu.Lock()
	m := r.sets[set]
	if m == nil {
		m = map[string]struct{}{}
		r.sets[set] = m
	}
	if len(m) < 4096 {
		m[member] = struct{}{}
	}
	r.mu.Unlock()
}

// Nontrivial records the fingerprint of a case that satisfied the harness's
// non-triviality rule; distinct fingerprints are what distinct_nontrivial counts.
func (r *Run) Nontrivial(fp FP) {
	r.mu.Lock()
	r.fps[uint64(fp)] = struct{}{}
	r.mu.Unlock()
}
func (r *Run) Sample(v interface{}) {
	r.mu.Lock()
	if len(r.samples) < r.maxSamp {
		r.samples = append(r.samples, v)
	}
	r.mu.Unlock()
}
func (r *Run) WantSample() bool {
	r.mu.Lock()
	defer r.mu.Unlock()
	return len(r.samples) < r.maxSamp
}

// Inconclusive records a facet that could not be decided (watchdog, checker
// timeout, hook not reached). It is never folded into held or violated.
func (r *Run) Inconclusive(what string) {
	r.mu.Lock()
	r.incon++
	r.emit(map[string]interface{}{"ev": "inconclusive", "what": what})
	r.w.Flush()
	r.mu.Unlock()
}

// Single reports whether exactly one case is being (re-)run alone.
func (r *Run) Single() bool { return r.To >= 0 && r.To == r.From+1 }

// Watchdog is called when a wall-clock watchdog fires. A watchdog is never a
// verdict by itself: the event is recorded as inconclusive and the process
// exits, so that vcheck re-runs the announced case alone with a larger budget
// and reports a timeout only if it repeats there.
func (r *Run) Watchdog(what string) {
	r.mu.Lock()
	r.emit(map[string]interface{}{"ev": "watchdog", "what": what})
	r.w.Flush()
	r.mu.Unlock()
	fmt.Fprintf(os.Stderr, "fatal error: verif watchdog: %s\n", what)
	os.Exit(3)
}

// Violation reports a violation that is not tied to a Case.
func (r *Run) Violation(sig string, idx int, detail interface{}) {
	r.mu.Lock()
	r.viols++
	r.emit(map[string]interface{}{"ev": "violation", "sig": sig, "idx": idx, "detail": detail})
	r.w.Flush()
	r.mu.Unlock()
}

// Emit writes an arbitrary event line (histories for offline checkers).
func (r *Run) Emit(m map[string]interface{}) {
	r.mu.Lock()
	r.emit(m)
	r.mu.Unlock()
}

// Case is one generated configuration / input / history.
type Case struct {
	Idx  int
	R    *Rand
	run  *Run
	desc interface{}
	bad  int
}

func (c *Case) Run() *Run { return c.run }

// Begin writes the case line (with a description of the input) and flushes it
// to disk *before* the code under test runs, so that a process-fatal crash can
// be attributed to it.
func (c *Case) Begin(desc interface{}) {
	c.desc = desc
	r := c.run
	r.mu.Lock()
	r.emit(map[string]interface{}{"ev": "case", "idx": c.Idx, "desc": desc})
	r.w.Flush()
	r.mu.Unlock()
}

// Violation reports that the oracle disagreed with what was observed.
// sig is a stable signature (used to match known findings), detail is what
// goes into the replay file.
func (c *Case) Violation(sig string, detail interface{}) {
	c.bad++
	if c.bad > 5 { // do not flood: five reports per case are enough
		return
	}
	c.run.mu.Lock()
	c.run.viols++
	c.run.emit(map[string]interface{}{"ev": "violation", "sig": sig, "idx": c.Idx, "desc": c.desc, "detail": detail})
	c.run.w.Flush()
	c.run.mu.Unlock()
}
func (c *Case) Violationf(sig string, format string, a ...interface{}) {
	c.Violation(sig, fmt.Sprintf(format, a...))
}
func (c *Case) Failed() bool { return c.bad > 0 }

// PanicSite extracts "function (file)" of the innermost non-runtime frame of
// a recovered panic's stack, with line numbers stripped: a stable call-site
// signature.
func PanicSite(stack string) string {
	lines := strings.Split(stack, "\n")
	seenPanic := false
	for i := 0; i+1 < len(lines); i++ {
		l := lines[i]
		if strings.HasPrefix(l, "panic(") || strings.HasPrefix(l, "runtime.sigpanic") {
			seenPanic = true
			continue
		}
		if !seenPanic || strings.HasPrefix(l, "\t") || strings.HasPrefix(l, "runtime.") || strings.HasPrefix(l, "runtime/") {
			continue
		}
		if p := strings.LastIndex(l, "("); p > 0 {
			l = l[:p]
		}
		if p := strings.LastIndex(l, "/"); p >= 0 {
			l = l[p+1:]
		}
		return l
	}
	return "?"
}

// PanicClass reduces a panic value to its message class (numbers stripped).
func PanicClass(v interface{}) string {
	s := fmt.Sprint(v)
	var b strings.Builder
	lastHash := false
	for i := 0; i < len(s); i++ {
		ch := s[i]
		if ch >= '0' && ch <= '9' {
			if !lastHash {
				b.WriteByte('#')
				lastHash = true
			}
			continue
		}
		if lastHash && (ch == 'x' || (ch >= 'a' && ch <= 'f')) && i+1 < len(s) && (s[i+1] >= '0' && s[i+1] <= '9' || s[i+1] >= 'a' && s[i+1] <= 'f') {
			continue
		}
		lastHash = false
		b.WriteByte(ch)
	}
	out := b.String()
	if len(out) > 120 {
		out = out[:120]
	}
	return out
}

// Cases runs f for every case index in [0,n) that belongs to this process
// (range and shard). A Go panic escaping f is a violation attributed to the case.
func (r *Run) Cases(n int, f func(c *Case)) {
	for idx := 0; idx < n; idx++ {
		if idx < r.From || (r.To >= 0 && idx >= r.To) || idx%r.NShards != r.Shard {
			continue
		}
		c := &Case{Idx: idx, R: NewRand(Mix(r.Seed, uint64(idx)+0x5eed)), run: r}
		r.runCase(c, f)
	}
}

// OneCase runs a single specially-indexed case (fixed regression inputs use
// indices >= 1<<30 so that they never collide with generated ones). Fixed
// cases run in shard 0 only.
func (r *Run) OneCase(idx int, f func(c *Case)) {
	if idx < r.From || (r.To >= 0 && idx >= r.To) || r.Shard != 0 {
		return
	}
	c := &Case{Idx: idx, R: NewRand(Mix(r.Seed, uint64(idx)+0x5eed)), run: r}
	r.runCase(c, f)
}

const FixedBase = 1 << 30

func (r *Run) runCase(c *Case, f func(c *Case)) {
	defer func() {
		if v := recover(); v != nil {
			st := string(debug.Stack())
			c.Violation("panic:"+PanicSite(st)+":"+PanicClass(v), map[string]interface{}{"panic": fmt.Sprint(v), "stack": st})
		}
	}()
	r.mu.Lock()
	r.evals++
	r.mu.Unlock()
	t0 := time.Now().UnixNano()
	atomic.StoreInt64(&r.caseStart, t0)
	defer func() {
		atomic.StoreInt64(&r.caseStart, 0)
		if d := time.Now().UnixNano() - t0; d > atomic.LoadInt64(&r.caseMaxNs) {
			atomic.StoreInt64(&r.caseMaxNs, d)
		}
	}()
	f(c)
}

// Protect runs f and returns the recovered panic value and stack (nil if none).
func Protect(f func()) (pv interface{}, stack string) {
	defer func() {
		if v := recover(); v != nil {
			pv = v
			stack = string(debug.Stack())
		}
	}()
	f()
	return nil, ""
}

// Finish writes the summary line. Must be called exactly once.
func (r *Run) Finish() {
	r.mu.Lock()
	defer r.mu.Unlock()
	if r.finished {
		return
	}
	r.finished = true
	fps := make([]string, 0, len(r.fps))
	for k := range r.fps {
		var b [8]byte
		binary.BigEndian.PutUint64(b[:], k)
		fps = append(fps, hex.EncodeToString(b[:]))
	}
	sort.Strings(fps)
	sets := map[string][]string{}
	for k, m := range r.sets {
		l := make([]string, 0, len(m))
		for s := range m {
			l = append(l, s)
		}
		sort.Strings(l)
		sets[k] = l
	}
	r.maxes["longest_case_ms"] = atomic.LoadInt64(&r.caseMaxNs) / 1e6
	r.emit(map[string]interface{}{"ev": "summary", "evaluations": r.evals, "violations": r.viols,
		"inconclusive": r.incon, "counters": r.counters, "maxes": r.maxes, "sets": sets, "fps": fps,
		"samples": r.samples, "rule": r.rule, "notes": r.notes, "assumptions": r.assume})
	r.w.Flush()
	r.f.Close()
	if r.viols > 0 {
		r.t.Logf("verif %s: %d violation(s)", r.ID, r.viols)
	}
}

// Hex is a small helper for descriptions.
func Hex(b []byte) string { return hex.EncodeToString(b) }
func UnHex(s string) []byte {
	b, err := hex.DecodeString(s)
	if err != nil {
		panic(err)
	}
	return b
}
