//go:build verif
// +build verif

package vlib

import (
	"fmt"
	"reflect"
	"syscall"
	"unsafe"
)

const (
	PageSize          = 4096
	mapFixedNoReplace = 0x100000
	map32Bit          = 0x40
)

// Arena is a block of anonymous host memory obtained straight from mmap, so
// that it is outside the Go heap (checkptr ignores it) and can be surrounded
// by PROT_NONE guard pages.
type Arena struct {
	Base  uintptr // first usable byte
	Size  int     // usable bytes (multiple of the page size)
	total uintptr // whole mapping including guards
	start uintptr
}

func mmap(addr uintptr, length uintptr, prot, flags int) (uintptr, error) {
	r, _, e := syscall.Syscall6(syscall.SYS_MMAP, addr, length, uintptr(prot), uintptr(flags), ^uintptr(0), 0)
	if e != 0 {
		return 0, e
	}
	return r, nil
}

// NewArena maps size bytes (rounded up to pages) with a PROT_NONE guard page
// in front and behind. If addr != 0 the usable area is placed exactly at addr
// (MAP_FIXED_NOREPLACE; fails rather than clobbering). low32 asks for an
// address below 4 GiB.
func NewArena(addr uintptr, size int, low32 bool) (*Arena, error) {
	sz := (uintptr(size) + PageSize - 1) &^ (PageSize - 1)
	total := sz + 2*PageSize
	flags := syscall.MAP_PRIVATE | syscall.MAP_ANON
	var hint uintptr
	if addr != 0 {
		hint = addr - PageSize
		flags |= mapFixedNoReplace
	} else if low32 {
		flags |= map32Bit
	}
	p, err := mmap(hint, total, syscall.PROT_NONE, flags)
	if err != nil {
		return nil, fmt.Errorf("mmap(%#x,%d): %v", hint, total, err)
	}
	if addr != 0 && p != hint {
		syscall.Syscall(syscall.SYS_MUNMAP, p, total, 0)
		return nil, fmt.Errorf("mmap: wanted %#x got %#x", hint, p)
	}
	if _, _, e := syscall.Syscall(syscall.SYS_MPROTECT, p+PageSize, sz, syscall.PROT_READ|syscall.PROT_WRITE); e != 0 {
		syscall.Syscall(syscall.SYS_MUNMAP, p, total, 0)
		return nil, fmt.Errorf("mprotect: %v", e)
	}
	return &Arena{Base: p + PageSize, Size: int(sz), total: total, start: p}, nil
}

func MustArena(addr uintptr, size int, low32 bool) *Arena {
	a, err := NewArena(addr, size, low32)
	if err != nil {
		panic(err)
	}
	return a
}

func (a *Arena) Free() {
	if a.start != 0 {
		syscall.Syscall(syscall.SYS_MUNMAP, a.start, a.total, 0)
		a.start = 0
	}
}

// Bytes returns the usable area as a slice.
func (a *Arena) Bytes() []byte { return BytesAt(a.Base, a.Size) }

// End is the address of the trailing guard page.
func (a *Arena) End() uintptr { return a.Base + uintptr(a.Size) }

// Contains reports whether [p, p+n) lies inside the usable area.
func (a *Arena) Contains(p uintptr, n uintptr) bool {
	return p >= a.Base && p+n >= p && p+n <= a.End()
}

// PlaceTail copies data so that its last byte is the last byte before the
// trailing guard page and returns the address of its first byte.
func (a *Arena) PlaceTail(data []byte) uintptr {
	if len(data) > a.Size {
		panic("PlaceTail: data larger than arena")
	}
	p := a.End() - uintptr(len(data))
	copy(BytesAt(p, len(data)), data)
	return p
}

// PlaceTailAligned is PlaceTail with the start address rounded down to align
// (the gap to the guard page is then < align bytes and is filled with fill).
func (a *Arena) PlaceTailAligned(data []byte, align uintptr, fill byte) uintptr {
	p := (a.End() - uintptr(len(data))) &^ (align - 1)
	if p < a.Base {
		panic("PlaceTailAligned: data larger than arena")
	}
	b := BytesAt(p, int(a.End()-p))
	for i := range b {
		b[i] = fill
	}
	copy(b, data)
	return p
}

// PlaceHead copies data to the first byte after the leading guard page.
func (a *Arena) PlaceHead(data []byte) uintptr {
	copy(a.Bytes(), data)
	return a.Base
}

func (a *Arena) Fill(b byte) {
	s := a.Bytes()
	for i := range s {
		s[i] = b
	}
}

// BytesAt builds a slice over raw memory.
func BytesAt(p uintptr, n int) []byte {
	var s []byte
	h := (*reflect.SliceHeader)(unsafe.Pointer(&s))
	h.Data = p
	h.Len = n
	h.Cap = n
	return s
}

// AddrOf returns the address of the first element of b (0 for empty).
func AddrOf(b []byte) uintptr {
	if cap(b) == 0 {
		return 0
	}
	return (*reflect.SliceHeader)(unsafe.Pointer(&b)).Data
}
