//go:build verif && race
// +build verif,race

package sync

import (
	"runtime"
	"unsafe"
)

// verifRaceAcquire tells the race detector that whatever was released on the
// lock word happens-before the caller. It is called (deferred) from the
// instrumented build copy of (*Spinlock).Acquire, whose real synchronisation
// (XCHG in assembly) is invisible to the detector.
func verifRaceAcquire(p *uint32) { runtime.RaceAcquire(unsafe.Pointer(p)) }

const verifRaceEnabled = true
