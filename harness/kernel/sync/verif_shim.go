//go:build verif
// +build verif

package sync

// VerifSetYieldFn lets harnesses in other packages (pmm, C09) install a yield
// function so that a goroutine spinning in the assembly loop can be descheduled.
func VerifSetYieldFn(f func()) (old func()) {
	old = yieldFn
	yieldFn = f
	return old
}

// VerifState reads the lock word (statistics only).
func (l *Spinlock) VerifState() *uint32 { return &l.state }

// VerifRaceEnabled reports whether this is the -race build.
const VerifRaceEnabled = verifRaceEnabled
