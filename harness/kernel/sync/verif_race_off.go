//go:build verif && !race
// +build verif,!race

package sync

func verifRaceAcquire(p *uint32) {}

const verifRaceEnabled = false
