//go:build verif
// +build verif

package sync

import (
	"fmt"
	"runtime"
	gosync "sync"
	"sync/atomic"
	"testing"
	"time"
	"unsafe"

	"github.com/ProjectSerenity/firefly/kernel/zzverif/vlib"
)

// C08 — spinlock mutual exclusion, honest try-acquire, visibility.
//
// Three monitors run on every history:
//  (1) online invariants maintained *inside* the critical section by harness
//      code: an atomic holder count (must be 1), a plain protected counter and
//      a plain 4-word record written as a unit by each holder and read back by
//      the next one (visibility);
//  (2) the client-boundary history of every Acquire / TryToAcquire / Release
//      (stamps from one atomic logical clock), checked offline by vcheck with
//      porcupine against the sequential {free,held} model;
//  (3) in the -race build (instrumented build copy of Acquire) the race
//      detector watches the plain protected data.

const (
	c08OpAcquire = 0
	c08OpTryOK   = 1
	c08OpTryFail = 2
	c08OpRelease = 3
)

type c08Lock struct {
	l Spinlock
	// the word right behind the lock word: the lock must work whatever its neighbours hold
	// (a counter, another lock that is held, ...); half of the locks get a non-zero neighbour
	after uint32
	_     [56]byte
	holders int32
	_       [60]byte
	// everything below is protected by l and accessed with PLAIN loads/stores
	counter    uint64
	rec        [4]uint64
	lastHolder int
	order      vlib.FP // running fingerprint of the holder sequence (interleaving signature)
	handoffs   map[[2]int]struct{}
}

type c08Op struct {
	client, lock, kind int
	call, ret         int64
}

func c08RecFor(seq uint64) [4]uint64 {
	return [4]uint64{seq, seq * 0x9E3779B97F4A7C15, seq ^ 0xA5A5A5A5A5A5A5A5, ^seq}
}

type c08Hist struct {
	clock int64
	locks []*c08Lock
	bad   int32
	msg   atomic.Value
}

func (h *c08Hist) fail(sig, format string, a ...interface{}) {
	if atomic.AddInt32(&h.bad, 1) == 1 {
		h.msg.Store([2]string{sig, fmt.Sprintf(format, a...)})
	}
}

// critical runs the monitored critical section; the caller holds lk.l.
func (h *c08Hist) critical(me int, lk *c08Lock, spin int, yield bool) {
	if n := atomic.AddInt32(&lk.holders, 1); n != 1 {
		h.fail("two-holders", "goroutine %d entered the critical section while %d other holder(s) were inside", me, n-1)
	}
	seq := lk.counter
	if lk.rec != c08RecFor(seq) {
		h.fail("stale-or-torn-record", "holder %d read record %x for counter %d (previous holder %d): work of the previous holder not visible as a unit", me, lk.rec, seq, lk.lastHolder)
	}
	for i := 0; i < spin; i++ {
		if yield && i == spin/2 {
			runtime.Gosched()
		}
	}
	lk.counter = seq + 1
	lk.rec = c08RecFor(seq + 1)
	if lk.lastHolder != me {
		lk.handoffs[[2]int{lk.lastHolder, me}] = struct{}{}
	}
	lk.lastHolder = me
	lk.order = lk.order.Int(me)
	if n := atomic.AddInt32(&lk.holders, -1); n != 0 {
		h.fail("two-holders", "goroutine %d left the critical section with holder count %d", me, n)
	}
}

func TestVerifC08(t *testing.T) {
	run := vlib.Start(t, "C08")
	run.SetCaseTimeout(0) // stress rounds and contended histories take seconds; the lock watchdogs below bound them
	defer run.Finish()
	defer func(f func()) { yieldFn = f }(yieldFn)
	yieldFn = runtime.Gosched
	prev := runtime.GOMAXPROCS(16)
	defer runtime.GOMAXPROCS(prev)

	run.SetRule("case = one short history: 2-16 goroutines truly in parallel (GOMAXPROCS=16) x 1-4 locks, per-goroutine op lists (Acquire / TryToAcquire, each followed by a monitored critical section and Release) fixed by the seed; non-trivial = history in which a try-acquire failed or an acquire found the lock held (contention actually happened); distinct = fingerprint of the observed holder order of every lock (interleaving signature)")
	run.Assume("yieldFn = runtime.Gosched (the kernel has no scheduler yet); schedules are whatever 16 cores produce, not enumerated")
	if verifRaceEnabled {
		run.Note("race build: (*Spinlock).Acquire is an instrumented build copy carrying runtime.RaceAcquire")
	}

	c08Sequential(run)
	c08Placed(run)
	c08Stress(run)

	nh := run.N(250, 12000)
	if verifRaceEnabled {
		nh = run.N(60, 2000)
	}
	run.Cases(nh, func(c *vlib.Case) {
		r := c.R
		ng := r.Range(2, 16)
		nl := r.Range(1, 4)
		if r.Chance(1, 3) {
			nl = 1
		}
		total := r.Range(60, 560)
		per := total / ng
		if per < 2 {
			per = 2
		}
		mix := r.Intn(4) // 0 acquire-only, 1 try-only, 2 mixed, 3 one long holder + triers
		maxSpin := r.PickInt([]int{0, 0, 10, 50, 200, 1000})
		c.Begin(map[string]interface{}{"goroutines": ng, "locks": nl, "ops_per_goroutine": per, "mix": mix, "max_spin": maxSpin})

		h := &c08Hist{}
		for i := 0; i < nl; i++ {
			lk := &c08Lock{rec: c08RecFor(0), lastHolder: -1, order: vlib.NewFP(), handoffs: map[[2]int]struct{}{}}
			if r.Bool() {
				lk.after = 0xdeadbeef
				run.Count("locks_with_nonzero_neighbour_word", 1)
			}
			h.locks = append(h.locks, lk)
		}
		type plan struct {
			lock  []int
			try   []bool
			spin  []int
			yield []bool
		}
		plans := make([]plan, ng)
		for g := 0; g < ng; g++ {
			pr := r.Fork(uint64(g))
			p := plan{}
			for k := 0; k < per; k++ {
				p.lock = append(p.lock, pr.Intn(nl))
				var try bool
				switch mix {
				case 0:
					try = false
				case 1:
					try = true
				case 2:
					try = pr.Bool()
				default:
					try = g != 0
				}
				p.try = append(p.try, try)
				sp := 0
				if maxSpin > 0 {
					sp = pr.Intn(maxSpin + 1)
				}
				if mix == 3 && g == 0 {
					sp = 2000 + pr.Intn(4000)
				}
				p.spin = append(p.spin, sp)
				p.yield = append(p.yield, pr.Chance(1, 8))
			}
			plans[g] = p
		}
		logs := make([][]c08Op, ng)
		var contended, tryFail, tryOK, acq int64
		var wg gosync.WaitGroup
		var start gosync.WaitGroup
		start.Add(1)
		wg.Add(ng)
		done := make(chan struct{})
		for g := 0; g < ng; g++ {
			go func(g int) {
				defer wg.Done()
				p := plans[g]
				log := make([]c08Op, 0, 2*per)
				start.Wait()
				for k := 0; k < per; k++ {
					lk := h.locks[p.lock[k]]
					if p.try[k] {
						t0 := atomic.AddInt64(&h.clock, 1)
						ok := lk.l.TryToAcquire()
						t1 := atomic.AddInt64(&h.clock, 1)
						if !ok {
							log = append(log, c08Op{g, p.lock[k], c08OpTryFail, t0, t1})
							atomic.AddInt64(&tryFail, 1)
							if p.yield[k] {
								runtime.Gosched()
							}
							continue
						}
						log = append(log, c08Op{g, p.lock[k], c08OpTryOK, t0, t1})
						atomic.AddInt64(&tryOK, 1)
					} else {
						if atomic.LoadUint32(&lk.l.state) != 0 { // statistics only
							atomic.AddInt64(&contended, 1)
						}
						t0 := atomic.AddInt64(&h.clock, 1)
						lk.l.Acquire()
						t1 := atomic.AddInt64(&h.clock, 1)
						log = append(log, c08Op{g, p.lock[k], c08OpAcquire, t0, t1})
						atomic.AddInt64(&acq, 1)
					}
					h.critical(g, lk, p.spin[k], p.yield[k])
					t0 := atomic.AddInt64(&h.clock, 1)
					lk.l.Release()
					t1 := atomic.AddInt64(&h.clock, 1)
					log = append(log, c08Op{g, p.lock[k], c08OpRelease, t0, t1})
				}
				logs[g] = log
			}(g)
		}
		go func() { wg.Wait(); close(done) }()
		start.Done()
		select {
		case <-done:
		case <-time.After(c08Budget(run)):
			// Non-termination is part of the property ("after a release the lock can be
			// taken again"), but a wall-clock watchdog alone is not a verdict: vcheck
			// re-runs this case alone with a 10x budget and reports a timeout only if
			// it repeats there.
			run.Watchdog("history did not finish: some Acquire never returned")
		}

		// quiescent checks
		sumOps := int64(0)
		for li, lk := range h.locks {
			if lk.l.state != 0 {
				c.Violationf("lock-not-free-at-quiescence", "lock %d word is %d after every holder released", li, lk.l.state)
			}
			if lk.after != 0 && lk.after != 0xdeadbeef {
				c.Violationf("neighbour-word-modified", "the word behind lock %d changed to %#x", li, lk.after)
			}
			sumOps += int64(lk.counter)
			if atomic.LoadInt32(&lk.holders) != 0 {
				c.Violationf("two-holders", "holder count of lock %d is %d at quiescence", li, lk.holders)
			}
			for p := range lk.handoffs {
				run.SetAdd("handoff_pairs", fmt.Sprintf("%d>%d", p[0], p[1]))
			}
		}
		if sumOps != acq+tryOK {
			c.Violationf("lost-update", "protected counters sum to %d but %d acquisitions succeeded: an update made inside the lock was lost", sumOps, acq+tryOK)
		}
		if atomic.LoadInt32(&h.bad) != 0 {
			m := h.msg.Load().([2]string)
			c.Violation(m[0], m[1])
		}
		run.Count("acquire_ok", acq)
		run.Count("try_ok", tryOK)
		run.Count("try_failed", tryFail)
		run.Count("acquire_found_lock_held", contended)
		run.Count("critical_sections_checked", acq+tryOK)
		run.Count("histories", 1)
		run.Max("goroutines", int64(ng))

		// emit the history for the offline linearizability check
		var ops [][]int64
		for _, lg := range logs {
			for _, o := range lg {
				ops = append(ops, []int64{int64(o.client), int64(o.lock), int64(o.kind), o.call, o.ret})
			}
		}
		run.Count("history_ops", int64(len(ops)))
		run.Emit(map[string]interface{}{"ev": "hist", "kind": "lock", "idx": c.Idx, "locks": nl, "ops": ops})

		if tryFail > 0 || contended > 0 {
			fp := vlib.NewFP().Int(ng).Int(nl)
			for _, lk := range h.locks {
				fp = fp.U64(uint64(lk.order))
			}
			run.Nontrivial(fp)
		}
		if run.WantSample() && tryFail > 0 {
			first := ops
			if len(first) > 12 {
				first = first[:12]
			}
			run.Sample(map[string]interface{}{"goroutines": ng, "locks": nl, "mix": mix, "acquire_ok": acq, "try_ok": tryOK, "try_failed": tryFail,
				"first_ops_[client,lock,kind(0=Acquire,1=Try->true,2=Try->false,3=Release),call,return]": first})
		}
	})
}

func c08Budget(run *vlib.Run) time.Duration {
	if run.Single() {
		return 120 * time.Second
	}
	return 30 * time.Second
}

// c08Stress runs long, unrecorded high-contention rounds watched by the in-critical-section
// monitors only (no history: the offline checker wants short histories, the invariants want
// many hand-overs with the shortest possible critical sections).
func c08Stress(run *vlib.Run) {
	rounds := run.N(10, 120)
	per := 12000
	if verifRaceEnabled {
		rounds, per = run.N(3, 20), 4000
	}
	for k := 0; k < rounds; k++ {
		k := k
		run.OneCase(vlib.FixedBase+100+k, func(c *vlib.Case) {
			r := c.R
			ng := r.PickInt([]int{3, 4, 8, 16, 16})
			nl := r.PickInt([]int{1, 1, 2})
			tryEvery := r.PickInt([]int{0, 3, 7}) // 0: blocking acquires only
			c.Begin(map[string]interface{}{"stress_round": k, "goroutines": ng, "locks": nl, "acquisitions_per_goroutine": per, "try_every": tryEvery})
			h := &c08Hist{}
			for i := 0; i < nl; i++ {
				lk := &c08Lock{rec: c08RecFor(0), lastHolder: -1, order: vlib.NewFP(), handoffs: map[[2]int]struct{}{}}
				if r.Bool() {
					lk.after = 0xffffffff
				}
				h.locks = append(h.locks, lk)
			}
			var wg gosync.WaitGroup
			var start gosync.WaitGroup
			start.Add(1)
			wg.Add(ng)
			var total, tryFail int64
			for g := 0; g < ng; g++ {
				go func(g int) {
					defer wg.Done()
					start.Wait()
					var ok, fail int64
					for i := 0; i < per; i++ {
						lk := h.locks[(g+i)%nl]
						if tryEvery != 0 && i%tryEvery == 0 {
							if !lk.l.TryToAcquire() {
								fail++
								continue
							}
						} else {
							lk.l.Acquire()
						}
						h.critical(g, lk, 0, false)
						lk.l.Release()
						ok++
					}
					atomic.AddInt64(&total, ok)
					atomic.AddInt64(&tryFail, fail)
				}(g)
			}
			done := make(chan struct{})
			go func() { wg.Wait(); close(done) }()
			start.Done()
			select {
			case <-done:
			case <-time.After(c08Budget(run)):
				run.Watchdog("stress round did not finish: some Acquire never returned")
			}
			sum := int64(0)
			for _, lk := range h.locks {
				sum += int64(lk.counter)
			}
			if sum != total {
				c.Violationf("lost-update", "protected counters sum to %d but %d acquisitions succeeded", sum, total)
			}
			if atomic.LoadInt32(&h.bad) != 0 {
				m := h.msg.Load().([2]string)
				c.Violation(m[0], m[1])
			}
			run.Count("stress_critical_sections_checked", total)
			run.Count("stress_try_failed", tryFail)
			run.Count("critical_sections_checked", total)
			fp := vlib.NewFP().Int(ng).Int(nl)
			for _, lk := range h.locks {
				fp = fp.U64(uint64(lk.order))
			}
			run.Nontrivial(fp)
		})
	}
}

// c08Placed repeats the deterministic facts and a short contended round on locks at chosen addresses: the lock is
// one word of memory and nothing about its behaviour may depend on where that word lies (the start of a 4 GiB
// aligned region, the last word before an inaccessible page, a page start, an odd word of a page).
func c08Placed(run *vlib.Run) {
	run.OneCase(vlib.FixedBase+2, func(c *vlib.Case) {
		c.Begin("locks placed at chosen addresses")
		var arenas []*vlib.Arena
		defer func() {
			for _, a := range arenas {
				a.Free()
			}
		}()
		var locks []*Spinlock
		var where []string
		for _, base := range []uintptr{0x10 << 32, 0x7e << 32, 0x123 << 32} {
			a, err := vlib.NewArena(base, 8192, false)
			if err != nil {
				continue // the address is taken in this process: another one will do
			}
			arenas = append(arenas, a)
			a.Fill(0)
			for _, off := range []uintptr{0, 4, 4096, 4096 + 60, 8192 - 4} {
				locks = append(locks, (*Spinlock)(unsafe.Pointer(a.Base+off)))
				where = append(where, fmt.Sprintf("%#x", a.Base+off))
			}
		}
		if len(locks) == 0 {
			run.Count("placed_locks_no_address_available", 1)
			return
		}
		for i, l := range locks {
			if !l.TryToAcquire() {
				c.Violationf("try-on-free-false", "lock at %s: TryToAcquire on a free lock returned false", where[i])
				return
			}
			if l.TryToAcquire() {
				c.Violationf("try-on-held-true", "lock at %s: TryToAcquire on a held lock returned true", where[i])
				return
			}
			l.Release()
			done := make(chan struct{})
			go func() { l.Acquire(); close(done) }()
			select {
			case <-done:
			case <-time.After(c08Budget(run)):
				run.Watchdog("Acquire of a free lock did not return")
			}
			if l.TryToAcquire() {
				c.Violationf("try-on-held-true", "lock at %s: TryToAcquire returned true although Acquire holds the lock", where[i])
				return
			}
			l.Release()
			// four parties, a plain counter: every increment must survive
			var counter, inside int64
			var overlap int64
			var wg gosync.WaitGroup
			for w := 0; w < 4; w++ {
				wg.Add(1)
				go func() {
					defer wg.Done()
					for k := 0; k < 5000; k++ {
						l.Acquire()
						if atomic.AddInt64(&inside, 1) != 1 {
							atomic.AddInt64(&overlap, 1)
						}
						counter++
						atomic.AddInt64(&inside, -1)
						l.Release()
					}
				}()
			}
			wg.Wait()
			if overlap != 0 || counter != 20000 {
				c.Violationf("two-holders", "lock at %s: %d critical sections overlapped, counter %d after 20000 increments", where[i], overlap, counter)
				return
			}
			run.Count("placed_locks_checked", 1)
		}
	})
}

// c08Sequential checks the deterministic facts on a quiescent lock.
func c08Sequential(run *vlib.Run) {
	run.OneCase(vlib.FixedBase+1, func(c *vlib.Case) {
		c.Begin("sequential facts on a quiescent lock")
		for i := 0; i < 1000; i++ {
			var l Spinlock
			if !l.TryToAcquire() {
				c.Violationf("try-on-free-false", "TryToAcquire on a free lock returned false")
				return
			}
			if l.TryToAcquire() {
				c.Violationf("try-on-held-true", "TryToAcquire on a held lock returned true")
				return
			}
			if l.TryToAcquire() {
				c.Violationf("try-on-held-true", "second TryToAcquire on a held lock returned true (failed try had a side effect)")
				return
			}
			l.Release()
			if !l.TryToAcquire() {
				c.Violationf("try-after-release-false", "TryToAcquire after Release returned false")
				return
			}
			l.Release()
			l.Release() // releasing a free lock has no effect
			done := make(chan struct{})
			go func() { l.Acquire(); close(done) }()
			select {
			case <-done:
			case <-time.After(c08Budget(run)):
				run.Watchdog("Acquire of a free lock did not return")
			}
			if l.TryToAcquire() {
				c.Violationf("try-on-held-true", "TryToAcquire returned true although Acquire holds the lock")
				return
			}
			l.Release()
			// two locks side by side: while the second is held, a contended acquire of the
			// first must still get through once the first is released
			var pair [2]Spinlock
			pair[1].Acquire()
			pair[0].Acquire()
			got := make(chan struct{})
			go func() { pair[0].Acquire(); close(got) }()
			for k := 0; k < 200; k++ {
				runtime.Gosched()
			}
			pair[0].Release()
			select {
			case <-got:
			case <-time.After(c08Budget(run)):
				run.Watchdog("Acquire of a released lock did not return while the adjacent lock was held")
			}
			pair[0].Release()
			pair[1].Release()
			run.Count("sequential_fact_rounds", 1)
		}
	})
}

// TestVerifC08Calib is the calibration of the race annotation: two goroutines
// take the lock strictly one after the other (ordered by nothing but the lock
// itself: the second spins in Acquire until the first releases) and both write
// a plain variable. With an effective annotation the detector stays silent.
func TestVerifC08Calib(t *testing.T) {
	run := vlib.Start(t, "C08")
	run.SetCaseTimeout(0) // stress rounds and contended histories take seconds; the lock watchdogs below bound them
	defer run.Finish()
	defer func(f func()) { yieldFn = f }(yieldFn)
	yieldFn = runtime.Gosched
	run.Cases(20, func(c *vlib.Case) {
		c.Begin("calibration")
		var l Spinlock
		var shared int
		var entered int32
		l.Acquire()
		done := make(chan struct{})
		go func() {
			atomic.StoreInt32(&entered, 1)
			l.Acquire()
			shared++
			l.Release()
			close(done)
		}()
		for atomic.LoadInt32(&entered) == 0 {
			runtime.Gosched()
		}
		for i := 0; i < 1000; i++ {
			runtime.Gosched()
		}
		shared++
		l.Release()
		<-done
		l.Acquire()
		if shared != 2 {
			c.Violationf("calibration-lost-update", "shared=%d", shared)
		}
		l.Release()
		run.Nontrivial(vlib.NewFP().Int(c.Idx))
	})
}
