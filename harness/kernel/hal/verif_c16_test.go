//go:build verif
// +build verif

package hal

import (
	"bytes"
	"fmt"
	"image/color"
	"io"
	"runtime"
	"testing"
	"unsafe"

	"github.com/ProjectSerenity/firefly/kernel"
	"github.com/ProjectSerenity/firefly/kernel/device"
	"github.com/ProjectSerenity/firefly/kernel/device/tty"
	"github.com/ProjectSerenity/firefly/kernel/device/video/console"
	"github.com/ProjectSerenity/firefly/kernel/device/video/console/font"
	"github.com/ProjectSerenity/firefly/kernel/device/video/console/logo"
	"github.com/ProjectSerenity/firefly/kernel/kfmt"
	"github.com/ProjectSerenity/firefly/kernel/multiboot"
	"github.com/ProjectSerenity/firefly/kernel/zzverif/vlib"
)

// C16 — device bring-up: ordered probing, first console/TTY win, no boot log lost.
//
// The real hal.DetectHardware runs over mock drivers registered through the real
// device.RegisterDriver. Every mock callback (Probe, DriverInit, AttachTo,
// SetState, terminal Write) is an observation point. The harness keeps `act`,
// the complete log as it was really written: bytes the harness logged itself are
// known exactly (and checked the moment they are logged); bytes hal logs are read
// back *fresh* from the sink they went to (early ring: the last delta bytes,
// delta = movement of the ring's write index since the previous observation;
// terminal: what the recording terminal was given). At the end
//
//	terminal stream == last 2047 bytes of act[:handover] ++ act[handover:]
//
// is demanded, where handover is the moment the terminal was attached.

const (
	c16RingCap = 2047 // capacity named by the property
	c16RingMod = 2048 // size of the early buffer (2 KiB)

	c16KindPlain = 0
	c16KindCon   = 1
	c16KindTTY   = 2
)

// ---------------------------------------------------------------------------
// reference console: records what is drawn

type c16Cell struct{ ch, fg, bg, st uint8 } // st: 0 never drawn, 1 defined, 2 vacated by a scroll

type c16Console struct {
	d      *c16Drv
	env    *c16Env
	w, h   uint32
	fg, bg uint8
	cells  []c16Cell
	draws  int
}

func (k *c16Console) Dimensions(dim console.Dimension) (uint32, uint32) {
	if dim == console.Characters {
		return k.w, k.h
	}
	return k.w * 8, k.h * 16
}
func (k *c16Console) DefaultColors() (uint8, uint8) { return k.fg, k.bg }
func (k *c16Console) Fill(x, y, width, height uint32, fg, bg uint8) {
	k.draws++
	W, H := uint64(k.w), uint64(k.h)
	X, Y := uint64(x), uint64(y)
	if X < 1 {
		X = 1
	}
	if X > W {
		X = W
	}
	if Y < 1 {
		Y = 1
	}
	if Y > H {
		Y = H
	}
	x2, y2 := X+uint64(width), Y+uint64(height)
	if x2 > W+1 {
		x2 = W + 1
	}
	if y2 > H+1 {
		y2 = H + 1
	}
	for yy := Y; yy < y2; yy++ {
		for xx := X; xx < x2; xx++ {
			k.cells[(yy-1)*W+(xx-1)] = c16Cell{' ', fg, bg, 1}
		}
	}
}
func (k *c16Console) Scroll(dir console.ScrollDir, lines uint32) {
	k.draws++
	if lines == 0 || lines > k.h {
		return
	}
	W, H, n := int(k.w), int(k.h), int(lines)
	if dir == console.ScrollDirUp {
		copy(k.cells, k.cells[n*W:])
		for i := (H - n) * W; i < H*W; i++ {
			k.cells[i] = c16Cell{st: 2}
		}
	} else {
		copy(k.cells[n*W:], k.cells[:(H-n)*W])
		for i := 0; i < n*W; i++ {
			k.cells[i] = c16Cell{st: 2}
		}
	}
}
func (k *c16Console) Write(ch byte, fg, bg uint8, x, y uint32) {
	k.draws++
	if x < 1 || x > k.w || y < 1 || y > k.h {
		return
	}
	k.cells[(y-1)*k.w+(x-1)] = c16Cell{ch, fg, bg, 1}
}
func (k *c16Console) Palette() color.Palette               { return nil }
func (k *c16Console) SetPaletteColor(uint8, color.RGBA)    {}
func (k *c16Console) DriverName() string                   { return k.d.name }
func (k *c16Console) DriverVersion() (a, b, c uint16)      { return k.d.ver[0], k.d.ver[1], k.d.ver[2] }
func (k *c16Console) DriverInit(w io.Writer) *kernel.Error { return k.env.onInit(k.d, w) }

// Consoles that can additionally take a font and/or a boot logo, as the
// shipped framebuffer console can: the hardware abstraction layer consults the
// boot command line for them before it links the terminal.
type c16FontCon struct {
	*c16Console
	fonts []*font.Font
}
type c16LogoCon struct {
	*c16Console
	logos []*logo.Image
}
type c16FontLogoCon struct {
	*c16Console
	fonts []*font.Font
	logos []*logo.Image
}

func (k *c16FontCon) SetFont(f *font.Font)      { k.fonts = append(k.fonts, f) }
func (k *c16LogoCon) SetLogo(l *logo.Image)     { k.logos = append(k.logos, l) }
func (k *c16FontLogoCon) SetFont(f *font.Font)  { k.fonts = append(k.fonts, f) }
func (k *c16FontLogoCon) SetLogo(l *logo.Image) { k.logos = append(k.logos, l) }

// c16BootInfo builds a multiboot information block that carries only a
// command line tag (type 1) and the end tag.
func c16BootInfo(cmd string) []uint64 {
	var b []byte
	put32 := func(v uint32) { b = append(b, byte(v), byte(v>>8), byte(v>>16), byte(v>>24)) }
	put32(0)
	put32(0)
	put32(1)
	put32(uint32(8 + len(cmd) + 1))
	b = append(b, cmd...)
	b = append(b, 0)
	for len(b)%8 != 0 {
		b = append(b, 0)
	}
	put32(0)
	put32(8)
	b[0], b[1], b[2], b[3] = byte(len(b)), byte(len(b)>>8), 0, 0
	out := make([]uint64, len(b)/8)
	for i := range b {
		out[i/8] |= uint64(b[i]) << (8 * uint(i%8))
	}
	return out
}

// ---------------------------------------------------------------------------
// recording terminal: the real tty.VT plus a log of everything it is given

type c16TTY struct {
	*tty.VT
	d      *c16Drv
	env    *c16Env
	recv   []byte
	attach []console.Device
	states []tty.State
}

func (t *c16TTY) Write(p []byte) (int, error) {
	t.recv = append(t.recv, p...)
	t.env.termLog = append(t.env.termLog, p...)
	return t.VT.Write(p)
}
func (t *c16TTY) WriteByte(b byte) error {
	t.recv = append(t.recv, b)
	t.env.termLog = append(t.env.termLog, b)
	return t.VT.WriteByte(b)
}
func (t *c16TTY) AttachTo(c console.Device) {
	t.env.onAttach(t, c)
	t.VT.AttachTo(c)
}
func (t *c16TTY) SetState(s tty.State) {
	t.env.syncHal()
	t.states = append(t.states, s)
	t.VT.SetState(s)
}
func (t *c16TTY) DriverName() string                   { return t.d.name }
func (t *c16TTY) DriverVersion() (a, b, c uint16)      { return t.d.ver[0], t.d.ver[1], t.d.ver[2] }
func (t *c16TTY) DriverInit(w io.Writer) *kernel.Error { return t.env.onInit(t.d, w) }

type c16Plain struct {
	d   *c16Drv
	env *c16Env
}

func (p *c16Plain) DriverName() string                   { return p.d.name }
func (p *c16Plain) DriverVersion() (a, b, c uint16)      { return p.d.ver[0], p.d.ver[1], p.d.ver[2] }
func (p *c16Plain) DriverInit(w io.Writer) *kernel.Error { return p.env.onInit(p.d, w) }

// ---------------------------------------------------------------------------
// reference terminal, from the wording of C17 (visible viewport only)

type c16RefTerm struct {
	w, h   int
	tab    int
	fg, bg uint8
	cells  []c16Cell
	cx, cy int
}

func c16NewRefTerm(w, h, tab int, fg, bg uint8) *c16RefTerm {
	t := &c16RefTerm{w: w, h: h, tab: tab, fg: fg, bg: bg, cells: make([]c16Cell, w*h)}
	for i := range t.cells {
		t.cells[i] = c16Cell{' ', fg, bg, 1}
	}
	return t
}
func (t *c16RefTerm) newline() {
	t.cx = 0
	if t.cy+1 < t.h {
		t.cy++
		return
	}
	copy(t.cells, t.cells[t.w:])
	for i := (t.h - 1) * t.w; i < t.h*t.w; i++ {
		t.cells[i] = c16Cell{' ', t.fg, t.bg, 1}
	}
}
func (t *c16RefTerm) put(ch byte) {
	t.cells[t.cy*t.w+t.cx] = c16Cell{ch, t.fg, t.bg, 1}
	t.cx++
	if t.cx >= t.w {
		t.newline()
	}
}
func (t *c16RefTerm) feed(p []byte) {
	for _, b := range p {
		switch b {
		case '\r':
			t.cx = 0
		case '\n':
			t.newline()
		case '\b':
			if t.cx > 0 {
				t.cx--
				t.cells[t.cy*t.w+t.cx] = c16Cell{' ', t.fg, t.bg, 1}
			}
		case '\t':
			for i := 0; i < t.tab; i++ {
				t.put(' ')
			}
		default:
			t.put(b)
		}
	}
}

// ---------------------------------------------------------------------------
// case description

type c16Op struct {
	method int // 0 Printf(text) 1 Printf("%s",string) 2 Fprintf(sink,"%s",[]byte) 3 sink.Write 4 w.Write 5 Fprintf(w,"%s",string)
	tok    bool
	filler []byte
}

type c16Drv struct {
	id       int
	kind     int
	order    int8
	probeNil bool
	initFail bool
	name     string
	errMsg   string
	ver      [3]uint16
	probeOps []c16Op
	initOps  []c16Op
	// console / terminal geometry
	cw, ch     uint32
	fg, bg     uint8
	caps       int  // consoles: bit 0 takes a font, bit 1 takes a logo
	preActive  bool // terminals: the driver switches itself to the active state in its own DriverInit
	tab        uint8
	scrollback uint32

	// observations
	probed, inited int
	obj            device.Driver
	con            *c16Console
	tty            *c16TTY
	initEnter      int // len(act) when DriverInit was entered
	initExit       int // len(act) when DriverInit returned
	initOK         bool
}

type c16Tok struct {
	id  int
	pos int // offset of the token's first byte in act
}

type c16Env struct {
	c   *vlib.Case
	run *vlib.Run

	drivers  []*c16Drv
	probeSeq []*c16Drv
	okSeq    []*c16Drv // successful DriverInit returns, in observed order

	act     []byte   // the complete log as really written
	halSegs [][2]int // ranges of act written by hal (read back fresh)
	lastW   int
	termLog []byte
	lastT   int

	handed       bool
	handTTY      *c16TTY
	handPos      int
	handSnap     []byte
	pendingDrain int
	attaches     int

	tokens  []c16Tok
	nextTok int

	padTarget int
}

const c16TokLen = 8 // "<k00000>"

func c16Token(id int) []byte { return []byte(fmt.Sprintf("<k%05d>", id)) }

// c16ScanTokens returns (id, position) of every token occurrence in b.
func c16ScanTokens(b []byte) [][2]int {
	var out [][2]int
	for i := 0; i+c16TokLen <= len(b); i++ {
		if b[i] != '<' || b[i+1] != 'k' || b[i+7] != '>' {
			continue
		}
		id, ok := 0, true
		for j := 2; j < 7; j++ {
			if b[i+j] < '0' || b[i+j] > '9' {
				ok = false
				break
			}
			id = id*10 + int(b[i+j]-'0')
		}
		if ok {
			out = append(out, [2]int{id, i})
		}
	}
	return out
}

func c16Suffix(b []byte, n int) []byte {
	if len(b) > n {
		return b[len(b)-n:]
	}
	return b
}

func c16FirstDiff(a, b []byte) int {
	n := len(a)
	if len(b) < n {
		n = len(b)
	}
	for i := 0; i < n; i++ {
		if a[i] != b[i] {
			return i
		}
	}
	if len(a) != len(b) {
		return n
	}
	return -1
}

func c16Around(b []byte, at int) string {
	lo, hi := at-24, at+24
	if lo < 0 {
		lo = 0
	}
	if hi > len(b) {
		hi = len(b)
	}
	if lo > hi {
		lo = hi
	}
	return fmt.Sprintf("%q", b[lo:hi])
}

// measure reads what was appended to the two possible destinations of log
// output since the previous observation.
func (e *c16Env) measure() (dr, dt []byte) {
	snap, _, w := kfmt.VerifC16EarlySnapshot()
	d := (w - e.lastW) & (c16RingMod - 1)
	e.lastW = w
	if d > 0 {
		if d > len(snap) {
			e.c.Violationf("ring-lost-fresh-bytes", "the early ring's write index advanced by %d since the previous observation but it holds only %d bytes", d, len(snap))
			dr = make([]byte, d)
			copy(dr[d-len(snap):], snap)
		} else {
			dr = append([]byte(nil), snap[len(snap)-d:]...)
		}
	}
	dt = e.termLog[e.lastT:]
	e.lastT = len(e.termLog)
	if e.pendingDrain > 0 && len(dt) > 0 {
		k := e.pendingDrain
		if k > len(dt) {
			k = len(dt)
		}
		dt = dt[k:]
		e.pendingDrain -= k
	}
	return dr, dt
}

// syncHal attributes everything that appeared since the last observation to hal.
func (e *c16Env) syncHal() {
	dr, dt := e.measure()
	if len(dr) > 0 {
		if e.handed {
			e.c.Violationf("logged-to-early-ring-after-handover", "%d bytes went into the early ring after the terminal took over (they are never shown): %s", len(dr), c16Around(dr, 0))
		}
		e.halSegs = append(e.halSegs, [2]int{len(e.act), len(e.act) + len(dr)})
		e.act = append(e.act, dr...)
	}
	if len(dt) > 0 {
		if !e.handed {
			e.c.Violationf("terminal-written-before-handover", "a terminal was given %d bytes before any terminal was attached to a console: %s", len(dt), c16Around(dt, 0))
		}
		e.halSegs = append(e.halSegs, [2]int{len(e.act), len(e.act) + len(dt)})
		e.act = append(e.act, dt...)
	}
}

// emit performs one harness log write whose exact output is known.
func (e *c16Env) emit(expected []byte, tokAt int, tokID int, do func()) {
	e.syncHal()
	pos := len(e.act)
	do()
	dr, dt := e.measure()
	got := dr
	if e.handed {
		got = dt
		if len(dr) > 0 {
			e.c.Violationf("logged-to-early-ring-after-handover", "a log write of %d bytes after the hand-over put %d bytes into the early ring", len(expected), len(dr))
		}
		e.run.Count("hal_harness_bytes_logged_after_handover", int64(len(expected)))
	} else {
		if len(dt) > 0 {
			e.c.Violationf("terminal-written-before-handover", "a log write before the hand-over reached a terminal (%d bytes)", len(dt))
		}
		e.run.Count("hal_harness_bytes_logged_before_handover", int64(len(expected)))
	}
	if !bytes.Equal(got, expected) {
		at := c16FirstDiff(got, expected)
		e.c.Violationf("log-write-altered-or-lost", "handed=%v: wrote %d bytes, the sink shows %d new bytes; first difference at %d: got %s want %s", e.handed, len(expected), len(got), at, c16Around(got, at), c16Around(expected, at))
	}
	e.act = append(e.act, expected...)
	if tokAt >= 0 {
		e.tokens = append(e.tokens, c16Tok{tokID, pos + tokAt})
	}
}

// c16PrefixModel: "the prefix at the start of every line".
func c16PrefixModel(prefix, data []byte, atLineStart *bool) []byte {
	var out []byte
	for _, b := range data {
		if *atLineStart {
			out = append(out, prefix...)
			*atLineStart = false
		}
		out = append(out, b)
		if b == '\n' {
			*atLineStart = true
		}
	}
	return out
}

type c16PW struct {
	w           io.Writer
	prefix      []byte
	known       bool
	atLineStart bool
}

func (e *c16Env) doOp(op c16Op, pw *c16PW) {
	var data []byte
	tokID := -1
	if op.tok {
		tokID = e.nextTok
		e.nextTok++
		data = append(data, c16Token(tokID)...)
	}
	data = append(data, op.filler...)
	if len(data) == 0 {
		return
	}
	tokAt := -1
	if op.tok {
		tokAt = 0
	}
	e.run.Count(fmt.Sprintf("hal_log_writes_method_%d", op.method), 1)
	switch op.method {
	case 0:
		e.emit(data, tokAt, tokID, func() { kfmt.Printf(string(data)) })
	case 1:
		e.emit(data, tokAt, tokID, func() { kfmt.Printf("%s", string(data)) })
	case 2:
		e.emit(data, tokAt, tokID, func() { kfmt.Fprintf(kfmt.GetOutputSink(), "%s", data) })
	case 3:
		e.emit(data, tokAt, tokID, func() { kfmt.GetOutputSink().Write(data) })
	default:
		if pw == nil {
			return
		}
		if !pw.known {
			// the writer handed to DriverInit is not a PrefixWriter: nothing is known
			// about what it adds; the output is read back like hal's own.
			e.syncHal()
			pw.w.Write(data)
			e.syncHal()
			return
		}
		exp := c16PrefixModel(pw.prefix, data, &pw.atLineStart)
		if op.tok {
			tokAt = bytes.Index(exp, c16Token(tokID))
		}
		if op.method == 4 {
			e.emit(exp, tokAt, tokID, func() { pw.w.Write(data) })
		} else {
			e.emit(exp, tokAt, tokID, func() { kfmt.Fprintf(pw.w, "%s", string(data)) })
		}
		e.run.Count("hal_driver_log_lines_prefixed", int64(bytes.Count(exp, pw.prefix)))
	}
}

func (e *c16Env) onProbe(d *c16Drv) device.Driver {
	e.syncHal()
	d.probed++
	e.probeSeq = append(e.probeSeq, d)
	for _, op := range d.probeOps {
		e.doOp(op, nil)
	}
	if d.probeNil {
		return nil
	}
	if d.obj != nil {
		return d.obj
	}
	switch d.kind {
	case c16KindCon:
		d.con = &c16Console{d: d, env: e, w: d.cw, h: d.ch, fg: d.fg, bg: d.bg, cells: make([]c16Cell, int(d.cw*d.ch))}
		switch d.caps {
		case 1:
			d.obj = &c16FontCon{c16Console: d.con}
		case 2:
			d.obj = &c16LogoCon{c16Console: d.con}
		case 3:
			d.obj = &c16FontLogoCon{c16Console: d.con}
		default:
			d.obj = d.con
		}
	case c16KindTTY:
		d.tty = &c16TTY{VT: tty.NewVT(d.tab, d.scrollback), d: d, env: e}
		d.obj = d.tty
	default:
		d.obj = &c16Plain{d: d, env: e}
	}
	return d.obj
}

func (e *c16Env) countOK(kind int) int {
	n := 0
	for _, d := range e.okSeq {
		if d.kind == kind {
			n++
		}
	}
	return n
}

func (e *c16Env) onInit(d *c16Drv, w io.Writer) *kernel.Error {
	e.syncHal()
	d.inited++
	d.initEnter = len(e.act)
	pw := &c16PW{w: w, atLineStart: true}
	if real, ok := w.(*kfmt.PrefixWriter); ok {
		pw.known = true
		pw.prefix = append([]byte(nil), real.Prefix...)
		if bytes.Contains(pw.prefix, []byte(d.name)) {
			e.run.Count("hal_init_prefix_names_the_driver", 1)
		}
	} else {
		e.run.Count("hal_init_writer_is_not_a_prefix_writer", 1)
	}
	for _, op := range d.initOps {
		e.doOp(op, pw)
	}
	// workload targeting only: when this driver is about to complete the
	// console/terminal pair, pad the log so that the total logged before the
	// hand-over lands on a chosen boundary (the line hal is expected to add for
	// this driver is estimated; a wrong estimate only moves the bucket).
	if e.padTarget > 0 && !e.handed && !d.initFail &&
		((d.kind == c16KindCon && e.countOK(c16KindCon) == 0 && e.countOK(c16KindTTY) > 0) ||
			(d.kind == c16KindTTY && e.countOK(c16KindTTY) == 0 && e.countOK(c16KindCon) > 0)) {
		est := len("initialized\n")
		if pw.atLineStart {
			est += len(pw.prefix)
		}
		pad := e.padTarget - len(e.act) - est
		for pad > 0 {
			n := pad
			if n > 640 {
				n = 640
			}
			chunk := bytes.Repeat([]byte{'='}, n)
			chunk[n-1] = '\n'
			e.emit(chunk, -1, -1, func() { kfmt.GetOutputSink().Write(chunk) })
			pad -= n
		}
		e.run.Count("hal_cases_padded_to_boundary", 1)
	}
	e.syncHal()
	d.initExit = len(e.act)
	if d.initFail {
		return &kernel.Error{Module: "c16", Message: d.errMsg}
	}
	if d.kind == c16KindTTY && d.preActive && d.tty != nil {
		d.tty.SetState(tty.StateActive)
		e.run.Count("hal_terminals_active_before_hal_links_them", 1)
	}
	d.initOK = true
	e.okSeq = append(e.okSeq, d)
	return nil
}

func (e *c16Env) onAttach(t *c16TTY, c console.Device) {
	e.syncHal()
	t.attach = append(t.attach, c)
	e.attaches++
	if e.handed {
		return
	}
	e.handed = true
	e.handTTY = t
	e.handPos = len(e.act)
	snap, _, _ := kfmt.VerifC16EarlySnapshot()
	e.handSnap = snap
	e.pendingDrain = len(snap)
}

// ---------------------------------------------------------------------------
// generation

func c16Filler(r *vlib.Rand, n int, style int, maxNL int) []byte {
	b := make([]byte, n)
	nl := 0
	for i := range b {
		var ch byte
		x := r.Intn(100)
		switch style {
		case 0: // text lines
			switch {
			case x < 4:
				ch = '\n'
			case x < 12:
				ch = ' '
			default:
				ch = byte('a' + r.Intn(26))
			}
		case 1: // short lines, many line feeds
			switch {
			case x < 25:
				ch = '\n'
			default:
				ch = byte('A' + r.Intn(26))
			}
		case 2: // terminal control characters
			switch {
			case x < 6:
				ch = '\n'
			case x < 10:
				ch = '\t'
			case x < 14:
				ch = '\r'
			case x < 18:
				ch = '\b'
			default:
				ch = byte('0' + r.Intn(10))
			}
		default: // any byte
			ch = byte(r.Intn(256))
		}
		if ch == '<' || ch == '>' || ch == '%' {
			ch = '.'
		}
		if ch == '\n' {
			nl++
			if maxNL >= 0 && nl > maxNL {
				ch = '_'
			}
		}
		b[i] = ch
	}
	return b
}

// c16Ops generates log writes adding up to about budget bytes.
func c16Ops(r *vlib.Rand, budget int, style int, viaW bool, maxOps int) []c16Op {
	var ops []c16Op
	for budget > 0 && len(ops) < maxOps {
		var n int
		switch r.Intn(6) {
		case 0:
			n = r.Range(1, 8)
		case 1:
			n = r.Range(600, 700)
		default:
			n = r.Range(1, 700)
		}
		if n > budget {
			n = budget
		}
		op := c16Op{method: r.Intn(4)}
		if viaW && r.Chance(2, 3) {
			op.method = 4 + r.Intn(2)
		}
		maxNL := -1
		if op.method >= 4 {
			if n > 600 {
				n = 600
			}
			maxNL = 6
		}
		op.tok = n >= c16TokLen && !r.Chance(1, 10)
		fl := n
		if op.tok {
			fl = n - c16TokLen
		}
		op.filler = c16Filler(r, fl, style, maxNL)
		if viaW && r.Chance(1, 2) && len(op.filler) > 0 {
			op.filler[len(op.filler)-1] = '\n'
		}
		ops = append(ops, op)
		budget -= n
	}
	return ops
}

func c16Budget(r *vlib.Rand) int {
	switch r.Intn(8) {
	case 0:
		return 0
	case 1:
		return r.Range(1, 200)
	case 2, 3:
		return r.Range(200, 2046)
	case 4:
		return r.Range(1900, 2200)
	default:
		return r.Range(2047, 6000)
	}
}

type c16Spec struct {
	drivers   []*c16Drv // in registration order
	preOps    []c16Op
	postOps   []c16Op
	ringStart int
	padTarget int
	orderMode int
	arrMode   int
	style     int
	cmdLine   string
}

var c16Named = []int8{int8(device.DetectOrderEarly), int8(device.DetectOrderBeforeACPI), int8(device.DetectOrderACPI), int8(device.DetectOrderLast)}

func c16Gen(r *vlib.Rand) *c16Spec {
	s := &c16Spec{}
	nd := r.Range(0, 10)
	if r.Chance(1, 4) {
		nd = r.Range(2, 5)
	}
	if r.Chance(1, 100) {
		nd = r.Range(250, 330) // a long registration list
	}
	s.orderMode = r.Intn(5)
	s.style = r.Intn(4)
	two := [2]int8{int8(r.Intn(256) - 128), int8(r.Intn(256) - 128)}
	kindMode := r.Intn(2)
	for i := 0; i < nd; i++ {
		d := &c16Drv{id: i}
		x := r.Intn(100)
		switch kindMode {
		case 0: // mostly consoles and terminals
			switch {
			case x < 45:
				d.kind = c16KindCon
			case x < 90:
				d.kind = c16KindTTY
			}
		default:
			switch {
			case x < 30:
				d.kind = c16KindCon
			case x < 60:
				d.kind = c16KindTTY
			}
		}
		switch s.orderMode {
		case 0:
			d.order = c16Named[r.Intn(4)]
		case 1:
			d.order = int8(r.Intn(256) - 128)
		case 2:
			d.order = two[0] // all tie
		case 3:
			d.order = two[r.Intn(2)]
		default:
			if r.Bool() {
				d.order = c16Named[r.Intn(4)]
			} else {
				d.order = int8(r.Intn(256) - 128)
			}
		}
		d.probeNil = r.Chance(3, 20)
		d.initFail = r.Chance(1, 5)
		tag := r.U32() & 0xffff
		d.name = fmt.Sprintf("c16%s%02d_%04x", [...]string{"dev", "con", "tty"}[d.kind], i, tag)
		d.errMsg = fmt.Sprintf("E%02d_%04x boom", i, (tag*31+7)&0xffff)
		d.ver = [3]uint16{uint16(r.Intn(100)), uint16(r.Intn(1000)), uint16(r.U32())}
		switch r.Intn(6) {
		case 0:
			d.cw, d.ch = 80, 25
		case 1:
			d.cw, d.ch = uint32(r.Range(1, 3)), uint32(r.Range(1, 3))
		case 2:
			d.cw, d.ch = 132, 60
		default:
			d.cw, d.ch = uint32(r.Range(1, 132)), uint32(r.Range(1, 60))
		}
		d.fg, d.bg = uint8(r.Intn(16)), uint8(r.Intn(16))
		d.tab = uint8([]int{0, 1, 4, 4, 8, 255}[r.Intn(6)])
		if d.tab == 255 && !r.Chance(1, 8) {
			d.tab = 4
		}
		d.scrollback = uint32([]int{0, 1, 2, 80}[r.Intn(4)])
		if r.Chance(1, 3) {
			d.probeOps = c16Ops(r, r.Range(1, 400), s.style, false, 2)
		}
		if r.Chance(2, 3) {
			d.initOps = c16Ops(r, r.Range(1, 900), s.style, true, 3)
		}
		s.drivers = append(s.drivers, d)
	}
	if nd >= 2 && r.Chance(1, 2) {
		// make sure a pair can come up: one good console, one good terminal
		p := r.Perm(nd)
		a, b := s.drivers[p[0]], s.drivers[p[1]]
		a.kind, a.probeNil, a.initFail = c16KindCon, false, false
		b.kind, b.probeNil, b.initFail = c16KindTTY, false, false
		a.name = "c16con" + a.name[6:]
		b.name = "c16tty" + b.name[6:]
	}
	// registration arrangement
	s.arrMode = r.Intn(6)
	perm := r.Perm(nd)
	arranged := make([]*c16Drv, 0, nd)
	for _, i := range perm {
		arranged = append(arranged, s.drivers[i])
	}
	stablePartition := func(front func(d *c16Drv) bool) {
		var a, b []*c16Drv
		for _, d := range arranged {
			if front(d) {
				a = append(a, d)
			} else {
				b = append(b, d)
			}
		}
		arranged = append(a, b...)
	}
	switch s.arrMode {
	case 1:
		stablePartition(func(d *c16Drv) bool { return d.kind == c16KindCon })
	case 2:
		stablePartition(func(d *c16Drv) bool { return d.kind == c16KindTTY })
	case 3:
		stablePartition(func(d *c16Drv) bool { return d.probeNil || d.initFail })
	case 4, 5: // sorted by order, ascending / descending (insertion sort, harness side only)
		for i := 1; i < len(arranged); i++ {
			for j := i; j > 0; j-- {
				less := arranged[j].order < arranged[j-1].order
				if s.arrMode == 5 {
					less = arranged[j].order > arranged[j-1].order
				}
				if !less {
					break
				}
				arranged[j], arranged[j-1] = arranged[j-1], arranged[j]
			}
		}
	}
	s.drivers = arranged
	s.preOps = c16Ops(r, c16Budget(r), s.style, false, 64)
	s.postOps = c16Ops(r, c16Budget(r), s.style, false, 64)
	s.ringStart = []int{0, 0, 1, 1024, 2040, 2046, 2047, r.Intn(2048)}[r.Intn(8)]
	if r.Chance(1, 3) {
		s.padTarget = []int{2040, 2046, 2047, 2048, 2049, 2100, 4095, 4096}[r.Intn(8)]
	}
	// consoles that take a font / a logo, and what the boot command line says about them
	for _, d := range s.drivers {
		if d.kind == c16KindCon && r.Chance(1, 2) {
			d.caps = r.Range(1, 3)
		}
		if d.kind == c16KindTTY && r.Chance(1, 6) {
			d.preActive = true
		}
	}
	s.cmdLine = c16CmdLines[r.Intn(len(c16CmdLines))]
	return s
}

var c16CmdLines = []string{
	"", "", "quiet", "consoleLogo=off", "consoleFont=terminus8x16", "consoleFont=terminus10x18 consoleLogo=off",
	"consoleFont=terminus14x28", "consoleFont=nosuchfont", "consoleLogo=on consoleFont=", "root=/dev/sda1 consoleFont=terminus8x16 splash",
}

func (s *c16Spec) describe() map[string]interface{} {
	var ds []string
	for _, d := range s.drivers {
		fl := ""
		if d.probeNil {
			fl += " probe=nil"
		}
		if d.initFail {
			fl += " init=fail"
		}
		geo := ""
		if d.kind == c16KindCon {
			geo = fmt.Sprintf(" %dx%d%s", d.cw, d.ch, []string{"", " takes-font", " takes-logo", " takes-font-and-logo"}[d.caps])
		} else if d.kind == c16KindTTY {
			geo = fmt.Sprintf(" tab=%d sb=%d", d.tab, d.scrollback)
			if d.preActive {
				geo += " activates-itself"
			}
		}
		ds = append(ds, fmt.Sprintf("%s order=%d%s%s probeLogs=%d initLogs=%d", d.name, d.order, geo, fl, len(d.probeOps), len(d.initOps)))
	}
	sum := func(ops []c16Op) int {
		n := 0
		for _, o := range ops {
			n += len(o.filler)
			if o.tok {
				n += c16TokLen
			}
		}
		return n
	}
	return map[string]interface{}{
		"registered_in_this_order": ds, "pre_log_bytes": sum(s.preOps), "pre_log_chunks": len(s.preOps),
		"post_log_bytes": sum(s.postOps), "post_log_chunks": len(s.postOps), "ring_start_offset": s.ringStart,
		"pad_pre_handover_total_to": s.padTarget, "byte_style": s.style, "boot_command_line": s.cmdLine,
	}
}

// ---------------------------------------------------------------------------
// one case

func c16Reset(ringStart int) {
	device.VerifC16SetDrivers(nil)
	devices = managedDevices{}
	strBuf.Reset()
	kfmt.VerifC16ResetOutput(ringStart)
}

func c16RunCase(c *vlib.Case, run *vlib.Run, s *c16Spec) {
	c.Begin(s.describe())
	c16Reset(s.ringStart)
	bootInfo := c16BootInfo(s.cmdLine)
	multiboot.SetInfoPtr(uintptr(unsafe.Pointer(&bootInfo[0])))
	multiboot.VerifResetCmdLine()
	defer runtime.KeepAlive(bootInfo)
	e := &c16Env{c: c, run: run, drivers: s.drivers, padTarget: s.padTarget}
	if snap, rI, wI := kfmt.VerifC16EarlySnapshot(); len(snap) != 0 || rI != wI {
		c.Violationf("harness-reset-failed", "early ring not empty after reset: %d bytes", len(snap))
		return
	} else {
		e.lastW = wI
	}
	for _, d := range s.drivers {
		d := d
		device.RegisterDriver(&device.DriverInfo{Order: device.DetectOrder(d.order), Probe: func() device.Driver { return e.onProbe(d) }})
	}
	if got := len(device.DriverList()); got != len(s.drivers) {
		c.Violationf("registration-count", "registered %d drivers, DriverList has %d", len(s.drivers), got)
	}

	for _, op := range s.preOps {
		e.doOp(op, nil)
	}
	DetectHardware()
	e.syncHal()
	for _, op := range s.postOps {
		e.doOp(op, nil)
	}
	e.syncHal()
	c16Check(e, s)
}

func c16Check(e *c16Env, s *c16Spec) {
	c, run := e.c, e.run
	nd := len(s.drivers)
	run.Count("hal_drivers_registered", int64(nd))

	// 1. probing: every registered driver once, non-decreasing detection order.
	for _, d := range s.drivers {
		if d.probed != 1 {
			c.Violationf("probe-count", "driver %s (order %d) was probed %d times", d.name, d.order, d.probed)
		}
		want := 1
		if d.probeNil {
			want = 0
		}
		if d.inited != want {
			c.Violationf("init-count", "driver %s: probe returned nil=%v, DriverInit ran %d times", d.name, d.probeNil, d.inited)
		}
	}
	run.Count("hal_probes_observed", int64(len(e.probeSeq)))
	ties := false
	for i := 1; i < len(e.probeSeq); i++ {
		a, b := e.probeSeq[i-1], e.probeSeq[i]
		if b.order < a.order {
			var seq []string
			for _, d := range e.probeSeq {
				seq = append(seq, fmt.Sprintf("%s:%d", d.name, d.order))
			}
			c.Violationf("probe-order-decreases", "probe %d has order %d after order %d; observed probe sequence %v", i, b.order, a.order, seq)
			break
		}
		if b.order == a.order {
			ties = true
		}
	}
	if ties {
		run.Count("hal_cases_with_equal_orders", 1)
	}
	// was the registration order already sorted?
	sortedAlready := true
	for i := 1; i < nd; i++ {
		if s.drivers[i].order < s.drivers[i-1].order {
			sortedAlready = false
		}
	}
	if nd >= 2 && !sortedAlready {
		run.Count("hal_cases_registered_out_of_order", 1)
	}

	// 2. who is live.
	var firstCon, firstTTY *c16Drv
	for _, d := range e.okSeq {
		if d.kind == c16KindCon && firstCon == nil {
			firstCon = d
		}
		if d.kind == c16KindTTY && firstTTY == nil {
			firstTTY = d
		}
	}
	nFail, nNil := 0, 0
	for _, d := range s.drivers {
		if d.probeNil {
			nNil++
		} else if d.initFail {
			nFail++
		}
	}
	run.Count("hal_probe_returned_nil", int64(nNil))
	run.Count("hal_init_failed", int64(nFail))
	run.Count("hal_init_succeeded", int64(len(e.okSeq)))

	inActive := map[device.Driver]int{}
	for _, drv := range devices.activeDrivers {
		inActive[drv]++
	}
	for _, d := range s.drivers {
		if d.obj == nil {
			continue
		}
		n := inActive[d.obj]
		if !d.initOK && n != 0 {
			c.Violationf("failed-driver-in-active-drivers", "driver %s whose DriverInit failed is in activeDrivers", d.name)
		}
		if d.initOK && n != 1 {
			c.Violationf("initialised-driver-not-once-in-active-drivers", "driver %s initialised successfully and is %d times in activeDrivers", d.name, n)
		}
		delete(inActive, d.obj)
	}
	if len(inActive) != 0 {
		c.Violationf("unknown-driver-in-active-drivers", "%d drivers in activeDrivers were not returned by any probe", len(inActive))
	}

	var wantCon console.Device
	var wantTTY tty.Device
	if firstCon != nil {
		wantCon = firstCon.obj.(console.Device)
	}
	if firstTTY != nil {
		wantTTY = firstTTY.tty
	}
	if devices.activeConsole != wantCon {
		c.Violationf("active-console-is-not-first-initialised", "activeConsole=%s want %s", c16NameOf(devices.activeConsole), c16NameOf(wantCon))
	}
	if ActiveTTY() != wantTTY {
		c.Violationf("active-tty-is-not-first-initialised", "ActiveTTY()=%s want %s", c16NameOf(ActiveTTY()), c16NameOf(wantTTY))
	}
	if devices.activeTTY != ActiveTTY() {
		c.Violationf("active-tty-accessor", "ActiveTTY() differs from devices.activeTTY")
	}

	// 3. failing drivers are reported and stay out of everything.
	for _, d := range s.drivers {
		if d.obj == nil || d.initOK {
			continue
		}
		// The error text must follow the driver's DriverInit; the driver's name must
		// precede it and be no older than the start of that DriverInit (hal may have
		// put it in front of a line the driver itself left unfinished, and a driver
		// that also logs directly can push the report onto a line of its own).
		found := false
		from := d.initEnter
		if k := bytes.Index(e.act[d.initExit:], []byte(d.errMsg)); k >= 0 {
			at := d.initExit + k
			if n := bytes.LastIndex(e.act[from:at], []byte(d.name)); n >= 0 {
				found = true
				if bytes.IndexByte(e.act[from+n:at], '\n') < 0 {
					run.Count("hal_failure_reports_name_and_error_on_one_line", 1)
				}
			}
		}
		if !found {
			c.Violationf("init-failure-not-reported", "driver %s failed with %q; the log after the start of its DriverInit does not name the driver followed by that error text; log from there: %s", d.name, d.errMsg, c16Around(e.act[from:], 24))
		} else {
			run.Count("hal_failure_reports_found", 1)
			c16Tally.failReports++
		}
	}
	for _, d := range s.drivers {
		isActive := (d == firstCon) || (d == firstTTY)
		if d.con != nil && d.con.draws != 0 && !(d == firstCon && firstTTY != nil) {
			c.Violationf("inactive-console-drawn", "console %s (initOK=%v, first=%v, a terminal exists=%v) received %d drawing calls", d.name, d.initOK, d == firstCon, firstTTY != nil, d.con.draws)
		}
		if d.tty != nil && !(isActive && firstCon != nil) {
			if len(d.tty.attach) != 0 {
				c.Violationf("inactive-terminal-attached", "terminal %s (initOK=%v, first=%v, a console exists=%v) was attached %d times", d.name, d.initOK, d == firstTTY, firstCon != nil, len(d.tty.attach))
			}
			if len(d.tty.recv) != 0 {
				c.Violationf("inactive-terminal-written", "terminal %s (initOK=%v, first=%v) was given %d bytes", d.name, d.initOK, d == firstTTY, len(d.tty.recv))
			}
			if d.tty.State() == tty.StateActive && !d.preActive { // a mock that activated itself is not hal's doing
				c.Violationf("inactive-terminal-activated", "terminal %s (initOK=%v, first=%v) is in the active state", d.name, d.initOK, d == firstTTY)
			}
			if kfmt.VerifC16RawSink() == interface{}(d.tty) {
				c.Violationf("inactive-terminal-is-sink", "terminal %s (initOK=%v, first=%v) is the kfmt output sink", d.name, d.initOK, d == firstTTY)
			}
		}
	}

	// 4. the log.
	preTotal := len(e.act)
	pair := firstCon != nil && firstTTY != nil
	if pair {
		t := firstTTY.tty
		conFirst := false
		for _, d := range e.okSeq {
			if d == firstCon {
				conFirst = true
				break
			}
			if d == firstTTY {
				break
			}
		}
		if conFirst {
			run.Count("hal_handover_console_came_first", 1)
			c16Tally.conFirst++
		} else {
			run.Count("hal_handover_terminal_came_first", 1)
			c16Tally.ttyFirst++
		}
		if len(t.attach) == 0 {
			c.Violationf("terminal-not-attached", "console %s and terminal %s initialised but the terminal was never attached", firstCon.name, firstTTY.name)
		} else {
			if len(t.attach) > 1 {
				run.Count("hal_active_terminal_attached_more_than_once", 1)
			}
			for _, a := range t.attach {
				if a != firstCon.obj.(console.Device) {
					c.Violationf("terminal-attached-to-wrong-console", "terminal %s attached to %s, the first initialised console is %s", firstTTY.name, c16NameOf(a), firstCon.name)
					break
				}
			}
		}
		if t.State() != tty.StateActive {
			c.Violationf("terminal-not-active", "terminal %s is attached=%v but its state is %d (SetState calls: %v)", firstTTY.name, len(t.attach) > 0, t.State(), t.states)
		}
		if sink := kfmt.GetOutputSink(); sink != io.Writer(t) {
			c.Violationf("terminal-is-not-the-log-sink", "kfmt.GetOutputSink() is not the active terminal %s (early ring=%v)", firstTTY.name, kfmt.VerifC16IsEarlyRing(sink))
		}
		if e.handed && e.handTTY == t {
			preTotal = e.handPos
			wantPre := c16Suffix(e.act[:e.handPos], c16RingCap)
			if !bytes.Equal(e.handSnap, wantPre) {
				at := c16FirstDiff(e.handSnap, wantPre)
				c.Violationf("ring-at-handover-differs", "%d bytes were logged before the hand-over; the early ring then held %d bytes, want the last %d; first difference at %d: got %s want %s", e.handPos, len(e.handSnap), len(wantPre), at, c16Around(e.handSnap, at), c16Around(wantPre, at))
			}
			want := append(append([]byte(nil), wantPre...), e.act[e.handPos:]...)
			if !bytes.Equal(t.recv, want) {
				at := c16FirstDiff(t.recv, want)
				c.Violationf("terminal-stream-differs", "terminal received %d bytes, want %d (= last %d of the %d logged before the hand-over, then the %d logged after); first difference at %d: got %s want %s", len(t.recv), len(want), len(wantPre), e.handPos, len(e.act)-e.handPos, at, c16Around(t.recv, at), c16Around(want, at))
			}
			run.Count("hal_terminal_stream_bytes_compared", int64(len(want)))
			c16CheckTokens(e, t.recv, e.handPos, true)

			// the console shows what a reference terminal shows for that stream
			ref := c16NewRefTerm(int(firstCon.cw), int(firstCon.ch), int(firstTTY.tab), firstCon.fg, firstCon.bg)
			ref.feed(want)
			bad := 0
			for i := range ref.cells {
				g, w := firstCon.con.cells[i], ref.cells[i]
				if firstTTY.preActive && g.st == 0 && w.ch == ' ' {
					// a terminal that was active before hal attached it mirrors what it is given but is never
					// asked to redraw: cells nothing was written to stay as the console had them, which the
					// statement does not speak about
					continue
				}
				if g != w {
					if bad == 0 {
						c.Violationf("console-cells-differ", "console %dx%d cell (%d,%d): shown {ch=%q fg=%d bg=%d state=%d} want {ch=%q fg=%d bg=%d}; stream of %d bytes, tab=%d", firstCon.cw, firstCon.ch, i%int(firstCon.cw)+1, i/int(firstCon.cw)+1, g.ch, g.fg, g.bg, g.st, w.ch, w.fg, w.bg, len(want), firstTTY.tab)
					}
					bad++
				}
			}
			run.Count("hal_console_cells_compared", int64(len(ref.cells)))
			switch {
			case e.handPos < c16RingCap:
				run.SetAdd("hal_pre_handover_total_vs_capacity", "below-2047")
			case e.handPos == c16RingCap:
				run.SetAdd("hal_pre_handover_total_vs_capacity", "exactly-2047")
			case e.handPos == c16RingCap+1:
				run.SetAdd("hal_pre_handover_total_vs_capacity", "exactly-2048")
			default:
				run.SetAdd("hal_pre_handover_total_vs_capacity", "above-2048")
			}
			if e.handPos > c16RingCap {
				run.Count("hal_handovers_with_overflowed_ring", 1)
				c16Tally.overflow++
			}
			if len(c16ScanTokens(wantPre)) > 0 {
				run.Count("hal_handovers_with_harness_token_in_ring", 1)
			}
		} else if e.handed {
			c.Violationf("hand-over-to-wrong-terminal", "the first AttachTo was on %s, not on the first initialised terminal %s", e.handTTY.d.name, firstTTY.name)
		}
	} else {
		run.Count("hal_cases_without_pair", 1)
		if e.handed {
			c.Violationf("hand-over-without-pair", "a terminal was attached although no console/terminal pair initialised")
		}
		sink := kfmt.GetOutputSink()
		if !kfmt.VerifC16IsEarlyRing(sink) {
			c.Violationf("log-sink-changed-without-pair", "no console/terminal pair came up but the log no longer goes to the early ring")
		}
		snap, _, _ := kfmt.VerifC16EarlySnapshot()
		want := c16Suffix(e.act, c16RingCap)
		if !bytes.Equal(snap, want) {
			at := c16FirstDiff(snap, want)
			c.Violationf("ring-without-handover-differs", "%d bytes logged, ring holds %d, want the last %d; first difference at %d: got %s want %s", len(e.act), len(snap), len(want), at, c16Around(snap, at), c16Around(want, at))
		}
		run.Count("hal_ring_bytes_compared_without_handover", int64(len(want)))
		c16CheckTokens(e, snap, len(e.act), false)
	}

	// hal's own lines must not contain harness tokens (would be a duplicate of
	// something the harness logged)
	for _, seg := range e.halSegs {
		if occ := c16ScanTokens(e.act[seg[0]:seg[1]]); len(occ) > 0 {
			c.Violationf("harness-token-repeated-in-foreign-output", "output not written by the harness contains harness token %d: %s", occ[0][0], c16Around(e.act[seg[0]:seg[1]], occ[0][1]))
			break
		}
	}
	run.Count("hal_log_bytes_total", int64(len(e.act)))
	run.Max("hal_max_bytes_before_handover", int64(preTotal))

	// evidence
	fp := vlib.NewFP().Int(nd).Int(s.ringStart).Int(s.padTarget)
	for _, d := range s.drivers {
		fp = fp.Int(d.kind).Int(int(d.order)).Str(d.name)
		if d.probeNil {
			fp = fp.Int(1)
		}
		if d.initFail {
			fp = fp.Int(2)
		}
	}
	fp = fp.Int(len(e.act)).Int(e.handPos)
	if pair && (nFail+nNil) > 0 && e.handPos > 0 && nd >= 3 && !sortedAlready {
		run.Nontrivial(fp)
	}
	if pair && run.WantSample() && nFail > 0 {
		var seq []string
		for _, d := range e.probeSeq {
			seq = append(seq, fmt.Sprintf("%s:%d", d.name, d.order))
		}
		run.Sample(map[string]interface{}{"case": s.describe(), "observed_probe_sequence": seq, "active_console": firstCon.name, "active_tty": firstTTY.name, "bytes_logged_before_handover": e.handPos, "bytes_logged_after": len(e.act) - e.handPos, "terminal_received": len(firstTTY.tty.recv)})
	}
}

// c16CheckTokens: tokens logged before the moment `pre` appear exactly once and
// in order if they lie inside the last 2047 bytes logged before it, not at all if
// they lie outside; tokens logged later appear exactly once, in order, after them.
func c16CheckTokens(e *c16Env, stream []byte, pre int, handed bool) {
	occ := c16ScanTokens(stream)
	count := map[int]int{}
	first := map[int]int{}
	for _, o := range occ {
		if count[o[0]] == 0 {
			first[o[0]] = o[1]
		}
		count[o[0]]++
	}
	winStart := pre - c16RingCap
	last := -1
	for _, tk := range e.tokens {
		want := 1
		switch {
		case tk.pos >= pre:
			if !handed {
				continue
			}
		case tk.pos >= winStart:
		case tk.pos+c16TokLen <= winStart:
			want = 0
		default:
			e.run.Count("hal_tokens_cut_by_the_window", 1)
			continue
		}
		got := count[tk.id]
		if got != want {
			sig := "token-missing"
			if got > want {
				sig = "token-duplicated"
			}
			if want == 0 {
				sig = "token-beyond-capacity-present"
			}
			e.c.Violationf(sig, "token %d logged at offset %d (hand-over at %d, window starts at %d): seen %d times, want %d", tk.id, tk.pos, pre, winStart, got, want)
			return
		}
		if want == 1 {
			if first[tk.id] <= last {
				e.c.Violationf("token-out-of-order", "token %d appears at stream offset %d, before an earlier token (offset %d)", tk.id, first[tk.id], last)
				return
			}
			last = first[tk.id]
			if tk.pos < pre {
				e.run.Count("hal_pre_tokens_seen_once_in_order", 1)
			} else {
				e.run.Count("hal_post_tokens_seen_once_in_order", 1)
			}
		} else {
			e.run.Count("hal_pre_tokens_dropped_as_oldest", 1)
		}
		delete(count, tk.id)
	}
	if !handed {
		// tokens logged after `pre` do not exist in this mode (pre == len(act))
	}
	for id := range count {
		known := false
		for _, tk := range e.tokens {
			if tk.id == id {
				known = true
			}
		}
		if !known {
			e.c.Violationf("unknown-token", "stream contains token %d which the harness never logged", id)
			return
		}
	}
}

func c16NameOf(v interface{}) string {
	switch x := v.(type) {
	case nil:
		return "<none>"
	case *c16Console:
		if x == nil {
			return "<none>"
		}
		return x.d.name
	case *c16FontCon:
		return x.d.name
	case *c16LogoCon:
		return x.d.name
	case *c16FontLogoCon:
		return x.d.name
	case *c16TTY:
		if x == nil {
			return "<none>"
		}
		return x.d.name
	case device.Driver:
		return x.DriverName()
	}
	return fmt.Sprintf("%T", v)
}

// c16Fixed builds hand-written regression configurations.
func c16Fixed(which int) *c16Spec {
	mk := func(id, kind int, order int8) *c16Drv {
		d := &c16Drv{id: id, kind: kind, order: order, cw: 80, ch: 25, fg: 7, bg: 0, tab: 4, scrollback: 80,
			name:   fmt.Sprintf("c16%s%02d_fix", [...]string{"dev", "con", "tty"}[kind], id),
			errMsg: fmt.Sprintf("E%02d_fix boom", id), ver: [3]uint16{1, 2, 3}}
		return d
	}
	line := func(n int) c16Op {
		f := bytes.Repeat([]byte{'x'}, n-c16TokLen)
		f[len(f)-1] = '\n'
		return c16Op{method: 3, tok: true, filler: f}
	}
	s := &c16Spec{}
	early := int8(device.DetectOrderEarly)
	switch which {
	case 1: // shipped layout: console and terminal both "early", console registered first
		s.drivers = []*c16Drv{mk(0, c16KindCon, early), mk(1, c16KindTTY, early), mk(2, c16KindPlain, 0)}
		s.preOps = []c16Op{line(100), line(100)}
		s.postOps = []c16Op{line(50)}
	case 2: // terminal first, console last, everything registered in reverse
		s.drivers = []*c16Drv{mk(0, c16KindCon, 127), mk(1, c16KindPlain, 0), mk(2, c16KindTTY, early)}
		s.preOps = []c16Op{line(100)}
		s.postOps = []c16Op{line(50)}
	case 3: // exactly 2047 bytes before the hand-over
		s.drivers = []*c16Drv{mk(0, c16KindTTY, early), mk(1, c16KindCon, -127)}
		s.preOps = []c16Op{line(700), line(700)}
		s.padTarget = 2047
		s.postOps = []c16Op{line(50)}
	case 4: // 2048: the oldest byte must go
		s.drivers = []*c16Drv{mk(0, c16KindTTY, early), mk(1, c16KindCon, -127)}
		s.preOps = []c16Op{line(700), line(700)}
		s.padTarget = 2048
		s.ringStart = 2047
		s.postOps = []c16Op{line(50)}
	case 5: // failing console and terminal ahead of the good ones, second good pair behind
		a, b := mk(0, c16KindCon, early), mk(1, c16KindTTY, early)
		a.initFail, b.initFail = true, true
		p := mk(2, c16KindTTY, -100)
		p.probeNil = true
		s.drivers = []*c16Drv{mk(6, c16KindCon, 50), mk(5, c16KindTTY, 40), mk(4, c16KindTTY, -50), mk(3, c16KindCon, -60), p, b, a}
		s.drivers[0].cw, s.drivers[0].ch = 40, 10
		s.preOps = []c16Op{line(300)}
		s.postOps = []c16Op{line(600), line(600), line(600)}
	case 6: // terminal first, then a console that takes a font named on the boot command line
		s.drivers = []*c16Drv{mk(0, c16KindTTY, early), mk(1, c16KindCon, 10)}
		s.drivers[1].caps = 1
		s.cmdLine = "consoleFont=terminus8x16"
		s.preOps = []c16Op{line(100)}
		s.postOps = []c16Op{line(50)}
	case 7: // terminal first, then a console that takes a font and a logo, logo switched off, unknown font
		s.drivers = []*c16Drv{mk(0, c16KindTTY, early), mk(1, c16KindCon, 10)}
		s.drivers[1].caps = 3
		s.cmdLine = "consoleLogo=off consoleFont=nosuchfont"
		s.preOps = []c16Op{line(100)}
		s.postOps = []c16Op{line(50)}
	}
	return s
}

var c16Tally struct{ conFirst, ttyFirst, overflow, failReports int }

func TestVerifC16(t *testing.T) {
	run := vlib.Start(t, "C16")
	defer run.Finish()
	run.SetRule("hal run: case = 0-10 (one case in 100: 250-330) mock drivers (consoles, terminals wrapping the real tty.VT, plain; 15% probe nil, 20% init failure; orders from the four named constants / random int8 / all equal / two values) registered in a permutation (random, consoles first, terminals first, failures first, ascending, descending), 0-6000 bytes logged before DetectHardware, further log writes from inside Probe and DriverInit (directly and through the writer hal hands to DriverInit), 0-6000 bytes logged afterwards, chunks of 1-700 bytes through four different kfmt entry points, early ring starting at offsets {0,1,1024,2040,2046,2047,random}; non-trivial = a console and a terminal initialised, at least one driver failed or probed nil, at least 3 drivers registered not already in detection order, and something was logged before the hand-over; distinct = fingerprint of (driver kinds, orders, names, failures, registration order, bytes logged, hand-over offset)")
	run.Assume("mock drivers stand in for the shipped console/ACPI drivers; the terminal is the real tty.VT inside a recording wrapper; hal's own log lines are read back from the early ring at the next mock callback via the movement of the ring's write index, which assumes hal logs fewer than 2048 bytes between two callbacks; half of the consoles also take a font and/or a logo (mock FontSetter/LogoSetter) and every case boots with one of ten command lines (consoleFont=<known|unknown>, consoleLogo=off, unrelated words, empty) in a one-tag multiboot block; which font or logo is chosen is not judged; one terminal in six switches itself to the active state in its own DriverInit, before hal links it")

	savedDrivers := device.VerifC16Drivers()
	defer func() {
		device.VerifC16SetDrivers(savedDrivers)
		devices = managedDevices{}
		strBuf.Reset()
		kfmt.VerifC16ResetOutput(0)
	}()

	run.Cases(run.N(3000, 240000), func(c *vlib.Case) {
		c16RunCase(c, run, c16Gen(c.R))
	})
	for i := 1; i <= 7; i++ {
		i := i
		run.OneCase(vlib.FixedBase+i, func(c *vlib.Case) {
			c16RunCase(c, run, c16Fixed(i))
		})
	}
	if !run.Replay && run.From == 0 && run.To < 0 {
		if c16Tally.conFirst == 0 || c16Tally.ttyFirst == 0 {
			run.Inconclusive("hal run: hand-over not observed in both directions (console first / terminal first)")
		}
		if c16Tally.overflow == 0 {
			run.Inconclusive("hal run: no hand-over with more than 2047 bytes logged before it")
		}
		if c16Tally.failReports == 0 {
			run.Inconclusive("hal run: no failing driver initialisation observed")
		}
	}
}
