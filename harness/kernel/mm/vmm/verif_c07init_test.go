//go:build verif
// +build verif

package vmm

import (
	"fmt"
	"testing"

	"github.com/ProjectSerenity/firefly/kernel/mm"
	"github.com/ProjectSerenity/firefly/kernel/multiboot"
	"github.com/ProjectSerenity/firefly/kernel/zzverif/vlib"
)

// C07, third run: reservations made before and after the kernel builds its
// own address space. vmm.Init walks the reserved window (and fails if a page
// of it has no translation yet - reserving now and mapping later is what the
// Go runtime's address-space reservation does). Whatever Init returns, "every
// successful reservation lies entirely below every region reserved before it"
// holds for the reservations that follow it as well. The real Init runs on
// the software MMU of C04/C05.

func TestVerifC07Init(t *testing.T) {
	run := vlib.Start(t, "C07")
	defer run.Finish()
	run.SetRule("case = 1-4 reservations of 1-6 pages through the real EarlyReserveRegion, each fully mapped / not mapped at all / only its upper pages mapped / only its lower pages mapped (real Map on the software MMU), then the real vmm.Init (one loaded section; its result is counted, not judged), then 1-3 further reservations of 1-5 pages: each must be page aligned and lie entirely below every region reserved before it; non-trivial = some reserved page had no translation when Init ran; distinct = fingerprint of (sizes, mapping styles)")
	m := vmNewMMU()
	restore := m.install()
	defer restore()
	defer multiboot.SetInfoPtr(0)

	const offset = uint64(0xffff800000000000)
	run.Cases(run.N(500, 30000), func(c *vlib.Case) {
		r := c.R
		m.reset()
		secs := []c05Section{{name: ".text", addr: offset + 0x100000, size: uint64(r.Range(1, 3*4096)), flags: 2 | 4}, {name: ".shstrtab"}}
		multiboot.SetInfoPtr(c05BuildInfo(secs, 1, r))
		earlyReserveLastUsed = tempMappingAddr
		lowest := uint64(tempMappingAddr)
		fp := vlib.NewFP()
		nres := r.Range(1, 4)
		holes := 0
		var desc []string
		for i := 0; i < nres; i++ {
			pages := r.Range(1, 6)
			style := r.Intn(4)
			addr, err := EarlyReserveRegion(uintptr(pages) * 4096)
			if err != nil || uint64(addr)+uint64(pages)*4096 > lowest || addr&4095 != 0 {
				c.Violationf("reservation-before-init", "EarlyReserveRegion(%d pages) returned (%#x, %v) with the lowest earlier region at %#x", pages, addr, err, lowest)
				return
			}
			lowest = uint64(addr)
			k := r.Range(1, pages)
			for p := 0; p < pages; p++ {
				mapped := style == 0 || (style == 2 && p >= k) || (style == 3 && p < k)
				if !mapped {
					holes++
					continue
				}
				if e := Map(mm.PageFromAddress(addr+uintptr(p)*4096), mm.Frame(c04GenFrame(r)&((1<<40)-1)), FlagPresent|FlagRW); e != nil {
					c.Violationf("boot-map-failed", "Map in boot space: %v", e)
					return
				}
			}
			fp = fp.Int(pages).Int(style).Int(k)
			desc = append(desc, fmt.Sprintf("%d pages at %#x, %s", pages, addr, []string{"all mapped", "none mapped", "upper pages mapped", "lower pages mapped"}[style]))
		}
		c.Begin(map[string]interface{}{"reservations_before_init": desc})
		var ierr interface{}
		pv, _ := vlib.Protect(func() {
			if e := Init(uintptr(offset)); e != nil {
				ierr = e
			}
		})
		switch {
		case pv != nil:
			run.Count("init_panicked_(judged_by_C05)", 1)
		case ierr != nil:
			run.Count("init_returned_an_error", 1)
		default:
			run.Count("init_succeeded", 1)
		}
		if uint64(earlyReserveLastUsed) > lowest {
			c.Violationf("init-moved-reservation-cursor-up", "before Init the lowest reserved address was %#x; after Init (error: %v) the cursor is %#x: the next reservation would lie inside an earlier region (reservations: %v)", lowest, ierr, earlyReserveLastUsed, desc)
			return
		}
		for i, n := 0, r.Range(1, 3); i < n; i++ {
			pages := r.Range(1, 5)
			addr, err := EarlyReserveRegion(uintptr(pages) * 4096)
			if err != nil {
				c.Violationf("reservation-after-init-refused", "EarlyReserveRegion(%d pages) after Init: %v", pages, err)
				return
			}
			if addr&4095 != 0 || uint64(addr)+uint64(pages)*4096 > lowest {
				c.Violationf("reservation-after-init-overlaps-earlier-region", "EarlyReserveRegion(%d pages) after Init (error: %v) returned %#x: [%#x,%#x) is not entirely below the regions reserved before (lowest %#x; %v)", pages, ierr, addr, addr, uint64(addr)+uint64(pages)*4096, lowest, desc)
				return
			}
			lowest = uint64(addr)
			run.Count("reservations_after_init_checked", 1)
		}
		if holes > 0 {
			run.Nontrivial(fp)
		}
	})
}
