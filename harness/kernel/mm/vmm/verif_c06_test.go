//go:build verif
// +build verif

package vmm

import (
	"bytes"
	"fmt"
	"testing"

	"github.com/ProjectSerenity/firefly/kernel"
	"github.com/ProjectSerenity/firefly/kernel/gate"
	"github.com/ProjectSerenity/firefly/kernel/mm"
	"github.com/ProjectSerenity/firefly/kernel/multiboot"
	"github.com/ProjectSerenity/firefly/kernel/zzverif/vlib"
)

// C06 — copy-on-write faults get a private copy; the shared zero frame is
// never writable; every other fault panics.
//
// Faulting pages live in a host "window" arena: the page-fault handler reads
// the faulting page through its virtual address (kernel.Memcopy has no seam),
// so the harness supplies the page's visible contents the way the MMU would —
// immediately before the fault the window page is filled with the bytes of
// the frame the software walker resolves for it.

var c06Window *vlib.Arena

const c06WindowPages = 24

var c06TempMapErr = &kernel.Error{Module: "verif", Message: "temporary mapping: injected failure"}

type c06State struct {
	c   *vlib.Case
	run *vlib.Run
	m   *vmMMU
}

// usedSnapshot copies every physical frame handed out so far.
func (s *c06State) usedSnapshot() []byte {
	return append([]byte(nil), vlib.BytesAt(s.m.arena.Base, s.m.next*4096)...)
}

func c06ZeroFrameIsZero(m *vmMMU) bool {
	for _, b := range m.frameBytes(ReservedZeroedFrame) {
		if b != 0 {
			return false
		}
	}
	return true
}

func TestVerifC06(t *testing.T) {
	run := vlib.Start(t, "C06")
	defer run.Finish()
	run.SetRule("case = one address space after the real reserveZeroedFrame (in half of the cases reached through the real vmm.Init for a kernel image without loadable sections; faults then go to the handlers Init registered for vectors 14 and 13), then (A) mapping requests for the reserved zero frame through Map / MapTemporary / PageDirectoryTable.Map (active and inactive) with generated flag subsets, (B) a sequence of page faults delivered to the real pageFaultHandler: pages sharing the zero frame or holding random data frames, leaf entries with arbitrary subsets of the 11 flag bits, upper levels present or absent, any offset and error code, allocator / temporary-mapping failure injected at each step, repeated faults page after page; and the general-protection handler. non-trivial = case with >=2 recovered copy-on-write faults on pages sharing the zero frame, >=1 non-recoverable flag combination and >=1 injected failure; distinct = fingerprint of the fault list")
	run.Assume("faults are delivered by calling the handler directly as the IDT stub would (readCR2Fn returns the address); a Go panic stands for the kernel panic path; the faulting page's visible contents are supplied through a host window filled from the frame the software walker resolves")
	m := vmNewMMU()
	restore := m.install()
	defer restore()
	defer multiboot.SetInfoPtr(0)
	if c06Window == nil {
		c06Window = vlib.MustArena(0, c06WindowPages*4096, false)
	}
	// the temporary-mapping seam with an injectable failure in front of the real one
	realMapTmp := mapTemporaryFn
	failTempMap := false
	var faultVA uintptr // page whose fault is being handled (0 outside a fault)
	mapTemporaryFn = func(f mm.Frame) (mm.Page, *kernel.Error) {
		if failTempMap {
			failTempMap = false
			return 0, c06TempMapErr
		}
		// The handler is about to read the faulting page through its virtual address.
		// Refresh the window from whatever the page maps *now*: if the entry was already
		// retargeted to the new frame, the page shows the new frame's junk, as it would
		// on the real MMU.
		if faultVA != 0 {
			if phys, lvl, _ := m.translate(m.cr3, faultVA); lvl == 4 && m.inArena(phys) {
				copy(vlib.BytesAt(faultVA, 4096), vlib.BytesAt(phys, 4096))
			}
		}
		return realMapTmp(f)
	}
	var cr2 uint64
	readCR2Fn = func() uint64 { return cr2 }

	n := run.N(3000, 200000)
	run.Cases(n, func(c *vlib.Case) {
		r := c.R
		m.reset()
		s := &c06State{c: c, run: run, m: m}
		c.Begin(map[string]interface{}{"seed_case": c.Idx})
		failTempMap = false

		// ---- the real reserveZeroedFrame, in half of the cases as the last step of the real vmm.Init ----
		pfHandler, gpfHandler := pageFaultHandler, generalProtectionFaultHandler
		if r.Bool() {
			// a kernel image without loadable sections: Init builds and activates the kernel address space,
			// installs the fault handlers and reserves the zero frame; from here on faults are delivered to
			// whatever Init registered for the two vectors
			multiboot.SetInfoPtr(c05BuildInfo([]c05Section{{name: ".shstrtab"}}, 0, r))
			earlyReserveLastUsed = tempMappingAddr
			var ierr *kernel.Error
			ipv, _ := vlib.Protect(func() { ierr = Init(uintptr(r.PickU64([]uint64{0xffff800000000000, 0xffffff0000000000, 0x40000000}))) })
			if ipv != nil || ierr != nil {
				run.Count("init_not_ok(judged by C05)", 1)
				return
			}
			run.Count("cases_after_the_real_Init", 1)
			pfHandler, gpfHandler = m.handlers[gate.PageFaultException], m.handlers[gate.GPFException]
			if pfHandler == nil || gpfHandler == nil {
				c.Violationf("fault-handler-not-installed", "after vmm.Init a handler is registered for the page-fault vector: %v, for the general-protection vector: %v", pfHandler != nil, gpfHandler != nil)
				return
			}
		} else if err := reserveZeroedFrame(); err != nil {
			c.Violationf("reserve-zero-frame-failed", "reserveZeroedFrame: %v", err)
			return
		}
		if !protectReservedZeroedPage || !m.inArena(ReservedZeroedFrame.Address()) {
			c.Violationf("zero-frame-not-protected", "after reserveZeroedFrame protect=%v frame=%#x", protectReservedZeroedPage, uint64(ReservedZeroedFrame))
			return
		}
		if !c06ZeroFrameIsZero(m) {
			c.Violationf("zero-frame-not-zero", "the reserved frame was not cleared")
			return
		}
		zero := ReservedZeroedFrame

		// a second (inactive) address space
		other := PageDirectoryTable{pdtFrame: m.newRootRaw()}
		active := PageDirectoryTable{pdtFrame: mm.Frame(m.cr3 >> 12)}

		// ---- (A) the zero frame can never be mapped writable ----
		for i := 0; i < 12; i++ {
			flags := c04GenFlags(r)
			if i%3 == 0 {
				flags |= uint64(FlagRW)
			} else if i%4 == 1 {
				// sparse flag sets, the empty one included: nothing in them asks for write access
				flags = r.PickU64([]uint64{0, 0, uint64(FlagCopyOnWrite), uint64(FlagNoExecute), uint64(FlagUserAccessible), uint64(FlagPresent)})
			}
			va := vmCanon(uintptr(r.PickInt([]int{1, 300})), uintptr(r.Intn(4)), uintptr(r.Intn(4)), uintptr(r.Intn(512)))
			before := s.usedSnapshot()
			nextBefore := m.next
			var err *kernel.Error
			var how string
			switch r.Intn(4) {
			case 0:
				how = "Map"
				err = Map(mm.PageFromAddress(va), zero, PageTableEntryFlag(flags))
			case 1:
				how = "PageDirectoryTable.Map(active)"
				err = active.Map(mm.PageFromAddress(va), zero, PageTableEntryFlag(flags))
			case 2:
				how = "PageDirectoryTable.Map(inactive)"
				err = other.Map(mm.PageFromAddress(va), zero, PageTableEntryFlag(flags))
			default:
				how = "MapTemporary"
				flags = uint64(FlagRW | FlagPresent)
				_, err = MapTemporary(zero)
			}
			if flags&uint64(FlagRW) != 0 {
				run.Count("zero_frame_rw_requests", 1)
				if err != errAttemptToRWMapReservedFrame {
					c.Violationf("zero-frame-mapped-writable", "%s of the reserved zero frame with flags %#x returned %v, want the reserved-frame error", how, flags, err)
					return
				}
				if m.next != nextBefore || !bytes.Equal(before, s.usedSnapshot()) {
					c.Violationf("rejected-request-changed-tables", "%s of the zero frame with RW was rejected but page-table memory changed", how)
					return
				}
			} else {
				run.Count("zero_frame_readonly_requests", 1)
				if err != nil {
					c.Violationf("zero-frame-readonly-map-failed", "%s of the zero frame without RW (flags %#x) returned %v", how, flags, err)
					return
				}
			}
		}
		// (A2) the same through a history: pages that were mapped writable (and possibly unmapped)
		// before are re-mapped to the zero frame read-only / copy-on-write, as sysReserve does
		for i := 0; i < 6; i++ {
			va := vmCanon(uintptr(r.PickInt([]int{2, 301})), uintptr(r.Intn(3)), uintptr(r.Intn(3)), uintptr(r.Intn(512)))
			tgt := active
			if r.Chance(1, 3) {
				tgt = other
			}
			pre := PageTableEntryFlag(r.U64())&(FlagRW|FlagNoExecute|FlagUserAccessible|FlagGlobal|FlagDirty|FlagAccessed) | FlagPresent | FlagRW
			if err := tgt.Map(mm.PageFromAddress(va), mm.Frame(c04GenFrame(r)), pre); err != nil {
				c.Violationf("setup-map-failed", "%v", err)
				return
			}
			if r.Bool() {
				_ = tgt.Unmap(mm.PageFromAddress(va))
			}
			fl := FlagPresent | FlagCopyOnWrite
			if r.Bool() {
				fl = FlagPresent
			}
			if err := tgt.Map(mm.PageFromAddress(va), zero, fl); err != nil {
				c.Violationf("zero-frame-readonly-map-failed", "re-mapping a page to the zero frame without RW returned %v", err)
				return
			}
			run.Count("zero_frame_remaps_over_earlier_writable_mappings", 1)
		}
		// invariant over every address space: no present entry gives write access to the zero frame
		for _, root := range []uintptr{m.cr3, other.pdtFrame.Address()} {
			leaves, _, _, _ := m.enumerate(root)
			for _, lf := range leaves {
				if mm.Frame((lf.entry&vmPhysMask)>>12) == zero && lf.entry&uint64(FlagRW) != 0 {
					c.Violationf("zero-frame-mapped-writable", "page %#x maps the reserved zero frame with the writable bit set (entry %#x) although every request asked for a read-only mapping", lf.va, lf.entry)
					return
				}
				run.Count("leaves_checked_for_writable_zero_frame", 1)
			}
		}
		if sigs, msgs := m.takeProblems(); len(sigs) > 0 {
			c.Violationf(sigs[0], "%s", msgs[0])
			return
		}

		// ---- (B) page faults ----
		npages := r.Range(2, 8)
		type pg struct {
			va    uintptr
			frame mm.Frame
		}
		var pages []pg
		perm := r.Perm(c06WindowPages)
		for i := 0; i < npages; i++ {
			va := c06Window.Base + uintptr(perm[i])*4096
			fr := zero
			if r.Chance(1, 3) { // a private data frame marked copy-on-write
				fr = m.rawAlloc(0)
				copy(m.frameBytes(fr), r.Bytes(4096))
			}
			fl := FlagPresent | FlagCopyOnWrite
			if r.Bool() {
				fl |= PageTableEntryFlag(r.U64()) & (FlagNoExecute | FlagGlobal | FlagAccessed | FlagUserAccessible | FlagWriteThroughCaching)
			}
			if err := Map(mm.PageFromAddress(va), fr, fl); err != nil {
				c.Violationf("setup-map-failed", "%v", err)
				return
			}
			pages = append(pages, pg{va, fr})
		}
		nfaults := r.Range(3, 14)
		fp := vlib.NewFP().Int(npages)
		recoveredZero, nonRec, injected := 0, 0, 0
		var sample []string
		for f := 0; f < nfaults; f++ {
			p := pages[r.Intn(len(pages))]
			leaf := m.leafEntry(m.cr3, p.va)
			if leaf == nil {
				c.Violationf("setup", "no leaf entry for %#x", p.va)
				return
			}
			// optionally rewrite the leaf flags to an arbitrary subset of the 11 flag bits
			mode := r.Intn(10)
			if mode < 4 {
				fl := r.U64() & c04AllFlags
				*leaf = (*leaf & vmPhysMask) | fl
			}
			// optionally knock out an upper level
			var upper *uint64
			var upperOld uint64
			if mode == 9 {
				lvl := r.Intn(3)
				table := m.cr3
				ix := vmIndices(p.va)
				for l := 0; l < lvl; l++ {
					table = uintptr(*vmEntryAt(table, ix[l]) & vmPhysMask)
				}
				upper = vmEntryAt(table, ix[lvl])
				upperOld = *upper
				*upper &^= vmPresent
			}
			// optionally give one upper-level entry an arbitrary subset of the flag bits (it keeps
			// pointing at its table) and, half of the time, make the level below it non-present:
			// the handler must judge the leaf only, and only when the whole walk succeeds
			var upper2, below2 *uint64
			var upper2Old, below2Old uint64
			if mode == 8 || mode == 7 {
				lvl := r.Intn(3)
				table := m.cr3
				ix := vmIndices(p.va)
				for l := 0; l < lvl; l++ {
					table = uintptr(*vmEntryAt(table, ix[l]) & vmPhysMask)
				}
				upper2 = vmEntryAt(table, ix[lvl])
				upper2Old = *upper2
				fl := r.U64() & c04AllFlags &^ vmHuge
				if r.Chance(3, 4) {
					fl |= vmPresent
				}
				if r.Chance(1, 2) {
					fl = fl&^uint64(FlagRW) | uint64(FlagCopyOnWrite) // read-only + CoW bit on a table entry
				}
				*upper2 = (upper2Old & vmPhysMask) | fl
				if r.Bool() {
					below2 = vmEntryAt(uintptr(upper2Old&vmPhysMask), ix[lvl+1])
					below2Old = *below2
					*below2 &^= vmPresent
				}
				run.Count("faults_with_rewritten_upper_level_flags", 1)
			}
			entryBefore := *leaf
			frameBefore := mm.Frame((entryBefore & vmPhysMask) >> 12)
			_, lvl, _ := m.translate(m.cr3, p.va)
			recoverable := lvl == 4 && entryBefore&uint64(FlagRW) == 0 && entryBefore&uint64(FlagCopyOnWrite) != 0
			// injected failures
			inj := 0
			if recoverable && r.Chance(1, 5) {
				inj = 1 + r.Intn(2)
				if inj == 1 {
					m.failAt = 1
				} else {
					failTempMap = true
				}
				injected++
			}
			// what the page shows: the MMU would read through the mapping
			win := vlib.BytesAt(p.va, 4096)
			var shown []byte
			if lvl == 4 && m.inArena(frameBefore.Address()) {
				copy(win, m.frameBytes(frameBefore))
				shown = append([]byte(nil), win...)
			}
			// every other page's entry and the whole of physical memory in use
			others := map[uintptr]uint64{}
			for _, q := range pages {
				if q.va != p.va {
					if e := m.leafEntry(m.cr3, q.va); e != nil {
						others[q.va] = *e
					}
				}
			}
			off := uintptr(r.Intn(4096))
			cr2 = uint64(p.va + off)
			regs := gate.Registers{Info: uint64(r.PickInt([]int{0, 1, 2, 3, 4, 8, 16, 7, 31})), RIP: r.U64()}
			// the saved registers describe the interrupted code, not the fault: none of them decides the outcome.
			// Half of the faults come with registers related to the fault address (a push just below the stack
			// pointer, an access through a register that holds the address, the next instruction on the page).
			switch r.Intn(8) {
			case 0:
				regs.RSP = cr2 + uint64(r.PickInt([]int{8, 16, 128, 4096}))
			case 1:
				regs.RSP, regs.RBP = cr2, cr2+8
			case 2:
				regs.RSP = cr2 - uint64(r.PickInt([]int{8, 4096}))
			case 3:
				regs.RAX, regs.RDI, regs.RSI = cr2, cr2, cr2&^4095
				regs.RSP = r.U64()
			case 4:
				regs.RIP = cr2
				regs.RSP = r.U64() &^ 15
			default:
				regs.RSP, regs.RBP, regs.RFlags = r.U64(), r.U64(), r.U64()
			}
			m.flushLog = m.flushLog[:0]
			m.allocLog = m.allocLog[:0]
			fp = fp.U64(entryBefore & ^vmPhysMask).Int(inj).Int(mode)
			desc := fmt.Sprintf("fault at %#x (page entry flags %#x, upper-level-present=%v, info=%d, inject=%d)", cr2, entryBefore&^vmPhysMask, upper == nil, regs.Info, inj)
			if len(sample) < 8 {
				sample = append(sample, desc)
			}
			// the three upper-level entries on the way to the faulting page: whatever the handler does with the
			// leaf, these cover up to 512^3 other pages and are not its business
			var pathPtr [3]*uint64
			var pathVal [3]uint64
			{
				table := m.cr3
				ix := vmIndices(p.va)
				for l := 0; l < 3; l++ {
					e := vmEntryAt(table, ix[l])
					pathPtr[l], pathVal[l] = e, *e
					if *e&vmPresent == 0 || !m.inArena(uintptr(*e&vmPhysMask)) {
						break
					}
					table = uintptr(*e & vmPhysMask)
				}
			}
			faultVA = p.va
			pv, _ := vlib.Protect(func() { pfHandler(&regs) })
			faultVA = 0
			for l := 0; l < 3; l++ {
				if pathPtr[l] != nil && *pathPtr[l] != pathVal[l] {
					c.Violation("upper-level-entry-changed", map[string]interface{}{"fault": desc, "what": fmt.Sprintf("the level-%d table entry on the way to the faulting page changed from %#x to %#x: it covers other pages' mappings", l+1, pathVal[l], *pathPtr[l])})
					return
				}
			}
			run.Count("upper_level_path_entries_compared", 3)
			m.failAt = 0
			failTempMap = false
			if upper != nil {
				*upper = upperOld
			}
			if below2 != nil {
				*below2 = below2Old
			}
			if upper2 != nil {
				if !recoverable && *upper2 != (upper2Old&vmPhysMask)|(*upper2&^vmPhysMask) {
					c.Violation("upper-level-entry-retargeted", map[string]interface{}{"fault": desc, "what": fmt.Sprintf("an upper-level table entry was changed by the fault handler: %#x", *upper2)})
					return
				}
				*upper2 = upper2Old
			}
			if sigs, msgs := m.takeProblems(); len(sigs) > 0 {
				c.Violation(sigs[0], map[string]interface{}{"fault": desc, "what": msgs[0]})
				return
			}
			if !recoverable || inj != 0 {
				nonRec++
				run.Count("faults_expected_to_panic", 1)
				if inj != 0 {
					run.Count("faults_with_injected_failure", 1)
				}
				if _, isRuntime := pv.(interface{ RuntimeError() }); isRuntime {
					c.Violation("handler-crashed", map[string]interface{}{"fault": desc, "what": fmt.Sprintf("the handler itself faulted (%v) instead of taking the kernel panic path", pv)})
					return
				}
				if pv == nil {
					c.Violation("unrecoverable-fault-resumed", map[string]interface{}{"fault": desc, "what": "the handler returned (the faulting code would be resumed) although this fault cannot be resolved"})
					return
				}
				if !c06ZeroFrameIsZero(m) {
					c.Violation("zero-frame-modified", map[string]interface{}{"fault": desc})
					return
				}
				// restore a recoverable state for the next round
				*leaf = (*leaf & vmPhysMask) | uint64(FlagPresent|FlagCopyOnWrite)
				continue
			}
			run.Count("faults_expected_to_recover", 1)
			if pv != nil {
				c.Violation("cow-fault-panicked", map[string]interface{}{"fault": desc, "what": fmt.Sprintf("copy-on-write fault on a present read-only CoW page ended in a panic: %v", pv)})
				return
			}
			after := *leaf
			newFrame := mm.Frame((after & vmPhysMask) >> 12)
			handed := false
			for _, a := range m.allocLog {
				if a == newFrame {
					handed = true
				}
			}
			if !handed || newFrame == frameBefore || newFrame == zero {
				c.Violation("cow-no-fresh-frame", map[string]interface{}{"fault": desc, "what": fmt.Sprintf("after the fault the page maps frame %#x (before %#x); frames allocated during the call: %x", uint64(newFrame), uint64(frameBefore), m.allocLog)})
				return
			}
			wantFlags := (entryBefore &^ vmPhysMask &^ uint64(FlagCopyOnWrite)) | uint64(FlagRW|FlagPresent)
			if after&^vmPhysMask != wantFlags {
				c.Violation("cow-wrong-flags", map[string]interface{}{"fault": desc, "what": fmt.Sprintf("entry flags after the fault %#x, want %#x (writable, CoW cleared, other flags kept)", after&^vmPhysMask, wantFlags)})
				return
			}
			if !bytes.Equal(m.frameBytes(newFrame), shown) {
				c.Violation("cow-copy-wrong", map[string]interface{}{"fault": desc, "what": "the new frame's contents differ from what the page showed before the fault"})
				return
			}
			if !bytes.Equal(m.frameBytes(frameBefore), shown) {
				c.Violation("cow-source-modified", map[string]interface{}{"fault": desc, "what": "the original frame / the page's visible contents were modified by the handler"})
				return
			}
			if !c06ZeroFrameIsZero(m) {
				c.Violation("zero-frame-modified", map[string]interface{}{"fault": desc})
				return
			}
			for va, e := range others {
				if ne := m.leafEntry(m.cr3, va); ne == nil || *ne != e {
					c.Violation("other-page-changed", map[string]interface{}{"fault": desc, "what": fmt.Sprintf("entry of page %#x changed from %#x", va, e)})
					return
				}
			}
			if !m.flushed(p.va) {
				c.Violation("missing-tlb-flush", map[string]interface{}{"fault": desc, "what": fmt.Sprintf("flush log %x does not contain the page address", m.flushLog)})
				return
			}
			if _, l2, _ := m.translate(m.cr3, tempMappingAddr); l2 == 4 {
				run.Count("temp_mapping_left_present_after_fault(not demanded)", 1)
			}
			if frameBefore == zero {
				recoveredZero++
			}
			run.Count("bytes_compared", 4096*3)
			// the page is now private and writable: a second fault on it must panic (RW set)
			if r.Chance(1, 3) {
				pv2, _ := vlib.Protect(func() { pfHandler(&regs) })
				run.Count("faults_expected_to_panic", 1)
				if pv2 == nil {
					c.Violation("unrecoverable-fault-resumed", map[string]interface{}{"fault": desc, "what": "a second fault on the now writable private page was 'recovered' again"})
					return
				}
				nonRec++
			}
			// make it shared/CoW again sometimes so that it can fault again
			if r.Bool() {
				*leaf = uint64(zero.Address()) | uint64(FlagPresent|FlagCopyOnWrite)
			}
		}
		// general protection fault: always panics
		{
			regs := gate.Registers{Info: r.U64()}
			cr2 = r.U64()
			pv, _ := vlib.Protect(func() { gpfHandler(&regs) })
			run.Count("gpf_delivered", 1)
			if pv == nil {
				c.Violationf("gpf-resumed", "generalProtectionFaultHandler returned")
				return
			}
		}
		run.Count("cow_faults_recovered_on_zero_frame_pages", int64(recoveredZero))
		if recoveredZero >= 2 && nonRec >= 1 && injected >= 1 {
			run.Nontrivial(fp)
		}
		if run.WantSample() && recoveredZero >= 2 {
			run.Sample(map[string]interface{}{"pages": npages, "faults": sample})
		}
	})
}
