//go:build verif
// +build verif

package vmm

import (
	"encoding/binary"
	"fmt"
	"testing"

	"github.com/ProjectSerenity/firefly/kernel/mm"
	"github.com/ProjectSerenity/firefly/kernel/multiboot"
	"github.com/ProjectSerenity/firefly/kernel/zzverif/vlib"
)

// C05 — the kernel address space maps each loaded section exactly, W^X.
// The real vmm.Init (setupPDTForKernel + reserveZeroedFrame) runs on the
// software MMU with the real multiboot.VisitElfSections decoding a generated
// ELF-sections tag; the activated root is enumerated completely.

type c05Section struct {
	name  string
	addr  uint64
	size  uint64
	flags uint64 // ELF section flags: 1 writable, 2 allocated, 4 executable
}

var c05Arenas struct {
	info, strtab *vlib.Arena
}

func c05BuildInfo(secs []c05Section, strtabIdx int, r *vlib.Rand) uintptr {
	if c05Arenas.info == nil {
		c05Arenas.info = vlib.MustArena(0, 1<<17, false)
		c05Arenas.strtab = vlib.MustArena(0, 1<<14, false)
	}
	// string table: NUL-terminated names, first byte NUL
	var st []byte
	st = append(st, 0)
	nameOff := make([]uint32, len(secs))
	for i, s := range secs {
		nameOff[i] = uint32(len(st))
		st = append(st, s.name...)
		st = append(st, 0)
	}
	stAddr := c05Arenas.strtab.PlaceTail(st)
	secs[strtabIdx].addr = uint64(stAddr)
	secs[strtabIdx].size = uint64(len(st))

	n := len(secs)
	tagSize := 20 + 64*n
	total := 8 + ((tagSize + 7) &^ 7) + 8
	b := make([]byte, total)
	binary.LittleEndian.PutUint32(b[0:], uint32(total))
	binary.LittleEndian.PutUint32(b[8:], 9)
	binary.LittleEndian.PutUint32(b[12:], uint32(tagSize))
	binary.LittleEndian.PutUint32(b[16:], uint32(n))
	binary.LittleEndian.PutUint32(b[20:], 64)
	binary.LittleEndian.PutUint32(b[24:], uint32(strtabIdx))
	o := 28
	for i, s := range secs {
		binary.LittleEndian.PutUint32(b[o:], nameOff[i])
		binary.LittleEndian.PutUint32(b[o+4:], 1)
		binary.LittleEndian.PutUint64(b[o+8:], s.flags)
		binary.LittleEndian.PutUint64(b[o+16:], s.addr)
		binary.LittleEndian.PutUint64(b[o+24:], r.U64()) // file offset: irrelevant
		binary.LittleEndian.PutUint64(b[o+32:], s.size)
		o += 64
	}
	end := 8 + ((tagSize + 7) &^ 7)
	binary.LittleEndian.PutUint32(b[end+4:], 8)
	c05Arenas.info.Fill(0)
	return c05Arenas.info.PlaceTailAligned(b, 8, 0)
}

type c05Want struct {
	frame   uint64
	section int // -1: early reservation
}

func TestVerifC05(t *testing.T) {
	run := vlib.Start(t, "C05")
	defer run.Finish()
	run.SetRule("case = generated ELF-sections tag (0-12 page-disjoint sections of 1 byte .. 40 pages, aligned or not, all 8 flag combinations, below and above the kernel offset; one case in 100 with 1012-1400 empty section headers in front, so that the loaded sections sit at and beyond index 1024) + 0-6 early reservations of 1-20 pages (one case in 40: one of them 511-1100 pages, spanning whole page tables) made through the real EarlyReserveRegion+Map, then the real vmm.Init(offset) on the software MMU, optionally with the frame allocator failing at the k-th request. non-trivial = Init succeeded with >=2 mapped sections of differing W/X flags, >=1 section below the offset and >=1 early reservation; distinct = fingerprint of (offset, sections, reservations)")
	run.Assume("sections do not share a page with one another (as the linker script lays them out); section flags beyond W/A/X are zero; privileged instructions stubbed at the seams as in C04")
	m := vmNewMMU()
	restore := m.install()
	defer restore()
	defer multiboot.SetInfoPtr(0)

	offsets := []uint64{0xffff800000000000, 0xffff800000000000, 0xffffff0000000000, 0x40000000, 0x100000000000, 0xffff900000000000, 0}
	n := run.N(6000, 600000)
	run.Cases(n, func(c *vlib.Case) {
		r := c.R
		m.reset()
		offset := offsets[r.Intn(len(offsets))]
		nsec := r.Range(0, 12)
		var secs []c05Section
		cur := offset + uint64(r.Intn(512))*4096 + 0x100000
		if r.Chance(1, 4) {
			cur = offset // first section starts exactly at the kernel offset
		}
		below := uint64(0x100000)
		fp := vlib.NewFP().U64(offset)
		for i := 0; i < nsec; i++ {
			var size uint64
			switch r.Intn(6) {
			case 0:
				size = 1
			case 1:
				size = uint64(r.PickInt([]int{4095, 4096, 4097, 8192}))
			case 2:
				size = uint64(r.Range(1, 40)) * 4096
			default:
				size = uint64(r.Range(1, 40*4096))
			}
			mis := uint64(0)
			if r.Bool() && !(i == 0 && cur == offset) {
				mis = uint64(r.Intn(4096))
			}
			fl := uint64(r.Intn(8))
			s := c05Section{name: fmt.Sprintf(".s%d", i), size: size, flags: fl}
			if offset > 0x200000 && r.Chance(1, 4) {
				// below the kernel's virtual range (e.g. boot-time identity-mapped sections)
				s.addr = below + mis
				below = (s.addr + size + 4095) &^ 4095
				below += uint64(r.Intn(3)) * 4096
			} else {
				s.addr = cur + mis
				cur = (s.addr + size + 4095) &^ 4095
				cur += uint64(r.Intn(3)) * 4096
				if r.Chance(1, 6) {
					cur += uint64(r.Intn(1<<18)) * 4096 // jump to other page tables
				}
			}
			secs = append(secs, s)
			fp = fp.U64(s.addr).U64(s.size).U64(s.flags)
		}
		strtabIdx := len(secs)
		secs = append(secs, c05Section{name: ".shstrtab", flags: 0})
		if r.Bool() && len(secs) > 1 { // string table anywhere in the list
			j := r.Intn(len(secs))
			secs[j], secs[strtabIdx] = secs[strtabIdx], secs[j]
			strtabIdx = j
		}
		if r.Chance(1, 100) {
			// a kernel linked with a section per function: more than a thousand headers, most of them
			// empty here, the loaded sections at and beyond index 1024
			k := r.Range(1024-len(secs), 1030)
			if r.Chance(1, 3) {
				k = r.Range(1031, 1400)
			}
			many := make([]c05Section, k, k+len(secs))
			secs = append(many, secs...)
			strtabIdx += k
			run.Count("section_tables_with_more_than_1024_headers", 1)
		}
		multiboot.SetInfoPtr(c05BuildInfo(secs, strtabIdx, r))

		// early reservations in the boot address space
		earlyReserveLastUsed = tempMappingAddr
		nres := r.Range(0, 6)
		reserved := map[uintptr]uint64{}
		bigIdx := -1
		if nres > 0 && r.Chance(1, 40) {
			bigIdx = r.Intn(nres)
		}
		for i := 0; i < nres; i++ {
			pages := r.Range(1, 20)
			if i == bigIdx {
				// a region that spans whole page tables (e.g. allocator bitmaps on a large machine)
				pages = r.PickInt([]int{511, 512, 513, 600, 1023, 1024, 1100})
				run.Count("reservations_spanning_a_whole_page_table", 1)
			}
			addr, err := EarlyReserveRegion(uintptr(pages) * 4096)
			if err != nil {
				c.Violationf("early-reserve-failed", "EarlyReserveRegion: %v", err)
				return
			}
			for k := 0; k < pages; k++ {
				fr := c04GenFrame(r) & ((1 << 40) - 1)
				va := addr + uintptr(k)*4096
				if e := Map(mm.PageFromAddress(va), mm.Frame(fr), FlagPresent|FlagRW); e != nil {
					c.Violationf("boot-map-failed", "Map in boot space: %v", e)
					return
				}
				reserved[va] = fr
			}
			fp = fp.Int(pages)
			if r.Chance(1, 4) {
				// a request that cannot fit is part of the reservation history too: it is refused and
				// must leave what was reserved before it untouched (the refusal itself is C07's business)
				big := r.PickU64([]uint64{^uint64(0) - 4096, ^uint64(0) - uint64(r.Intn(1<<26))<<12, uint64(earlyReserveLastUsed) + 4096, uint64(earlyReserveLastUsed) + 1})
				_, _ = EarlyReserveRegion(uintptr(big))
				run.Count("refused_reservations_in_history", 1)
			}
		}
		bootRoot := m.cr3

		// expected leaves of the new address space
		want := map[uintptr]c05Want{}
		mappedSecs, belowSecs := 0, 0
		flagKinds := map[uint64]bool{}
		for i, s := range secs {
			if s.size == 0 {
				continue
			}
			if s.addr < offset {
				belowSecs++
				continue
			}
			mappedSecs++
			flagKinds[s.flags&5] = true
			first := s.addr &^ 4095
			last := (s.addr + s.size - 1) &^ 4095
			for pa := first; ; pa += 4096 {
				want[uintptr(pa)] = c05Want{frame: (pa - offset) >> 12, section: i}
				if pa == last {
					break
				}
			}
		}
		for va, fr := range reserved {
			if _, clash := want[va]; clash {
				return // generated layout overlaps (cannot happen with the offsets above)
			}
			want[va] = c05Want{frame: fr, section: -1}
		}

		// how many allocations will Init need? run with an injected failure for a third of the cases
		failAt := 0
		if r.Chance(1, 3) {
			failAt = r.Range(1, 12)
		}
		c.Begin(map[string]interface{}{"offset": fmt.Sprintf("%#x", offset), "sections": len(secs), "reservations": len(reserved), "fail_alloc_at": failAt})
		m.failAt = failAt
		m.allocN = 0
		if failAt == 0 && r.Chance(1, 40) {
			// the first frame Init asks for - the new top-level table - is physical frame 0
			m.zeroNext = true
			run.Count("kernel_page_directory_in_physical_frame_0", 1)
		}
		var ierr interface{}
		pv, stack := vlib.Protect(func() {
			if e := Init(uintptr(offset)); e != nil {
				ierr = e
			}
		})
		injected := failAt > 0 && m.failAt == 0 // the failing request was reached
		m.failAt = 0
		if pv != nil {
			c.Violation("init-panicked", map[string]interface{}{"panic": fmt.Sprint(pv), "stack": stack, "fail_alloc_at": failAt})
			return
		}
		sigs, msgs := m.takeProblems()
		for i := range sigs {
			c.Violationf(sigs[i], "%s", msgs[i])
		}
		if injected {
			run.Count("init_with_injected_alloc_failure", 1)
			if ierr != vmAllocErr {
				c.Violationf("alloc-error-not-returned", "frame allocator failed at request %d but Init returned %v", failAt, ierr)
			}
			// whichever address space is active now - the boot one, or the new one when only the last request
			// (the zeroed frame, after activation) was refused - what was reserved and mapped earlier is still
			// there: "keep their translations" does not depend on the bring-up getting finished
			if ierr != nil {
				if m.cr3 != bootRoot {
					run.Count("init_failed_after_activation", 1)
				}
				for va, fr := range reserved {
					if got, terr := Translate(va); terr != nil || uint64(got) != fr<<12 {
						c.Violationf("reservation-lost-after-failed-init", "Init returned %v (allocator refused request %d); early-reserved page %#x (frame %#x) now translates to (%#x, %v) in the address space that is still active", ierr, failAt, va, fr, got, terr)
						return
					}
					run.Count("reserved_pages_checked_after_failed_init", 1)
				}
				for _, msg := range func() []string { _, ms := m.takeProblems(); return ms }() {
					c.Violationf("reservation-lost-after-failed-init", "translating the reserved pages after the failed Init: %s", msg)
					return
				}
			}
			run.Nontrivial(fp.Int(failAt))
			return
		}
		if ierr != nil {
			c.Violationf("init-failed", "Init returned %v", ierr)
			return
		}
		run.Count("init_ok", 1)
		// activation
		if m.cr3 == bootRoot || m.cr3 != kernelPDT.pdtFrame.Address() {
			c.Violationf("not-activated", "after Init cr3=%#x, boot root %#x, kernel PDT %#x", m.cr3, bootRoot, kernelPDT.pdtFrame.Address())
			return
		}
		leaves, _, problems, _ := m.enumerate(m.cr3)
		for _, p := range problems {
			c.Violationf("table-structure", "%s", p)
		}
		got := map[uintptr]uint64{}
		for _, lf := range leaves {
			got[lf.va] = lf.entry
		}
		for va, w := range want {
			e, ok := got[va]
			if !ok {
				if w.section >= 0 {
					c.Violationf("section-page-not-mapped", "page %#x of section %d (addr %#x size %#x) is not mapped in the kernel address space", va, w.section, secs[w.section].addr, secs[w.section].size)
				} else {
					c.Violationf("reservation-lost", "early-reserved page %#x (frame %#x) is not mapped in the kernel address space", va, w.frame)
				}
				return
			}
			if (e&vmPhysMask)>>12 != w.frame {
				c.Violationf("wrong-frame", "page %#x maps frame %#x, want %#x (section %d)", va, (e&vmPhysMask)>>12, w.frame, w.section)
				return
			}
			if e&uint64(FlagUserAccessible) != 0 {
				c.Violationf("user-accessible", "page %#x is user-accessible (entry %#x)", va, e)
				return
			}
			if w.section >= 0 {
				s := secs[w.section]
				if e&uint64(FlagRW) != 0 && s.flags&1 == 0 {
					c.Violationf("writable-but-section-readonly", "page %#x of read-only section %d (flags %#x) is mapped writable (entry %#x)", va, w.section, s.flags, e)
					return
				}
				if e>>63 == 0 && s.flags&4 == 0 {
					c.Violationf("executable-but-section-not-executable", "page %#x of non-executable section %d (flags %#x) is mapped executable (entry %#x)", va, w.section, s.flags, e)
					return
				}
				if e&uint64(FlagRW) == 0 && s.flags&1 != 0 {
					run.Count("writable_section_page_mapped_readonly(not demanded)", 1)
				}
				if e>>63 != 0 && s.flags&4 != 0 {
					run.Count("executable_section_page_mapped_nx(not demanded)", 1)
				}
			}
		}
		for va, e := range got {
			if _, ok := want[va]; !ok {
				c.Violationf("unexpected-mapping", "page %#x is mapped (entry %#x) but belongs to no section in the kernel's range and to no early reservation", va, e)
				return
			}
		}
		run.Count("section_pages_checked", int64(len(want)-len(reserved)))
		run.Count("reserved_pages_checked", int64(len(reserved)))
		run.Count("sections_below_offset", int64(belowSecs))
		run.SetAdd("offsets", fmt.Sprintf("%#x", offset))
		// the zero frame set up by Init must really be zero
		zb := m.frameBytes(ReservedZeroedFrame)
		for i := range zb {
			if zb[i] != 0 {
				c.Violationf("zero-frame-not-zero", "reserved zero frame %#x has byte %#x at offset %d", uint64(ReservedZeroedFrame), zb[i], i)
				break
			}
		}
		if mappedSecs >= 2 && len(flagKinds) >= 2 && belowSecs >= 1 && len(reserved) >= 1 {
			run.Nontrivial(fp)
		}
		if run.WantSample() && mappedSecs >= 2 {
			var sl []string
			for _, s := range secs {
				sl = append(sl, fmt.Sprintf("%s addr=%#x size=%#x flags=%d", s.name, s.addr, s.size, s.flags))
			}
			run.Sample(map[string]interface{}{"offset": fmt.Sprintf("%#x", offset), "sections": sl, "reserved_pages": len(reserved), "leaves_in_new_space": len(leaves)})
		}
	})
}
