//go:build verif
// +build verif

package vmm

import (
	"fmt"
	"math/bits"
	"testing"

	"github.com/ProjectSerenity/firefly/kernel"
	"github.com/ProjectSerenity/firefly/kernel/mm"
	"github.com/ProjectSerenity/firefly/kernel/zzverif/vlib"
)

// C07 — early virtual-region reservations never overlap and never wrap;
// region mapping maps exactly ceil(size/4096) consecutive pages→frames.
//
// Oracle: a 65-bit reference cursor (hi bit kept separately) so that the
// rounding of the request can never wrap in the oracle itself.

const c07PageSize = uint64(4096)

// roundUp65 returns roundup(size, 4096) as (carry, low).
func c07RoundUp65(size uint64) (uint64, uint64) {
	lo, carry := bits.Add64(size, c07PageSize-1, 0)
	lo &^= c07PageSize - 1
	return carry, lo
}

type c07Triple struct {
	page  mm.Page
	frame mm.Frame
	flags PageTableEntryFlag
}

var c07SeamErr = &kernel.Error{Module: "verif", Message: "map seam: stop"}

func c07Sizes(r *vlib.Rand, cursor uint64) uint64 {
	switch r.Intn(16) {
	case 0:
		return 0
	case 1:
		return 1
	case 2:
		return 4095
	case 3:
		return 4096
	case 4:
		return 4097
	case 5:
		return cursor // exact remaining space
	case 6:
		return cursor + 1
	case 7:
		return cursor - uint64(r.Intn(4097))
	case 8:
		return 1 << 63
	case 9:
		return ^uint64(0) - 4096 + uint64(r.Intn(4097)) // 2^64-4097 .. 2^64-1
	case 10:
		return ^uint64(0) - uint64(r.Intn(3))
	case 11:
		return r.U64()
	case 12:
		return uint64(r.Intn(64)) * 4096
	case 13:
		return cursor/2 + uint64(r.Intn(8192))
	default:
		return uint64(r.Intn(40 * 4096))
	}
}

// c07Frame draws a start frame: any magnitude, and one time in five the first frames of physical memory
// (start page + page count has its smallest values there).
func c07Frame(r *vlib.Rand) mm.Frame {
	if r.Intn(5) == 0 {
		return mm.Frame(r.Intn(3))
	}
	return mm.Frame(r.U64() >> uint(12+r.Intn(40)))
}

func TestVerifC07(t *testing.T) {
	run := vlib.Start(t, "C07")
	defer run.Finish()
	run.SetRule("case = sequence of 1-200 EarlyReserveRegion/MapRegion/IdentityMapRegion requests from a generated start cursor; sizes drawn from {0,1,4095,4096,4097,remaining,remaining+1,2^63,2^64-4097..2^64-1,random}; non-trivial = sequence containing at least one success, one refusal and one region-map call; distinct = fingerprint of (cursor, request list)")
	run.Assume("the map seam (mapFn) stands in for Map; it aborts a region mapping after 65536 pages so that giant sizes terminate, the oracle then checks the prefix only")

	defer func(c uintptr) {
		earlyReserveLastUsed = c
		mapFn = Map
		unmapFn = Unmap
		earlyReserveRegionFn = EarlyReserveRegion
	}(earlyReserveLastUsed)
	// there are no page tables behind this run: an unmap request (the shipped region functions make none) is
	// counted and answered with success instead of walking tables that do not exist
	unmapFn = func(mm.Page) *kernel.Error {
		run.Count("unmap_requests_seen_by_the_seam", 1)
		return nil
	}

	n := run.N(600, 30000)
	run.Cases(n, func(c *vlib.Case) {
		r := c.R
		var start uint64
		switch r.Intn(6) {
		case 0:
			start = uint64(tempMappingAddr)
		case 1:
			start = uint64(r.Intn(64)) * 4096
		case 2:
			start = uint64(r.Intn(1<<20)) * 4096
		case 3:
			start = (r.U64() &^ 4095)
		case 4:
			start = 4096
		default:
			start = uint64(tempMappingAddr) - uint64(r.Intn(1000))*4096
		}
		nreq := r.Range(1, 200)
		c.Begin(map[string]interface{}{"start_cursor": fmt.Sprintf("%#x", start), "requests": nreq})
		earlyReserveLastUsed = uintptr(start)
		earlyReserveRegionFn = EarlyReserveRegion

		var triples []c07Triple
		limit := 1 << 16
		mapFn = func(p mm.Page, f mm.Frame, fl PageTableEntryFlag) *kernel.Error {
			if len(triples) >= limit {
				return c07SeamErr
			}
			triples = append(triples, c07Triple{p, f, fl})
			return nil
		}

		cursor := start   // reference cursor
		lowest := start   // lowest address handed out so far (== cursor in a correct implementation)
		fp := vlib.NewFP().U64(start)
		succ, refused, mapped := 0, 0, 0
		var sampleOps []string

		for i := 0; i < nreq; i++ {
			size := c07Sizes(r, cursor)
			kind := r.Intn(5) // 0,1: reserve; 2,3: MapRegion; 4: IdentityMapRegion
			fp = fp.U64(size).Int(kind)
			carry, rounded := c07RoundUp65(size)
			fits := carry == 0 && rounded <= cursor
			mustSucceed := carry == 0 && rounded < cursor
			switch {
			case kind <= 1:
				before := earlyReserveLastUsed
				addr, err := EarlyReserveRegion(uintptr(size))
				if len(sampleOps) < 8 {
					sampleOps = append(sampleOps, fmt.Sprintf("reserve(%#x)->(%#x,%v)", size, addr, err != nil))
				}
				if err != nil {
					refused++
					run.Count("reserve_refused", 1)
					if mustSucceed {
						c.Violationf("reserve-refused-but-fits", "cursor=%#x size=%#x: refused although the rounded size %#x fits", cursor, size, rounded)
					}
					if earlyReserveLastUsed != before {
						c.Violationf("refusal-moved-cursor", "cursor=%#x size=%#x: refusal changed the cursor to %#x", cursor, size, uint64(earlyReserveLastUsed))
						return
					}
					continue
				}
				succ++
				run.Count("reserve_ok", 1)
				if !fits {
					c.Violationf("reserve-succeeded-but-does-not-fit", "cursor=%#x size=%#x (rounded 65-bit: carry=%d %#x): reservation succeeded with address %#x", cursor, size, carry, rounded, uint64(addr))
					return
				}
				a := uint64(addr)
				if a&4095 != 0 {
					c.Violationf("unaligned", "cursor=%#x size=%#x: address %#x not page aligned", cursor, size, a)
				}
				// region [a, a+size) must lie below everything reserved before and below the temp mapping page
				end, ov := bits.Add64(a, size, 0)
				if ov != 0 || end > lowest || end > uint64(tempMappingAddr) {
					c.Violationf("overlap", "cursor=%#x size=%#x: region [%#x,+%#x) is not entirely below earlier reservations (lowest %#x)", cursor, size, a, size, lowest)
					return
				}
				if a != cursor-rounded {
					// not demanded by the statement (any lower placement is non-overlapping); counted, not flagged
					run.Count("placement_differs_from_reference", 1)
				}
				lowest = a
				cursor = a
				if uint64(earlyReserveLastUsed) > a {
					c.Violationf("cursor-above-region", "after reserving [%#x,...) the cursor is %#x", a, uint64(earlyReserveLastUsed))
					return
				}
				cursor = uint64(earlyReserveLastUsed)
				lowest = cursor
			case kind <= 3:
				triples = triples[:0]
				frame := c07Frame(r)
				flags := PageTableEntryFlag(r.U64()) & (FlagPresent | FlagRW | FlagNoExecute | FlagCopyOnWrite | FlagGlobal)
				before := earlyReserveLastUsed
				pg, err := MapRegion(frame, uintptr(size), flags)
				mapped++
				if len(sampleOps) < 8 {
					sampleOps = append(sampleOps, fmt.Sprintf("MapRegion(frame=%#x,size=%#x)->(page=%#x,err=%v,%d map calls)", uint64(frame), size, uint64(pg), err != nil, len(triples)))
				}
				if err != nil && err != c07SeamErr {
					refused++
					run.Count("mapregion_refused", 1)
					if mustSucceed {
						c.Violationf("mapregion-refused-but-fits", "cursor=%#x size=%#x refused", cursor, size)
					}
					if len(triples) != 0 {
						c.Violationf("mapregion-mapped-on-failure", "cursor=%#x size=%#x: reservation failed but %d pages were mapped", cursor, size, len(triples))
					}
					if earlyReserveLastUsed != before {
						c.Violationf("refusal-moved-cursor", "MapRegion refusal changed the cursor")
						return
					}
					continue
				}
				if !fits {
					c.Violationf("mapregion-succeeded-but-does-not-fit", "cursor=%#x size=%#x (carry=%d rounded=%#x): MapRegion reported success (page %#x, %d pages mapped)", cursor, size, carry, rounded, uint64(pg), len(triples))
					return
				}
				succ++
				run.Count("mapregion_ok", 1)
				wantPages := rounded / 4096
				startAddr := uint64(earlyReserveLastUsed)
				if err == nil {
					if uint64(len(triples)) != wantPages {
						c.Violationf("mapregion-page-count", "size=%#x: %d pages mapped, want %d", size, len(triples), wantPages)
						return
					}
					if uint64(pg.Address()) != startAddr {
						c.Violationf("mapregion-start", "returned page %#x but the reservation starts at %#x", uint64(pg.Address()), startAddr)
					}
				} else if uint64(len(triples)) != uint64(limit) || wantPages < uint64(limit) {
					c.Violationf("mapregion-seam-error", "seam error surfaced after %d pages, want %d", len(triples), wantPages)
					return
				}
				endA, ov := bits.Add64(startAddr, rounded, 0)
				if startAddr&4095 != 0 || ov != 0 || endA > lowest {
					c.Violationf("overlap", "MapRegion: region [%#x,+%#x) overlaps earlier reservations (lowest %#x)", startAddr, rounded, lowest)
					return
				}
				for k, tr := range triples {
					if uint64(tr.page) != startAddr/4096+uint64(k) || uint64(tr.frame) != uint64(frame)+uint64(k) || tr.flags != flags {
						c.Violationf("mapregion-triple", "triple %d = (page %#x, frame %#x, flags %#x), want (page %#x, frame %#x, flags %#x)", k, uint64(tr.page), uint64(tr.frame), uint64(tr.flags), startAddr/4096+uint64(k), uint64(frame)+uint64(k), uint64(flags))
						return
					}
				}
				run.Count("triples_checked", int64(len(triples)))
				cursor, lowest = startAddr, startAddr
			default:
				triples = triples[:0]
				frame := c07Frame(r)
				flags := PageTableEntryFlag(r.U64()) & (FlagPresent | FlagRW | FlagNoExecute)
				before := earlyReserveLastUsed
				pg, err := IdentityMapRegion(frame, uintptr(size), flags)
				mapped++
				run.Count("identitymap_calls", 1)
				if earlyReserveLastUsed != before {
					c.Violationf("identitymap-moved-cursor", "IdentityMapRegion changed the reservation cursor")
				}
				wantPages := rounded/4096 + carry<<52
				if err == nil {
					if uint64(len(triples)) != wantPages {
						c.Violationf("identitymap-page-count", "IdentityMapRegion(frame=%#x,size=%#x): %d pages mapped, want %d", uint64(frame), size, len(triples), wantPages)
						return
					}
					if pg != mm.Page(frame) {
						c.Violationf("identitymap-start", "returned page %#x want %#x", uint64(pg), uint64(frame))
					}
				} else if err != c07SeamErr || uint64(len(triples)) != uint64(limit) || wantPages < uint64(limit) {
					c.Violationf("identitymap-error", "unexpected error %v after %d pages (want %d)", err, len(triples), wantPages)
					return
				}
				for k, tr := range triples {
					if uint64(tr.page) != uint64(frame)+uint64(k) || uint64(tr.frame) != uint64(frame)+uint64(k) || tr.flags != flags {
						c.Violationf("identitymap-triple", "triple %d = (page %#x, frame %#x, flags %#x) for start frame %#x", k, uint64(tr.page), uint64(tr.frame), uint64(tr.flags), uint64(frame))
						return
					}
				}
				run.Count("triples_checked", int64(len(triples)))
				if len(sampleOps) < 8 {
					sampleOps = append(sampleOps, fmt.Sprintf("IdentityMapRegion(frame=%#x,size=%#x)->%d map calls", uint64(frame), size, len(triples)))
				}
			}
			if carry != 0 {
				run.Count("requests_whose_rounding_exceeds_64_bits", 1)
			}
			if cursor == 0 {
				run.Count("address_space_exhausted", 1)
			}
		}
		if succ > 0 && refused > 0 && mapped > 0 {
			run.Nontrivial(fp)
		}
		if run.WantSample() && succ > 0 && refused > 0 {
			run.Sample(map[string]interface{}{"start_cursor": fmt.Sprintf("%#x", start), "first_ops": sampleOps})
		}
	})
}
