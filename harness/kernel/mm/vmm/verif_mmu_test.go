//go:build verif
// +build verif

package vmm

import (
	"fmt"
	"sort"
	"unsafe"

	"github.com/ProjectSerenity/firefly/kernel"
	"github.com/ProjectSerenity/firefly/kernel/cpu"
	"github.com/ProjectSerenity/firefly/kernel/gate"
	"github.com/ProjectSerenity/firefly/kernel/mm"
	"github.com/ProjectSerenity/firefly/kernel/multiboot"
	"github.com/ProjectSerenity/firefly/kernel/zzverif/vlib"
)

// Software MMU for the vmm harnesses (C04, C05, C06).
//
// "Physical memory" is an mmap'ed arena; frame number = host address >> 12,
// so the places where the kernel dereferences a physical address directly
// (PageDirectoryTable.Map touching the active root's last entry) work
// unmodified. The harness owns cr3, the frame allocator and a 4-level walker
// that interprets the tables exactly as the MMU would. ptePtrFn(va) is
// implemented by *translating the recursive virtual address through the
// walker from the current cr3*, so the recursive-mapping arithmetic in walk()
// is really exercised, including the temporary retargeting of entry 511.

const (
	vmPresent  = uint64(1)
	vmHuge     = uint64(1 << 7)
	vmPhysMask = uint64(0x000ffffffffff000)
	vmJunk     = byte(0xA5)
)

var vmAllocErr = &kernel.Error{Module: "verif", Message: "frame allocator: injected failure"}
var vmExhaustedErr = &kernel.Error{Module: "verif", Message: "frame allocator: arena exhausted"}

type vmMMU struct {
	arena    *vlib.Arena
	nframes  int
	next     int // bump pointer (frame index inside the arena)
	cr3      uintptr
	allocLog []mm.Frame
	allocN   int
	allocSeq int // AllocFrame calls answered with a frame since reset (decides what the frame holds)
	// Physical frame 0 is a frame like any other (the first available region of a PC starts there), but host
	// page 0 cannot back it. One arena page per case stands in for it: when zeroNext is set the next AllocFrame
	// answers with frame number 0, and from then on every access to physical page 0 goes to that page.
	zeroAlias  uintptr
	zeroNext   bool
	zeroHanded bool
	failAt   int // fail the failAt-th AllocFrame call from now (1-based); 0 = never
	flushLog []uintptr
	switches int

	lastEntryVA   uintptr // argument of the last ptePtrFn call
	lastEntryHost uintptr // what it returned
	scratch       [8]uint64

	tempActive bool
	tempFrame  mm.Frame

	handlers map[gate.InterruptNumber]func(*gate.Registers) // what the code under test registered through handleInterruptFn

	problems []string // MMU-level faults noticed by the seams (reported by the harness as violations)
	problemSigs []string
}

var vmArena *vlib.Arena

const vmArenaFrames = 2048

func vmNewMMU() *vmMMU {
	if vmArena == nil {
		vmArena = vlib.MustArena(0, vmArenaFrames*4096, false)
	}
	m := &vmMMU{arena: vmArena, nframes: vmArenaFrames}
	return m
}

func (m *vmMMU) problem(sig, format string, a ...interface{}) {
	if len(m.problems) < 8 {
		m.problems = append(m.problems, fmt.Sprintf(format, a...))
		m.problemSigs = append(m.problemSigs, sig)
	}
}

func (m *vmMMU) inArena(phys uintptr) bool { return m.arena.Contains(phys, 4096) }

// frameBytes returns the 4 KiB of a physical frame (must be inside the arena).
func (m *vmMMU) frameBytes(f mm.Frame) []byte { return vlib.BytesAt(f.Address(), 4096) }

// host is the host address that backs a physical address.
func (m *vmMMU) host(phys uintptr) uintptr {
	if phys>>12 == 0 && m.zeroHanded {
		return m.zeroAlias + phys&0xfff
	}
	return phys
}

func (m *vmMMU) allocFrame() (mm.Frame, *kernel.Error) {
	m.allocN++
	if m.failAt > 0 {
		m.failAt--
		if m.failAt == 0 {
			return mm.InvalidFrame, vmAllocErr
		}
	}
	if m.zeroNext && !m.zeroHanded && m.zeroAlias != 0 {
		m.zeroNext, m.zeroHanded = false, true
		b := vlib.BytesAt(m.zeroAlias, 4096)
		for i := range b {
			b[i] = vmJunk
		}
		for i := uintptr(0); i < 512; i += 3 {
			*vmEntryAt(m.zeroAlias, i) = uint64(m.arena.Base+(i%uintptr(m.nframes))<<12) | 0x63
		}
		m.allocLog = append(m.allocLog, mm.Frame(0))
		return mm.Frame(0), nil
	}
	if m.next >= m.nframes {
		return mm.InvalidFrame, vmExhaustedErr
	}
	f := mm.Frame((m.arena.Base >> 12) + uintptr(m.next))
	m.next++
	// hand out junk: a table that is not cleared by the code under test is immediately visible
	b := m.frameBytes(f)
	for i := range b {
		b[i] = vmJunk
	}
	// every third frame comes back from an earlier life as a page table (released without scrubbing):
	// entries that look present, and a last entry that maps the frame itself as a former root's does
	if m.allocSeq++; m.allocSeq%3 == 0 {
		x := uint64(m.allocSeq)*0x9E3779B97F4A7C15 + uint64(f)
		for i := uintptr(0); i < 512; i++ {
			x ^= x << 13
			x ^= x >> 7
			x ^= x << 17
			switch x & 3 {
			case 0:
				*vmEntryAt(f.Address(), i) = 0
			case 1:
				*vmEntryAt(f.Address(), i) = (x>>8)<<12&0x000ffffffffff000 | 3
			default:
				*vmEntryAt(f.Address(), i) = (uint64(m.arena.Base)+((x>>8)%uint64(m.nframes))<<12)&0x000ffffffffff000 | 0x63
			}
		}
		*vmEntryAt(f.Address(), 511) = uint64(f.Address()) | []uint64{3, 0x23, 0x63}[m.allocSeq/3%3]
	}
	m.allocLog = append(m.allocLog, f)
	return f, nil
}

// rawAlloc is used by the harness itself (boot root, data frames); not logged.
func (m *vmMMU) rawAlloc(fill byte) mm.Frame {
	if m.next >= m.nframes {
		panic("verif: arena exhausted")
	}
	f := mm.Frame((m.arena.Base >> 12) + uintptr(m.next))
	m.next++
	b := m.frameBytes(f)
	for i := range b {
		b[i] = fill
	}
	return f
}

func vmEntryAt(table uintptr, idx uintptr) *uint64 {
	return (*uint64)(unsafe.Pointer(table + idx*8))
}

func vmIndices(va uintptr) [4]uintptr {
	return [4]uintptr{(va >> 39) & 511, (va >> 30) & 511, (va >> 21) & 511, (va >> 12) & 511}
}

// translate walks va from root as the MMU would for a data access.
// level = number of levels successfully traversed (4 = mapped).
func (m *vmMMU) translate(root uintptr, va uintptr) (phys uintptr, level int, why string) {
	table := root
	ix := vmIndices(va)
	for lvl := 0; lvl < 4; lvl++ {
		if !m.inArena(m.host(table)) {
			return 0, lvl, fmt.Sprintf("level-%d table at physical %#x is outside physical memory", lvl, table)
		}
		e := *vmEntryAt(m.host(table), ix[lvl])
		if e&vmPresent == 0 {
			return 0, lvl, "not present"
		}
		if lvl < 3 && e&vmHuge != 0 {
			return 0, lvl, "huge page entry"
		}
		table = uintptr(e & vmPhysMask)
	}
	return table + (va & 0xfff), 4, ""
}

// leafEntry returns the host pointer of the level-3 entry for va, or nil when
// an upper level is missing.
func (m *vmMMU) leafEntry(root uintptr, va uintptr) *uint64 {
	table := root
	ix := vmIndices(va)
	for lvl := 0; lvl < 3; lvl++ {
		if !m.inArena(m.host(table)) {
			return nil
		}
		e := *vmEntryAt(m.host(table), ix[lvl])
		if e&vmPresent == 0 || e&vmHuge != 0 {
			return nil
		}
		table = uintptr(e & vmPhysMask)
	}
	if !m.inArena(m.host(table)) {
		return nil
	}
	return vmEntryAt(m.host(table), ix[3])
}

// missingLevels counts the table levels that do not exist yet on the path to va.
func (m *vmMMU) missingLevels(root uintptr, va uintptr) int {
	table := root
	ix := vmIndices(va)
	for lvl := 0; lvl < 3; lvl++ {
		e := *vmEntryAt(m.host(table), ix[lvl])
		if e&vmPresent == 0 {
			return 3 - lvl
		}
		table = uintptr(e & vmPhysMask)
		if !m.inArena(m.host(table)) {
			return 0
		}
	}
	return 0
}

func vmCanon(i4, i3, i2, i1 uintptr) uintptr {
	va := i4<<39 | i3<<30 | i2<<21 | i1<<12
	if i4 >= 256 {
		va |= 0xffff000000000000
	}
	return va
}

type vmLeaf struct {
	va    uintptr
	entry uint64
}

// enumerate returns every present leaf of the address space rooted at root
// (recursive slot 511 of the top level excluded) plus a list of structural
// problems (garbage in tables, table pointers outside physical memory, a
// table reachable twice).
func (m *vmMMU) enumerate(root uintptr) (leaves []vmLeaf, nonPresentNonZero map[uintptr]uint64, problems []string, tables int) {
	nonPresentNonZero = map[uintptr]uint64{}
	seen := map[uintptr]bool{root: true}
	var rec func(table uintptr, lvl int, idx [4]uintptr)
	rec = func(table uintptr, lvl int, idx [4]uintptr) {
		tables++
		for i := uintptr(0); i < 512; i++ {
			if lvl == 0 && i == 511 {
				continue
			}
			e := *vmEntryAt(m.host(table), i)
			if e == 0 {
				continue
			}
			idx[lvl] = i
			if lvl == 3 {
				va := vmCanon(idx[0], idx[1], idx[2], idx[3])
				if e&vmPresent != 0 {
					leaves = append(leaves, vmLeaf{va, e})
				} else {
					nonPresentNonZero[va] = e
				}
				continue
			}
			if e&vmPresent == 0 {
				if len(problems) < 5 {
					problems = append(problems, fmt.Sprintf("level-%d table %#x entry %d holds non-zero non-present value %#x", lvl, table, i, e))
				}
				continue
			}
			if e&vmHuge != 0 {
				if len(problems) < 5 {
					problems = append(problems, fmt.Sprintf("level-%d table %#x entry %d has the huge-page bit set (%#x): garbage in a page table", lvl, table, i, e))
				}
				continue
			}
			if e&3 != 3 || e>>63 != 0 {
				// an upper-level entry without RW (or with NX) restricts every page below it,
				// so the leaf's requested permission bits would not be the effective ones
				if len(problems) < 5 {
					problems = append(problems, fmt.Sprintf("level-%d table %#x entry %d = %#x restricts the permissions of every page below it (needs present+writable, no NX)", lvl, table, i, e))
				}
			}
			next := uintptr(e & vmPhysMask)
			if !m.inArena(m.host(next)) {
				if len(problems) < 5 {
					problems = append(problems, fmt.Sprintf("level-%d table %#x entry %d points to %#x outside physical memory", lvl, table, i, next))
				}
				continue
			}
			if seen[next] {
				if len(problems) < 5 {
					problems = append(problems, fmt.Sprintf("table frame %#x is reachable through more than one entry", next))
				}
				continue
			}
			seen[next] = true
			rec(next, lvl+1, idx)
		}
	}
	if !m.inArena(m.host(root)) {
		return nil, nil, []string{fmt.Sprintf("root %#x outside physical memory", root)}, 0
	}
	rec(root, 0, [4]uintptr{})
	sort.Slice(leaves, func(i, j int) bool { return leaves[i].va < leaves[j].va })
	return
}

// install points every hardware seam of package vmm (and mm's allocator) at this MMU.
func (m *vmMMU) install() (restore func()) {
	oPte, oNext, oFlush, oActive, oSwitch := ptePtrFn, nextAddrFn, flushTLBEntryFn, activePDTFn, switchPDTFn
	oMap, oMapTmp, oUnmap, oTranslate, oCR2, oVisit, oHandle, oEarly := mapFn, mapTemporaryFn, unmapFn, translateFn, readCR2Fn, visitElfSectionsFn, handleInterruptFn, earlyReserveRegionFn
	oCursor, oZero, oProtect, oKPDT := earlyReserveLastUsed, ReservedZeroedFrame, protectReservedZeroedPage, kernelPDT

	ptePtrFn = func(entryAddr uintptr) unsafe.Pointer {
		m.lastEntryVA = entryAddr
		phys, lvl, why := m.translate(m.cr3, entryAddr)
		if lvl != 4 {
			m.problem("page-walk-fault", "access to page-table entry at virtual %#x faults at level %d (%s): the MMU could not reach it through the recursive mapping", entryAddr, lvl, why)
			m.lastEntryHost = uintptr(unsafe.Pointer(&m.scratch[0]))
			m.scratch[0] = 0
			return unsafe.Pointer(&m.scratch[0])
		}
		if entryAddr&7 != 0 {
			m.problem("misaligned-entry", "page-table entry address %#x is not 8-byte aligned", entryAddr)
		}
		m.lastEntryHost = m.host(phys)
		return unsafe.Pointer(m.host(phys))
	}
	nextAddrFn = func(arg uintptr) uintptr {
		// Map computes uintptr(pte) << bits(next level); with the real MMU pte is the
		// recursive virtual address, here it is the host pointer we returned.
		if arg != m.lastEntryHost<<9 {
			m.problem("next-table-address", "next-table address computed as %#x, which is not the entry address shifted by the next level's 9 bits", arg)
		}
		va := m.lastEntryVA << 9
		phys, lvl, why := m.translate(m.cr3, va)
		if lvl != 4 {
			m.problem("page-walk-fault", "clearing the new table at virtual %#x faults at level %d (%s)", va, lvl, why)
			return uintptr(unsafe.Pointer(&m.scratchPage()[0]))
		}
		return m.host(phys)
	}
	flushTLBEntryFn = func(addr uintptr) { m.flushLog = append(m.flushLog, addr) }
	activePDTFn = func() uintptr { return m.cr3 }
	switchPDTFn = func(addr uintptr) { m.cr3 = addr; m.switches++ }
	mapFn = Map
	mapTemporaryFn = func(f mm.Frame) (mm.Page, *kernel.Error) {
		pg, err := MapTemporary(f)
		if err != nil {
			return 0, err
		}
		// the page the code will now touch is the temporary page; hand back the host alias of the frame
		phys, lvl, _ := m.translate(m.cr3, pg.Address())
		if lvl != 4 || phys != f.Address() {
			m.problem("temporary-mapping-wrong", "after MapTemporary(frame %#x) the temporary page translates to %#x (levels walked %d)", uint64(f), phys, lvl)
		}
		if !m.inArena(m.host(f.Address())) {
			m.problem("temporary-mapping-outside-memory", "MapTemporary of frame %#x outside physical memory", uint64(f))
			return mm.Page(uintptr(unsafe.Pointer(&m.scratchPage()[0])) >> 12), nil
		}
		m.tempActive, m.tempFrame = true, mm.Frame(m.host(f.Address())>>12)
		return mm.Page(m.host(f.Address()) >> 12), nil
	}
	unmapFn = func(pg mm.Page) *kernel.Error {
		if m.tempActive && pg == mm.Page(m.tempFrame) {
			m.tempActive = false
			return Unmap(mm.PageFromAddress(tempMappingAddr))
		}
		return Unmap(pg)
	}
	translateFn = Translate
	visitElfSectionsFn = multiboot.VisitElfSections
	handleInterruptFn = func(n gate.InterruptNumber, _ uint8, h func(*gate.Registers)) {
		if m.handlers == nil {
			m.handlers = map[gate.InterruptNumber]func(*gate.Registers){}
		}
		m.handlers[n] = h
	}
	earlyReserveRegionFn = EarlyReserveRegion
	earlyReserveLastUsed = tempMappingAddr
	protectReservedZeroedPage = false
	ReservedZeroedFrame = 0
	kernelPDT = PageDirectoryTable{}
	mm.SetFrameAllocator(m.allocFrame)
	return func() {
		ptePtrFn, nextAddrFn, flushTLBEntryFn, activePDTFn, switchPDTFn = oPte, oNext, oFlush, oActive, oSwitch
		mapFn, mapTemporaryFn, unmapFn, translateFn, readCR2Fn, visitElfSectionsFn, handleInterruptFn, earlyReserveRegionFn = oMap, oMapTmp, oUnmap, oTranslate, oCR2, oVisit, oHandle, oEarly
		earlyReserveLastUsed, ReservedZeroedFrame, protectReservedZeroedPage, kernelPDT = oCursor, oZero, oProtect, oKPDT
		mm.SetFrameAllocator(nil)
		_ = cpu.ActivePDT
	}
}

var vmScratchPage []byte

func (m *vmMMU) scratchPage() []byte {
	if vmScratchPage == nil {
		vmScratchPage = make([]byte, 8192)
	}
	return vmScratchPage
}

// reset junk-fills the used part of the arena and builds the boot address
// space: an empty root whose last entry maps the root itself (what rt0 sets up).
func (m *vmMMU) reset() {
	used := m.next
	if used > m.nframes {
		used = m.nframes
	}
	b := vlib.BytesAt(m.arena.Base, used*4096)
	for i := range b {
		b[i] = vmJunk
	}
	*m = vmMMU{arena: m.arena, nframes: m.nframes}
	// package state of vmm that one case must not leak into the next
	protectReservedZeroedPage = false
	ReservedZeroedFrame = 0
	kernelPDT = PageDirectoryTable{}
	earlyReserveLastUsed = tempMappingAddr
	root := m.rawAlloc(0)
	*vmEntryAt(root.Address(), 511) = uint64(root.Address()) | 3
	m.cr3 = root.Address()
	m.zeroAlias = m.rawAlloc(vmJunk).Address()
}

// newRootRaw builds an address space by hand (used where the property does
// not want PageDirectoryTable.Init in the loop).
func (m *vmMMU) newRootRaw() mm.Frame {
	root := m.rawAlloc(0)
	*vmEntryAt(root.Address(), 511) = uint64(root.Address()) | 3
	return root
}

func (m *vmMMU) takeProblems() (sigs, msgs []string) {
	sigs, msgs = m.problemSigs, m.problems
	m.problemSigs, m.problems = nil, nil
	return
}

func (m *vmMMU) flushed(addr uintptr) bool {
	for _, a := range m.flushLog {
		if a == addr {
			return true
		}
	}
	return false
}
