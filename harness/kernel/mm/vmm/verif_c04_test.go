//go:build verif
// +build verif

package vmm

import (
	"bytes"
	"fmt"
	"testing"

	"github.com/ProjectSerenity/firefly/kernel"
	"github.com/ProjectSerenity/firefly/kernel/mm"
	"github.com/ProjectSerenity/firefly/kernel/zzverif/vlib"
)

// C04 — page-table operations implement exactly the requested translation.
// The real Map/Unmap/MapTemporary/MapRegion/IdentityMapRegion/Translate and
// PageDirectoryTable.{Init,Map,Unmap,Activate} run on the software MMU; after
// EVERY operation every address space is enumerated completely and compared
// with a dictionary model.

type c04Mapping struct {
	frame uint64
	flags uint64
}

type c04Space struct {
	pdt     PageDirectoryTable
	root    mm.Frame
	model   map[uintptr]c04Mapping // every leaf the API was asked to establish (present or not)
	residue map[uintptr]bool       // pages that were unmapped (their entry may keep non-present bits)
}

const c04AllFlags = uint64(FlagPresent | FlagRW | FlagUserAccessible | FlagWriteThroughCaching | FlagDoNotCache | FlagAccessed | FlagDirty | FlagHugePage | FlagGlobal | FlagCopyOnWrite | FlagNoExecute)

type c04State struct {
	c      *vlib.Case
	run    *vlib.Run
	m      *vmMMU
	spaces []*c04Space
	active int
	probes []uintptr
	bad    bool
	opDesc string
	ops    []string
	lastVA uintptr // page of the previous request, whatever space it went to (0: none yet)
}

func (s *c04State) fail(sig, format string, a ...interface{}) {
	s.bad = true
	s.c.Violation(sig, map[string]interface{}{"op": s.opDesc, "what": fmt.Sprintf(format, a...), "history": s.ops})
}

func c04Entry(mp c04Mapping) uint64 { return (mp.frame<<12)&vmPhysMask | mp.flags }

// verify compares every address space with its model.
func (s *c04State) verify() {
	sigs, msgs := s.m.takeProblems()
	for i := range sigs {
		s.fail(sigs[i], "%s", msgs[i])
	}
	for si, sp := range s.spaces {
		leaves, npnz, problems, tables := s.m.enumerate(sp.root.Address())
		s.run.Max("tables_in_one_address_space", int64(tables))
		for _, p := range problems {
			s.fail("table-structure", "space %d: %s", si, p)
		}
		seen := 0
		for _, lf := range leaves {
			mp, ok := sp.model[lf.va]
			if !ok || mp.flags&uint64(FlagPresent) == 0 {
				s.fail("phantom-mapping", "space %d: page %#x is mapped (entry %#x) but nothing mapped it", si, lf.va, lf.entry)
				return
			}
			if lf.entry != c04Entry(mp) {
				s.fail("wrong-entry", "space %d: page %#x has entry %#x, want frame %#x flags %#x = %#x", si, lf.va, lf.entry, mp.frame, mp.flags, c04Entry(mp))
				return
			}
			seen++
		}
		want := 0
		for va, mp := range sp.model {
			if mp.flags&uint64(FlagPresent) != 0 {
				want++
				continue
			}
			// requested without the present bit: raw entry must still carry frame and flags
			got := uint64(0)
			if e := s.m.leafEntry(sp.root.Address(), va); e != nil {
				got = *e
			}
			if got != c04Entry(mp) {
				s.fail("wrong-entry", "space %d: page %#x (mapped without present bit) has entry %#x, want %#x", si, va, got, c04Entry(mp))
				return
			}
		}
		if seen != want {
			for va, mp := range sp.model {
				if mp.flags&uint64(FlagPresent) == 0 {
					continue
				}
				if _, lvl, why := s.m.translate(sp.root.Address(), va); lvl != 4 {
					s.fail("mapping-lost", "space %d: page %#x should map frame %#x but the walk stops at level %d (%s)", si, va, mp.frame, lvl, why)
					return
				}
			}
		}
		for va, e := range npnz {
			if _, ok := sp.model[va]; ok {
				continue
			}
			if !sp.residue[va] {
				s.fail("garbage-leaf-entry", "space %d: page %#x has non-present non-zero entry %#x but was never touched", si, va, e)
				return
			}
		}
		s.run.Count("leaves_compared", int64(seen))
	}
	// Translate() on the active space for every page we know about plus probes
	act := s.spaces[s.active]
	check := func(va uintptr) {
		off := uintptr(s.c.R.Intn(4096))
		got, err := Translate(va + off)
		mp, ok := act.model[va]
		if ok && mp.flags&uint64(FlagPresent) != 0 {
			want := uintptr((mp.frame<<12)&vmPhysMask) + off
			if err != nil || got != want {
				s.fail("translate-wrong", "Translate(%#x) = (%#x, %v), want %#x", va+off, got, err, want)
			}
		} else if err != ErrInvalidMapping {
			s.fail("translate-of-unmapped-page", "Translate(%#x) = (%#x, %v), want ErrInvalidMapping", va+off, got, err)
		}
		s.run.Count("translate_checked", 1)
	}
	for va := range act.model {
		check(va)
	}
	for va := range act.residue {
		check(va)
	}
	for _, va := range s.probes {
		check(va)
	}
	sigs, msgs = s.m.takeProblems()
	for i := range sigs {
		s.fail(sigs[i], "during Translate: %s", msgs[i])
	}
}

func (s *c04State) genPage(r *vlib.Rand) uintptr {
	sp := s.spaces[r.Intn(len(s.spaces))]
	pick := func() (uintptr, bool) {
		if len(sp.model) == 0 {
			return 0, false
		}
		n := r.Intn(len(sp.model))
		// deterministic pick: smallest-first order would need sorting; walk a sorted copy
		keys := make([]uintptr, 0, len(sp.model))
		for k := range sp.model {
			keys = append(keys, k)
		}
		sortUintptrs(keys)
		return keys[n], true
	}
	for tries := 0; tries < 50; tries++ {
		var va uintptr
		k := r.Intn(10)
		if s.lastVA != 0 && r.Chance(1, 6) {
			k = 100 // the page after / before / of the previous request: sequential runs, also across address spaces
		}
		switch k {
		case 100:
			va = s.lastVA + uintptr(r.PickInt([]int{4096, 4096, 4096, -4096, 0, 8192}))
			ix := vmIndices(va) // stepping over the end of the lower half lands in the canonical upper half
			va = vmCanon(ix[0], ix[1], ix[2], ix[3])
		case 0, 1, 2: // fresh page anywhere
			i4 := uintptr(r.PickInt([]int{0, 1, 2, 255, 256, 257, 300, 509, 510}))
			ib := []int{0, 1, 2, 255, 256, 510, 511}
			va = vmCanon(i4, uintptr(r.PickInt(ib)), uintptr(r.PickInt(ib)), uintptr(r.PickInt(ib)))
			if r.Bool() {
				va = vmCanon(i4, uintptr(r.Intn(512)), uintptr(r.Intn(512)), uintptr(r.Intn(512)))
			}
		case 3, 4, 5, 6: // neighbour of an existing page sharing 3, 2 or 1 upper levels
			base, ok := pick()
			if !ok {
				continue
			}
			ix := vmIndices(base)
			lvl := 3 - r.Intn(3) // 3: same leaf table, 2: same L2, 1: same L3
			for l := lvl; l < 4; l++ {
				switch r.Intn(4) {
				case 0:
					ix[l] = (ix[l] + 1) & 511
				case 1:
					ix[l] = (ix[l] + 511) & 511
				case 2:
					ix[l] = uintptr(r.PickInt([]int{0, 511}))
				default:
					ix[l] = uintptr(r.Intn(512))
				}
			}
			va = vmCanon(ix[0], ix[1], ix[2], ix[3])
		case 7, 8: // an existing page (re-map / unmap)
			var ok bool
			if va, ok = pick(); !ok {
				continue
			}
		default:
			va = tempMappingAddr
		}
		if (va>>39)&511 == 511 {
			continue // the recursive slot is not usable address space
		}
		// keep clear of the host alias range of physical memory (page number == frame number there)
		if va>>12 >= s.m.arena.Base>>12-1 && va>>12 <= (s.m.arena.End()>>12)+1 {
			continue
		}
		s.lastVA = va
		return va
	}
	return vmCanon(1, 2, 3, 4)
}

func sortUintptrs(a []uintptr) {
	for i := 1; i < len(a); i++ {
		for j := i; j > 0 && a[j] < a[j-1]; j-- {
			a[j], a[j-1] = a[j-1], a[j]
		}
	}
}

func c04GenFlags(r *vlib.Rand) uint64 {
	f := r.U64() & c04AllFlags
	switch r.Intn(8) {
	case 0:
		f &^= uint64(FlagPresent)
	case 1:
		f = uint64(FlagPresent)
	case 2:
		f = c04AllFlags
	default:
		f |= uint64(FlagPresent)
	}
	return f
}

func c04GenFrame(r *vlib.Rand) uint64 {
	switch r.Intn(6) {
	case 0:
		return 0
	case 1:
		return (1 << 40) - 1
	case 2:
		return uint64(r.Intn(1 << 20))
	default:
		return r.U64() >> uint(24+r.Intn(30))
	}
}

// applyMap updates the model for a successful single-page mapping.
func (sp *c04Space) applyMap(va uintptr, frame, flags uint64) {
	sp.model[va] = c04Mapping{frame, flags}
	delete(sp.residue, va)
}

func (sp *c04Space) applyUnmap(va uintptr) {
	if _, ok := sp.model[va]; ok {
		delete(sp.model, va)
	}
	sp.residue[va] = true
}

func TestVerifC04(t *testing.T) {
	run := vlib.Start(t, "C04")
	defer run.Finish()
	run.SetRule("case = history of 20-300 operations (Map, Unmap, MapTemporary, MapRegion, IdentityMapRegion, Translate, PageDirectoryTable.Init/Map/Unmap/Activate, injected allocator failures, huge-page error paths) over 1-3 address spaces on a software MMU; pages drawn to share 0-3 upper table levels, both canonical halves, index 0/511 boundaries and the temporary-mapping page; after every operation every address space is enumerated completely and compared with a dictionary model. non-trivial = history that exercised an inactive address space, an injected allocation failure and an unmap of a mapped page; distinct = fingerprint of the operation list")
	run.Assume("the privileged instructions are stubbed at the seams: flushTLBEntryFn records the address, activePDTFn/switchPDTFn are the harness's cr3; ptePtrFn/nextAddrFn translate the recursive virtual address through the software page walker; mapTemporaryFn/unmapFn run the real MapTemporary/Unmap and hand back the host alias of the frame")
	m := vmNewMMU()
	restore := m.install()
	defer restore()

	n := run.N(1200, 80000)
	run.Cases(n, func(c *vlib.Case) {
		r := c.R
		m.reset()
		earlyReserveLastUsed = tempMappingAddr
		s := &c04State{c: c, run: run, m: m}
		boot := &c04Space{root: mm.Frame(m.cr3 >> 12), model: map[uintptr]c04Mapping{}, residue: map[uintptr]bool{}}
		boot.pdt.pdtFrame = boot.root
		s.spaces = []*c04Space{boot}
		nops := r.Range(20, 300)
		if r.Chance(1, 4) {
			nops = r.Range(5, 40)
		}
		c.Begin(map[string]interface{}{"ops": nops})
		for i := 0; i < 6; i++ {
			s.probes = append(s.probes, vmCanon(uintptr(r.PickInt([]int{0, 3, 255, 256, 400, 510})), uintptr(r.Intn(512)), uintptr(r.Intn(512)), uintptr(r.Intn(512))))
		}
		fp := vlib.NewFP()
		var usedInactive, usedFail, usedUnmapMapped, usedHuge bool
		for op := 0; op < nops && !s.bad; op++ {
			if m.next > m.nframes-64 {
				break // physical memory of the simulated machine nearly used up
			}
			m.flushLog = m.flushLog[:0]
			m.allocLog = m.allocLog[:0]
			kind := r.Intn(100)
			act := s.spaces[s.active]
			switch {
			case kind < 30: // Map on the active space (possibly with an injected failure)
				va, frame, flags := s.genPage(r), c04GenFrame(r), c04GenFlags(r)
				missing := m.missingLevels(act.root.Address(), va)
				fail := 0
				if missing > 0 && r.Chance(1, 5) {
					fail = r.Range(1, missing)
					m.failAt = fail
				}
				zero := ""
				if missing > 0 && fail == 0 && !m.zeroHanded && r.Chance(1, 12) {
					// the first new table level of this request lands in physical frame 0
					m.zeroNext = true
					zero = " (next frame from the allocator: 0)"
					run.Count("op_map_with_a_new_table_in_physical_frame_0", 1)
				}
				s.opDesc = fmt.Sprintf("Map(page=%#x, frame=%#x, flags=%#x) failAt=%d missing=%d%s", va, frame, flags, fail, missing, zero)
				fp = fp.U64(uint64(va)).U64(frame).U64(flags).Int(fail)
				err := Map(mm.PageFromAddress(va), mm.Frame(frame), PageTableEntryFlag(flags))
				m.failAt = 0
				m.zeroNext = false
				if fail > 0 {
					usedFail = true
					run.Count("op_map_alloc_failure_injected", 1)
					if err != vmAllocErr {
						s.fail("alloc-error-not-returned", "allocator failed at request %d of %d but Map returned %v", fail, missing, err)
					}
				} else {
					run.Count("op_map", 1)
					if err != nil {
						s.fail("map-error", "Map returned %v", err)
					} else {
						act.applyMap(va, frame, flags)
						if !m.flushed(va) {
							s.fail("missing-tlb-flush", "Map(%#x) did not invalidate the page's TLB entry (flush log %x)", va, m.flushLog)
						}
						if len(m.allocLog) != missing {
							run.Count("map_alloc_count_differs_from_missing_levels", 1)
						}
					}
				}
			case kind < 42: // Unmap on the active space
				va := s.genPage(r)
				mp, mapped := act.model[va]
				s.opDesc = fmt.Sprintf("Unmap(page=%#x) mapped=%v", va, mapped)
				fp = fp.U64(uint64(va)).Int(1)
				err := Unmap(mm.PageFromAddress(va))
				if mapped && mp.flags&uint64(FlagPresent) != 0 {
					usedUnmapMapped = true
					run.Count("op_unmap_mapped", 1)
					if err != nil {
						s.fail("unmap-error", "Unmap of a mapped page returned %v", err)
					}
					if !m.flushed(va) {
						s.fail("missing-tlb-flush", "Unmap(%#x) did not invalidate the page's TLB entry", va)
					}
					act.applyUnmap(va)
				} else {
					run.Count("op_unmap_not_mapped", 1)
					if err != nil && err != ErrInvalidMapping {
						s.fail("unmap-error", "Unmap of a page that is not mapped returned %v", err)
					}
					if err == nil {
						run.Count("unmap_not_mapped_returned_nil", 1)
						// the leaf table exists: the entry only lost its present bit
						if mapped {
							nm := mp
							nm.flags &^= uint64(FlagPresent)
							act.model[va] = nm
						} else {
							act.residue[va] = true
						}
					}
				}
			case kind < 48: // MapTemporary
				frame := c04GenFrame(r)
				missing := m.missingLevels(act.root.Address(), tempMappingAddr)
				fail := 0
				if missing > 0 && r.Chance(1, 3) {
					fail = r.Range(1, missing)
					m.failAt = fail
				}
				s.opDesc = fmt.Sprintf("MapTemporary(frame=%#x) failAt=%d", frame, fail)
				fp = fp.U64(frame).Int(2).Int(fail)
				pg, err := MapTemporary(mm.Frame(frame))
				m.failAt = 0
				if fail > 0 {
					usedFail = true
					run.Count("op_maptemporary_alloc_failure_injected", 1)
					if err != vmAllocErr {
						s.fail("alloc-error-not-returned", "allocator failed but MapTemporary returned %v", err)
					}
				} else {
					run.Count("op_maptemporary", 1)
					if err != nil || pg.Address() != tempMappingAddr {
						s.fail("maptemporary-result", "MapTemporary returned (%#x, %v)", pg.Address(), err)
					} else {
						act.applyMap(tempMappingAddr, frame, uint64(FlagPresent|FlagRW))
						if !m.flushed(tempMappingAddr) {
							s.fail("missing-tlb-flush", "MapTemporary did not invalidate the temporary page's TLB entry")
						}
					}
				}
			case kind < 54: // MapRegion
				frame := c04GenFrame(r) & ((1 << 39) - 1)
				size := uint64(r.PickInt([]int{0, 1, 4095, 4096, 4097, 8192, 12288, 3 * 4096, 20000}))
				flags := c04GenFlags(r)
				cursor := earlyReserveLastUsed
				s.opDesc = fmt.Sprintf("MapRegion(frame=%#x, size=%d, flags=%#x)", frame, size, flags)
				fp = fp.U64(frame).U64(size).U64(flags).Int(3)
				pg, err := MapRegion(mm.Frame(frame), uintptr(size), PageTableEntryFlag(flags))
				run.Count("op_mapregion", 1)
				pages := (size + 4095) / 4096
				want := uintptr(cursor) - uintptr(pages*4096)
				if err != nil || pg.Address() != want {
					s.fail("mapregion-result", "MapRegion returned (%#x, %v), want page %#x", pg.Address(), err, want)
				} else {
					for k := uint64(0); k < pages; k++ {
						act.applyMap(want+uintptr(k*4096), frame+k, flags)
						if !m.flushed(want + uintptr(k*4096)) {
							s.fail("missing-tlb-flush", "MapRegion did not invalidate page %#x", want+uintptr(k*4096))
						}
					}
				}
			case kind < 59 && r.Chance(1, 4): // IdentityMapRegion of a header page, then of the whole table from the same page with the allocator failing
				base := (uint64(r.Intn(1<<15))+1)*512 + uint64(r.PickInt([]int{509, 510, 511}))
				npages := uint64(r.Range(3, 5))
				if base+npages >= uint64(m.arena.Base>>12)-1 && base <= uint64(m.arena.End()>>12)+1 {
					continue
				}
				flags1, flags2 := c04GenFlags(r), c04GenFlags(r)
				s.opDesc = fmt.Sprintf("IdentityMapRegion(frame=%#x, size=4096, flags=%#x) then IdentityMapRegion(frame=%#x, size=%d, flags=%#x) with the first frame allocation refused", base, flags1, base, npages*4096, flags2)
				fp = fp.U64(base).U64(npages).U64(flags1).U64(flags2).Int(40)
				if pg, err := IdentityMapRegion(mm.Frame(base), 4096, PageTableEntryFlag(flags1)); err != nil || uint64(pg) != base {
					s.fail("identitymap-result", "IdentityMapRegion of one page returned (%#x, %v)", uint64(pg), err)
					break
				}
				act.applyMap(uintptr(base<<12), base, flags1)
				m.failAt = 1
				_, err := IdentityMapRegion(mm.Frame(base), uintptr(npages*4096), PageTableEntryFlag(flags2))
				injected := m.failAt == 0
				m.failAt = 0
				run.Count("op_identitymapregion_over_a_mapped_page_with_allocation_failure", 1)
				if injected {
					usedFail = true
					if err != vmAllocErr {
						s.fail("alloc-error-not-returned", "allocator failed but IdentityMapRegion returned %v", err)
					}
				} else if err != nil {
					s.fail("identitymap-result", "IdentityMapRegion returned %v although no allocation was refused", err)
				}
				// every page of the request now shows either what the request asked for or what it showed before
				// (mapped by the first request, or nothing); the comparison after the operation rejects anything else
				for k := uint64(0); k < npages; k++ {
					va := uintptr((base + k) << 12)
					want := c04Entry(c04Mapping{base + k, flags2})
					if e := m.leafEntry(act.root.Address(), va); (e != nil && *e == want) || (!injected && err == nil) {
						act.applyMap(va, base+k, flags2)
					} else if _, known := act.model[va]; !known {
						act.residue[va] = true
					}
				}
			case kind < 59: // IdentityMapRegion
				frame := uint64(r.Intn(1<<24)) + 1
				if r.Bool() {
					frame = uint64(r.Intn(1<<30)) + (1 << 20)
				}
				if r.Chance(1, 8) {
					frame = 0 // low memory: the range starts with page 0
				}
				size := uint64(r.PickInt([]int{0, 1, 4096, 4097, 8192, 16384}))
				flags := c04GenFlags(r)
				pages := (size + 4095) / 4096
				lo, hi := frame, frame+pages
				if hi >= uint64(m.arena.Base>>12)-1 && lo <= uint64(m.arena.End()>>12)+1 {
					continue
				}
				s.opDesc = fmt.Sprintf("IdentityMapRegion(frame=%#x, size=%d, flags=%#x)", frame, size, flags)
				fp = fp.U64(frame).U64(size).U64(flags).Int(4)
				pg, err := IdentityMapRegion(mm.Frame(frame), uintptr(size), PageTableEntryFlag(flags))
				run.Count("op_identitymapregion", 1)
				if err != nil || uint64(pg) != frame {
					s.fail("identitymap-result", "IdentityMapRegion returned (%#x, %v)", uint64(pg), err)
				} else {
					for k := uint64(0); k < pages; k++ {
						act.applyMap(uintptr((frame+k)<<12), frame+k, flags)
					}
				}
			case kind < 64 && len(s.spaces) < 3: // new address space via PageDirectoryTable.Init
				f, _ := m.allocFrame()
				m.allocLog = m.allocLog[:0]
				missing := m.missingLevels(act.root.Address(), tempMappingAddr)
				fail := 0
				if missing > 0 && r.Chance(1, 3) {
					fail = r.Range(1, missing)
					m.failAt = fail
				}
				s.opDesc = fmt.Sprintf("PageDirectoryTable.Init(frame=%#x) failAt=%d", uint64(f), fail)
				fp = fp.Int(5).Int(fail)
				rootBefore := append([]byte(nil), m.frameBytes(act.root)...)
				var pdt PageDirectoryTable
				err := pdt.Init(f)
				m.failAt = 0
				if fail > 0 {
					usedFail = true
					run.Count("op_pdt_init_alloc_failure_injected", 1)
					if err != vmAllocErr {
						s.fail("alloc-error-not-returned", "allocator failed but PageDirectoryTable.Init returned %v", err)
					}
					break
				}
				run.Count("op_pdt_init", 1)
				if err != nil {
					s.fail("pdt-init-error", "Init returned %v", err)
					break
				}
				// the new root: empty except for the recursive entry
				b := m.frameBytes(f)
				for i := 0; i < 511; i++ {
					if *vmEntryAt(f.Address(), uintptr(i)) != 0 {
						s.fail("new-root-not-empty", "new page directory has non-zero entry %d = %#x", i, *vmEntryAt(f.Address(), uintptr(i)))
						break
					}
				}
				if e := *vmEntryAt(f.Address(), 511); e != uint64(f.Address())|uint64(FlagPresent|FlagRW) {
					s.fail("recursive-entry-wrong", "last entry of the new page directory is %#x, want %#x", e, uint64(f.Address())|3)
				}
				_ = b
				// active root: only the temp-mapping path may have changed, cr3 untouched
				if m.cr3 != act.root.Address() {
					s.fail("cr3-changed", "Init of another address space changed cr3")
				}
				_ = rootBefore
				act.applyUnmap(tempMappingAddr) // the temporary mapping was established and removed again
				s.spaces = append(s.spaces, &c04Space{pdt: pdt, root: f, model: map[uintptr]c04Mapping{}, residue: map[uintptr]bool{}})
			case kind < 82 && len(s.spaces) > 1: // PageDirectoryTable.Map / Unmap on any space
				ti := r.Intn(len(s.spaces))
				tgt := s.spaces[ti]
				inactive := ti != s.active
				rootBefore := append([]byte(nil), m.frameBytes(act.root)...)
				cr3Before := m.cr3
				if r.Chance(2, 3) {
					va, frame, flags := s.genPage(r), c04GenFrame(r), c04GenFlags(r)
					if inactive && va == tempMappingAddr {
						va = vmCanon(3, 3, 3, 3)
					}
					missing := m.missingLevels(tgt.root.Address(), va)
					fail := 0
					if missing > 0 && r.Chance(1, 5) {
						fail = r.Range(1, missing)
						m.failAt = fail
					}
					s.opDesc = fmt.Sprintf("PDT[%d].Map(page=%#x, frame=%#x, flags=%#x) inactive=%v failAt=%d", ti, va, frame, flags, inactive, fail)
					fp = fp.U64(uint64(va)).U64(frame).U64(flags).Int(6 + ti).Int(fail)
					err := tgt.pdt.Map(mm.PageFromAddress(va), mm.Frame(frame), PageTableEntryFlag(flags))
					m.failAt = 0
					if fail > 0 {
						usedFail = true
						run.Count("op_pdt_map_alloc_failure_injected", 1)
						if err != vmAllocErr {
							s.fail("alloc-error-not-returned", "allocator failed but PageDirectoryTable.Map returned %v", err)
						}
					} else {
						run.Count("op_pdt_map", 1)
						if err != nil {
							s.fail("map-error", "PageDirectoryTable.Map returned %v", err)
						} else {
							tgt.applyMap(va, frame, flags)
							if !m.flushed(va) {
								s.fail("missing-tlb-flush", "PageDirectoryTable.Map(%#x) did not invalidate the page's TLB entry", va)
							}
						}
					}
				} else {
					va := s.genPage(r)
					mp, mapped := tgt.model[va]
					s.opDesc = fmt.Sprintf("PDT[%d].Unmap(page=%#x) inactive=%v mapped=%v", ti, va, inactive, mapped)
					fp = fp.U64(uint64(va)).Int(20 + ti)
					err := tgt.pdt.Unmap(mm.PageFromAddress(va))
					if mapped && mp.flags&uint64(FlagPresent) != 0 {
						usedUnmapMapped = true
						run.Count("op_pdt_unmap_mapped", 1)
						if err != nil {
							s.fail("unmap-error", "PageDirectoryTable.Unmap of a mapped page returned %v", err)
						}
						if !m.flushed(va) {
							s.fail("missing-tlb-flush", "PageDirectoryTable.Unmap(%#x) did not invalidate the page's TLB entry", va)
						}
						tgt.applyUnmap(va)
					} else {
						run.Count("op_pdt_unmap_not_mapped", 1)
						if err != nil && err != ErrInvalidMapping {
							s.fail("unmap-error", "PageDirectoryTable.Unmap of an unmapped page returned %v", err)
						}
						if err == nil {
							if mapped {
								nm := mp
								nm.flags &^= uint64(FlagPresent)
								tgt.model[va] = nm
							} else {
								tgt.residue[va] = true
							}
						}
					}
				}
				if inactive {
					usedInactive = true
					run.Count("ops_on_inactive_address_space", 1)
					if m.cr3 != cr3Before {
						s.fail("cr3-changed", "operation on an inactive address space changed cr3")
					}
					if !bytes.Equal(rootBefore, m.frameBytes(act.root)) {
						s.fail("active-root-modified", "operation on an inactive address space left the active page directory modified (recursive entry now %#x)", *vmEntryAt(act.root.Address(), 511))
					}
				}
			case kind < 86 && len(s.spaces) > 1: // Activate
				ti := r.Intn(len(s.spaces))
				s.opDesc = fmt.Sprintf("PDT[%d].Activate()", ti)
				fp = fp.Int(40 + ti)
				s.spaces[ti].pdt.Activate()
				run.Count("op_activate", 1)
				if m.cr3 != s.spaces[ti].root.Address() {
					s.fail("activate-wrong-root", "after Activate cr3=%#x, want %#x", m.cr3, s.spaces[ti].root.Address())
				}
				s.active = ti
			case kind < 90: // huge-page error path: Map/Unmap below a huge entry must fail and change nothing
				i4 := uintptr(100 + r.Intn(50))
				va := vmCanon(i4, uintptr(r.Intn(512)), uintptr(r.Intn(512)), uintptr(r.Intn(512)))
				if m.missingLevels(act.root.Address(), va) != 3 {
					continue
				}
				e := vmEntryAt(act.root.Address(), i4)
				*e = uint64(m.arena.Base) | uint64(FlagPresent|FlagRW|FlagHugePage)
				s.opDesc = fmt.Sprintf("Map/Unmap(page=%#x) below a huge-page entry", va)
				fp = fp.U64(uint64(va)).Int(50)
				e1 := Map(mm.PageFromAddress(va), mm.Frame(5), FlagPresent)
				e2 := Unmap(mm.PageFromAddress(va))
				if e1 != errNoHugePageSupport || e2 != errNoHugePageSupport {
					s.fail("huge-page-not-rejected", "Map/Unmap below a huge-page entry returned %v / %v", e1, e2)
				}
				if *e != uint64(m.arena.Base)|uint64(FlagPresent|FlagRW|FlagHugePage) {
					s.fail("huge-page-entry-modified", "huge-page entry changed to %#x", *e)
				}
				*e = 0
				usedHuge = true
				run.Count("op_huge_page_error_path", 1)
			default: // pure Translate round (verify() does it for all known pages)
				s.opDesc = "Translate sweep"
				run.Count("op_translate_sweep", 1)
			}
			if len(s.ops) < 400 {
				s.ops = append(s.ops, s.opDesc)
			}
			if !s.bad {
				s.verify()
			}
			run.Count("ops_total", 1)
		}
		_ = usedHuge
		if usedInactive && usedFail && usedUnmapMapped {
			run.Nontrivial(fp)
		}
		if run.WantSample() && usedInactive && usedFail {
			first := s.ops
			if len(first) > 12 {
				first = first[:12]
			}
			run.Sample(map[string]interface{}{"ops": len(s.ops), "address_spaces": len(s.spaces), "first_ops": first})
		}
	})
	// "Exactly the requested permission bits in the hardware entry": every check above compares with the package's own
	// Flag constants, so the constants themselves are compared once with the bits the amd64 page-table entry format gives
	// them (a fact about the hardware, written down here as numbers, not taken from the package).
	run.OneCase(vlib.FixedBase+1, func(c *vlib.Case) {
		c.Begin(map[string]interface{}{"fixed": "flag constants against the amd64 entry format"})
		arch := []struct {
			name string
			got  PageTableEntryFlag
			bit  uint
		}{{"Present", FlagPresent, 0}, {"RW", FlagRW, 1}, {"UserAccessible", FlagUserAccessible, 2}, {"WriteThroughCaching", FlagWriteThroughCaching, 3},
			{"DoNotCache", FlagDoNotCache, 4}, {"Accessed", FlagAccessed, 5}, {"Dirty", FlagDirty, 6}, {"HugePage", FlagHugePage, 7},
			{"Global", FlagGlobal, 8}, {"NoExecute", FlagNoExecute, 63}}
		for _, a := range arch {
			if uint64(a.got) != uint64(1)<<a.bit {
				c.Violationf("flag-constant-not-architectural", "Flag%s = %#x, the amd64 page-table entry format puts it at bit %d", a.name, uint64(a.got), a.bit)
			}
		}
		// copy-on-write is a software flag: it has to sit in a bit the hardware ignores (9-11, 52-62)
		cow := uint64(FlagCopyOnWrite)
		ignored := uint64(0x7)<<9 | uint64(0x7ff)<<52
		if cow == 0 || cow&(cow-1) != 0 || cow&ignored == 0 {
			c.Violationf("flag-constant-not-architectural", "FlagCopyOnWrite = %#x is not a single bit among those the hardware ignores (9-11, 52-62)", cow)
		}
		run.Count("flag_constants_compared_with_the_entry_format", int64(len(arch)+1))
	})
	var _ *kernel.Error
}
