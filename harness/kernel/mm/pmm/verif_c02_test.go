//go:build verif
// +build verif

package pmm

import (
	"fmt"
	"testing"

	"github.com/ProjectSerenity/firefly/kernel/mm"
	"github.com/ProjectSerenity/firefly/kernel/zzverif/vlib"
)

// C02 - the early-boot allocator: every frame lies wholly inside available RAM,
// outside the kernel image and strictly above every frame returned earlier;
// when no such frame remains it reports out-of-memory; the same number of
// allocations from a reset state returns the same frames, and these are the
// frames that pmm.Init consumes and later recovers at hand-over.
//
// Not demanded (the statement does not): that *every* frame of RAM \ K is
// returned. Frames the allocator skips and out-of-memory reports issued while
// the reference still has a frame above the cursor are counted per layout.

type c02Step struct {
	frame uint64
	oom   bool
}

// c02Drain drives bootMemAllocator.AllocFrame directly until out-of-memory
// (plus `extra` further calls) and checks every result. It returns the
// sequence observed; ok=false when a violation was reported.
func c02Drain(c *vlib.Case, run *vlib.Run, m *pmmvModel, extra int) (seq []c02Step, ok bool) {
	var prev uint64
	have := false
	limit := m.bootCount() + 2
	oomSeen := 0
	for n := uint64(0); n < limit+uint64(extra); n++ {
		f, err := bootMemAllocator.AllocFrame()
		run.Count("boot_alloc_calls", 1)
		if err != nil {
			if err != errBootAllocOutOfMemory {
				c.Violationf("boot-unexpected-error", "call #%d returned error %q, want a frame or the boot allocator's out-of-memory error", n, err.Message)
				return seq, false
			}
			seq = append(seq, c02Step{oom: true})
			if oomSeen == 0 {
				run.Count("boot_oom_reached", 1)
				if _, more := m.bootNext(prev, have); more {
					// allowed by the statement as read in DESIGN.md (one direction only): counted
					run.Count("oom_while_reference_has_a_frame_above", 1)
				}
			}
			oomSeen++
			if oomSeen > extra {
				return seq, true
			}
			continue
		}
		fr := uint64(f)
		if oomSeen > 0 {
			c.Violationf("boot-frame-after-out-of-memory", "call #%d returned frame %#x after out-of-memory had been reported and nothing was released", n, fr)
			return seq, false
		}
		pr, _ := m.locate(fr)
		switch {
		case pr == nil:
			c.Violationf("boot-frame-outside-available-ram", "call #%d returned frame %#x which does not lie wholly inside an available region", n, fr)
			return seq, false
		case m.inK(fr):
			c.Violationf("boot-frame-in-kernel-image", "call #%d returned frame %#x, kernel image occupies frames [%#x,%#x)", n, fr, m.KFirst, m.KEndExcl)
			return seq, false
		case have && fr <= prev:
			c.Violationf("boot-frame-not-above-previous", "call #%d returned frame %#x after %#x", n, fr, prev)
			return seq, false
		}
		if want, _ := m.bootNext(prev, have); want != fr {
			run.Count("boot_frames_skipped_sequences", 1)
		}
		seq = append(seq, c02Step{frame: fr})
		prev, have = fr, true
	}
	c.Violationf("boot-no-out-of-memory", "no out-of-memory after %d calls although RAM \\ K has only %d frames", limit, m.bootCount())
	return seq, false
}

func c02Reset(full bool, cfg *pmmvConfig) {
	if full {
		bootMemAllocator = BootMemAllocator{}
		bootMemAllocator.init(uintptr(cfg.KStart), uintptr(cfg.KEnd))
		return
	}
	// exactly what the hand-over code does
	bootMemAllocator.allocCount, bootMemAllocator.lastAllocFrame = 0, 0
}

func c02Check(c *vlib.Case, run *vlib.Run, env *pmmvEnv, cfg *pmmvConfig, r *vlib.Rand) (nontrivial bool, info map[string]interface{}) {
	m := pmmvNewModel(cfg)
	env.install(cfg)
	bootMemAllocator.init(uintptr(cfg.KStart), uintptr(cfg.KEnd))
	seq, ok := c02Drain(c, run, m, 2)
	if !ok {
		return false, nil
	}
	nFrames := 0
	regionsTouched := map[int]bool{}
	for _, s := range seq {
		if !s.oom {
			nFrames++
			pr, _ := m.locate(s.frame)
			regionsTouched[pr.Region] = true
		}
	}
	run.Count("boot_frames_returned", int64(nFrames))
	run.Count("boot_frames_in_reference_not_returned", int64(m.bootCount())-int64(nFrames))
	run.Max("boot_frames_in_one_drain", int64(nFrames))
	if uint64(bootMemAllocator.allocCount) != uint64(nFrames) {
		// allocCount is what hand-over replays: it must equal the number of frames handed out
		c.Violationf("boot-alloc-count-differs", "allocCount = %d after %d successful allocations", bootMemAllocator.allocCount, nFrames)
		return false, nil
	}

	// replay: from a reset state, k allocations give the first k entries again
	ks := []int{0, 1, 2, nFrames - 1, nFrames, nFrames + 1, r.Intn(nFrames + 2), r.Intn(nFrames + 2)}
	for i, k := range ks {
		if k < 0 {
			continue
		}
		c02Reset(i%2 == 0, cfg)
		for j := 0; j < k; j++ {
			f, err := bootMemAllocator.AllocFrame()
			run.Count("boot_alloc_calls", 1)
			run.Count("replay_steps_compared", 1)
			var want c02Step
			if j < len(seq) {
				want = seq[j]
			} else {
				want = c02Step{oom: true}
			}
			if (err != nil) != want.oom || (err == nil && uint64(f) != want.frame) {
				c.Violationf("boot-replay-differs", "replay of %d allocations from a reset state: call #%d gave (frame %#x, err %v), the first run gave (frame %#x, oom %v)", k, j, uint64(f), err != nil, want.frame, want.oom)
				return false, nil
			}
		}
		run.Count("replays", 1)
	}

	// hand-over: the frames Init consumes are the first frames of the sequence,
	// and they are recovered (reserved) by the main allocator
	env.install(cfg)
	ierr, pv, stack := env.init(cfg)
	switch {
	case pv != nil:
		run.Count("init_panicked", 1) // judged by C03
		run.SetAdd("init_panic_sites", vlib.PanicSite(stack)+":"+vlib.PanicClass(pv))
	case ierr != nil && ierr != errBootAllocOutOfMemory:
		run.Count("init_error_"+pmmvErrName(ierr), 1)
	default:
		// success, or the early allocator ran dry while Init was mapping its pages
		earlySeq := env.earlySeq()
		for i, fr := range earlySeq {
			if i >= len(seq) || seq[i].oom || seq[i].frame != fr {
				c.Violationf("handover-early-frames-differ", "early frame #%d seen at the map seam during Init (as a mapped frame or handed to the seam by mm.AllocFrame) is %#x, the directly driven allocator's frame #%d is %v", i, fr, i, c02SeqAt(seq, i))
				return false, nil
			}
		}
		run.Count("handover_frames_cross_checked", int64(len(earlySeq)))
		run.Count("handover_frames_taken_by_the_map_seam_for_page_tables", int64(len(env.pt)))
		if len(env.maps) >= 2 {
			run.Count("handovers_with_2_or_more_early_frames", 1)
		}
		if ierr != nil {
			run.Count("init_error_"+pmmvErrName(ierr), 1)
			if len(earlySeq)+1 <= nFrames {
				c.Violationf("handover-early-oom", "Init failed with the early allocator's out-of-memory after %d early frames, the directly driven allocator returned %d", len(earlySeq), nFrames)
				return false, nil
			}
			break
		}
		run.Count("init_ok", 1)
		if bootMemAllocator.allocCount != uint64(len(earlySeq)) {
			// the early allocator's state after hand-over is not part of the statement: counted only
			run.Count("alloc_count_after_handover_differs_from_frames_consumed", 1)
		}
		early := map[uint64]bool{}
		for _, fr := range earlySeq {
			early[fr] = true
		}
		// recovered at hand-over: none of them can be obtained from the main allocator
		for n := uint64(0); n < m.RAM+2; n++ {
			f, err := mm.AllocFrame()
			if err != nil {
				break
			}
			if early[uint64(f)] {
				c.Violationf("handover-early-frame-not-reserved", "frame %#x was consumed by the early allocator during Init but the main allocator hands it out", uint64(f))
				return false, nil
			}
		}
		run.Count("handover_drains", 1)

		// A bring-up that fails part-way and is tried again (an in-package caller could; the kernel treats a
		// failed Init as fatal). The early allocator has handed out frames during the first attempt - some of
		// them back page tables by now - so the second attempt must not hand out any of them again, and after
		// the hand-over none of the frames of either attempt may come out of the main allocator.
		if len(env.maps) >= 1 && r.Chance(1, 5) {
			failAt := r.Intn(len(env.maps))
			env.install(cfg)
			env.failMapAt = failAt
			e1, pv1, _ := env.init(cfg)
			if pv1 != nil || e1 == nil {
				break
			}
			first := env.earlySeq()
			env.failMapAt = -1
			env.allowSecond = true
			e2, pv2, _ := env.init(cfg)
			run.Count("bring_ups_retried_after_a_refused_mapping", 1)
			all := env.earlySeq()
			seen := map[uint64]bool{}
			for _, fr := range first {
				seen[fr] = true
			}
			for i := len(first); i < len(all); i++ {
				if seen[all[i]] {
					c.Violationf("boot-frame-handed-out-twice-across-a-retry", "the first bring-up (mapping %d refused) consumed early frames %#x; the second attempt was handed frame %#x again", failAt, first, all[i])
					return false, nil
				}
				seen[all[i]] = true
			}
			if pv2 == nil && e2 == nil {
				for n := uint64(0); n < m.RAM+2; n++ {
					f, err := mm.AllocFrame()
					if err != nil {
						break
					}
					if seen[uint64(f)] {
						c.Violationf("handover-early-frame-not-reserved", "frame %#x was consumed by the early allocator during a bring-up that was retried (first attempt %#x, second attempt %#x) but the main allocator hands it out", uint64(f), first, all[len(first):])
						return false, nil
					}
				}
				run.Count("handover_drains_after_a_retry", 1)
			}
		}
	}

	// evidence about the layout
	krg := cfg.Regions[cfg.KRegion]
	kAtStart := cfg.KStart == pmmvCeil4k(krg.Addr)
	kAtEnd := m.KEndExcl >= (krg.Addr+krg.Len)>>12
	switch {
	case kAtStart && kAtEnd:
		run.SetAdd("kernel_vs_region", "covers-region")
	case kAtStart:
		run.SetAdd("kernel_vs_region", "at-region-start")
	case kAtEnd:
		run.SetAdd("kernel_vs_region", "at-region-end")
	default:
		run.SetAdd("kernel_vs_region", "inside")
	}
	if len(cfg.Regions) > 0 && cfg.Regions[0].Addr == 0 && cfg.Regions[0].Type == 1 {
		run.Count("first_region_starts_at_frame_0", 1)
	}
	if nFrames == 0 {
		run.Count("configs_without_any_early_frame", 1)
	}
	run.SetAdd("styles", cfg.Style)
	run.SetAdd("kernel_modes", cfg.KMode)
	info = map[string]interface{}{"frames_returned": nFrames, "reference_frames": m.bootCount(), "regions_spanned": len(regionsTouched)}
	if nFrames > 0 {
		info["first_frame"] = fmt.Sprintf("%#x", seq[0].frame)
		info["last_frame"] = fmt.Sprintf("%#x", seq[nFrames-1].frame)
	}
	return len(regionsTouched) >= 2 && (kAtStart || kAtEnd), info
}

func c02SeqAt(seq []c02Step, i int) string {
	if i >= len(seq) || seq[i].oom {
		return "out-of-memory"
	}
	return fmt.Sprintf("%#x", seq[i].frame)
}

func TestVerifC02(t *testing.T) {
	run := vlib.Start(t, "C02")
	defer run.Finish()
	run.SetRule("case = generated memory map + kernel placement (generator shared with C01: 1-8 regions, all types, aligned/unaligned, sub-page and zero-whole-frame regions, adjacent regions, first region at frame 0; kernel at start/middle/end of a region, covering it, leaving exactly one frame); the early allocator is drained directly, replayed for k in {0,1,2,total-1,total,total+1,2 random} from a reset state, then Init runs and the frames seen at the map seam are compared with the sequence; one case in five repeats the bring-up with one mapping refused and retries it on the same allocators (no frame twice across the attempts, none of them allocatable afterwards); non-trivial = the returned sequence spans >=2 available regions and the kernel touches the start or the end of its region; distinct = fingerprint of (memory map, kernel placement)")
	run.Assume("every frame pmm.Init takes from the early allocator is passed to mapFn (true for setupPoolBitmaps as written): the frames seen at that seam are taken to be the frames consumed during boot")
	run.Assume("mapFn and reserveRegionFn are stubbed; regions are sorted and non-overlapping, the kernel lies inside one available region with a page-aligned start (the property's quantifier)")
	run.Assume("completeness (every frame of RAM \\ K is returned) is not demanded: skipped frames and early out-of-memory reports are counted only")

	env := pmmvNewEnv()
	defer env.close()
	env.watchdog(run)
	maxFrames := run.N(4096, 65536)
	totFrames, totOOM, totCross := 0, 0, 0

	one := func(c *vlib.Case, cfg *pmmvConfig, r *vlib.Rand) {
		c.Begin(cfg.desc())
		nt, info := c02Check(c, run, env, cfg, r)
		if info == nil {
			return
		}
		totFrames += info["frames_returned"].(int)
		totOOM++
		totCross += len(env.maps)
		if nt {
			run.Nontrivial(cfg.fp(vlib.NewFP()))
		}
		if run.WantSample() && nt && info["frames_returned"].(int) < 400 {
			d := cfg.desc()
			for k, v := range info {
				d[k] = v
			}
			run.Sample(d)
		}
	}

	run.Cases(run.N(6000, 200000), func(c *vlib.Case) {
		r := c.R.Fork(0xC02)
		mf := 300
		if r.Intn(8) == 0 {
			mf = maxFrames
		}
		big := r.Intn(25) == 0
		cfg := pmmvGenConfig(r.Fork(1), pmmvGenOpts{MaxFrames: mf, Big: big, ForceBoundary: r.Intn(6) == 0})
		one(c, cfg, r.Fork(2))
	})

	// fixed layouts named in DESIGN.md (C02 workload)
	fixed := []*pmmvConfig{
		// adjacent regions, kernel ends with the first one
		{Regions: []pmmvRegion{{0x100000, 4 * 4096, 1}, {0x104000, 4 * 4096, 1}}, KStart: 0x102000, KEnd: 0x104000, KRegion: 0, KMode: "end", Style: "fixed-adjacent-kernel-at-seam"},
		// adjacent regions, kernel at the start of the second
		{Regions: []pmmvRegion{{0x100000, 4 * 4096, 1}, {0x104000, 4 * 4096, 1}}, KStart: 0x104000, KEnd: 0x105001, KRegion: 1, KMode: "start", Style: "fixed-adjacent-kernel-after-seam"},
		// first region at frame 0, kernel at frame 1
		{Regions: []pmmvRegion{{0, 8 * 4096, 1}, {0x100000, 3 * 4096, 1}}, KStart: 0x1000, KEnd: 0x2000, KRegion: 0, KMode: "middle", Style: "fixed-frame-0"},
		// only sub-page / zero-whole-frame regions
		{Regions: []pmmvRegion{{0x800, 0x1000, 1}, {0x3000, 0x800, 1}, {0x5400, 0x1800, 1}}, KStart: 0x1000, KEnd: 0x1800, KRegion: 0, KMode: "cover", Style: "fixed-no-whole-frame"},
		// kernel covers a whole region, other regions of other types in between
		{Regions: []pmmvRegion{{0x1000, 65 * 4096, 1}, {0x100000, 0x3000, 2}, {0x200000, 0x2800, 1}, {0x300000, 129 * 4096, 1}}, KStart: 0x200000, KEnd: 0x202800, KRegion: 2, KMode: "cover", Style: "fixed-cover"},
	}
	for i, cfg := range fixed {
		cfg := cfg
		run.OneCase(vlib.FixedBase+i, func(c *vlib.Case) { one(c, cfg, c.R) })
	}

	if !run.Replay && !run.Single() {
		if totFrames == 0 || totOOM == 0 || totCross == 0 {
			run.Inconclusive(fmt.Sprintf("a core counter is zero in this shard: frames=%d drains-to-OOM=%d hand-over frames=%d", totFrames, totOOM, totCross))
		}
	}
}
