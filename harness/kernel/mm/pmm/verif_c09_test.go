//go:build verif
// +build verif

package pmm

import (
	"encoding/binary"
	"fmt"
	"runtime"
	gosync "sync"
	"sync/atomic"
	"testing"
	"time"

	"github.com/ProjectSerenity/firefly/kernel"
	"github.com/ProjectSerenity/firefly/kernel/mm"
	"github.com/ProjectSerenity/firefly/kernel/mm/vmm"
	"github.com/ProjectSerenity/firefly/kernel/multiboot"
	ksync "github.com/ProjectSerenity/firefly/kernel/sync"
	"github.com/ProjectSerenity/firefly/kernel/zzverif/vlib"
)

// C09 — concurrent AllocFrame/FreeFrame never duplicates or loses a frame.
//
// The allocator is initialised through the real pmm.Init on a small generated
// memory map; 2-16 callers then hammer it truly in parallel. Monitors:
//   - ownership table updated with compare-and-swap by the caller that got the frame
//   - client-boundary history of every call (one atomic logical clock), checked
//     offline by vcheck: per-frame linearizability (porcupine) + the OOM rule
//   - lock-discipline adversary holding alloc.mutex and watching for changes
//   - deterministic leak probe: the mutex must be free after every return path
//   - conservation at quiescence, then a full single-threaded drain
//   - in the -race build the race detector watches bitmap words and counters

type c09Region struct{ startFrame, frames uint64 }

type c09Config struct {
	regions      []c09Region // available regions (type 1), in frames
	gapTypes     []uint32    // type of the non-available filler region placed after region i
	kernelRegion int
	kernelOff    uint64 // first kernel frame relative to the region start
	kernelFrames uint64
	order        []int // order in which the memory map reports the regions (nil: ascending addresses)
}

var c09Arenas struct {
	info *vlib.Arena
	book *vlib.Arena
}

// c09BuildInfo writes a multiboot2 information block (memory map tag only).
func c09BuildInfo(cfg *c09Config) uintptr {
	var ents [][3]uint64 // addr, len, type
	for k := range cfg.regions {
		i := k
		if cfg.order != nil {
			i = cfg.order[k]
		}
		rg := cfg.regions[i]
		ents = append(ents, [3]uint64{rg.startFrame << 12, rg.frames << 12, 1})
		if cfg.gapTypes[i] != 0 {
			ents = append(ents, [3]uint64{(rg.startFrame + rg.frames) << 12, 4096, uint64(cfg.gapTypes[i])})
		}
	}
	size := 8 + 16 + 24*len(ents) + 8
	b := make([]byte, size)
	binary.LittleEndian.PutUint32(b[0:], uint32(size))
	binary.LittleEndian.PutUint32(b[8:], 6) // memory map tag
	binary.LittleEndian.PutUint32(b[12:], uint32(16+24*len(ents)))
	binary.LittleEndian.PutUint32(b[16:], 24) // entry size
	binary.LittleEndian.PutUint32(b[20:], 0)  // entry version
	o := 24
	for _, e := range ents {
		binary.LittleEndian.PutUint64(b[o:], e[0])
		binary.LittleEndian.PutUint64(b[o+8:], e[1])
		binary.LittleEndian.PutUint32(b[o+16:], uint32(e[2]))
		o += 24
	}
	// end tag: type 0 size 8
	binary.LittleEndian.PutUint32(b[o+4:], 8)
	if c09Arenas.info == nil {
		c09Arenas.info = vlib.MustArena(0, 1<<16, false)
		c09Arenas.book = vlib.MustArena(0, 1<<20, false)
	}
	c09Arenas.info.Fill(0)
	return c09Arenas.info.PlaceTailAligned(b, 8, 0)
}

// c09Init runs the real pmm.Init over cfg and returns the managed frame set
// (frames that can be handed out: available minus kernel minus early frames).
func c09Init(cfg *c09Config) (managed []uint64, earlyFrames map[uint64]bool, err *kernel.Error) {
	bootMemAllocator = BootMemAllocator{}
	bitmapAllocator = BitmapAllocator{}
	multiboot.SetInfoPtr(c09BuildInfo(cfg))
	c09Arenas.book.Fill(0xA5)
	reserveRegionFn = func(size uintptr) (uintptr, *kernel.Error) {
		if int(size) > c09Arenas.book.Size {
			return 0, &kernel.Error{Module: "verif", Message: "bookkeeping arena too small"}
		}
		return c09Arenas.book.Base, nil
	}
	earlyFrames = map[uint64]bool{}
	mapFn = func(_ mm.Page, f mm.Frame, _ vmm.PageTableEntryFlag) *kernel.Error {
		earlyFrames[uint64(f)] = true
		return nil
	}
	kr := cfg.regions[cfg.kernelRegion]
	ks := (kr.startFrame + cfg.kernelOff) << 12
	ke := ks + cfg.kernelFrames<<12
	if e := Init(uintptr(ks), uintptr(ke)); e != nil {
		return nil, nil, e
	}
	for ri, rg := range cfg.regions {
		for f := rg.startFrame; f < rg.startFrame+rg.frames; f++ {
			if ri == cfg.kernelRegion && f >= kr.startFrame+cfg.kernelOff && f < kr.startFrame+cfg.kernelOff+cfg.kernelFrames {
				continue
			}
			if earlyFrames[f] {
				continue
			}
			managed = append(managed, f)
		}
	}
	return managed, earlyFrames, nil
}

type c09Snap struct {
	reserved uint32
	free     []uint32
	words    [][]uint64
}

func c09Snapshot() c09Snap {
	s := c09Snap{reserved: bitmapAllocator.reservedPages}
	for i := range bitmapAllocator.pools {
		s.free = append(s.free, bitmapAllocator.pools[i].freeCount)
		s.words = append(s.words, append([]uint64(nil), bitmapAllocator.pools[i].freeBitmap...))
	}
	return s
}

func (a c09Snap) equal(b c09Snap) bool {
	if a.reserved != b.reserved || len(a.free) != len(b.free) {
		return false
	}
	for i := range a.free {
		if a.free[i] != b.free[i] || len(a.words[i]) != len(b.words[i]) {
			return false
		}
		for j := range a.words[i] {
			if a.words[i][j] != b.words[i][j] {
				return false
			}
		}
	}
	return true
}

func c09GenConfig(r *vlib.Rand, avoidWordPlusOne bool) *c09Config {
	cfg := &c09Config{}
	nr := r.Range(1, 3)
	base := uint64(r.Range(1, 4096))
	for i := 0; i < nr; i++ {
		var n uint64
		switch r.Intn(6) {
		case 0:
			n = uint64(r.PickInt([]int{2, 3, 4, 5, 8}))
		case 1:
			n = uint64(r.PickInt([]int{63, 64, 65, 66, 127, 128, 129, 130}))
		default:
			n = uint64(r.Range(2, 130))
		}
		if i == 0 && n < 6 {
			n += 6 // room for the kernel and the allocator's own bookkeeping frame
		}
		if avoidWordPlusOne && n%64 == 1 {
			n++
		}
		cfg.regions = append(cfg.regions, c09Region{base, n})
		gt := uint32(0)
		if r.Bool() {
			gt = uint32(r.PickInt([]int{2, 3, 4}))
		}
		cfg.gapTypes = append(cfg.gapTypes, gt)
		base += n + 1 + uint64(r.Intn(200))
	}
	cfg.kernelRegion = 0
	cfg.kernelFrames = uint64(r.Range(1, 3))
	cfg.kernelOff = 0
	if r.Bool() {
		cfg.kernelOff = uint64(r.Intn(int(cfg.regions[0].frames - cfg.kernelFrames - 1)))
	}
	if nr >= 2 && r.Chance(1, 3) {
		// the bootloader's map need not list the regions by ascending address: report them in another
		// order (the region reported first must have room for the allocator's own bookkeeping frames)
		ord := r.Perm(nr)
		if ord[0] == 0 || cfg.regions[ord[0]].frames >= 8 {
			cfg.order = ord
		}
	}
	return cfg
}

func c09Budget(run *vlib.Run) time.Duration {
	if run.Single() {
		return 120 * time.Second
	}
	return 30 * time.Second
}

func TestVerifC09(t *testing.T) {
	run := vlib.Start(t, "C09")
	run.SetCaseTimeout(0) // concurrent histories take seconds; the history watchdog below bounds them
	defer run.Finish()
	oldYield := ksync.VerifSetYieldFn(runtime.Gosched)
	defer ksync.VerifSetYieldFn(oldYield)
	defer func() { reserveRegionFn = vmm.EarlyReserveRegion; mapFn = vmm.Map }()
	prev := runtime.GOMAXPROCS(16)
	defer runtime.GOMAXPROCS(prev)
	raceBuild := ksync.VerifRaceEnabled

	run.SetRule("case = one concurrent history: real pmm.Init on a generated map (1-3 available regions of 2-130 frames, word-boundary sizes included; with 2-3 regions one case in three reports them in a permuted, not ascending, order), then 2-16 callers in parallel (GOMAXPROCS=16) each running a seed-fixed list of AllocFrame / FreeFrame(own frame) / FreeFrame(unmanaged frame) calls; every case with >= 8 usable frames closes with three callers allocating/holding/freeing one frame each while a fourth keeps freeing a frame that stays free (each of its calls must be refused); non-trivial = history in which at least one call returned out-of-memory and at least one frame was handed to two different callers over time (reuse after free); distinct = fingerprint of the per-frame owner sequences actually observed")
	run.Assume("yieldFn = runtime.Gosched; schedules are whatever 16 cores produce; callers never free a frame they do not hold (undefined by the statement)")

	nh := run.N(150, 8000)
	if raceBuild {
		nh = run.N(40, 1200)
	}
	run.Cases(nh, func(c *vlib.Case) {
		r := c.R
		cfg := c09GenConfig(r, false)
		nw := r.Range(2, 16)
		opsPer := r.Range(20, 600/nw+20)
		bias := r.Intn(3) // 0 alloc-biased, 1 free-biased, 2 bursts
		var regs [][2]uint64
		for _, rg := range cfg.regions {
			regs = append(regs, [2]uint64{rg.startFrame, rg.frames})
		}
		c.Begin(map[string]interface{}{"regions_[startFrame,frames]": regs, "reported_in_order": cfg.order, "kernel_off": cfg.kernelOff, "kernel_frames": cfg.kernelFrames, "workers": nw, "ops_per_worker": opsPer, "bias": bias})

		theory, _, ierr := c09Init(cfg)
		if ierr != nil {
			c.Violationf("init-failed", "pmm.Init failed on a map with enough memory: %v", ierr.Message)
			return
		}
		if len(theory) == 0 {
			return
		}
		usable := map[uint64]bool{}
		for _, f := range theory {
			usable[f] = true
		}
		// The baseline of this property is what a single caller can allocate before the
		// concurrent phase starts (whether that equals the usable set exactly is C03's job).
		var managed []uint64
		alloc := &bitmapAllocator
		init0 := c09Snapshot()

		// deterministic leak probe (single-threaded): after every distinct return path the mutex must be free
		probe := func(path string) bool {
			if !alloc.mutex.TryToAcquire() {
				c.Violationf("lock-leaked:"+path, "allocator mutex still held after %s returned: the next caller would block forever", path)
				alloc.mutex.Release() // do not hang the rest of the case
				return false
			}
			alloc.mutex.Release()
			return true
		}
		{
			f, e := alloc.AllocFrame()
			if e != nil {
				c.Violationf("alloc-failed-on-fresh-allocator", "first AllocFrame failed although %d frames are usable", len(theory))
				return
			}
			ok := probe("AllocFrame(ok)")
			if e2 := alloc.FreeFrame(f); e2 != nil {
				c.Violationf("free-own-frame-rejected", "FreeFrame(%#x) of a frame just allocated: %v", uint64(f), e2.Message)
				return
			}
			ok = probe("FreeFrame(ok)") && ok
			if e2 := alloc.FreeFrame(f); e2 != errBitmapAllocDoubleFree {
				c.Violationf("double-free-accepted", "second FreeFrame(%#x) returned %v", uint64(f), e2)
			}
			ok = probe("FreeFrame(double free)") && ok
			if e2 := alloc.FreeFrame(mm.Frame(cfg.regions[len(cfg.regions)-1].startFrame + 100000)); e2 != errBitmapAllocFrameNotManaged {
				c.Violationf("unmanaged-free-accepted", "FreeFrame of a frame outside every pool returned %v", e2)
			}
			ok = probe("FreeFrame(not managed)") && ok
			var got []mm.Frame
			for {
				f, e := alloc.AllocFrame()
				if e != nil {
					break
				}
				got = append(got, f)
				if !usable[uint64(f)] {
					c.Violationf("frame-outside-usable-set", "single-threaded drain returned frame %#x which is not usable RAM", uint64(f))
					return
				}
				managed = append(managed, uint64(f))
				if len(got) > len(theory)+8 {
					break
				}
			}
			if len(managed) != len(theory) {
				run.Count("histories_where_single_caller_drain_is_short_of_usable_set", 1)
			}
			ok = probe("AllocFrame(out of memory)") && ok
			for _, f := range got {
				alloc.FreeFrame(f)
			}
			if !ok {
				return
			}
			run.Count("leak_probe_paths_checked", 5)
			if !c09Snapshot().equal(init0) {
				c.Violationf("probe-not-conserving", "drain+free of every frame did not restore the initial bitmap/counters")
				return
			}
		}

		// frame index for the ownership table
		idx := map[uint64]int{}
		for i, f := range managed {
			idx[f] = i
		}
		owner := make([]int32, len(managed))
		type op struct {
			client, kind int // kind 0 alloc, 1 free own, 2 free unmanaged
			frame       uint64
			call, ret   int64
			out         int // 0 ok, 1 OOM, 2 not managed, 3 double free
		}
		var clock int64
		var completions int64
		var bad int32
		var badMsg atomic.Value
		fail := func(sig, format string, a ...interface{}) {
			if atomic.AddInt32(&bad, 1) == 1 {
				badMsg.Store([2]string{sig, fmt.Sprintf(format, a...)})
			}
		}
		logs := make([][]op, nw)
		ownerSeq := make([][]int32, len(managed)) // appended by the CAS winner only
		var wg, start gosync.WaitGroup
		start.Add(1)
		wg.Add(nw)
		var stopAdv int32
		var oomSeen, reuse int64
		forks := make([]*vlib.Rand, nw)
		for w := range forks {
			forks[w] = r.Fork(uint64(w) + 77)
		}
		for w := 0; w < nw; w++ {
			go func(w int) {
				defer wg.Done()
				pr := forks[w]
				var held []uint64
				log := make([]op, 0, opsPer)
				start.Wait()
				for k := 0; k < opsPer; k++ {
					var doAlloc bool
					switch bias {
					case 0:
						doAlloc = pr.Chance(65, 100)
					case 1:
						doAlloc = pr.Chance(45, 100)
					default:
						doAlloc = (k/8)%2 == 0
					}
					if len(held) == 0 && !doAlloc && !pr.Chance(1, 4) {
						doAlloc = true
					}
					switch {
					case doAlloc:
						t0 := atomic.AddInt64(&clock, 1)
						f, e := alloc.AllocFrame()
						t1 := atomic.AddInt64(&clock, 1)
						atomic.AddInt64(&completions, 1)
						if e != nil {
							if e != errBitmapAllocOutOfMemory || f != mm.InvalidFrame {
								fail("alloc-bad-error", "AllocFrame returned (%#x, %v)", uint64(f), e)
							}
							log = append(log, op{w, 0, 0, t0, t1, 1})
							atomic.AddInt64(&oomSeen, 1)
							if pr.Bool() {
								runtime.Gosched()
							}
							continue
						}
						i, ok := idx[uint64(f)]
						if !ok {
							fail("frame-outside-usable-set", "AllocFrame returned frame %#x which is not usable RAM (kernel, early-boot, gap or outside every region)", uint64(f))
							log = append(log, op{w, 0, uint64(f), t0, t1, 0})
							continue
						}
						if !atomic.CompareAndSwapInt32(&owner[i], 0, int32(w+1)) {
							fail("frame-held-twice", "AllocFrame gave frame %#x to caller %d while caller %d still holds it", uint64(f), w, atomic.LoadInt32(&owner[i])-1)
						} else {
							if n := len(ownerSeq[i]); n > 0 && ownerSeq[i][n-1] != int32(w) {
								atomic.AddInt64(&reuse, 1)
							}
							ownerSeq[i] = append(ownerSeq[i], int32(w)) // safe: we own the slot
						}
						held = append(held, uint64(f))
						log = append(log, op{w, 0, uint64(f), t0, t1, 0})
					case len(held) > 0 && !pr.Chance(1, 10):
						j := pr.Intn(len(held))
						f := held[j]
						held[j] = held[len(held)-1]
						held = held[:len(held)-1]
						if !atomic.CompareAndSwapInt32(&owner[idx[f]], int32(w+1), 0) {
							fail("ownership-table-corrupt", "frame %#x not owned by its holder", f)
						}
						t0 := atomic.AddInt64(&clock, 1)
						e := alloc.FreeFrame(mm.Frame(f))
						t1 := atomic.AddInt64(&clock, 1)
						atomic.AddInt64(&completions, 1)
						out := 0
						if e != nil {
							out = 3
							if e == errBitmapAllocFrameNotManaged {
								out = 2
							}
							fail("free-of-held-frame-rejected", "FreeFrame(%#x) by its holder returned %q", f, e.Message)
						}
						log = append(log, op{w, 1, f, t0, t1, out})
					default:
						// a frame no pool manages: just below the first region, in a gap, or far above
						var f uint64
						switch pr.Intn(3) {
						case 0:
							f = cfg.regions[0].startFrame - 1
						case 1:
							last := cfg.regions[len(cfg.regions)-1]
							f = last.startFrame + last.frames + uint64(pr.Intn(1000))
						default:
							f = uint64(mm.InvalidFrame)
						}
						if _, isManaged := idx[f]; isManaged {
							continue
						}
						inRegion := false
						for _, rg := range cfg.regions {
							if f >= rg.startFrame && f < rg.startFrame+rg.frames {
								inRegion = true
							}
						}
						if inRegion {
							continue
						}
						t0 := atomic.AddInt64(&clock, 1)
						e := alloc.FreeFrame(mm.Frame(f))
						t1 := atomic.AddInt64(&clock, 1)
						atomic.AddInt64(&completions, 1)
						if e != errBitmapAllocFrameNotManaged {
							fail("unmanaged-free-accepted", "FreeFrame(%#x) of an unmanaged frame returned %v", f, e)
						}
						log = append(log, op{w, 2, f, t0, t1, 2})
					}
				}
				// release everything still held so that the final drain can be exact
				for _, f := range held {
					atomic.CompareAndSwapInt32(&owner[idx[f]], int32(w+1), 0)
					t0 := atomic.AddInt64(&clock, 1)
					e := alloc.FreeFrame(mm.Frame(f))
					t1 := atomic.AddInt64(&clock, 1)
					out := 0
					if e != nil {
						out = 3
						fail("free-of-held-frame-rejected", "final FreeFrame(%#x) returned %q", f, e.Message)
					}
					log = append(log, op{w, 1, f, t0, t1, out})
				}
				logs[w] = log
			}(w)
		}
		// lock-discipline adversary
		advDone := make(chan struct{})
		var advRounds, advMaxCompl int64
		go func() {
			defer close(advDone)
			start.Wait()
			for atomic.LoadInt32(&stopAdv) == 0 {
				alloc.mutex.Acquire()
				c0 := atomic.LoadInt64(&completions)
				s0 := c09Snapshot()
				for i := 0; i < 20; i++ {
					runtime.Gosched()
				}
				s1 := c09Snapshot()
				c1 := atomic.LoadInt64(&completions)
				alloc.mutex.Release()
				if !s0.equal(s1) {
					fail("changed-under-foreign-lock", "bitmap words or counters changed while the harness held the allocator mutex: some path works without holding the lock")
				}
				if c1-c0 > int64(nw) {
					fail("completed-under-foreign-lock", "%d calls completed while the harness held the allocator mutex (at most %d could already have been past it)", c1-c0, nw)
				}
				if c1-c0 > advMaxCompl {
					advMaxCompl = c1 - c0
				}
				advRounds++
				for i := 0; i < 50; i++ {
					runtime.Gosched()
				}
			}
		}()
		done := make(chan struct{})
		go func() { wg.Wait(); close(done) }()
		start.Done()
		select {
		case <-done:
		case <-time.After(c09Budget(run)):
			run.Watchdog("concurrent history did not finish: some AllocFrame/FreeFrame call never returned")
		}
		atomic.StoreInt32(&stopAdv, 1)
		<-advDone

		if atomic.LoadInt32(&bad) != 0 {
			m := badMsg.Load().([2]string)
			c.Violation(m[0], m[1])
		}
		// conservation at quiescence: every frame was released, so everything must equal the initial state
		if !alloc.mutex.TryToAcquire() {
			c.Violationf("lock-leaked:concurrent", "allocator mutex held at quiescence")
		}
		alloc.mutex.Release()
		if s := c09Snapshot(); !s.equal(init0) {
			c.Violationf("totals-drifted", "after all callers stopped and released their frames: reserved=%d (initial %d), per-pool free=%v (initial %v) or bitmap words differ", s.reserved, init0.reserved, s.free, init0.free)
		}
		// full drain: exactly the usable frames, each once
		seen := map[uint64]bool{}
		var drainOrder []uint64
		for {
			f, e := alloc.AllocFrame()
			if e != nil {
				break
			}
			if _, ok := idx[uint64(f)]; !ok || seen[uint64(f)] {
				c.Violationf("drain-wrong-frame", "final drain returned frame %#x (usable=%v, duplicate=%v)", uint64(f), ok, seen[uint64(f)])
				break
			}
			seen[uint64(f)] = true
			drainOrder = append(drainOrder, uint64(f))
			if len(seen) > len(managed) {
				break
			}
		}
		if len(seen) != len(managed) {
			c.Violationf("frame-lost", "after the concurrent phase only %d of %d usable frames can be allocated: a freed frame did not become allocatable again", len(seen), len(managed))
		}

		// Refused frees among the callers. Three callers allocate one frame each, hold it briefly and free it,
		// so at most three frames are held at any time and the allocator (first free frame of the first pool
		// with room) never reaches the frame the drain above returned last. A fourth caller keeps freeing that
		// frame, which is free all the time: every such call has to be refused and must not disturb the others.
		if len(drainOrder) >= 8 && len(seen) == len(managed) && !c.Failed() {
			for _, f := range drainOrder {
				alloc.FreeFrame(mm.Frame(f))
			}
			never := drainOrder[len(drainOrder)-1]
			var owner gosync.Map
			var dup, badFree, accepted, refused, done int64
			var wg gosync.WaitGroup
			for w := 1; w <= 3; w++ {
				wg.Add(1)
				go func(id int) {
					defer wg.Done()
					defer atomic.AddInt64(&done, 1)
					for it := 0; it < 3000; it++ {
						f, e := alloc.AllocFrame()
						if e != nil {
							continue
						}
						if _, loaded := owner.LoadOrStore(uint64(f), id); loaded || uint64(f) == never {
							atomic.AddInt64(&dup, 1)
							continue
						}
						for spin := 0; spin < 40; spin++ {
							if v, _ := owner.Load(uint64(f)); v != id {
								atomic.AddInt64(&dup, 1)
								break
							}
						}
						owner.Delete(uint64(f))
						if e := alloc.FreeFrame(f); e != nil {
							atomic.AddInt64(&badFree, 1)
						}
					}
				}(w)
			}
			wg.Add(1)
			go func() {
				defer wg.Done()
				for atomic.LoadInt64(&done) < 3 {
					if e := alloc.FreeFrame(mm.Frame(never)); e != errBitmapAllocDoubleFree {
						atomic.AddInt64(&accepted, 1)
					}
					atomic.AddInt64(&refused, 1)
				}
			}()
			wg.Wait()
			run.Count("refused_frees_issued_among_concurrent_callers", refused)
			switch {
			case dup > 0:
				c.Violationf("frame-held-twice", "while a fourth caller kept issuing frees of the free frame %#x (each refused), a frame was handed to a caller while another still held it (%d times in 9000 allocations by three callers)", never, dup)
			case badFree > 0:
				c.Violationf("free-of-held-frame-rejected", "while a fourth caller kept issuing refused frees, %d frees of frames held by their caller were rejected", badFree)
			case accepted > 0:
				c.Violationf("free-of-free-frame-accepted", "%d of %d frees of frame %#x, which was free all the time, were not refused as double frees", accepted, refused, never)
			}
			if s := c09Snapshot(); !s.equal(init0) && !c.Failed() {
				c.Violationf("totals-drifted", "after the callers of the refused-free phase stopped: reserved=%d (initial %d), per-pool free=%v (initial %v) or bitmap words differ", s.reserved, init0.reserved, s.free, init0.free)
			}
		}

		// emit history
		var ops [][]int64
		nops := 0
		for _, lg := range logs {
			for _, o := range lg {
				ops = append(ops, []int64{int64(o.client), int64(o.kind), int64(o.frame), o.call, o.ret, int64(o.out)})
				nops++
			}
		}
		run.Emit(map[string]interface{}{"ev": "hist", "kind": "frames", "idx": c.Idx, "ops": ops, "managed": managed})
		run.Count("histories", 1)
		run.Count("history_ops", int64(nops))
		run.Count("oom_replies", oomSeen)
		run.Count("frame_reused_by_other_caller", reuse)
		run.Count("adversary_rounds", advRounds)
		run.Max("completions_during_foreign_hold", advMaxCompl)
		run.Max("workers", int64(nw))
		run.SetAdd("pool_sizes", fmt.Sprint(len(managed)))
		if oomSeen > 0 && reuse > 0 {
			fp := vlib.NewFP().Int(nw)
			for i := range ownerSeq {
				for _, o := range ownerSeq[i] {
					fp = fp.Int(int(o))
				}
				fp = fp.Int(-1)
			}
			run.Nontrivial(fp)
		}
		if run.WantSample() && oomSeen > 0 {
			first := ops
			if len(first) > 10 {
				first = first[:10]
			}
			run.Sample(map[string]interface{}{"regions_[startFrame,frames]": regs, "usable_frames": len(managed), "workers": nw, "oom_replies": oomSeen,
				"first_ops_[client,kind(0=alloc,1=free,2=free-unmanaged),frame,call,return,out(0=ok,1=OOM,2=not-managed,3=double-free)]": first})
		}
	})
}
