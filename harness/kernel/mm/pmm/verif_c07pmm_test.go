//go:build verif
// +build verif

package pmm

import (
	"fmt"
	"testing"
	"unsafe"

	"github.com/ProjectSerenity/firefly/kernel/zzverif/vlib"
)

// C07, second run: the allocator bootstrap is the one in-tree client that
// reserves a virtual region and maps it page by page itself
// (BitmapAllocator.setupPoolBitmaps). "Mapping a physical range through such a
// reservation maps exactly the pages needed to cover the requested size":
// the pages arriving at the map seam must be exactly ceil(size/4096)
// consecutive pages starting at the reserved address, each backed by its own
// frame, for memory maps whose bookkeeping size falls on, just below and just
// above a page multiple.

func TestVerifC07Pmm(t *testing.T) {
	run := vlib.Start(t, "C07")
	defer run.Finish()
	run.SetRule("case = real pmm.Init on a generated memory map (1-3 available regions) whose bookkeeping size (pool descriptors + bitmaps) is steered to k*4096-8, k*4096 or k*4096+8 bytes for k = 1..3, or left random; the reservation size and every (page, frame) pair reaching the map seam are compared with ceil(size/4096) consecutive pages; in a quarter of the cases the bootstrap is run again with the mapping of one page refused and then retried on the same allocator: every page the second attempt maps must lie, in order, inside the region it reserved (or kept); non-trivial = bookkeeping size within 8 bytes of a page multiple; distinct = fingerprint of the memory map")
	e := pmmvNewEnv()
	defer e.close()
	e.watchdog(run)
	poolSize := uint64(unsafe.Sizeof(framePool{}))

	n := run.N(400, 20000)
	run.Cases(n, func(c *vlib.Case) {
		r := c.R
		pools := r.Range(1, 3)
		// wanted total size of the bookkeeping data
		k := uint64(r.Range(1, 3))
		var want uint64
		switch r.Intn(4) {
		case 0:
			want = k*4096 - 8
		case 1, 2:
			want = k * 4096
		default:
			want = k*4096 + 8
		}
		random := r.Chance(1, 5)
		words := (want - uint64(pools)*poolSize) / 8
		if random || want < uint64(pools)*poolSize+8*uint64(pools) {
			words = uint64(r.Range(pools, 1500))
		}
		// distribute the bitmap words over the pools (each pool at least one word)
		cfg := &pmmvConfig{Style: "c07-bookkeeping-size", KMode: "start"}
		addr := uint64(0x100000)
		left := words
		for i := 0; i < pools; i++ {
			w := uint64(1)
			if i == pools-1 {
				w = left
			} else if left > uint64(pools-i) {
				w = 1 + uint64(r.Intn(int(left-uint64(pools-i))))
			}
			left -= w
			frames := (w-1)*64 + uint64(r.Range(1, 64)) // any frame count that needs exactly w words
			cfg.Regions = append(cfg.Regions, pmmvRegion{Addr: addr, Len: frames * 4096, Type: 1})
			addr += frames*4096 + uint64(r.Range(1, 64))*4096
			if r.Bool() {
				cfg.Regions = append(cfg.Regions, pmmvRegion{Addr: addr, Len: 4096, Type: uint32(r.PickInt([]int{2, 3, 4}))})
				addr += 2 * 4096
			}
		}
		// kernel: first frames of the largest pool (it must leave room for the early allocations)
		big := 0
		for i, rg := range cfg.Regions {
			if rg.Type == 1 && rg.Len > cfg.Regions[big].Len {
				big = i
			}
		}
		cfg.KRegion = big
		cfg.KStart = cfg.Regions[big].Addr
		cfg.KEnd = cfg.KStart + uint64(r.Range(1, 3))*4096 - uint64(r.Intn(100))
		needed := uint64(pools)*poolSize + words*8
		desc := cfg.desc()
		desc["bookkeeping_bytes"] = needed
		c.Begin(desc)
		e.install(cfg)
		err, pv, stack := e.init(cfg)
		if pv != nil {
			c.Violation(pmmvPanicSig("init-panic", pv, stack), map[string]interface{}{"panic": fmt.Sprint(pv), "stack": stack})
			return
		}
		if err != nil {
			run.Count("init_out_of_memory", 1) // tiny maps cannot host their own bookkeeping: judged by C03
			return
		}
		if len(e.reserveSizes) != 1 {
			c.Violationf("reservation-count", "%d reservations made, want 1", len(e.reserveSizes))
			return
		}
		size := e.reserveSizes[0]
		if size < needed {
			c.Violationf("reservation-too-small", "reserved %d bytes for %d bytes of pool descriptors and bitmaps", size, needed)
			return
		}
		wantPages := (size + 4095) / 4096
		if uint64(len(e.maps)) != wantPages {
			c.Violationf("bootstrap-page-count", "reservation of %d bytes (%d pages) but %d pages were mapped", size, wantPages, len(e.maps))
			return
		}
		seenFrame := map[uint64]bool{}
		for i, mc := range e.maps {
			if mc.Page != uint64(e.book.Base)/4096+uint64(i) {
				c.Violationf("bootstrap-page-not-consecutive", "map call %d maps page %#x, want %#x", i, mc.Page, uint64(e.book.Base)/4096+uint64(i))
				return
			}
			if seenFrame[mc.Frame] {
				c.Violationf("bootstrap-frame-reused", "frame %#x mapped twice", mc.Frame)
				return
			}
			seenFrame[mc.Frame] = true
		}
		run.Count("bootstrap_mappings_checked", int64(len(e.maps)))
		run.SetAdd("bookkeeping_size_mod_4096", fmt.Sprint(needed%4096))
		d := needed % 4096
		if d <= 8 || d >= 4088 {
			run.Nontrivial(cfg.fp(vlib.NewFP()))
			if d == 0 {
				run.Count("bookkeeping_exact_page_multiple", 1)
			}
		}
		if run.WantSample() && d == 0 {
			run.Sample(map[string]interface{}{"config": cfg.desc(), "bookkeeping_bytes": needed, "reserved_bytes": size, "pages_mapped": len(e.maps)})
		}

		// The same bootstrap once more, this time with the mapping of one of its pages refused and then tried
		// again on the same allocator (a caller that retries instead of giving up). Whatever the second attempt
		// reserves or keeps, every page it maps has to lie inside a region that was reserved, and in order.
		if !r.Chance(1, 4) {
			return
		}
		failAt := r.Intn(int(wantPages))
		e.install(cfg)
		e.failMapAt = failAt
		err, pv, _ = e.init(cfg)
		if pv != nil || err == nil || e.book == nil {
			return // the first attempt is judged above and by C03
		}
		firstBase, firstSize := uint64(e.book.Base), e.reserveSizes[0]
		nMaps, nRes := len(e.maps), len(e.reserveSizes)
		e.failMapAt = -1
		e.allowSecond = true
		_, pv2, stack2 := e.init(cfg)
		run.Count("bootstrap_retries_after_a_refused_mapping", 1)
		base, size := firstBase, firstSize
		if len(e.reserveSizes) > nRes && e.book2 != nil {
			base, size = uint64(e.book2.Base), e.reserveSizes[len(e.reserveSizes)-1]
		}
		for i, mc := range e.maps[nMaps:] {
			if mc.Page != base/4096+uint64(i) || uint64(i) >= (size+4095)/4096 {
				c.Violation("bootstrap-retry-page-outside-reservation", map[string]interface{}{
					"what": fmt.Sprintf("second attempt, map call %d maps page %#x; the region in use is [%#x, %#x) (%d bytes reserved)", i, mc.Page, base, base+size, size),
					"first_attempt": fmt.Sprintf("reserved %d bytes at %#x, mapping refused at page %d", firstSize, firstBase, failAt),
					"reservations_made_by_second_attempt": len(e.reserveSizes) - nRes, "panic_in_second_attempt": fmt.Sprint(pv2), "stack": stack2})
				return
			}
		}
		run.Count("bootstrap_retry_mappings_checked", int64(len(e.maps)-nMaps))
	})
}
