//go:build verif
// +build verif

package pmm

import (
	"fmt"
	"testing"

	"github.com/ProjectSerenity/firefly/kernel/mm"
	"github.com/ProjectSerenity/firefly/kernel/zzverif/vlib"
)

// C01 - once pmm.Init has succeeded, every frame handed out lies wholly inside
// an available region, is not a kernel-image frame, was not consumed by the
// early-boot allocator and is not held by anybody else; a frame re-appears only
// after it was freed.
//
// Oracle: the ownership table of pmmvModel (RAM, K, E, held), see
// verif_pmm_common_test.go. Whether Init succeeds, whether *all* usable frames
// can be obtained and what the accounting says is C03's business and is only
// counted here.

type c01Hist struct {
	c    *vlib.Case
	run  *vlib.Run
	m    *pmmvModel
	held []uint64
	// evidence
	allocs, frees, ooms, reallocs int
	dead                          bool // a violation was reported; stop the case
}

// alloc performs one mm.AllocFrame and checks the result against the table.
func (h *c01Hist) alloc() (gotFrame bool) {
	f, err := mm.AllocFrame()
	h.allocs++
	if err != nil {
		h.ooms++
		if h.m.FreeCount() > 0 {
			h.run.Count("oom_while_reference_has_free_frames", 1) // completeness is C03
		}
		return false
	}
	fr := uint64(f)
	pr, off := h.m.locate(fr)
	switch {
	case pr == nil:
		h.c.Violationf("frame-outside-available-ram", "AllocFrame returned frame %#x which does not lie wholly inside any available region", fr)
	case pr.st[off] == pmmvKernel:
		h.c.Violationf("frame-in-kernel-image", "AllocFrame returned frame %#x which intersects the kernel image (frames [%#x,%#x))", fr, h.m.KFirst, h.m.KEndExcl)
	case pr.st[off] == pmmvEarly:
		h.c.Violationf("frame-consumed-by-early-allocator", "AllocFrame returned frame %#x which the early-boot allocator handed to mapFn during Init", fr)
	case pr.st[off] == pmmvHeld:
		h.c.Violationf("frame-handed-out-twice", "AllocFrame returned frame %#x which is still held (allocation #%d, %d frames held)", fr, h.allocs, len(h.held))
	default:
		if pr.was[off]&1 != 0 {
			h.reallocs++
		}
		h.m.set(pr, off, pmmvHeld)
		h.held = append(h.held, fr)
		return true
	}
	h.dead = true
	return false
}

// free releases held[i].
func (h *c01Hist) free(i int) {
	fr := h.held[i]
	h.held[i] = h.held[len(h.held)-1]
	h.held = h.held[:len(h.held)-1]
	err := bitmapAllocator.FreeFrame(mm.Frame(fr))
	h.frees++
	if err != nil {
		h.c.Violationf("free-of-held-frame-rejected", "FreeFrame(%#x) of a held frame returned %q", fr, err.Message)
		h.dead = true
		return
	}
	pr, off := h.m.locate(fr)
	h.m.set(pr, off, pmmvFree)
	pr.was[off] |= 1
}

// refused issues a free that has to be refused - a frame that is free at the moment, or one no pool manages - as a
// careless caller would. Whether and how it is refused is C03's business; here it is part of the history: what is
// handed out afterwards must still be judged by the same reference, which the refused request does not change.
func (h *c01Hist) refused(r *vlib.Rand) {
	if len(h.m.Ranges) == 0 {
		return
	}
	pr := &h.m.Ranges[r.Intn(len(h.m.Ranges))]
	fr := pr.First + pr.N + uint64(r.Intn(3)) // past the pool
	if pr.free > 0 && r.Intn(3) != 0 {
		off := r.U64() % pr.N
		for pr.st[off] != pmmvFree {
			off = (off + 1) % pr.N
		}
		fr = pr.First + off // a frame that is free right now
	} else if p2, _ := h.m.locate(fr); p2 != nil {
		return // lands in the next pool: not a request that must be refused
	}
	if pv, _ := vlib.Protect(func() { _ = bitmapAllocator.FreeFrame(mm.Frame(fr)) }); pv != nil {
		h.run.Count("refused_free_panicked(judged by C03)", 1)
		h.dead = true
		return
	}
	h.run.Count("refused_frees_in_history", 1)
}

func (h *c01Hist) drain() {
	limit := h.m.RAM + 2
	for n := uint64(0); n < limit && !h.dead; n++ {
		if !h.alloc() {
			return
		}
	}
	if !h.dead {
		// more successful allocations than RAM has frames cannot happen without a duplicate; defensive
		h.c.Violationf("frame-handed-out-twice", "drain did not reach out-of-memory after %d allocations (|RAM| = %d)", limit, h.m.RAM)
		h.dead = true
	}
}

// freeAll frees every held frame in the given order.
func (h *c01Hist) freeAll(order string, r *vlib.Rand) {
	fr := append([]uint64(nil), h.held...)
	// h.held order is arbitrary: derive a canonical ascending list first
	pmmvSortU64(fr)
	switch order {
	case "ascending":
	case "reverse":
		for i, j := 0, len(fr)-1; i < j; i, j = i+1, j-1 {
			fr[i], fr[j] = fr[j], fr[i]
		}
	case "random":
		p := r.Perm(len(fr))
		out := make([]uint64, len(fr))
		for i, k := range p {
			out[i] = fr[k]
		}
		fr = out
	case "pool-interleaved":
		// round-robin over the available regions
		buckets := make([][]uint64, len(h.m.Ranges))
		for _, f := range fr {
			for i := range h.m.Ranges {
				if pr := &h.m.Ranges[i]; f >= pr.First && f-pr.First < pr.N {
					buckets[i] = append(buckets[i], f)
				}
			}
		}
		out := fr[:0:0]
		for more := true; more; {
			more = false
			for i := range buckets {
				if len(buckets[i]) > 0 {
					out = append(out, buckets[i][0])
					buckets[i] = buckets[i][1:]
					more = true
				}
			}
		}
		fr = out
	}
	pos := make(map[uint64]int, len(h.held))
	for i, f := range h.held {
		pos[f] = i
	}
	for _, f := range fr {
		if h.dead {
			return
		}
		i := pos[f]
		last := h.held[len(h.held)-1]
		h.free(i)
		if i < len(h.held) {
			pos[last] = i
		}
		delete(pos, f)
	}
}

var c01Orders = []string{"ascending", "reverse", "random", "pool-interleaved"}

func TestVerifC01(t *testing.T) {
	run := vlib.Start(t, "C01")
	defer run.Finish()
	run.SetRule("case = generated multiboot memory map (1-8 sorted non-overlapping regions, types {1,2,3,4,5,0,random}, aligned/unaligned, sub-page regions, frame counts biased to 1,2,63,64,65,127,128,129,191,192,193 and up to a few thousand) + kernel placement (start/middle/end/cover/leave-one-frame, end aligned or not) + history (drain to OOM, then 2-5 phases of free-heavy / alloc-heavy mixes and free-all(ascending|reverse|random|pool-interleaved)+re-drain); non-trivial = Init succeeded, >=2 available regions with whole frames, >=1 region whose frame count is 63/64/65 mod 64, and at least one freed frame was handed out again; distinct = fingerprint of (memory map, kernel placement, operation count)")
	run.Assume("mapFn and reserveRegionFn are stubbed (the real vmm is not involved): frames passed to mapFn are taken to be the early-boot frames E; the bookkeeping memory is a guard-paged host arena of exactly the requested size")
	run.Assume("Init panics / errors are counted, not judged (C03 judges them); configurations for which Init does not succeed contribute no allocation history")

	env := pmmvNewEnv()
	defer env.close()
	env.watchdog(run)

	maxFrames := run.N(3000, 20000)
	var totAllocs, totFrees, totOOM, totRealloc int
	run.Cases(run.N(4000, 200000), func(c *vlib.Case) {
		r := c.R.Fork(0xC01)
		mf := maxFrames
		big := r.Intn(25) == 0
		cfg := pmmvGenConfig(r.Fork(1), pmmvGenOpts{MaxFrames: mf, Big: big, ForceBoundary: r.Intn(4) == 0})
		hr := r.Fork(2)
		opBudget := hr.Range(100, 600)
		if run.Thorough() {
			opBudget = hr.Range(100, 4000)
			if hr.Intn(20) == 0 {
				opBudget = 10000
			}
		}
		c.Begin(cfg.desc())
		m := pmmvNewModel(cfg)
		env.install(cfg)
		err, pv, stack := env.init(cfg)
		if pv != nil {
			run.Count("init_panicked", 1)
			run.SetAdd("init_panic_sites", vlib.PanicSite(stack)+":"+vlib.PanicClass(pv))
			return
		}
		if err != nil {
			run.Count("init_error_"+pmmvErrName(err), 1)
			return
		}
		run.Count("init_ok", 1)
		// E: what the early allocator handed to the map seam
		for _, fr := range env.earlySeq() {
			pr, off := m.locate(fr)
			if pr == nil || pr.st[off] != pmmvFree {
				run.Count("early_frame_not_in_free_ram", 1) // judged by C02
				continue
			}
			m.set(pr, off, pmmvEarly)
		}
		run.Count("early_frames", int64(len(env.earlySeq())))
		run.Count("early_frames_taken_by_the_map_seam_for_page_tables", int64(len(env.pt)))
		if len(env.maps) >= 2 {
			run.Count("configs_with_2_or_more_early_frames", 1)
		}

		h := &c01Hist{c: c, run: run, m: m}
		h.drain()
		phases := hr.Range(2, 5)
		var phaseNames []string
		for p := 0; p < phases && !h.dead; p++ {
			kind := hr.Intn(8)
			switch {
			case kind <= 1: // free-heavy mix
				phaseNames = append(phaseNames, "free-heavy")
				for k := 0; k < opBudget && !h.dead; k++ {
					if hr.Intn(24) == 0 {
						h.refused(hr)
					}
					if len(h.held) > 0 && hr.Intn(4) != 0 {
						h.free(hr.Intn(len(h.held)))
					} else {
						h.alloc()
					}
				}
			case kind <= 3: // alloc-heavy mix
				phaseNames = append(phaseNames, "alloc-heavy")
				for k := 0; k < opBudget && !h.dead; k++ {
					if hr.Intn(24) == 0 {
						h.refused(hr)
					}
					if len(h.held) > 0 && hr.Intn(4) == 0 {
						h.free(hr.Intn(len(h.held)))
					} else {
						h.alloc()
					}
				}
			case kind == 4: // free a random subset, then drain
				phaseNames = append(phaseNames, "free-some+drain")
				k := 0
				if len(h.held) > 0 {
					k = hr.Range(1, len(h.held))
				}
				for ; k > 0 && !h.dead && len(h.held) > 0; k-- {
					h.free(hr.Intn(len(h.held)))
					if hr.Intn(16) == 0 {
						h.refused(hr)
					}
				}
				if !h.dead {
					h.drain()
				}
			default: // free everything in some order, re-allocate everything
				o := c01Orders[hr.Intn(len(c01Orders))]
				phaseNames = append(phaseNames, "free-all-"+o+"+drain")
				h.freeAll(o, hr)
				if !h.dead {
					h.drain()
				}
			}
		}
		run.Count("ops_alloc", int64(h.allocs))
		run.Count("ops_free", int64(h.frees))
		run.Count("oom_returned", int64(h.ooms))
		run.Count("freed_frames_handed_out_again", int64(h.reallocs))
		totAllocs, totFrees, totOOM, totRealloc = totAllocs+h.allocs, totFrees+h.frees, totOOM+h.ooms, totRealloc+h.reallocs
		run.Max("frames_in_one_configuration", int64(m.RAM))
		run.Max("ops_in_one_case", int64(h.allocs+h.frees))
		for i := range m.Ranges {
			n := m.Ranges[i].N
			if n <= 193 || n%64 <= 1 || n%64 == 63 {
				run.SetAdd("region_frame_counts", fmt.Sprintf("n=%d", n))
			}
		}
		run.SetAdd("kernel_modes", cfg.KMode)
		run.SetAdd("styles", cfg.Style)
		if h.dead {
			return
		}
		if len(m.Ranges) >= 2 && m.Boundary && h.reallocs > 0 {
			run.Nontrivial(cfg.fp(vlib.NewFP()).Int(h.allocs + h.frees))
		}
		if run.WantSample() && len(m.Ranges) >= 2 && h.reallocs > 0 && m.RAM < 600 {
			d := cfg.desc()
			d["phases"] = phaseNames
			d["allocs"], d["frees"], d["oom"], d["early_frames"] = h.allocs, h.frees, h.ooms, len(env.maps)
			run.Sample(d)
		}
	})

	// fixed regression inputs: the layouts of DESIGN.md section 5 rows 1 and 11
	fixed := []*pmmvConfig{
		{Regions: []pmmvRegion{{0, 0x800, 1}, {0x100000, 65 * 4096, 1}}, KStart: 0x100000, KEnd: 0x101800, KRegion: 1, KMode: "start", Style: "fixed-region-0-sub-page"},
		{Regions: []pmmvRegion{{0x100000, 129 * 4096, 1}, {0x400000, 64 * 4096, 1}}, KStart: 0x100000 + 127*4096, KEnd: 0x100000 + 129*4096, KRegion: 0, KMode: "end", Style: "fixed-129-kernel-on-last-frame"},
		{Regions: []pmmvRegion{{0x1000, 4096, 1}, {0x3000, 65 * 4096, 1}, {0x100000, 2 * 4096, 1}}, KStart: 0x100000, KEnd: 0x100800, KRegion: 2, KMode: "start", Style: "fixed-1-frame-pool"},
	}
	for i, cfg := range fixed {
		cfg := cfg
		run.OneCase(vlib.FixedBase+i, func(c *vlib.Case) {
			c.Begin(cfg.desc())
			m := pmmvNewModel(cfg)
			env.install(cfg)
			err, pv, _ := env.init(cfg)
			if pv != nil || err != nil {
				run.Count("fixed_init_not_ok", 1)
				return
			}
			for _, fr := range env.earlySeq() {
				if pr, off := m.locate(fr); pr != nil && pr.st[off] == pmmvFree {
					m.set(pr, off, pmmvEarly)
				}
			}
			h := &c01Hist{c: c, run: run, m: m}
			h.drain()
			if !h.dead {
				h.freeAll("reverse", c.R)
			}
			if !h.dead {
				h.drain()
			}
			run.Count("ops_alloc", int64(h.allocs))
			run.Count("ops_free", int64(h.frees))
			run.Count("oom_returned", int64(h.ooms))
		})
	}

	if !run.Replay && !run.Single() {
		if totAllocs == 0 || totFrees == 0 || totOOM == 0 || totRealloc == 0 {
			run.Inconclusive(fmt.Sprintf("a core counter is zero in this shard: allocs=%d frees=%d oom=%d re-allocations=%d", totAllocs, totFrees, totOOM, totRealloc))
		}
	}
}
