//go:build verif
// +build verif

package pmm

// Shared parts of the C01 / C02 / C03 harnesses:
//
//   * pmmvGenConfig  - generator of bootloader memory maps + kernel placements
//   * pmmvBuildInfo  - encodes a configuration as a real multiboot2 info block
//   * pmmvModel      - the reference model (independent set computation in
//                      wide integers: RAM, K, E, held) written from the property
//                      statements, not from the allocator's expressions
//   * pmmvEnv        - the simulated machine: the info block lives in a
//                      guard-paged arena (last byte before a PROT_NONE page), the
//                      allocator's bookkeeping memory is a guard-paged arena of
//                      exactly the size the allocator asked reserveRegionFn for
//
// All identifiers are prefixed pmmv: other harnesses share this package.

import (
	"encoding/binary"
	"fmt"
	"math/bits"
	"runtime/debug"
	"sync/atomic"
	"time"
	"unsafe"

	"github.com/ProjectSerenity/firefly/kernel"
	"github.com/ProjectSerenity/firefly/kernel/mm"
	"github.com/ProjectSerenity/firefly/kernel/mm/vmm"
	"github.com/ProjectSerenity/firefly/kernel/multiboot"
	"github.com/ProjectSerenity/firefly/kernel/zzverif/vlib"
)

const pmmvPage = uint64(4096)

// ---------------------------------------------------------------------------
// configuration

type pmmvRegion struct {
	Addr, Len uint64
	Type      uint32
}

type pmmvConfig struct {
	Regions      []pmmvRegion
	KStart, KEnd uint64 // kernel image = [KStart, KEnd), KStart page aligned
	KRegion      int    // region hosting the kernel
	KMode        string
	Style        string
	Decoys       int // unrelated tags placed before the memory map tag
}

func (cfg *pmmvConfig) desc() map[string]interface{} {
	regs := make([]string, len(cfg.Regions))
	for i, rg := range cfg.Regions {
		regs[i] = fmt.Sprintf("%#x+%#x t%d", rg.Addr, rg.Len, rg.Type)
	}
	return map[string]interface{}{
		"regions": regs,
		"kernel":  fmt.Sprintf("[%#x,%#x) in region %d (%s)", cfg.KStart, cfg.KEnd, cfg.KRegion, cfg.KMode),
		"style":   cfg.Style,
		"decoys":  cfg.Decoys,
	}
}

func (cfg *pmmvConfig) fp(f vlib.FP) vlib.FP {
	for _, rg := range cfg.Regions {
		f = f.U64(rg.Addr).U64(rg.Len).U64(uint64(rg.Type))
	}
	return f.U64(cfg.KStart).U64(cfg.KEnd)
}

func pmmvCeil4k(a uint64) uint64 { return (a + pmmvPage - 1) &^ (pmmvPage - 1) }

type pmmvGenOpts struct {
	MaxFrames     int  // upper bound of the "few thousand frames" size class
	ForceBoundary bool // every available region gets a word-boundary frame count
	Huge          bool // one region with 2^20..2^31 frames (sizing arithmetic only)
	Big           bool // one available region with 33000..100000 frames: bookkeeping memory of >= 2 pages
}

var pmmvBoundaryCounts = []int{1, 2, 63, 64, 65, 127, 128, 129, 191, 192, 193}
var pmmvOtherTypes = []uint32{2, 3, 4, 5, 0}

// pmmvGenConfig draws one configuration. It is a function of r only.
func pmmvGenConfig(r *vlib.Rand, o pmmvGenOpts) *pmmvConfig {
	for attempt := 0; attempt < 64; attempt++ {
		if cfg := pmmvTryGen(r, o); cfg != nil {
			return cfg
		}
	}
	// practically unreachable; keeps the case list total
	return &pmmvConfig{Regions: []pmmvRegion{{0x100000, 0x41000, 1}}, KStart: 0x100000, KEnd: 0x102800, KRegion: 0, KMode: "fallback", Style: "fallback"}
}

func pmmvTryGen(r *vlib.Rand, o pmmvGenOpts) *pmmvConfig {
	cfg := &pmmvConfig{}
	styleN := r.Intn(12)
	switch {
	case styleN == 0:
		cfg.Style = "tiny" // only sub-page and zero-whole-frame regions
	case styleN <= 2:
		cfg.Style = "adjacent" // regions touch each other
	default:
		cfg.Style = "general"
	}
	if o.Huge {
		cfg.Style = "huge"
	}
	n := r.Range(1, 8)
	var cursor uint64
	startZero := false
	switch r.Intn(6) {
	case 0, 1:
		cursor, startZero = 0, true
	case 2:
		cursor = uint64(r.Range(1, 4095))
	case 3:
		cursor = 0x100000
	case 4:
		cursor = uint64(r.Intn(1<<20))<<12 + uint64(r.Intn(2))*uint64(r.Intn(4096))
	default:
		cursor = (r.U64() % (1 << uint(30+r.Intn(21)))) &^ (pmmvPage - 1)
	}
	bigLeft := 1 + r.Intn(2)
	hugeAt, bigAt := -1, -1
	if o.Huge {
		hugeAt = r.Intn(n)
	} else if o.Big {
		bigAt = r.Intn(n)
	}
	for i := 0; i < n; i++ {
		var gap uint64
		switch r.Intn(6) {
		case 0, 1:
			gap = 0
		case 2:
			gap = uint64(r.Range(1, 4095))
		case 3:
			gap = uint64(r.Range(1, 300)) * pmmvPage
		case 4:
			gap = uint64(r.Range(1, 1<<20))*pmmvPage + uint64(r.Intn(4096))
		default:
			gap = uint64(r.Range(1, 3)) * pmmvPage
		}
		if cfg.Style == "adjacent" || (i == 0 && startZero) {
			gap = 0
		}
		addr := cursor + gap
		if r.Bool() || cfg.Style == "adjacent" {
			addr = pmmvCeil4k(addr)
		}
		if i == 0 && startZero {
			addr = 0
		}
		var typ uint32 = 1
		if r.Intn(100) >= 58 {
			if r.Intn(5) == 0 {
				typ = r.U32()
				if typ == 1 {
					typ = 0x101
				}
			} else if r.Intn(5) == 0 {
				// firmware-defined types that look like "available" in part of their bits
				typ = []uint32{0x101, 0x201, 0x10001, 0x80000001, 0xffffff01, 0x100, 0x10000}[r.Intn(7)]
			} else {
				typ = pmmvOtherTypes[r.Intn(len(pmmvOtherTypes))]
			}
		}
		var frames uint64
		switch cls := r.Intn(10); {
		case cls == 0:
			frames = 0
		case cls <= 5:
			frames = uint64(r.PickInt(pmmvBoundaryCounts))
		case cls <= 7:
			frames = uint64(r.Range(1, 300))
		case cls == 8:
			if bigLeft > 0 && o.MaxFrames > 300 {
				bigLeft--
				frames = uint64(r.Range(300, o.MaxFrames))
			} else {
				frames = uint64(r.Range(1, 300))
			}
		default:
			frames = uint64(64*r.Range(1, 8) + r.Range(-1, 1))
		}
		if o.ForceBoundary && typ == 1 {
			frames = uint64(r.PickInt(pmmvBoundaryCounts))
			if r.Intn(4) == 0 {
				frames = uint64(64*r.Range(1, 6) + r.Range(-1, 1))
			}
		}
		if cfg.Style == "tiny" {
			frames = 0
		}
		if i == bigAt {
			typ = 1
			frames = uint64(r.Range(33000, 100000))
		}
		if i == hugeAt {
			typ = 1
			switch r.Intn(5) {
			case 0:
				frames = 1 << 20
			case 1:
				frames = 1<<31 - 1
			case 2:
				frames = 1 << 31
			case 3:
				frames = 1<<24 + 1
			default:
				frames = uint64(1<<20) + r.U64()%(1<<31-1<<20)
			}
		}
		head := pmmvCeil4k(addr) - addr
		var tail uint64
		if !r.Bool() && cfg.Style != "adjacent" {
			tail = uint64(r.Range(1, 4095))
		}
		if frames == 0 && r.Intn(3) == 0 && head > 1 {
			// strictly inside one page: stops before the next page boundary
			head = uint64(r.Range(1, int(head-1)))
			tail = 0
		}
		length := head + frames*pmmvPage + tail
		if length == 0 {
			tail = uint64(r.Range(1, 4095))
			length = tail
		}
		cfg.Regions = append(cfg.Regions, pmmvRegion{Addr: addr, Len: length, Type: typ})
		cursor = addr + length
	}
	// kernel: page-aligned start inside one available region
	var elig []int
	for i, rg := range cfg.Regions {
		if rg.Type == 1 && pmmvCeil4k(rg.Addr) < rg.Addr+rg.Len {
			elig = append(elig, i)
		}
	}
	if len(elig) == 0 {
		return nil
	}
	g := elig[r.Intn(len(elig))]
	rg := cfg.Regions[g]
	s0, e0 := pmmvCeil4k(rg.Addr), rg.Addr+rg.Len
	np := int((e0 - s0 + pmmvPage - 1) / pmmvPage) // number of possible start pages
	if np > 1<<22 {
		np = 1 << 22
	}
	eFloor := e0 &^ (pmmvPage - 1)
	small := func() int { return r.Range(1, pmmvMinInt(np, 1+r.Intn(6))) }
	ks, ke := s0, e0
	mode := r.Intn(8)
	switch mode {
	case 7:
		// the image ends one to three frames below a multiple of 64 frames of its pool: the frames taken
		// right behind it start in the middle of a bitmap word and run into the next one
		cfg.KMode = "ends-just-below-a-bitmap-word"
		if np >= 70 {
			words := r.Range(1, (np-3)/64)
			if words > 4 {
				words = r.Range(1, 4)
			}
			first := 0
			if r.Bool() {
				first = r.Range(0, words*64-4)
			}
			ks = s0 + uint64(first)*pmmvPage
			ke = s0 + uint64(words*64-r.Range(1, 3))*pmmvPage
		} else {
			ke = pmmvMinU64(e0, ks+uint64(small())*pmmvPage)
		}
	case 0:
		cfg.KMode = "start"
		ks = s0
		ke = pmmvMinU64(e0, ks+uint64(small())*pmmvPage)
	case 1:
		cfg.KMode = "middle"
		if np >= 3 {
			ks = s0 + uint64(r.Range(1, np-2))*pmmvPage
			ke = pmmvMinU64(e0, ks+uint64(r.Range(1, pmmvMinInt(np-2, 6)))*pmmvPage)
			if ke >= eFloor && eFloor > ks+pmmvPage {
				ke = eFloor - pmmvPage // keep at least the last whole frame free
			}
		} else {
			ke = pmmvMinU64(e0, ks+pmmvPage)
		}
	case 2:
		cfg.KMode = "end"
		k := small()
		ks = s0 + uint64(np-k)*pmmvPage
		ke = e0
		if r.Bool() && eFloor > ks {
			ke = eFloor // ends exactly with the region's last whole frame
		}
	case 3:
		cfg.KMode = "cover"
		ks, ke = s0, e0
	case 4:
		cfg.KMode = "random"
		ks = s0 + uint64(r.Intn(np))*pmmvPage
		span := e0 - ks
		if span > 16*pmmvPage && r.Intn(4) != 0 {
			span = 16 * pmmvPage
		}
		ke = ks + 1 + r.U64()%span
	case 5:
		cfg.KMode = "leaves-first-frame"
		if np >= 2 {
			ks, ke = s0+pmmvPage, e0
		}
	default:
		cfg.KMode = "leaves-last-frame"
		if eFloor >= s0+2*pmmvPage {
			ks, ke = s0, eFloor-pmmvPage
		}
	}
	// kernel end aligned or not (never past the region, never empty)
	if ke&(pmmvPage-1) == 0 && r.Intn(3) == 0 && mode != 3 {
		ke -= uint64(r.Range(1, 4095))
	}
	if ke <= ks {
		ke = pmmvMinU64(e0, ks+pmmvPage)
	}
	if ke <= ks || ke > e0 || ks < rg.Addr || ks&(pmmvPage-1) != 0 {
		return nil
	}
	cfg.KStart, cfg.KEnd, cfg.KRegion = ks, ke, g
	cfg.Decoys = r.Intn(3)
	return cfg
}

func pmmvMinInt(a, b int) int {
	if a < b {
		return a
	}
	return b
}

func pmmvMinU64(a, b uint64) uint64 {
	if a < b {
		return a
	}
	return b
}

// ---------------------------------------------------------------------------
// multiboot2 information block

func pmmvBuildInfo(cfg *pmmvConfig) []byte {
	var b []byte
	u32 := func(v uint32) {
		var t [4]byte
		binary.LittleEndian.PutUint32(t[:], v)
		b = append(b, t[:]...)
	}
	u64 := func(v uint64) {
		var t [8]byte
		binary.LittleEndian.PutUint64(t[:], v)
		b = append(b, t[:]...)
	}
	pad := func() {
		for len(b)%8 != 0 {
			b = append(b, 0)
		}
	}
	u32(0) // total size, patched below
	u32(0) // reserved
	for d := 0; d < cfg.Decoys; d++ {
		if d == 0 {
			// basic memory info (type 4, 16 bytes)
			u32(4)
			u32(16)
			u32(640)
			u32(0x1fc00)
		} else {
			// boot command line (type 1)
			s := "verif=pmm\x00"
			u32(1)
			u32(uint32(8 + len(s)))
			b = append(b, s...)
			pad()
		}
	}
	// the entry size is the bootloader's to choose (a multiple of 8, at least 24): a function of the configuration,
	// a third of the maps each with 24-, 32- and 40-byte entries; the bytes behind the defined fields look like
	// another entry that says "available"
	es := 24 + 8*int((uint64(len(cfg.Regions))+cfg.KStart>>12+uint64(cfg.Decoys))%3)
	u32(6) // memory map
	u32(uint32(16 + es*len(cfg.Regions)))
	u32(uint32(es)) // entry size
	u32(0)          // entry version
	for _, rg := range cfg.Regions {
		u64(rg.Addr)
		u64(rg.Len)
		u32(rg.Type)
		u32(0)
		for k := 24; k < es; k += 8 {
			u32(1)
			u32(0)
		}
	}
	pad()
	u32(0) // end tag
	u32(8)
	binary.LittleEndian.PutUint32(b[0:], uint32(len(b)))
	return b
}

// ---------------------------------------------------------------------------
// reference model

const (
	pmmvFree uint8 = iota
	pmmvKernel
	pmmvEarly
	pmmvHeld
)

// pmmvRange is the set of frames lying wholly inside one available region.
type pmmvRange struct {
	First, N uint64 // frames [First, First+N)
	Region   int
	st       []uint8 // state per frame (nil for ranges too large to materialise)
	was      []uint8 // bit0: has been freed at least once
	free     uint64  // frames of this range in state pmmvFree
}

type pmmvModel struct {
	Ranges           []pmmvRange
	RAM              uint64 // |RAM|
	KinRAM           uint64 // |K ∩ RAM|
	Early            uint64 // |E| (those inside RAM \ K)
	Held             uint64
	KFirst, KEndExcl uint64 // K = frames [KFirst, KEndExcl)
	Dense            bool   // per-frame state is materialised
	Boundary         bool   // some range has N mod 64 in {63, 0, 1}
}

const pmmvDenseLimit = 1 << 21

func pmmvNewModel(cfg *pmmvConfig) *pmmvModel {
	m := &pmmvModel{Dense: true}
	m.KFirst = cfg.KStart >> 12
	m.KEndExcl = cfg.KEnd >> 12
	if cfg.KEnd&(pmmvPage-1) != 0 {
		m.KEndExcl++
	}
	for i, rg := range cfg.Regions {
		if rg.Type != 1 {
			continue
		}
		first := rg.Addr >> 12
		if rg.Addr&(pmmvPage-1) != 0 {
			first++
		}
		sum, carry := bits.Add64(rg.Addr, rg.Len, 0)
		endExcl := sum>>12 | carry<<52
		if endExcl <= first {
			continue
		}
		n := endExcl - first
		pr := pmmvRange{First: first, N: n, Region: i}
		// kernel frames inside this range
		lo, hi := pmmvMaxU64(first, m.KFirst), pmmvMinU64(endExcl, m.KEndExcl)
		var kin uint64
		if hi > lo {
			kin = hi - lo
		}
		if n <= pmmvDenseLimit {
			pr.st = make([]uint8, n)
			pr.was = make([]uint8, n)
			for f := lo; f < hi; f++ {
				pr.st[f-first] = pmmvKernel
			}
		} else {
			m.Dense = false
		}
		pr.free = n - kin
		m.KinRAM += kin
		m.RAM += n
		if k := n % 64; k == 63 || k == 0 || k == 1 {
			m.Boundary = true
		}
		m.Ranges = append(m.Ranges, pr)
	}
	return m
}

func pmmvMaxU64(a, b uint64) uint64 {
	if a > b {
		return a
	}
	return b
}

func (m *pmmvModel) locate(f uint64) (*pmmvRange, uint64) {
	for i := range m.Ranges {
		pr := &m.Ranges[i]
		if f >= pr.First && f-pr.First < pr.N {
			return pr, f - pr.First
		}
	}
	return nil, 0
}

func (m *pmmvModel) inK(f uint64) bool { return f >= m.KFirst && f < m.KEndExcl }

// FreeCount is |RAM \ K \ E \ held|.
func (m *pmmvModel) FreeCount() uint64 { return m.RAM - m.KinRAM - m.Early - m.Held }

// set changes the state of a frame known to be in RAM and keeps the counters.
func (m *pmmvModel) set(pr *pmmvRange, off uint64, to uint8) {
	from := pr.st[off]
	if from == to {
		return
	}
	dec := func(s uint8) {
		switch s {
		case pmmvFree:
			pr.free--
		case pmmvEarly:
			m.Early--
		case pmmvHeld:
			m.Held--
		}
	}
	inc := func(s uint8) {
		switch s {
		case pmmvFree:
			pr.free++
		case pmmvEarly:
			m.Early++
		case pmmvHeld:
			m.Held++
		}
	}
	dec(from)
	inc(to)
	pr.st[off] = to
}

// bootNext is the reference for the early allocator: the smallest frame of
// RAM \ K that is strictly above prev (any frame when have is false).
func (m *pmmvModel) bootNext(prev uint64, have bool) (uint64, bool) {
	for i := range m.Ranges {
		pr := &m.Ranges[i]
		cand := pr.First
		if have && prev+1 > cand {
			cand = prev + 1
		}
		if m.inK(cand) {
			cand = m.KEndExcl
		}
		if cand >= pr.First && cand-pr.First < pr.N {
			return cand, true
		}
	}
	return 0, false
}

// bootCount is |RAM \ K|.
func (m *pmmvModel) bootCount() uint64 { return m.RAM - m.KinRAM }

// ---------------------------------------------------------------------------
// simulated machine

type pmmvMapCall struct {
	Page, Frame uint64
	Flags       vmm.PageTableEntryFlag
}

var (
	pmmvErrReserve = &kernel.Error{Module: "verif", Message: "reserve seam: no virtual address space left"}
	pmmvErrMap     = &kernel.Error{Module: "verif", Message: "map seam: injected failure"}
)

// pmmvPT is a frame the map seam obtained from the registered frame allocator while serving map call AfterMap.
type pmmvPT struct {
	AfterMap int
	Frame    uint64
}

type pmmvEnv struct {
	info         *vlib.Arena
	book         *vlib.Arena // bookkeeping memory handed to the allocator (nil before the request)
	book2        *vlib.Arena // a second region, handed out only when allowSecond is set (retry after a failed bootstrap)
	allowSecond  bool
	reserveSizes []uint64
	failReserve  bool
	failMapAt    int // index of the map call that fails; -1 = none
	maps         []pmmvMapCall
	ptEvery      int      // the map seam asks mm.AllocFrame for a page-table frame on every ptEvery-th call (0 = never), as vmm.Map does when a table level is missing
	pt           []pmmvPT // those frames
	tooBig       bool
	prevFault    bool
	progress     int64 // bumped at every install; read by the watchdog
	stopped      int32
}

// watchdog ends the process when no new configuration has been installed for
// a long time (a loop in the code under test that does not terminate). It is
// never a verdict: vlib records it and vcheck re-runs the announced case alone
// with its own, larger budget.
func (e *pmmvEnv) watchdog(run *vlib.Run) {
	limit := 40
	if run.Thorough() {
		limit = 150
	}
	if run.Single() {
		limit = 100
	}
	go func() {
		last, idle := atomic.LoadInt64(&e.progress), 0
		for atomic.LoadInt32(&e.stopped) == 0 {
			time.Sleep(time.Second)
			if cur := atomic.LoadInt64(&e.progress); cur != last {
				last, idle = cur, 0
			} else if idle++; idle > limit {
				run.Watchdog(fmt.Sprintf("no progress for %d s inside one pmm configuration", limit))
			}
		}
	}()
}

func pmmvNewEnv() *pmmvEnv {
	e := &pmmvEnv{failMapAt: -1}
	e.info = vlib.MustArena(0, 4096, false)
	e.prevFault = debug.SetPanicOnFault(true)
	return e
}

// reset drops every piece of package state that a previous case left behind.
func (e *pmmvEnv) reset() {
	bitmapAllocator = BitmapAllocator{}
	bootMemAllocator = BootMemAllocator{}
	if e.book != nil {
		e.book.Free()
		e.book = nil
	}
	if e.book2 != nil {
		e.book2.Free()
		e.book2 = nil
	}
	e.allowSecond = false
	e.reserveSizes = e.reserveSizes[:0]
	e.maps = e.maps[:0]
	e.pt = e.pt[:0]
	e.failReserve, e.failMapAt, e.tooBig = false, -1, false
}

// earlySeq lists every frame the early allocator handed out during Init, in order: the backing frame of each
// mapped bookkeeping page followed by the page-table frames the map seam asked for while mapping it.
func (e *pmmvEnv) earlySeq() []uint64 {
	var seq []uint64
	k := 0
	for i, mc := range e.maps {
		seq = append(seq, mc.Frame)
		for k < len(e.pt) && e.pt[k].AfterMap == i {
			seq = append(seq, e.pt[k].Frame)
			k++
		}
	}
	return seq
}

func (e *pmmvEnv) close() {
	atomic.StoreInt32(&e.stopped, 1)
	e.reset()
	e.info.Free()
	reserveRegionFn = vmm.EarlyReserveRegion
	mapFn = vmm.Map
	multiboot.SetInfoPtr(0)
	debug.SetPanicOnFault(e.prevFault)
}

// install places the information block so that its last byte is the last byte
// before a PROT_NONE page, points the multiboot package at it and installs
// the two seams.
func (e *pmmvEnv) install(cfg *pmmvConfig) {
	atomic.AddInt64(&e.progress, 1)
	e.reset()
	e.info.Fill(0xEE)
	multiboot.SetInfoPtr(e.info.PlaceTail(pmmvBuildInfo(cfg)))
	reserveRegionFn = e.reserve
	mapFn = e.mapPage
	// a function of the configuration only: a third of the configurations each never / on every call / on every second call
	e.ptEvery = int((uint64(len(cfg.Regions)) + uint64(cfg.Decoys) + cfg.KStart>>12 + cfg.KEnd) % 3)
}

func (e *pmmvEnv) reserve(size uintptr) (uintptr, *kernel.Error) {
	e.reserveSizes = append(e.reserveSizes, uint64(size))
	if e.failReserve {
		return 0, pmmvErrReserve
	}
	if uint64(size) > 256<<20 {
		e.tooBig = true
		return 0, pmmvErrReserve
	}
	if e.book != nil {
		// a second request: the first arena stays mapped (it may be in use); only expected when a failed
		// bootstrap is tried again
		if !e.allowSecond || e.book2 != nil {
			return 0, pmmvErrReserve
		}
		a, err := vlib.NewArena(0, int(size), false)
		if err != nil {
			e.tooBig = true
			return 0, pmmvErrReserve
		}
		a.Fill(0xA5)
		e.book2 = a
		return a.Base, nil
	}
	a, err := vlib.NewArena(0, int(size), false)
	if err != nil {
		e.tooBig = true
		return 0, pmmvErrReserve
	}
	a.Fill(0xA5) // junk: an un-zeroed bitmap is immediately visible
	e.book = a
	return a.Base, nil
}

func (e *pmmvEnv) mapPage(page mm.Page, frame mm.Frame, flags vmm.PageTableEntryFlag) *kernel.Error {
	e.maps = append(e.maps, pmmvMapCall{uint64(page), uint64(frame), flags})
	if e.failMapAt >= 0 && len(e.maps)-1 == e.failMapAt {
		return pmmvErrMap
	}
	if e.ptEvery > 0 && (len(e.maps)-1)%e.ptEvery == 0 {
		// the real vmm.Map takes the frames of missing page-table levels from the registered frame allocator,
		// which during Init has to be the early allocator
		f, err := mm.AllocFrame()
		if err != nil {
			return err
		}
		e.pt = append(e.pt, pmmvPT{len(e.maps) - 1, uint64(f)})
	}
	return nil
}

// init runs the real pmm.Init for cfg; a panic (including a fault on a guard
// page) is returned, not propagated.
func (e *pmmvEnv) init(cfg *pmmvConfig) (err *kernel.Error, pv interface{}, stack string) {
	pv, stack = vlib.Protect(func() {
		err = Init(uintptr(cfg.KStart), uintptr(cfg.KEnd))
	})
	return
}

// pmmvPanicSig builds a stable signature for a recovered panic.
func pmmvPanicSig(prefix string, pv interface{}, stack string) string {
	return prefix + ":" + vlib.PanicSite(stack) + ":" + vlib.PanicClass(pv)
}

// ---------------------------------------------------------------------------
// in-package observation of the allocator's own accounting

type pmmvSnap struct {
	total, reserved uint32
	free            []uint32
	words           []uint64
}

func pmmvTakeSnap() pmmvSnap {
	s := pmmvSnap{total: bitmapAllocator.totalPages, reserved: bitmapAllocator.reservedPages}
	for i := range bitmapAllocator.pools {
		p := &bitmapAllocator.pools[i]
		s.free = append(s.free, p.freeCount)
		s.words = append(s.words, uint64(len(p.freeBitmap)))
		s.words = append(s.words, p.freeBitmap...)
	}
	return s
}

func (a pmmvSnap) equal(b pmmvSnap) bool {
	if a.total != b.total || a.reserved != b.reserved || len(a.free) != len(b.free) || len(a.words) != len(b.words) {
		return false
	}
	for i := range a.free {
		if a.free[i] != b.free[i] {
			return false
		}
	}
	for i := range a.words {
		if a.words[i] != b.words[i] {
			return false
		}
	}
	return true
}

// pmmvPoolFor returns the allocator pool that covers exactly the model range.
func pmmvPoolFor(pr *pmmvRange) *framePool {
	for i := range bitmapAllocator.pools {
		p := &bitmapAllocator.pools[i]
		if uint64(p.startFrame) == pr.First && uint64(p.endFrame) == pr.First+pr.N-1 {
			return p
		}
	}
	return nil
}

var pmmvSizeofPool = uint64(unsafe.Sizeof(framePool{}))

// pmmvErrName names an allocator error for counters.
func pmmvErrName(err *kernel.Error) string {
	switch err {
	case nil:
		return "nil"
	case errBitmapAllocOutOfMemory:
		return "bitmap-oom"
	case errBitmapAllocFrameNotManaged:
		return "not-managed"
	case errBitmapAllocDoubleFree:
		return "double-free"
	case errBootAllocOutOfMemory:
		return "boot-oom"
	case pmmvErrReserve:
		return "seam-reserve"
	case pmmvErrMap:
		return "seam-map"
	}
	return "other:" + err.Message
}

// pmmvSortU64 sorts ascending (shell sort: no closures, fine for <= 10^5 entries).
func pmmvSortU64(v []uint64) {
	for gap := len(v) / 2; gap > 0; gap /= 2 {
		for i := gap; i < len(v); i++ {
			for j := i; j >= gap && v[j-gap] > v[j]; j -= gap {
				v[j-gap], v[j] = v[j], v[j-gap]
			}
		}
	}
}
