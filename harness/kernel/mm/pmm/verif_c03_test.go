//go:build verif
// +build verif

package pmm

import (
	"fmt"
	"reflect"
	"testing"
	"unsafe"

	"github.com/ProjectSerenity/firefly/kernel"
	"github.com/ProjectSerenity/firefly/kernel/mm"
	"github.com/ProjectSerenity/firefly/kernel/zzverif/vlib"
)

// C03 - pmm.Init succeeds or reports out-of-memory and never crashes; after
// success exactly the usable frames (RAM minus kernel image minus early-boot
// frames) can be allocated before out-of-memory is reported and the reported
// totals agree with that at every step; a free of an unmanaged or already free
// frame is rejected and changes nothing; a free of an allocated frame makes
// exactly that frame allocatable again.
//
// The reference is pmmvModel (verif_pmm_common_test.go). The allocator's own
// numbers (totalPages, reservedPages, per-pool freeCount, every bitmap word)
// are read in-package.

type c03State struct {
	c    *vlib.Case
	run  *vlib.Run
	env  *pmmvEnv
	cfg  *pmmvConfig
	m    *pmmvModel
	held []uint64
	dead bool
	// evidence
	allocs, frees, ooms, rejected, steps int
}

func (s *c03State) fail(sig, format string, a ...interface{}) {
	s.c.Violationf(sig, format, a...)
	s.dead = true
}

// acct compares the allocator's accounting with the reference.
func (s *c03State) acct(where string) bool {
	s.steps++
	total, reserved := uint64(bitmapAllocator.totalPages), uint64(bitmapAllocator.reservedPages)
	if total != s.m.RAM {
		s.fail("accounting-total", "%s: totalPages = %d, the memory map has %d whole available frames in %d region(s)", where, total, s.m.RAM, len(s.m.Ranges))
		return false
	}
	if want := s.m.KinRAM + s.m.Early + s.m.Held; reserved != want {
		s.fail("accounting-reserved", "%s: reservedPages = %d, want %d (kernel %d + early %d + held %d); reported free %d, reference free %d", where, reserved, want, s.m.KinRAM, s.m.Early, s.m.Held, int64(total)-int64(reserved), s.m.FreeCount())
		return false
	}
	for i := range s.m.Ranges {
		pr := &s.m.Ranges[i]
		if p := pmmvPoolFor(pr); p != nil && uint64(p.freeCount) != pr.free {
			s.fail("accounting-pool-freecount", "%s: pool [%#x,%#x] freeCount = %d, reference has %d free frames there", where, uint64(p.startFrame), uint64(p.endFrame), p.freeCount, pr.free)
			return false
		}
	}
	return true
}

// layout checks that every pool bitmap lies inside the bookkeeping memory the
// allocator asked for, that bitmaps do not overlap and that each is long
// enough for its pool.
func (s *c03State) layout() bool {
	book := s.env.book
	if book == nil {
		if len(bitmapAllocator.pools) > 0 {
			s.fail("bitmap-outside-bookkeeping-memory", "%d pools but no bookkeeping memory was reserved", len(bitmapAllocator.pools))
			return false
		}
		return true
	}
	np := uintptr(len(bitmapAllocator.pools))
	if np > 0 {
		p0 := uintptr(unsafe.Pointer(&bitmapAllocator.pools[0]))
		if !book.Contains(p0, np*uintptr(pmmvSizeofPool)) {
			s.fail("bitmap-outside-bookkeeping-memory", "pool table [%#x,+%d) is not inside the reserved region [%#x,+%d)", p0, np*uintptr(pmmvSizeofPool), book.Base, book.Size)
			return false
		}
	}
	type iv struct{ lo, hi uintptr }
	var seen []iv
	if np > 0 {
		p0 := uintptr(unsafe.Pointer(&bitmapAllocator.pools[0]))
		seen = append(seen, iv{p0, p0 + np*uintptr(pmmvSizeofPool)})
	}
	for i := range bitmapAllocator.pools {
		p := &bitmapAllocator.pools[i]
		h := (*reflect.SliceHeader)(unsafe.Pointer(&p.freeBitmap))
		if h.Len == 0 {
			continue
		}
		lo, n := h.Data, uintptr(h.Len)*8
		if !book.Contains(lo, n) {
			s.fail("bitmap-outside-bookkeeping-memory", "pool %d [%#x,%#x]: bitmap [%#x,+%d) is not inside the reserved region [%#x,+%d)", i, uint64(p.startFrame), uint64(p.endFrame), lo, n, book.Base, book.Size)
			return false
		}
		for _, o := range seen {
			if lo < o.hi && o.lo < lo+n {
				s.fail("bitmaps-overlap", "pool %d: bitmap [%#x,+%d) overlaps [%#x,%#x)", i, lo, n, o.lo, o.hi)
				return false
			}
		}
		seen = append(seen, iv{lo, lo + n})
	}
	for i := range s.m.Ranges {
		pr := &s.m.Ranges[i]
		p := pmmvPoolFor(pr)
		if p == nil {
			s.run.Count("available_region_without_matching_pool", 1)
			continue
		}
		if uint64(len(p.freeBitmap))*64 < pr.N {
			s.fail("bitmap-too-short", "pool [%#x,%#x] has %d frames but its bitmap has %d word(s) = %d bits", pr.First, pr.First+pr.N-1, pr.N, len(p.freeBitmap), len(p.freeBitmap)*64)
			return false
		}
	}
	s.run.Count("layouts_checked", 1)
	return true
}

// alloc is one AllocFrame step of a drain; returns false when no frame came back.
func (s *c03State) alloc(where string) bool {
	var f mm.Frame
	var err *kernel.Error
	pv, stack := vlib.Protect(func() { f, err = mm.AllocFrame() })
	if pv != nil {
		s.fail(pmmvPanicSig("alloc-panic", pv, stack), "%s: AllocFrame panicked: %v\n%s", where, pv, stack)
		return false
	}
	s.allocs++
	if err != nil {
		s.ooms++
		if left := s.m.FreeCount(); left > 0 {
			s.fail("oom-before-all-usable-frames-were-allocated", "%s: AllocFrame reported %q after %d frames are held, %d usable frame(s) were never handed out (first missing: %#x)", where, err.Message, len(s.held), left, s.firstFree())
			return false
		}
		s.acct(where + " (after out-of-memory)")
		return false
	}
	fr := uint64(f)
	pr, off := s.m.locate(fr)
	if pr == nil || pr.st[off] != pmmvFree {
		st := "not in available RAM"
		if pr != nil {
			st = []string{"free", "kernel image", "early-boot frame", "currently held"}[pr.st[off]]
		}
		s.fail("allocated-frame-not-usable", "%s: AllocFrame returned %#x (%s); reference has %d usable frames left", where, fr, st, s.m.FreeCount())
		return false
	}
	s.m.set(pr, off, pmmvHeld)
	s.held = append(s.held, fr)
	return s.acct(where)
}

func (s *c03State) firstFree() uint64 {
	for i := range s.m.Ranges {
		pr := &s.m.Ranges[i]
		for off, st := range pr.st {
			if st == pmmvFree {
				return pr.First + uint64(off)
			}
		}
	}
	return 0
}

// drain allocates until out-of-memory; the oracle inside alloc makes the count
// and the set of frames exact.
func (s *c03State) drain(where string) (n int) {
	limit := s.m.RAM + 2
	for k := uint64(0); k < limit && !s.dead; k++ {
		if !s.alloc(where) {
			return n
		}
		n++
	}
	if !s.dead {
		s.fail("allocated-frame-not-usable", "%s: no out-of-memory after %d allocations", where, limit)
	}
	return n
}

// freeHeld frees held[i]: must be accepted.
func (s *c03State) freeHeld(i int, where string) {
	fr := s.held[i]
	s.held[i] = s.held[len(s.held)-1]
	s.held = s.held[:len(s.held)-1]
	var err *kernel.Error
	pv, stack := vlib.Protect(func() { err = bitmapAllocator.FreeFrame(mm.Frame(fr)) })
	if pv != nil {
		s.fail(pmmvPanicSig("free-panic", pv, stack), "%s: FreeFrame(%#x) of an allocated frame panicked: %v\n%s", where, fr, pv, stack)
		return
	}
	s.frees++
	if err != nil {
		s.fail("free-of-allocated-frame-rejected", "%s: FreeFrame(%#x) of an allocated frame returned %q", where, fr, err.Message)
		return
	}
	pr, off := s.m.locate(fr)
	s.m.set(pr, off, pmmvFree)
	s.acct(where)
}

// hostile passes a frame that must be rejected (unmanaged or already free).
// Frames the statement leaves undefined (kernel image, early-boot frames) and
// frames that are legitimately held are skipped.
func (s *c03State) hostile(fr uint64, why string) {
	if s.dead {
		return
	}
	pr, off := s.m.locate(fr)
	ref := "not-managed"
	if pr != nil {
		if pr.st[off] != pmmvFree {
			return
		}
		ref = "double-free"
	}
	before := pmmvTakeSnap()
	var err *kernel.Error
	pv, stack := vlib.Protect(func() { err = bitmapAllocator.FreeFrame(mm.Frame(fr)) })
	if pv != nil {
		s.fail(pmmvPanicSig("free-panic", pv, stack), "FreeFrame(%#x) [%s; reference: %s] panicked: %v\n%s", fr, why, ref, pv, stack)
		return
	}
	s.rejected++
	s.run.Count("hostile_free_"+why, 1)
	if err == nil {
		s.fail("bad-free-accepted", "FreeFrame(%#x) [%s] returned nil; the frame is %s according to the reference", fr, why, map[string]string{"not-managed": "not managed (outside available RAM)", "double-free": "already free"}[ref])
		return
	}
	if pmmvErrName(err) != ref {
		// the statement only demands "an error"; which one is counted
		s.run.Count("rejected_free_error_kind_differs_from_reference", 1)
	}
	after := pmmvTakeSnap()
	if !before.equal(after) {
		s.fail("rejected-free-changed-state", "FreeFrame(%#x) [%s] was rejected with %q but changed the allocator: total %d->%d reserved %d->%d free counts %v->%v (bitmap words compared: %d)", fr, why, err.Message, before.total, after.total, before.reserved, after.reserved, before.free, after.free, len(before.words))
		return
	}
	s.run.Count("snapshot_words_compared", int64(len(before.words)))
}

// hostileRound throws the list of bad frees of DESIGN.md C03 at the allocator.
func (s *c03State) hostileRound(r *vlib.Rand) {
	s.hostile(0, "frame-0")
	s.hostile(uint64(mm.InvalidFrame), "invalid-frame")
	s.hostile(uint64(mm.InvalidFrame)-uint64(r.Intn(3))-1, "near-invalid-frame")
	s.hostile(r.U64(), "random-64-bit")
	s.hostile(r.U64()>>12, "random-52-bit")
	for i := range s.m.Ranges {
		pr := &s.m.Ranges[i]
		if pr.First > 0 {
			s.hostile(pr.First-1, "just-before-pool")
		}
		s.hostile(pr.First+pr.N, "just-past-pool")
		s.hostile(pr.First+pr.N-1, "last-frame-of-pool-if-free")
		s.hostile(pr.First, "first-frame-of-pool-if-free")
		if r.Intn(2) == 0 {
			s.hostile(pr.First+(pr.N+63)/64*64-1, "padding-bit-frame")
		}
		// frame numbers that agree with a frame of the pool in their low 32 (16, 8) bits only
		in := pr.First + r.U64()%pr.N
		s.hostile(in+uint64(1+r.Intn(4))<<32, "pool-frame-plus-multiple-of-2^32")
		s.hostile(in|uint64(1)<<uint(33+r.Intn(19)), "pool-frame-with-a-high-bit-set")
		if r.Intn(2) == 0 {
			s.hostile(in+uint64(1+r.Intn(4))<<16, "pool-frame-plus-multiple-of-2^16")
		}
	}
	for _, rg := range s.cfg.Regions {
		if rg.Type != 1 {
			s.hostile(rg.Addr>>12+r.U64()%(rg.Len>>12+1), "in-non-available-region")
		} else {
			// partial pages at both ends of an available region are not RAM
			s.hostile(rg.Addr>>12, "head-page-of-region")
			s.hostile((rg.Addr+rg.Len)>>12, "tail-page-of-region")
		}
	}
	// never-allocated / currently free frames
	for k := 0; k < 4 && s.m.FreeCount() > 0 && !s.dead; k++ {
		pr := &s.m.Ranges[r.Intn(len(s.m.Ranges))]
		if pr.free == 0 {
			continue
		}
		off := r.U64() % pr.N
		for pr.st[off] != pmmvFree {
			off = (off + 1) % pr.N
		}
		s.hostile(pr.First+off, "free-frame")
	}
}

func c03Case(c *vlib.Case, run *vlib.Run, env *pmmvEnv, cfg *pmmvConfig, mode string, r *vlib.Rand) (s *c03State, outcome string) {
	m := pmmvNewModel(cfg)
	s = &c03State{c: c, run: run, env: env, cfg: cfg, m: m}
	env.install(cfg)
	switch mode {
	case "reserve-fails", "huge":
		env.failReserve = true
	case "map-fails":
		env.failMapAt = r.Intn(3)
	}
	err, pv, stack := env.init(cfg)
	if pv != nil {
		s.fail(pmmvPanicSig("init-panic", pv, stack), "pmm.Init panicked: %v\n%s", pv, stack)
		return s, "panic"
	}
	// sizing: the memory asked for must hold one pool record and one bit per frame for every available region
	if len(env.reserveSizes) > 0 {
		need := uint64(len(m.Ranges)) * pmmvSizeofPool
		for i := range m.Ranges {
			need += (m.Ranges[i].N + 63) / 64 * 8
		}
		run.Count("sizing_requests_checked", 1)
		if env.reserveSizes[0] < need {
			s.fail("bookkeeping-undersized", "Init asked reserveRegionFn for %d bytes; %d pool(s) with one bit per frame need %d", env.reserveSizes[0], len(m.Ranges), need)
			return s, "undersized"
		}
		if len(env.reserveSizes) > 1 {
			run.Count("more_than_one_reserve_request", 1)
		}
	}
	switch {
	case env.failReserve:
		if len(env.reserveSizes) == 0 {
			run.Count("init_ended_before_reserve", 1)
			break
		}
		if err != pmmvErrReserve {
			s.fail("init-error-not-propagated", "reserveRegionFn failed but Init returned %s", pmmvErrName(err))
			return s, "bad-error"
		}
		run.Count("init_oom_propagated_from_reserve", 1)
		return s, "error"
	case env.failMapAt >= 0 && len(env.maps) > env.failMapAt:
		if err != pmmvErrMap {
			s.fail("init-error-not-propagated", "mapFn failed on call %d but Init returned %s", env.failMapAt, pmmvErrName(err))
			return s, "bad-error"
		}
		run.Count("init_error_propagated_from_map", 1)
		return s, "error"
	}
	if err != nil {
		switch {
		case err == errBootAllocOutOfMemory:
			run.Count("init_oom_from_early_allocator", 1)
		case err == pmmvErrReserve && env.tooBig:
			run.Count("init_reserve_request_above_256MiB", 1)
		default:
			s.fail("init-unexpected-error", "Init returned %s; only nil or an out-of-memory error is allowed", pmmvErrName(err))
			return s, "bad-error"
		}
		return s, "error"
	}
	run.Count("init_ok", 1)
	if !m.Dense {
		return s, "ok-not-drained"
	}
	if !s.layout() {
		return s, "layout"
	}
	for _, fr := range env.earlySeq() {
		pr, off := m.locate(fr)
		if pr == nil || pr.st[off] != pmmvFree {
			run.Count("early_frame_not_in_free_ram", 1) // judged by C02; the accounting formulas below need E inside RAM \ K
			return s, "early-frames-unusable"
		}
		m.set(pr, off, pmmvEarly)
	}
	run.Count("early_frames_taken_by_the_map_seam_for_page_tables", int64(len(env.pt)))
	if len(env.maps) >= 2 {
		run.Count("configs_with_2_or_more_early_frames", 1)
	}
	usable := m.FreeCount()
	if !s.acct("after Init") {
		return s, "acct"
	}
	// 1. bad frees against the untouched allocator
	s.hostileRound(r)
	// 2. partial allocation, bad frees again
	if !s.dead && usable > 0 {
		k := r.U64() % (usable + 1)
		for ; k > 0 && !s.dead; k-- {
			s.alloc("partial allocation")
		}
		s.hostileRound(r)
	}
	// 3. drain: exactly the usable frames
	if !s.dead {
		s.drain("first drain")
		if !s.dead && uint64(len(s.held)) != usable {
			s.fail("oom-before-all-usable-frames-were-allocated", "drain returned %d frames, usable = %d", len(s.held), usable)
		}
	}
	run.Count("drains_to_oom", 1)
	// 4. bad frees against the full allocator
	s.hostileRound(r)
	// 5. free a subset (some twice), re-drain: exactly that subset comes back
	rounds := r.Range(1, 3)
	for round := 0; round < rounds && !s.dead && len(s.held) > 0; round++ {
		k := r.Range(1, len(s.held))
		if r.Intn(3) == 0 {
			k = len(s.held)
		}
		if r.Intn(3) == 0 {
			k = r.Range(1, pmmvMinInt(len(s.held), 5))
		}
		freed := map[uint64]bool{}
		for ; k > 0 && !s.dead; k-- {
			i := r.Intn(len(s.held))
			fr := s.held[i]
			s.freeHeld(i, "free of allocated frame")
			freed[fr] = true
			if r.Intn(3) == 0 && (s.m.RAM < 4096 || r.Intn(32) == 0) {
				s.hostile(fr, "twice-freed") // (a snapshot costs O(frames): thinned out for big maps)
			}
		}
		if s.dead {
			break
		}
		s.hostileRound(r)
		if s.dead {
			break
		}
		mark := len(s.held)
		s.drain("re-drain")
		if s.dead {
			break
		}
		got := s.held[mark:]
		if len(got) != len(freed) {
			s.fail("redrain-set-differs", "%d frames were freed, the next drain returned %d", len(freed), len(got))
			break
		}
		for _, fr := range got {
			if !freed[fr] {
				s.fail("redrain-set-differs", "the drain after freeing %d frames returned %#x which was not among them", len(freed), fr)
				break
			}
		}
		run.Count("redrains_compared", 1)
	}
	run.Count("ops_alloc", int64(s.allocs))
	run.Count("ops_free_accepted", int64(s.frees))
	run.Count("ops_free_rejected", int64(s.rejected))
	run.Count("oom_returned", int64(s.ooms))
	run.Count("accounting_steps_checked", int64(s.steps))
	run.Max("frames_in_one_configuration", int64(m.RAM))
	return s, "ok"
}

// c03SizingBoundaryCfg draws 2-8 available regions with odd frame counts whose bookkeeping (one pool record each and
// one bitmap word per 64 frames, rounded up per pool) ends 8 bytes past a page multiple: any shortfall in the
// size Init asks for, even by one word, costs a whole page and shows as bookkeeping-undersized.
func c03SizingBoundaryCfg(r *vlib.Rand) *pmmvConfig {
	p := r.Range(2, 8)
	words := make([]uint64, p)
	sum := uint64(p) * pmmvSizeofPool / 8
	for i := 0; i < p-1; i++ {
		words[i] = uint64(r.Range(1, 40))
		sum += words[i]
	}
	// ... or, one time in three, exactly on a page multiple (the last bookkeeping page is used up to its last byte)
	past := uint64(1)
	if r.Intn(3) == 0 {
		past = 0
	}
	words[p-1] = (512 + past - sum%512) % 512
	if words[p-1] == 0 {
		words[p-1] = 512
	}
	if r.Intn(3) == 0 {
		words[p-1] += 512
	}
	// the large pool goes to a random position
	j := r.Intn(p)
	words[j], words[p-1] = words[p-1], words[j]
	cfg := &pmmvConfig{KMode: "start", Style: "sizing-boundary", Decoys: r.Intn(3)}
	cursor := uint64(0x100000)
	for i := 0; i < p; i++ {
		n := 64*(words[i]-1) + uint64(r.Range(1, 64))
		if r.Intn(3) == 0 {
			n = 64*(words[i]-1) + 1
		}
		cfg.Regions = append(cfg.Regions, pmmvRegion{Addr: cursor, Len: n * pmmvPage, Type: 1})
		cursor += n * pmmvPage
		switch r.Intn(3) {
		case 0:
			l := uint64(r.Range(1, 5)) * pmmvPage
			cfg.Regions = append(cfg.Regions, pmmvRegion{Addr: cursor, Len: l, Type: 2})
			cursor += l
		case 1:
			cursor += uint64(r.Range(1, 5)) * pmmvPage
		}
	}
	cfg.KRegion = 0
	cfg.KStart = cfg.Regions[0].Addr
	cfg.KEnd = cfg.KStart + 0x800
	return cfg
}

// c03SkippedPoolCfg: the kernel image fills one whole available region (the boot allocator takes nothing from it) and
// the regions in front of it are so small that the early-boot allocations continue behind it.
func c03SkippedPoolCfg(r *vlib.Rand) *pmmvConfig {
	cfg := &pmmvConfig{KMode: "cover", Style: "kernel-fills-a-region-between-early-allocations", Decoys: r.Intn(3)}
	cursor := uint64(0x100000)
	gap := func() {
		switch r.Intn(3) {
		case 0:
			l := uint64(r.Range(1, 5)) * pmmvPage
			cfg.Regions = append(cfg.Regions, pmmvRegion{Addr: cursor, Len: l, Type: 2})
			cursor += l
		case 1:
			cursor += uint64(r.Range(1, 5)) * pmmvPage
		}
	}
	add := func(n int) {
		cfg.Regions = append(cfg.Regions, pmmvRegion{Addr: cursor, Len: uint64(n) * pmmvPage, Type: 1})
		cursor += uint64(n) * pmmvPage
		gap()
	}
	for i, n := 0, r.Range(0, 2); i < n; i++ {
		add(r.Range(1, 2))
	}
	cfg.KRegion = len(cfg.Regions)
	cfg.KStart = cursor
	k := r.Range(1, 6)
	add(k)
	cfg.KEnd = cfg.KStart + uint64(k)*pmmvPage
	if r.Bool() {
		cfg.KEnd -= uint64(r.Range(1, 4095))
	}
	for i, n := 0, r.Range(0, 2); i < n; i++ {
		add(r.Range(1, 3))
	}
	add(r.Range(40, 300))
	if r.Bool() {
		add(r.Range(1, 200))
	}
	return cfg
}

func TestVerifC03(t *testing.T) {
	run := vlib.Start(t, "C03")
	defer run.Finish()
	run.SetRule("case = generated memory map + kernel placement (generator shared with C01; in half of the cases every available region has a word-boundary frame count 1,2,63,64,65,127,128,129,191,192,193,64k-1,64k,64k+1) + mode (normal | reserveRegionFn fails | mapFn fails on call 0-2 | one region of 2^20..2^31 frames with a failing reservation, sizing only); 1 case in 30 is a sizing-boundary map: 2-8 pools with odd frame counts whose bookkeeping ends 8 bytes past or exactly on a page multiple, and 1 in 30 a map where the kernel fills a whole region that lies between regions of 1-3 frames, so that the early-boot allocations are taken in front of and behind a region the boot allocator skips; normal mode: layout and sizing check, bad frees (frame 0, InvalidFrame, gaps, non-available regions, partial pages, just before/past each pool, padding bits, never-allocated and twice-freed frames) with a full bitmap snapshot around each, partial allocation, drain to OOM, free of subsets and re-drain, accounting compared after every step; non-trivial = Init succeeded, >=2 available regions with whole frames, >=1 word-boundary region, drain reached OOM and >=1 re-drain was compared; distinct = fingerprint of (memory map, kernel placement, mode)")
	run.Assume("mapFn and reserveRegionFn are stubbed; the bookkeeping memory is a guard-paged host arena of exactly the requested (page-rounded) size, so over-runs are caught at page granularity and by the layout check at byte granularity")
	run.Assume("frames reserved at hand-over (kernel image, early-boot frames) are never passed to FreeFrame: the statement leaves that undefined; which of the two errors a rejected free returns is counted, not demanded")

	env := pmmvNewEnv()
	defer env.close()
	env.watchdog(run)
	maxFrames := run.N(2500, 20000)
	totOK, totDrain, totRej, totErr := 0, 0, 0, 0

	one := func(c *vlib.Case, cfg *pmmvConfig, mode string, r *vlib.Rand) {
		d := cfg.desc()
		d["mode"] = mode
		c.Begin(d)
		s, outcome := c03Case(c, run, env, cfg, mode, r)
		run.SetAdd("outcomes", mode+"/"+outcome)
		run.SetAdd("styles", cfg.Style)
		run.SetAdd("kernel_modes", cfg.KMode)
		for i := range s.m.Ranges {
			n := s.m.Ranges[i].N
			if n <= 193 || n%64 <= 1 || n%64 == 63 {
				run.SetAdd("region_frame_counts", fmt.Sprintf("n=%d", n))
			}
		}
		if outcome == "error" {
			totErr++
		}
		if outcome != "ok" || s.dead {
			return
		}
		totOK++
		totDrain += s.ooms
		totRej += s.rejected
		if len(s.m.Ranges) >= 2 && s.m.Boundary && s.ooms >= 2 {
			run.Nontrivial(cfg.fp(vlib.NewFP()).Str(mode))
		}
		if run.WantSample() && len(s.m.Ranges) >= 2 && s.m.RAM < 500 {
			d["usable_frames"] = s.m.RAM - s.m.KinRAM - s.m.Early
			d["ram_frames"], d["kernel_frames_in_ram"], d["early_frames"] = s.m.RAM, s.m.KinRAM, s.m.Early
			d["allocs"], d["frees_accepted"], d["frees_rejected"], d["oom"] = s.allocs, s.frees, s.rejected, s.ooms
			run.Sample(d)
		}
	}

	run.Cases(run.N(4000, 150000), func(c *vlib.Case) {
		r := c.R.Fork(0xC03)
		mode := "normal"
		switch k := r.Intn(20); {
		case k <= 1:
			mode = "reserve-fails"
		case k <= 3:
			mode = "map-fails"
		case k == 4:
			mode = "huge"
		}
		mf := 300
		if r.Intn(6) == 0 {
			mf = maxFrames
		}
		big := r.Intn(25) == 0
		cfg := pmmvGenConfig(r.Fork(1), pmmvGenOpts{MaxFrames: mf, Big: big, ForceBoundary: r.Intn(2) == 0, Huge: mode == "huge"})
		if mode != "huge" && r.Intn(30) == 0 {
			cfg = c03SizingBoundaryCfg(r.Fork(3))
		} else if mode != "huge" && r.Intn(30) == 0 {
			cfg = c03SkippedPoolCfg(r.Fork(4))
		}
		one(c, cfg, mode, r.Fork(2))
	})

	// fixed regression inputs: DESIGN.md section 5 rows 1 and 11
	mk := func(n uint64) *pmmvConfig {
		// one pool of n frames + a second pool hosting the kernel
		return &pmmvConfig{Regions: []pmmvRegion{{0x100000, n * 4096, 1}, {0x800000, 70 * 4096, 1}}, KStart: 0x800000, KEnd: 0x802800, KRegion: 1, KMode: "start", Style: fmt.Sprintf("fixed-pool-of-%d", n)}
	}
	fixed := []*pmmvConfig{
		mk(1), mk(63), mk(64), mk(65), mk(128), mk(129),
		// kernel image on the last frame of a 129-frame pool
		{Regions: []pmmvRegion{{0x100000, 129 * 4096, 1}, {0x400000, 64 * 4096, 1}}, KStart: 0x100000 + 127*4096, KEnd: 0x100000 + 129*4096, KRegion: 0, KMode: "end", Style: "fixed-129-kernel-on-last-frame"},
		// available region [0, 0x800): no whole frame, starts at 0
		{Regions: []pmmvRegion{{0, 0x800, 1}, {0x100000, 66 * 4096, 1}}, KStart: 0x100000, KEnd: 0x101800, KRegion: 1, KMode: "start", Style: "fixed-region-0-sub-page"},
		// zero-whole-frame regions elsewhere
		{Regions: []pmmvRegion{{0x1800, 0x400, 1}, {0x2800, 0x1000, 1}, {0x100000, 64 * 4096, 1}}, KStart: 0x100000, KEnd: 0x100001, KRegion: 2, KMode: "start", Style: "fixed-zero-whole-frame-regions"},
		// a one-frame pool first: the first early-boot frame is its only (= last) frame
		{Regions: []pmmvRegion{{0x1000, 4096, 1}, {0x3000, 65 * 4096, 1}, {0x100000, 2 * 4096, 1}}, KStart: 0x100000, KEnd: 0x100800, KRegion: 2, KMode: "start", Style: "fixed-1-frame-pool-first"},
	}
	for i, cfg := range fixed {
		cfg := cfg
		run.OneCase(vlib.FixedBase+i, func(c *vlib.Case) { one(c, cfg, "normal", c.R) })
	}

	if !run.Replay && !run.Single() {
		if totOK == 0 || totDrain == 0 || totRej == 0 || totErr == 0 {
			run.Inconclusive(fmt.Sprintf("a core counter is zero in this shard: completed=%d oom=%d rejected-frees=%d init-errors=%d", totOK, totDrain, totRej, totErr))
		}
	}
}
